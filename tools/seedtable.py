#!/usr/bin/env python3
"""Regenerates the table of section 0.5 of DESIGN.md from seeded/*/meta.json (between the markers)."""
import json, os, re
root = "/verif/seeded"
rows = []
for sid in sorted(os.listdir(root)):
    mp = os.path.join(root, sid, "meta.json")
    if not os.path.exists(mp):
        continue
    m = json.load(open(mp))
    conf = m.get("confirmation", {})
    caught = [c for c, v in conf.get("checks", {}).items() if v.get("exit") == 1]
    note = m.get("caught_note", "")
    cell = ", ".join(caught) if caught else "MISSED"
    if note:
        cell = note if not caught else cell + " " + note
    clean = lambda s: re.sub(r"\s+", " ", str(s)).replace("|", "/")
    rows.append("| %s | %s | %s | %s |" % (sid, clean(m.get("summary", ""))[:160], clean(m.get("what_it_needs_to_manifest", ""))[:140], cell))
table = "| seed | change | needs | caught by |\n|---|---|---|---|\n" + "\n".join(rows) + "\n"
p = "/verif/DESIGN.md"
s = open(p).read()
a = s.index("| seed | change | needs | caught by |")
b = s.index("\nSeeds that were MISSED at first")
s = s[:a] + table + s[b:]
open(p, "w").write(s)
print(len(rows), "rows;", sum(1 for r in rows if r.endswith("MISSED |")), "missed")
