#!/bin/sh
# usage: coqshow.sh theories/X/Y.v LINE  -- shows the goals after LINE lines of the file
f=$1; n=$2; d=$(dirname $f); t=$d/Zz_tmp.v
head -n $n $f > $t; printf '\nShow.\n' >> $t
cd /verif/coq && coqc -Q theories Gocc $t 2>&1 | head -${3:-80}; rm -f $d/Zz_tmp.* $d/.Zz_tmp*
