#!/bin/bash
# re-tests every stored seed against its property's check (sequential; /repo must be idle). Output: /tmp/retest_all.log
cd /verif
for d in seeded/*/; do
  s=$(basename $d)
  case "$s" in *e|*f) continue;; esac
  p=${s:0:3}
  # stored alternate patch for seeds that were re-based
  echo "=== $s"
  python3 tools/seedtest.py $s --checks=$p 2>&1 | python3 -c "
import sys,json
t=sys.stdin.read()
if 'RETEST: patch no longer' in t: print(t.strip().split('\n')[-1]); sys.exit()
try:
    d=json.loads(t[t.index('{'):])
    print(d.get('demo_unchanged_exit'), d.get('demo_patched_exit'), d.get('patch_applies'), {k:(v['exit'],len(v['violations']),v.get('wall_s')) for k,v in d.get('checks',{}).items()})
except Exception as e: print('ERR', e, t[-600:])
"
done
