#!/usr/bin/env python3
"""Differential validation of Front/LexAst.v (grammar file BYTES -> lexical-part AST) against gocc.

For every generated / shipped grammar file:  gocc -a  decides acceptance;  `verifdump lexdump <file>`  is what gocc's front end
built (lexical part + item-set DFA);  `modelrun lexast <file> <fuel>`  is what the Coq model (FScan.fscan_all -> Sem.defs ->
LexAst.parse_pattern / lexgrammar_of_tokens, then LexGen.lexgen for the DFA) computes from the same bytes.  On every file gocc
accepts the two outputs must be equal as STRINGS (grammar part: always; DFA part: when the lexer-generator model finishes
within the fuel).  Files gocc refuses are only counted (model NONE / model Some).

usage: tools/lexast_compare.py [--seed N] [--n N] [--keep DIR]
"""
import argparse
import collections
import concurrent.futures
import glob
import os
import random
import shutil
import subprocess
import sys
import tempfile

ROOT = os.path.dirname(os.path.dirname(os.path.abspath(__file__)))
sys.path.insert(0, os.path.join(ROOT, "lib"))
import vlib      # noqa: E402
import lexgen    # noqa: E402
import cfggen    # noqa: E402
import c09       # noqa: E402
import c10       # noqa: E402
import c13       # noqa: E402

BIN = os.path.join(ROOT, "build", "bin")
VERIFDUMP = os.path.join(BIN, "verifdump")
MODELRUN = os.path.join(BIN, "modelrun")
GOCC = os.path.join(BIN, "gocc")
ENV = dict(vlib.GOENV)


def fscan_model(srcs):
    p = subprocess.run([MODELRUN, "fscan"], input="".join(s.hex() + "\n" for s in srcs), capture_output=True, text=True, timeout=1800)
    return p.stdout.split("\n")[:len(srcs)]


# hand-written grammar files aimed at the corners of LexPattern / of the numbering
HAND = [
    b"a : 'a' ;\n",
    b"a : 'a'-'z' { 'a'-'z' | '0'-'9' | '_' } ;\n!ws : ' ' | '\\t' | '\\n' | '\\r' ;\n",
    b"_d : '0'-'9' ;\n_l : 'a'-'z' | 'A'-'Z' ;\nid : _l { _l | _d } ;\nnum : _d { _d } [ '.' _d { _d } ] ;\n!c : '/' '/' { . } '\\n' ;\n",
    b"x : ( 'a' | 'b' ) ( [ 'c' ] | { 'd' ( 'e' | . ) } ) ;\n",
    b"x : ((('a'))) [[['b']]] {{{'c'}}} ;\n",
    b"x : '\\x41' '\\101' '\\u0041' '\\U00000041' '\\'' '\\\\' '\\n' ;\n",
    "x : 'é' '€'-'₿' '\U0001F600' ;\n".encode(),
    # regular definitions after their use, between tokens; tokens not used by the syntax part (numbered after, sorted)
    b"t2 : _b ;\n_a : 'a' ;\nt1 : _a _b ;\n_b : 'b' | _a ;\n!i : ' ' ;\nzz : 'z' ;\nS : t1 \"lit\" S | \"other\" t2 | \"lit\" ;\n",
    # string literals: both quotings of one text, multi-byte text, a literal repeated, literal equal to no token
    "t : 't' ;\nS : \"+\" t `+` | \"é€\" | `a\"b` S | \"=>\" ;\n".encode(),
    # empty and error
    b"t : 't' ;\nS : t S | empty ;\n",
    b"t : 't' ;\nS : error t | t ;\n",
    b"empty : 'e' ;\nS : empty ;\n",
    # only a syntax part
    b"S : \"a\" S | \"b\" ;\n",
    b"S : \"a\" S | b ;\n",
    # header and actions between the parts
    b"t : 't' ;\n<< import \"x\" >>\nS : t << X[0], nil >> | \"u\" << nil, nil >> ;\n",
    # refused: empty alternative, empty group, unbalanced, range of groups, dangling '-', undefined / recursive regdef, empty range
    b"a : 'a' | ;\n", b"a : | 'a' ;\n", b"a : ( ) ;\n", b"a : ( 'a' ] ;\n", b"a : ( 'a' ;\n", b"a : 'a' ) ;\n", b"a : ('a')-'b' ;\n",
    b"a : 'a' - ;\n", b"a : 'a'-'b'-'c' ;\n", b"a : - 'a' ;\n", b"a : _u ;\n", b"a : _r ;\n_r : 'a' _r ;\n", b"a : 'z'-'a' ;\n", b"a : ;\n",
    b"a : 'a' ;\na : 'b' ;\n", b"a : 'a' ;\nS : \"a\" ;\n", b"a : 'a' ;\nS : \"\" ;\n", b"a : '' ;\n", b"a : 'ab' ;\n", b"a : '\\q' ;\n",
    b"a : 'a' \"s\" ;\n", b"a : 'a' b ;\n", b"a : 'a' B ;\n", b"a : 'a' !b ;\n", b"a : 'a' : 'b' ;\n",
]


def generate(rng, n):
    """list of (origin, bytes)"""
    out = []
    for i in range(n):
        k = i % 5
        if k in (0, 1):
            g, _ = lexgen.gen_lex_grammar(rng, safe_regdefs=(rng.random() < 0.4), nullable_bodies=(rng.random() < 0.4),
                                          max_tokens=rng.choice([3, 6, 9]))
            out.append(("lexgen", g.text(rng).encode("utf-8")))
        elif k == 2:
            g = cfggen.gen_cfg(rng, with_error=(rng.random() < 0.3))
            if rng.random() < 0.5:
                out.append(("cfg-full", cfggen.full_text(g, "x/o/h", pure=(rng.random() < 0.5)).encode("utf-8")))
            else:
                out.append(("cfg-syntax", (cfggen.lex_part(g) + "\n" + c10.syntax_text(g)).encode("utf-8")))
        elif k == 3:
            out.append(("hostile", c09.hostile_grammar(rng, idx=(i // 5) % len(c09.HOSTILE_LITS)).encode("utf-8")))
        else:
            if rng.random() < 0.3:
                g, _ = lexgen.wide_prefix_grammar(rng)
                out.append(("wide-prefix", g.text(rng).encode("utf-8")))
            else:
                f = cfggen.family(rng.randrange(len(cfggen.FAMILIES)))
                out.append(("family", cfggen.full_text(f, "x/o/h").encode("utf-8")))
    # a lexical grammar in front of a syntax part that uses its tokens and string literals
    for i in range(n // 5):
        g, _ = lexgen.gen_lex_grammar(rng, safe_regdefs=True)
        names = [nm for (nm, _) in g.prods if not nm.startswith(("_", "!"))]
        lits = ['"%s"' % s for s in ["+", "if", "é", "=>", "a b"]] + ["`x`", "`+`"]
        syms = names + lits
        prods = []
        for nt in ["S", "A"]:
            alts = [" ".join(rng.choice(syms + ["A"]) for _ in range(rng.randint(1, 4))) for _ in range(rng.randint(1, 3))]
            alts.append(rng.choice(syms))
            prods.append("%s : %s ;" % (nt, " | ".join(alts)))
        lex = g.text(rng).split("\n\nS : ")[0]
        out.append(("lex+syntax", (lex + "\n" + "\n".join(prods) + "\n").encode("utf-8")))
    return out


def shipped():
    out = []
    for pat in ("example/**/*.bnf", "internal/**/*.bnf", "spec/*.bnf", "spec/*.ebnf", "**/*.bnf"):
        for f in sorted(glob.glob(os.path.join(vlib.REPO, pat), recursive=True)):
            if f not in [o for (o, _) in out]:
                out.append((f, open(f, "rb").read()))
    return out


def run_one(args):
    (i, origin, src, d, fuel) = args
    path = os.path.join(d, "g%05d.bnf" % i)
    open(path, "wb").write(src)
    # gocc needs a module around the grammar to find the package name: d/go.mod, one directory per file
    od = os.path.join(d, "o%05d" % i)
    os.makedirs(od, exist_ok=True)
    shutil.copy(path, os.path.join(od, "g.bnf"))
    try:
        g = subprocess.run([GOCC, "-a", "-p", "x/o%05d" % i, "g.bnf"], cwd=od, capture_output=True, text=True, errors="replace", timeout=120, env=ENV)
        rc = g.returncode
    except subprocess.TimeoutExpired:
        rc = -9
    shutil.rmtree(od, ignore_errors=True)
    try:
        v = subprocess.run([VERIFDUMP, "lexdump", path], capture_output=True, text=True, errors="replace", timeout=300, env=ENV)
        vout, vrc = v.stdout, v.returncode
    except subprocess.TimeoutExpired:
        vout, vrc = "", -9
    try:
        m = subprocess.run([MODELRUN, "lexast", path, str(fuel)], capture_output=True, text=True, errors="replace", timeout=120)
        mout = m.stdout
        if m.returncode != 0:
            mout = "MODEL-CRASH " + m.stderr[-200:]
    except subprocess.TimeoutExpired:
        # the lexer-generator model (DFA part) did not finish: the lexical part alone (no fuel argument)
        try:
            m = subprocess.run([MODELRUN, "lexast", path], capture_output=True, text=True, errors="replace", timeout=120)
            mout = m.stdout + "LEXGEN-NONE timeout\n" if m.returncode == 0 else "MODEL-CRASH " + m.stderr[-200:]
        except subprocess.TimeoutExpired:
            mout = "MODEL-TIMEOUT"
    return (i, origin, rc, vrc, vout, mout)


def grammar_part(s):
    """the lines of the lexical part (without the DFA)"""
    lines = s.split("\n")
    try:
        nreg = int(lines[0])
        ntok = int(lines[1 + nreg])
        return "\n".join(lines[:2 + nreg + ntok])
    except Exception:
        return None


def main():
    ap = argparse.ArgumentParser()
    ap.add_argument("--seed", type=int, default=20260923)
    ap.add_argument("--n", type=int, default=400)
    ap.add_argument("--fuel", type=int, default=100000)
    ap.add_argument("--keep", default=None)
    ap.add_argument("--jobs", type=int, default=16)
    a = ap.parse_args()
    rng = random.Random(a.seed)
    files = [("hand", h) for h in HAND] + generate(rng, a.n) + shipped()
    nbase = len(files)
    # respellings (lib/c13.py): layout / comments between tokens, character literals respelled, string literals requoted, end of file;
    # byte-level damage (lib/c09.py)
    pre = fscan_model([s for (_, s) in files])
    extra = []
    for (origin, src), line in zip(files, pre):
        try:
            toks = c13.toks_of(line)
        except Exception:
            continue
        for mode in ("layout", "char", "quote", "eof"):
            if rng.random() < 0.5:
                try:
                    v = c13.variant(src, toks, rng, mode)
                except Exception:
                    v = None
                if v:
                    extra.append(("%s~%s" % (origin if len(origin) < 20 else os.path.basename(origin), mode), v))
        if rng.random() < 0.5:
            try:
                extra.append(("%s~bytes" % (origin if len(origin) < 20 else os.path.basename(origin)), c09.mutate_bytes(src, rng)))
            except Exception:
                pass
    files += extra
    d = a.keep or tempfile.mkdtemp(prefix="lexast_")
    os.makedirs(d, exist_ok=True)
    open(os.path.join(d, "go.mod"), "w").write("module x\n\ngo 1.20\n")
    jobs = [(i, o, s, d, a.fuel) for i, (o, s) in enumerate(files)]
    with concurrent.futures.ThreadPoolExecutor(a.jobs) as ex:
        res = list(ex.map(run_one, jobs))
    hist = collections.Counter()
    by_origin = collections.defaultdict(collections.Counter)
    mismatches = []
    rejected_some = []
    for (i, origin, rc, vrc, vout, mout) in res:
        okey = origin.split("~")[0] if not origin.startswith("/") else "shipped"
        if "~" in origin:
            okey = "variant:" + origin.split("~")[1]
        if rc != 0:
            k = "rejected/model-NONE" if mout.strip() == "NONE" else "rejected/model-Some"
            if k == "rejected/model-Some":
                rejected_some.append(i)
            hist[k] += 1
            by_origin[okey][k] += 1
            continue
        hist["accepted"] += 1
        if vrc != 0:
            hist["accepted/lexdump-failed"] += 1
            mismatches.append((i, origin, "lexdump exit %d" % vrc))
            continue
        if vout == mout:
            k = "equal(all)"
        elif grammar_part(vout) is not None and grammar_part(vout) == grammar_part(mout):
            tail = mout[len(grammar_part(mout)):].strip()
            k = "equal(grammar)/lexgen-NONE" if tail.startswith("LEXGEN-NONE") else "equal(grammar)/DFA-DIFFERS"
            if k.endswith("DIFFERS"):
                mismatches.append((i, origin, "DFA part differs"))
        else:
            k = "MISMATCH"
            mismatches.append((i, origin, "grammar part differs"))
        hist[k] += 1
        by_origin[okey][k] += 1
    print("files: %d (base %d, variants %d); seed %d; work dir %s" % (len(files), nbase, len(extra), a.seed, d))
    for k in sorted(hist):
        print("  %-32s %d" % (k, hist[k]))
    print("by origin:")
    for o in sorted(by_origin):
        print("  %-18s %s" % (o, dict(by_origin[o])))
    if rejected_some:
        print("gocc rejects, model gives a lexical part (not an error: the model covers the lexical part only): %d, e.g. g%05d.bnf"
              % (len(rejected_some), rejected_some[0]))
    mismatches.sort(key=lambda m: (m[2] != 'grammar part differs', m[0]))
    for (i, origin, why) in mismatches[:10]:
        print("MISMATCH g%05d.bnf (%s): %s" % (i, origin, why))
        print("   source: %r" % files[i][1][:300])
        r = res[i]
        print("   gocc  : %r" % (grammar_part(r[4]) or r[4][:300]))
        print("   model : %r" % (grammar_part(r[5]) or r[5][:300]))
    if not a.keep and not mismatches:
        shutil.rmtree(d, ignore_errors=True)
    print("RESULT %s mismatches=%d" % ("OK" if not mismatches else "FAIL", len(mismatches)))
    return 0 if not mismatches else 1


if __name__ == "__main__":
    sys.exit(main())
