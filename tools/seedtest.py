#!/usr/bin/env python3
"""tools/seedtest.py <id> [<seed-name>] [--checks C08,C01]
Confirms a seeded change (demo exits 0 on the unchanged tree, 1 with the patch), stores it under seeded/<id>[-name]/,
applies it to /repo, runs the given checks (default: the property's own) and reverts /repo. Prints which checks caught it."""
import json, os, shutil, subprocess, sys, time
pid = sys.argv[1]
name = pid
checks = [pid]
args = sys.argv[2:]
for a in args:
    if a.startswith("--checks"):
        checks = a.split("=", 1)[1].split(",")
    else:
        name = "%s-%s" % (pid, a)
work = "/tmp/seedwork_%s" % pid
dst = "/verif/seeded/%s" % name
RETEST = not os.path.isdir(work)      # re-test of a stored seed: use the stored copy
if RETEST:
    work = dst
assert subprocess.run(["git", "-C", "/repo", "status", "--porcelain"], capture_output=True, text=True).stdout.strip() == "", "/repo not clean"
os.makedirs(dst, exist_ok=True)
for f in ("patch.diff", "demo.sh", "meta.json"):
    if not RETEST:
        shutil.copy(os.path.join(work, f), dst)
if not RETEST and os.path.isdir(os.path.join(work, "demo")):
    shutil.rmtree(os.path.join(dst, "demo"), ignore_errors=True)
    shutil.copytree(os.path.join(work, "demo"), os.path.join(dst, "demo"))
env = dict(os.environ, GOFLAGS="-mod=mod", GOPROXY="off")
def demo(tree):
    r = subprocess.run(["bash", os.path.join(work, "demo.sh"), tree], capture_output=True, text=True, env=env, timeout=900)
    return r.returncode, (r.stdout + r.stderr)[-400:]
rc0, out0 = demo("/repo")
ok = subprocess.run(["git", "-C", "/repo", "apply", "--check", os.path.join(work, "patch.diff")], capture_output=True, text=True)
res = {"demo_unchanged_exit": rc0, "patch_applies": ok.returncode == 0, "applies_msg": ok.stderr[-200:]}
if ok.returncode == 0:
    subprocess.run(["git", "-C", "/repo", "apply", os.path.join(work, "patch.diff")], check=True)
    shutil.rmtree("/tmp/evidence_backup", ignore_errors=True)
    shutil.copytree("/verif/evidence", "/tmp/evidence_backup")   # evidence must come from clean-tree runs only
    try:
        b = subprocess.run(["go", "build", "./..."], cwd="/repo", env=env, capture_output=True, text=True)
        t = subprocess.run("go test -vet=off -count=1 ./... 2>&1 | grep -E '^(FAIL|ok|---)' | grep -v 'no test files' | grep FAIL", shell=True, cwd="/repo", env=env, capture_output=True, text=True)
        res["builds"] = b.returncode == 0
        res["failing_tests_with_patch"] = t.stdout.strip().split("\n")
        rc1, out1 = demo("/repo")
        res["demo_patched_exit"] = rc1
        res["demo_patched_tail"] = out1
        res["checks"] = {}
        for c in checks:
            t0 = time.time()
            r = subprocess.run(["./check", c, "--tier", "quick"], cwd="/verif", capture_output=True, text=True, timeout=3600)
            viol = [l for l in r.stdout.split("\n") if l.startswith("VIOLATION")]
            res["checks"][c] = {"exit": r.returncode, "violations": viol[:3], "wall_s": round(time.time() - t0)}
            # keep one replay per check as witness of detection
            for l in viol[:1]:
                p = l.split("replay=")[1].split(" ")[0]
                if os.path.exists(p):
                    shutil.copy(p, os.path.join(dst, "detected_by_%s.json" % c))
    finally:
        subprocess.run(["git", "-C", "/repo", "checkout", "--", "."], check=True)
        subprocess.run(["git", "-C", "/repo", "clean", "-fdq"], check=False)
        subprocess.run("rm -f /verif/replays/*", shell=True)
        shutil.rmtree("/verif/evidence", ignore_errors=True)
        shutil.copytree("/tmp/evidence_backup", "/verif/evidence")
meta = json.load(open(os.path.join(dst, "meta.json")))
if RETEST:
    old = meta.get("confirmation", {})
    if not res.get("patch_applies"):
        print("RETEST: patch no longer applies (%s); stored confirmation kept" % res.get("applies_msg", "").strip()[:120])
        sys.exit(0)
    merged = dict(old.get("checks", {}))
    merged.update(res.get("checks", {}))
    res["checks"] = merged
    res["retested"] = True
meta["confirmation"] = res
json.dump(meta, open(os.path.join(dst, "meta.json"), "w"), indent=1)
print(json.dumps(res, indent=1)[:1500])
