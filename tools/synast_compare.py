#!/usr/bin/env python3
"""Differential validation of Front/SynAst.v (`modelrun synast`): the numeric input of the LR(1) generator model computed from the BYTES
of a grammar file, against the same text derived from gocc's own dump (`verifdump lr`, lrcommon.gen_input_text).

usage: tools/synast_compare.py [seed] [n_random]      (work directory: build/synast_cmp)"""
import glob
import json
import os
import random
import subprocess
import sys
from concurrent.futures import ThreadPoolExecutor

ROOT = os.path.dirname(os.path.dirname(os.path.abspath(__file__)))
sys.path.insert(0, os.path.join(ROOT, "lib"))
import cfggen  # noqa: E402
import lrcommon  # noqa: E402

VERIFDUMP = os.path.join(ROOT, "build", "bin", "verifdump")
MODELRUN = os.path.join(ROOT, "build", "bin", "modelrun")
HOSTILE = ['"a\\"b"', '"`"', '"\\\\"', '"é€"', '"//"', '"/*"', '"%d%s"', '"{{.}}"', '"a b"', "`x\"y`", '"\\n"', '"*/"', '"\'"', '"error2"',
           '"€"', '"empty2"', '"Z"', '"é"', '"~"', '"A"', '"_"']
NAMED = ["zz", "aq8", "zQ", "é1", "a_b", "x0", "ß", "tok", "if", "k10", "k9", "ab", "aB", "a", "z_", "error", "é", "zq", "zq99"]
PKG = "x/y/h"


# hand-written: empty action, "empty" inside a body, error in the middle, string literal named like a token id / like error / empty,
# token ids of the lexical part the syntax part never uses, heads declared again later, ignored tokens, regular definitions
EDGE = [
    "S : a << >> | b <<>> | c << X >> ;\n",
    "S : a empty b | empty ;\n",
    "S : empty a b | c ;\n",
    "S : a error b | error | error c ;\n",
    'S : "error" a | "a" error ;\n',
    'S : "empty" | a ;\n',
    'S : a "empty" ;\n',
    "zz : 'z' ; !ws : ' ' ; _r : 'r' ; b : _r ; a : 'a' ;\nS : T a | T ; T : b | S S | empty ; S : a a << 1 >> ;\n",
    "a : 'a' ; A0 : 'b' ;\n",
    "S : S ;\n",
    "S : T ; T : U ; U : S | x ;\nT : y ;\n",
    "x : 'x' ; ä : 'y' ; Z0 : 'z' ;\nS : x \"ä\" ä \"Z0\" \"z\" \"ÿ\" ;\n",
    "<< package p >>\nS : a << f(\"|\", ';') >> | b ;\n",
    "S : a\n  | /* c */ b // d\n ;\n",
]


def syntax_text(g):
    out = []
    for (l, idxs) in g.runs():
        alts = []
        for i in idxs:
            (_, b, k, a) = g.prods[i]
            alts.append("empty" if k == "empty" else ("error " if k == "error" else "") + " ".join(b))
        out.append("%s : %s ;" % (l, " | ".join(alts)))
    return "\n".join(out) + "\n"


class NoAct:
    """p_acts of a text written without actions"""
    def __init__(self, g):
        self.prods = g.prods

    def has_action(self, i):
        return False


def hostile_cfg(rng, pool):
    g = cfggen.gen_cfg(rng, max_nt=rng.choice([1, 2, 3, 4]), with_error=rng.random() < 0.4)
    lits = rng.sample(pool, rng.randint(1, 4))
    prods = list(g.prods)
    idx = rng.choice([i for i, p in enumerate(prods) if p[0] == "S"])
    prods.insert(idx + 1, ("S", lits, "normal", rng.choice([None, "N"])))
    return cfggen.CFG(g.nts, g.terms + lits, prods)


def rename_terms(g, rng):
    """token ids from another pool (names that sort differently bytewise / by case / non-ASCII)"""
    ids = [t for t in g.terms if not t.startswith('"') and not t.startswith('`')]
    if not ids:
        return g
    m = dict(zip(ids, rng.sample(NAMED, len(ids)))) if len(ids) <= len(NAMED) else {}
    f = lambda s: m.get(s, s)
    return cfggen.CFG(list(g.nts), [f(t) for t in g.terms], [(l, [f(x) for x in b], k, a) for (l, b, k, a) in g.prods])


def generated(rng, n_random):
    """(label, text, has_action object or None)"""
    out = []
    for i in range(len(cfggen.FAMILIES)):
        g = cfggen.family(i)
        out.append(("family%d/full" % i, cfggen.full_text(g, PKG), g))
        out.append(("family%d/syntax" % i, g.text(PKG), g))
        out.append(("family%d/pure" % i, cfggen.full_text(g, PKG, pure=True), g))
        out.append(("family%d/noact" % i, cfggen.lex_part(g) + "\n" + syntax_text(g), NoAct(g)))
        for j in range(2):
            g2 = cfggen.split_declarations(cfggen.add_optionals(g, rng), rng)
            out.append(("family%d/optsplit%d" % (i, j), cfggen.full_text(g2, PKG), g2))
    for i in range(n_random):
        we = i % 2 == 1
        g = cfggen.gen_cfg(rng, with_error=we, max_nt=rng.choice([1, 2, 3, 4, 5, 6]))
        kind = i % 6
        if kind in (0, 1):
            out.append(("rand%d/full%s" % (i, "/err" if we else ""), cfggen.full_text(g, PKG), g))
        elif kind == 2:
            out.append(("rand%d/syntaxonly" % i, g.text(PKG), g))
        elif kind == 3:
            g = cfggen.split_declarations(cfggen.add_optionals(g, rng), rng)
            out.append(("rand%d/optsplit/err" % i, cfggen.full_text(g, PKG, pure=True), g))
        elif kind == 4:
            g = hostile_cfg(rng, HOSTILE)
            t = rng.random()
            if t < 0.5:
                out.append(("rand%d/hostile/full" % i, cfggen.full_text(g, PKG), g))
            else:
                out.append(("rand%d/hostile/noact" % i, cfggen.lex_part(g) + "\n" + syntax_text(g), NoAct(g)))
        else:
            g = rename_terms(g, rng)
            out.append(("rand%d/named/err" % i, cfggen.full_text(g, PKG), g))
    for j, t in enumerate(EDGE):
        out.append(("edge%d" % j, t, None))
    bg = cfggen.big_cfg(rng, 300)
    out.append(("big300", cfggen.full_text(bg, PKG), bg))
    return out


def main():
    seed = int(sys.argv[1]) if len(sys.argv) > 1 else 20260924
    n_random = int(sys.argv[2]) if len(sys.argv) > 2 else 420
    rng = random.Random(seed)
    work = os.path.join(ROOT, "build", "synast_cmp")
    os.makedirs(work, exist_ok=True)
    cases = []
    for k, (label, text, g) in enumerate(generated(rng, n_random)):
        path = os.path.join(work, "g%04d.bnf" % k)
        with open(path, "w", encoding="utf-8") as f:
            f.write(text)
        cases.append((label, path, g))
    for root in ("/repo/example", "/repo/internal/test", "/repo/spec"):
        for path in sorted(glob.glob(os.path.join(root, "**", "*.bnf"), recursive=True)):
            cases.append(("repo:" + path, path, None))

    def one(c):
        label, path, g = c
        dj = subprocess.run([VERIFDUMP, "lr", path], capture_output=True, text=True, timeout=300)
        try:
            dump = json.loads(dj.stdout)
        except Exception:
            dump = {"panic": "verifdump failed: " + dj.stderr[-300:]}
        m = subprocess.run([MODELRUN, "synast", path], capture_output=True, text=True, timeout=300)
        return dump, m.stdout, m.stderr

    with ThreadPoolExecutor(max_workers=16) as ex:
        res = list(ex.map(one, cases))
    n_files = len(cases)
    accepted = equal = 0
    rejected = []
    none_but_accepted = []
    mism = {}
    nosyntax = 0
    for (label, path, g), (dump, mout, merr) in zip(cases, res):
        if not dump.get("prods"):
            # gocc did not get as far as the symbol table (front-end rejection), or the file has no syntax part
            if dump.get("panic"):
                rejected.append((label, dump["panic"][:100], mout.split("\n")[0][:40]))
            else:
                nosyntax += 1
                if mout.strip() != "NONE":
                    mism.setdefault("model gives an input for a file without syntax part", []).append(label)
            continue
        accepted += 1
        try:
            want = lrcommon.gen_input_text(dump, g)
        except KeyError as e:
            want = "NONE\n"   # a body symbol that is neither terminal nor nonterminal ("empty" inside a body)
        if mout == want:
            equal += 1
            continue
        if mout.strip() == "NONE":
            none_but_accepted.append(label)
        wl, ml = want.split("\n"), mout.split("\n")
        names = ["header nn/ntm/terr", "productions", "symbols", "la_order", "p_acts"]
        which = next((names[i] for i in range(5) if i >= len(ml) or i >= len(wl) or wl[i] != ml[i]), "length")
        i = names.index(which) if which in names else 0
        mism.setdefault(which, []).append("%s (%s)\n      gocc : %s\n      model: %s" % (label, path, wl[i][:200] if i < len(wl) else "", ml[i][:200] if i < len(ml) else merr[-200:]))
    print("files                         : %d" % n_files)
    print("  generated (cfggen)          : %d" % sum(1 for c in cases if c[2] is not None))
    print("  hand-written edge cases     : %d" % sum(1 for c in cases if c[0].startswith("edge")))
    print("  from /repo                  : %d" % sum(1 for c in cases if c[0].startswith("repo:")))
    print("gocc built the symbol table   : %d" % accepted)
    print("no syntax part (model NONE)   : %d" % nosyntax)
    print("rejected by gocc's front end  : %d" % len(rejected))
    for (l, p, m) in rejected[:8]:
        print("    %s: %s   [model: %s]" % (l, p, m))
    print("equal (all five lines)        : %d" % equal)
    print("mismatches                    : %d" % (accepted - equal + len(mism.get("model gives an input for a file without syntax part", []))))
    for k, v in mism.items():
        print("  %s: %d, e.g. %s" % (k, len(v), v[0]))
    return 0 if accepted == equal and not mism else 1


if __name__ == "__main__":
    sys.exit(main())
