"""C03 — semantic actions are applied bottom-up, left to right, over the parse tree.

Proof: Properties/C03.v (result value and call log = post-order evaluation over a parse tree of the input; error clause).
Tie R/K as C02, with logging actions ($i, $Ti, $Context, default and empty actions) and a chosen failing call.
Oracle (implementation only): the post-order listing of the explicit nodes of the returned value must be a subsequence of the log, leaves are
the scanner's own token objects in input order, a failing k-th call ends the parse with that error and a log of k+1 calls."""
import collections
import re

import c02
import cfggen
import lrcommon
import lrobl

TOK = re.compile(r"\(|\)|[^\s()]+")


def parse_sexpr(s):
    toks = TOK.findall(s)
    pos = 0

    def rd():
        nonlocal pos
        t = toks[pos]
        pos += 1
        if t == "(":
            items = []
            while toks[pos] != ")":
                items.append(rd())
            pos += 1
            return items
        return t
    v = rd()
    return v


def show(v):
    if isinstance(v, list):
        return "(" + " ".join(show(x) for x in v) + ")"
    return v


def postorder_calls(v, out):
    if isinstance(v, list):
        for k in v[1:]:
            postorder_calls(k, out)
        out.append("[" + " ".join(show(x) for x in v) + "]")


def leaves(v, out):
    if isinstance(v, list):
        for k in v[1:]:
            leaves(k, out)
    elif v.startswith("t") and "@" in v:
        out.append(v)


def oracle(line, toks_types, fail):
    """returns None or reason; line is the implementation's output for one parse"""
    m = re.match(r"^(OK|ERR) (.*?) LOG(.*) SCANS (\d+) CTXBAD (\d+)$", line)
    if not m:
        return None if line.startswith(("ERR", "OK")) else "parser output: " + line
    kind, body, log, scans, ctxbad = m.groups()
    if int(ctxbad) != 0:
        return "$Context did not denote the parser's Context value"
    calls = re.findall(r"\[(?:[^\[\]]|\[[^\[\]]*\])*\]", log)
    # number of action calls = top-level [..] entries of the log (error attributes nest brackets)
    ncalls, depth = 0, 0
    for ch in log:
        if ch == "[":
            ncalls += 1 if depth == 0 else 0
            depth += 1
        elif ch == "]":
            depth -= 1
    if fail is not None and ncalls > fail + 1:
        return "the %d-th action call was made to fail but %d calls were made (further actions ran; recovery or not)" % (fail, ncalls)
    if fail is not None and ncalls == fail + 1 and kind == "OK":
        return "the %d-th action call was made to fail but Parse returned a nil error" % fail
    if kind == "OK":
        if "[" in body.replace("[", "", 0) and "(err" in body:
            return None  # recovered parses are C07's subject
        v = parse_sexpr(body) if body != "nil" else "nil"
        exp = []
        postorder_calls(v, exp)
        got = re.findall(r"\[[^\[\]]*\]", log)
        # alternatives without action keep only their first attribute, so the result may hold fewer nodes than were built:
        # the post-order listing of the result's nodes must be a subsequence of the log, ending with the root's call
        e1 = [re.sub(r"\s+", " ", x) for x in exp]
        g1 = [re.sub(r"\s+", " ", x) for x in got]
        it = iter(g1)
        if not all(any(x == y for y in it) for x in e1):
            return "the post-order listing of the result's nodes is not a subsequence of the action log: log=%s result=%s" % (log, body)
        lv = []
        leaves(v, lv)
        ids = [int(x.split("@")[1]) if x.split("@")[1].isdigit() else -1 for x in lv]
        if -1 in ids:
            return "a terminal's attribute is not a token object returned by the scanner"
        if ids != sorted(set(ids)):
            return "token objects out of order or duplicated in the result: %s" % lv
        for x in lv:
            ty, i = x[1:].split("@")
            if int(i) >= len(toks_types) or int(ty) != toks_types[int(i)]:
                return "leaf %s is not the %s-th scanned token" % (x, i)
        if fail is not None and len(got) > fail:
            return "the %d-th action call was made to fail but Parse succeeded" % fail
    else:
        if "action-error" in body:
            k = int(re.search(r"action-error-(\d+)", body).group(1))
            n = len(re.findall(r"\[[^\[\]]*\]", log)) if "(" not in log else None
            if fail is None or k != fail:
                return "error carries action-error-%d but call %s was made to fail" % (k, fail)
            if n is not None and n != k + 1:
                return "after the failing call %d the log has %d calls (further actions ran)" % (k, n)
    return None


def check_sdt(ctx, thorough):
    """K: Token.SDTVal (verifdump sdt) vs extracted Sdt.sdt_val on random ASCII action texts"""
    import vlib
    rng = ctx.rng
    pieces = ["$0", "$1", "$12", "$007", "$T0", "$T13", "$T", "$Tx", "$Context", "$Contextual", "$Con", "$$", "$", "$$3", "X[0]", "foo(", ")", ", ",
              "nil", "\"$1\"", " ", "\n", "\t", "$9a", "$T4b", "a.b", "$-1", "$ 1", "<<", ">>"]
    cases = []
    for _ in range(20000 if thorough else 3000):
        body = "".join(rng.choice(pieces) for _ in range(rng.randint(0, 8)))
        cases.append(("<<" + rng.choice(["", " ", "\n "]) + body + rng.choice(["", " ", " \t"]) + ">>").encode())
    text = "".join(c.hex() + "\n" for c in cases)
    go = vlib.run_lines([ctx.verifdump, "sdt"], text)
    mo = vlib.run_lines([ctx.modelrun, "sdt"], text)
    bad = [(c, g, m) for c, g, m in zip(cases, go, mo) if g != m]
    ctx.add_obligation("K: Sdt.sdt_val = Token.SDTVal on %d action texts" % len(cases), not bad,
                       str([(c, bytes.fromhex(g), bytes.fromhex(m)) for (c, g, m) in bad[:2]]))
    return len(cases)


def run(ctx):
    ctx.check_property_file()
    thorough = ctx.tier == "thorough"
    check_sdt(ctx, thorough)
    cands = [g for g in c02.gen_grammars(ctx, 140 if not thorough else 1200) if not g.has_error()]
    cands.insert(0, cfggen.family(9))   # wide alternatives: $10, $T11, ... (SDT rewriting of two-digit references)
    recs, stats, ws = lrcommon.prepare_parsers(ctx, cands, flags=[])
    recs = [r for r in recs if r.bin][: (36 if not thorough else 400)]
    res, errs = lrobl.check_all(recs, lrobl.LR_CHECKS, "c03")
    # grammars WITH error alternatives: a failing action must end the parse there too (no recovery from an action's error); their
    # tables are validated by C07's obligations, here: the failing-call clause on the implementation + correspondence with the model
    ecands = [cfggen.family(i) for i in (7, 8, 10)] + [g for g in c02.gen_grammars(ctx, 60 if not thorough else 500, with_error=True)]
    ecands = [g for g in ecands if g.has_error()]
    erecs, estats, ws = lrcommon.prepare_parsers(ctx, ecands, flags=[], ws=ws, prefix="e")
    erecs = [r for r in erecs if r.bin][: (12 if not thorough else 120)]
    error_grammar_names = set(r.name for r in erecs)
    recs = recs + erecs
    total, disagreements, reported = 0, 0, 0
    corr_bad = []
    distinct = set()
    hist = collections.Counter()
    samples = []
    for r in recs:
        iserr = r.name in error_grammar_names
        if not iserr:
            ok = bool(res.get(r.name)) and all(res[r.name].values())
            ctx.add_obligation("R: lr_valid(gocc's tables for %s) = true by vm_compute" % r.name, ok, str(res.get(r.name)) + str(errs[:1]))
        inputs = []
        for _ in range(120 if not thorough else 300):
            s = cfggen.gen_sentence(r.g, ctx.rng, budget=ctx.rng.choice([3, 6, 10])) or []
            if ctx.rng.random() < (0.15 if not iserr else 0.5):
                s = cfggen.mutate(s, r.g.terms, ctx.rng)
            fail = ctx.rng.choice([None, None, 0, 1, 2, 3, 5] if not iserr else [None, 0, 1, 2, 3, 4, 5, 7])
            inputs.append((s, fail))
        cases = [lrcommon.encode_case(r, [(s, f, False)]) for (s, f) in inputs]
        go = [c02.norm(x) for x in lrcommon.run_impl(r, cases)]
        mo = [c02.norm(x) for x in lrcommon.run_model(ctx, r, cases)]
        for (s, f), c, gl, ml in zip(inputs, cases, go, mo):
            total += 1
            types = [lrcommon.type_of(r, t) for t in s]
            why = oracle(gl, types, f)
            nlog = gl.count("[")
            hist["%s/%s" % (gl.split(" ")[0], "fail" if "action-error" in gl else "nofail")] += 1
            if nlog >= 2:
                distinct.add((r.name, c))
            if why is not None and reported < 3:
                ctx.violation({"kind": "property-oracle-on-implementation", "grammar": r.text, "tokens": s, "fail_call": f,
                               "parser_output": gl, "reason": why})
                reported += 1
            elif gl != ml:
                disagreements += 1
                if len(corr_bad) < 3:
                    corr_bad.append({"kind": "correspondence-broken", "correspondence": "generated Parse (values, action log) vs LR/Parse.v",
                                     "grammar": r.text, "tokens": s, "fail_call": f, "go": gl, "model": ml})
        if len(samples) < 3:
            samples.append({"grammar": r.text, "case": cases[0], "parser": go[0]})
    # inputs on which the property itself fails are reported first; broken correspondences only as far as room is left
    for cb in corr_bad:
        if reported < 3:
            ctx.violation(cb, found_input=False)
            reported += 1
    for o in ctx.failed_obligations():
        if reported < 6:
            ctx.violation({"kind": "proof-obligation-broken", "obligation": o}, found_input=False)
            reported += 1
    ctx.write_evidence("proof", {
        "evaluations": total, "distinct_nontrivial": len(distinct),
        "rule": "conflict-free random/seeded grammars whose alternatives randomly carry explicit actions (h.N with $i, $Ti for terminals, "
                "$Context) or none (default / empty); 85% sentences, 15% edited; a call index in {none,0,1,2,3,5} is made to fail; "
                "non-trivial = at least two action calls logged; distinct by (grammar, tokens, failing call)",
        "samples": samples, "programs": len(recs), "outcome_histogram": dict(hist),
        "traces_validated_against_impl": total, "disagreements": disagreements,
        "gocc_stats": {k: v for k, v in stats.items() if k != "build_log"},
    }, ["as C02; action expressions reach attributes only through $i/$Ti/$Context (raw X would expose slice aliasing)",
        "SDT rewriting ($i -> X[i], $Ti -> X[i].(*token.Token), $Context -> C) is exercised by the harness grammars, not modelled separately"])
