"""Running the real gocc on grammars inside a scratch Go module and compiling drivers
against the generated packages."""
import os
import re
import shutil
import subprocess

import vlib


class Workspace:
    """A scratch module `x` holding one sub-directory per grammar."""

    def __init__(self, ctx, modname="x"):
        self.ctx = ctx
        self.dir = ctx.mktemp("gvmod")
        self.mod = modname
        with open(os.path.join(self.dir, "go.mod"), "w") as f:
            f.write("module %s\n\ngo 1.24\n" % modname)
        os.makedirs(os.path.join(self.dir, "bin"))
        self.names = []

    def gocc(self, name, bnf, flags=(), timeout=60, fname="g.bnf", raw=False):
        """Runs gocc on the grammar text in <mod>/<name>; returns (exit_status, stdout+stderr, dir)."""
        d = os.path.join(self.dir, name)
        os.makedirs(d, exist_ok=True)
        mode = "wb" if isinstance(bnf, bytes) else "w"
        with open(os.path.join(d, fname), mode) as f:
            f.write(bnf)
        try:
            r = subprocess.run([self.ctx.gocc] + list(flags) + [fname], cwd=d, capture_output=True, timeout=timeout)
            rc, out = r.returncode, (r.stdout + r.stderr).decode("utf-8", "replace")
        except subprocess.TimeoutExpired:
            rc, out = -9, "TIMEOUT"
        return rc, out, d

    def add_driver(self, name, tmpl, sub="cmd"):
        src = open(os.path.join(vlib.ROOT, "harness", tmpl)).read().replace("PKG", "%s/%s" % (self.mod, name))
        d = os.path.join(self.dir, name, sub)
        os.makedirs(d, exist_ok=True)
        with open(os.path.join(d, "main.go"), "w") as f:
            f.write(src)
        self.names.append((name, sub))

    def build(self, timeout=900, tags=None, race=False):
        """go build every driver; returns dict name -> binary path (missing on failure) and the build log."""
        bins = {}
        log = ""
        pk = ["./%s/%s" % (n, s) for (n, s) in self.names]
        if not pk:
            return bins, log
        # one go build per driver output name (go build -o dir/ with many mains would name them all 'cmd')
        procs = []
        for (n, s) in self.names:
            out = os.path.join(self.dir, "bin", "%s_%s" % (n, s))
            cmd = ["go", "build"] + (["-race"] if race else []) + ["-o", out, "./%s/%s" % (n, s)]
            procs.append((n, s, out, subprocess.Popen(cmd, cwd=self.dir, env=vlib.GOENV, stdout=subprocess.PIPE,
                                                      stderr=subprocess.STDOUT, text=True)))
            if len(procs) >= 16:
                for (n2, s2, o2, p2) in procs:
                    lg, _ = p2.communicate(timeout=timeout)
                    if p2.returncode == 0:
                        bins[(n2, s2)] = o2
                    else:
                        log += "[%s/%s]\n%s\n" % (n2, s2, lg)
                procs = []
        for (n2, s2, o2, p2) in procs:
            lg, _ = p2.communicate(timeout=timeout)
            if p2.returncode == 0:
                bins[(n2, s2)] = o2
            else:
                log += "[%s/%s]\n%s\n" % (n2, s2, lg)
        return bins, log


# ------------------------------------------------------------------ reading emitted lexer tables
_GO_INT = r"(-?\d+|0[xX][0-9a-fA-F]+|'(?:[^'\\\n]|\\.[0-9a-fA-F]*)+')"


def go_int(tok):
    """value of a Go integer or rune literal as the compiler reads it (the emitted table may spell bounds either way)"""
    if not tok.startswith("'"):
        return int(tok, 0)
    body = tok[1:-1]
    if not body.startswith("\\"):
        if len(body) != 1:
            raise ValueError("rune literal %s" % tok)
        return ord(body)
    simple = {"a": 7, "b": 8, "f": 12, "n": 10, "r": 13, "t": 9, "v": 11, "\\": 92, "'": 39, '"': 34}
    c = body[1]
    if c in simple and len(body) == 2:
        return simple[c]
    if c == "x" and len(body) == 4:
        return int(body[2:], 16)
    if c == "u" and len(body) == 6:
        return int(body[2:], 16)
    if c == "U" and len(body) == 10:
        return int(body[2:], 16)
    if c in "01234567" and len(body) == 4:
        return int(body[1:], 8)
    raise ValueError("rune literal %s" % tok)


def parse_transtab(path):
    """Re-reads lexer/transitiontable.go: list of rows {cases: [(lo,hi,next)], default: next or -1}. Bounds may be written as decimal,
    hexadecimal or rune literals: they are read as the Go compiler reads them."""
    src = open(path).read()
    rows = []
    parts = re.split(r"\n\t// S(\d+)\n", src)
    for i in range(1, len(parts), 2):
        sno, body = int(parts[i]), parts[i + 1]
        assert sno == len(rows), (sno, len(rows))
        cases = []
        for m in re.finditer(r"case (?:r == %s|%s <= r && r <= %s):[^\n]*\n\s*return (-?\d+|NoState)" % (_GO_INT, _GO_INT, _GO_INT), body):
            if m.group(1) is not None:
                lo = hi = go_int(m.group(1))
            else:
                lo, hi = go_int(m.group(2)), go_int(m.group(3))
            nxt = -1 if m.group(4) == "NoState" else int(m.group(4))
            cases.append((lo, hi, nxt))
        ncase = len(re.findall(r"\bcase\b", body.split("\n}")[0]))
        if ncase != len(cases):
            raise ValueError("unparsed case in S%d of %s" % (sno, path))
        md = re.search(r"default:\s*\n\s*return (-?\d+)", body)
        rows.append({"cases": cases, "default": int(md.group(1)) if md else -1})
    return rows


def parse_acttab(path):
    """Re-reads lexer/acttab.go: list of (accept, ignore_name)."""
    src = open(path).read()
    rows = []
    for m in re.finditer(r"ActionRow\{ // S(\d+)\n\s*Accept: (-?\d+),\n\s*Ignore: (\"(?:[^\"\\]|\\.)*\"),", src):
        assert int(m.group(1)) == len(rows)
        rows.append((int(m.group(2)), m.group(3)[1:-1]))
    return rows
