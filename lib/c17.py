"""C17 — independent lexer/parser instances are safe to use concurrently.

Proof: Properties/C17.v (objects with disjoint state over immutable tables: every schedule gives each object its sequential result).
Tie R: the frame assumption is checked on the EMITTED code: a go/types scan of every generated package (plain and -zip) for
       assignments / inc-dec / delete whose target is reached from a package-level variable outside init() must be empty.
Tie K: 16 goroutines, each with its own lexer and parser, parse the same sources in different orders under the race detector
       (-race build): results equal the sequential run, no race reported.
A theorem cannot exhibit a Go data race: the memory-model part rests on the race detector run (partial)."""
import os
import subprocess

import c02
import cfggen
import gen
import vlib


def run(ctx):
    ctx.check_property_file()
    thorough = ctx.tier == "thorough"
    rng = ctx.rng
    ws = gen.Workspace(ctx)
    ngr = 8 if not thorough else 40
    kept = []
    cands = [cfggen.family(i) for i in (0, 1, 7, 8, 11)] + [cfggen.gen_cfg(rng, with_error=(rng.random() < 0.3)) for _ in range(80)]
    for gi, g in enumerate(cands):
        if len(kept) >= ngr:
            break
        ok = True
        for zi, fl in enumerate(([], ["-zip"])):
            name = "g%d_%d" % (gi, zi)
            rc, out, d = ws.gocc(name, cfggen.full_text(g, "x/%s/h" % name, pure=True), flags=fl)
            if rc != 0:
                ok = False
                break
        if ok:
            kept.append((gi, g))
            for zi in (0, 1):
                ws.add_driver("g%d_%d" % (gi, zi), "concdrv.go.tmpl")
    bins, log = ws.build(race=True, timeout=1800)
    ctx.add_obligation("race-instrumented drivers compile for %d generated packages" % len(ws.names), len(bins) == len(ws.names), log[-500:])
    # ---- R: no writes to package-level state outside init()
    pats = ["./g%d_%d/..." % (gi, zi) for (gi, g) in kept for zi in (0, 1)]
    w = subprocess.run([os.path.join(vlib.BIN, "maprange"), "writes", ws.dir] + pats, capture_output=True, text=True, env=vlib.GOENV, timeout=900)
    writes = [l for l in w.stdout.split("\n") if l.startswith("write ") or l.startswith("ERROR")]
    ctx.add_obligation("R: generated packages (plain and -zip) contain no write to package-level state outside init() (%d packages scanned)" % (2 * len(kept)),
                       w.returncode == 0 and not writes, "; ".join(writes[:4]) + w.stderr[-200:])
    total = 0
    reported = 0
    distinct = set()
    samples = []
    for gi, g in kept:
        srcs = []
        for s in c02.gen_inputs(g, rng, 40 if not thorough else 150, extra_terms=["?"]):
            srcs.append(cfggen.source_of(s))
        text = "".join(b.hex() + "\n" for b in srcs)
        for zi in (0, 1):
            b = bins.get(("g%d_%d" % (gi, zi), "cmd"))
            if not b:
                continue
            env = dict(os.environ)
            env["GORACE"] = "exitcode=66 halt_on_error=0"
            p = subprocess.run([b], input=text, capture_output=True, text=True, timeout=600, env=env)
            total += 16 * len(srcs)
            for s in srcs:
                if len(s) > 4:
                    distinct.add((gi, s))
            done = [l for l in p.stdout.split("\n") if l.startswith("DONE")]
            race = "DATA RACE" in p.stderr
            if (race or p.returncode != 0 or done != ["DONE 0"]) and reported < 3:
                diffs = [l for l in p.stdout.split("\n") if l.startswith("DIFF")][:3]
                ctx.violation({"kind": "property-oracle-on-implementation", "grammar": cfggen.full_text(g, "x/o/h", pure=True),
                               "flags": (["-zip"] if zi else []), "goroutines": 16, "sources": [repr(s) for s in srcs[:10]],
                               "exit": p.returncode, "race_report": p.stderr[:1500] if race else "", "differences": diffs})
                reported += 1
            if len(samples) < 2:
                samples.append({"grammar": cfggen.full_text(g, "x/o/h", pure=True)[:500], "sources": [repr(s) for s in srcs[:3]],
                                "sequential": [l for l in p.stdout.split("\n") if l.startswith("SEQ")][:2]})
    for o in ctx.failed_obligations():
        if reported < 6:
            ctx.violation({"kind": "proof-obligation-broken", "obligation": o}, found_input=False)
            reported += 1
    ctx.write_evidence("other", {
        "explanation": "Model-level theorems (every schedule gives each object its sequential result, for objects that write only their own "
                       "state; instantiated to the parser-object model LR/ObjParse.v: n goroutines with own parser objects in any state obtain the "
                       "results of fresh parsers on their own inputs under every schedule of Parse calls) + frame assumption checked on the emitted code (no write to package-level state outside init, plain and -zip) + "
                       "race-detector run (16 goroutines x own lexer/parser objects, different input orders, released together in a cold process "
                       "before the sequential reference run) compared with the sequential run. Partial: the Go memory model and the coverage of the race detector are outside what a theorem can carry.",
        "evaluations": total, "distinct_nontrivial": len(distinct),
        "rule": "grammars with lexical part and pure actions (no helper package, so the test harness itself shares nothing), plain and -zip; "
                "sources as in C02; 16 goroutines each parsing all sources in its own order; non-trivial = source longer than 4 bytes",
        "samples": samples, "programs": 2 * len(kept), "goroutines": 16,
    }, ["race detector (ThreadSanitizer) reports only races that actually occur in the run", "Go memory model and scheduler are not modelled"])
