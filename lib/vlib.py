"""Shared machinery of the /verif checks.

Every check (lib/cXX.py) gets a Ctx: it builds the implementation side from /repo's
current working tree (gocc + the verif-tagged verifdump hook), makes sure the Coq
development and the extracted model runner are built, re-checks the property file
(coqc on Properties/Cxx.v, parsing the Print Assumptions output), and offers helpers for
scratch directories, replays, known findings, evidence and the VIOLATION protocol.
"""
import atexit
import hashlib
import json
import os
import random
import re
import shutil
import subprocess
import sys
import tempfile
import time

ROOT = os.path.dirname(os.path.dirname(os.path.abspath(__file__)))
REPO = os.environ.get("VERIF_REPO", "/repo")
BIN = os.path.join(ROOT, "build", "bin")
COQ = os.path.join(ROOT, "coq")

GOENV = dict(os.environ)
GOENV.update({"GOFLAGS": "-mod=mod", "GOPROXY": "off", "GOTOOLCHAIN": "auto"})
GOENV.pop("GOSUMDB", None)

FORBIDDEN = re.compile(r"\b(Admitted|admit|Axiom|Axioms|Parameter|Parameters|Conjecture|Conjectures|"
                       r"Admit Obligations|bypass_check|Unset Guard Checking|Unset Positivity Checking|"
                       r"Unset Universe Checking|type-in-type|impredicative-set)\b")

TRUSTED_BASE_COMMON = [
    "Coq 8.16.1 kernel (coqc), vm_compute for reflexive obligations; native_compute not used",
    "axioms: none (every property theorem prints 'Closed under the global context'; re-parsed on every run)",
    "extraction: Require Extraction + ExtrOcamlBasic only (bool/option/unit/list/prod/sumbool to OCaml natives); "
    "no Extract Constant / Extract Inductive of our own; nat/positive/N/Z stay inductives",
    "OCaml 4.13.1 compiler and harness/main.ml I/O shell (used for correspondence only, never for a theorem)",
    "Go toolchain building gocc and the add-only //go:build verif hook internal/verifdump, trusted to print faithfully",
]


def log(*a):
    print(*a, file=sys.stderr, flush=True)


class BuildError(Exception):
    pass


class Ctx:
    def __init__(self, pid, tier, seed, replay=None):
        self.pid = pid
        self.tier = tier
        self.seed = seed
        self.rng = random.Random(seed)
        self.t0 = time.time()
        self.replay = replay
        self.violations = []      # (replay_path, found_input: bool)
        self.known_hits = []
        self.scratch = []
        self.obligations = []     # list of dicts {name, status}
        self.notes = []
        atexit.register(self.cleanup)

    # ---------------------------------------------------------------- scratch
    def mktemp(self, prefix="gv"):
        d = tempfile.mkdtemp(prefix=prefix + "-")
        self.scratch.append(d)
        return d

    def cleanup(self):
        for d in self.scratch:
            shutil.rmtree(d, ignore_errors=True)
        self.scratch = []

    # ---------------------------------------------------------------- builds
    def build_impl(self):
        """go build gocc and verifdump (tag verif) from /repo's working tree."""
        os.makedirs(BIN, exist_ok=True)
        for out, args in (("gocc", ["."]), ("verifdump", ["-tags", "verif", "./internal/verifdump"])):
            cmd = ["go", "build", "-o", os.path.join(BIN, out)] + args
            r = subprocess.run(cmd, cwd=REPO, env=GOENV, capture_output=True, text=True)
            if r.returncode != 0:
                raise BuildError("go build failed: %s\n%s" % (" ".join(cmd), r.stderr[-3000:]))
        self.gocc = os.path.join(BIN, "gocc")
        self.verifdump = os.path.join(BIN, "verifdump")

    def build_model(self):
        r = subprocess.run([os.path.join(ROOT, "build.sh")], cwd=ROOT, capture_output=True, text=True)
        if r.returncode != 0:
            raise BuildError("model build failed:\n" + r.stdout[-3000:] + r.stderr[-3000:])
        self.modelrun = os.path.join(BIN, "modelrun")

    # ---------------------------------------------------------------- proofs
    def scan_forbidden(self):
        bad = []
        for dp, _, fs in os.walk(COQ):
            for f in fs:
                if f.endswith(".v"):
                    p = os.path.join(dp, f)
                    src = open(p, encoding="utf-8").read()
                    src = re.sub(r"\(\*.*?\*\)", "", src, flags=re.S)
                    for m in FORBIDDEN.finditer(src):
                        bad.append("%s: %s" % (os.path.relpath(p, ROOT), m.group(0)))
        return bad

    def check_property_file(self, fname=None):
        """Re-run coqc on Properties/<pid>.v; every Theorem must be followed by a
        Print Assumptions reporting 'Closed under the global context'."""
        fname = fname or ("theories/Properties/%s.v" % self.pid)
        path = os.path.join(COQ, fname)
        src = open(path, encoding="utf-8").read()
        names = re.findall(r"^(?:Theorem|Corollary)\s+([A-Za-z0-9_']+)", src, flags=re.M)
        printed = re.findall(r"^Print Assumptions\s+([A-Za-z0-9_']+)\.", src, flags=re.M)
        r = subprocess.run(["coqc", "-Q", "theories", "Gocc", fname], cwd=COQ, capture_output=True, text=True,
                           timeout=1800)
        out = r.stdout
        reports = re.findall(r"(Closed under the global context|Axioms:.*?(?=\nClosed under|\nAxioms:|\Z))", out, flags=re.S)
        obl = []
        for i, n in enumerate(names):
            if r.returncode != 0:
                st = "coqc-failed"
            elif n not in printed:
                st = "no-print-assumptions"
            else:
                k = printed.index(n)
                rep = reports[k] if k < len(reports) else "missing"
                st = "closed" if rep.startswith("Closed") else "axioms: " + " ".join(rep.split())[:300]
            obl.append({"name": n, "status": st})
        bad = self.scan_forbidden()
        if bad:
            obl.append({"name": "no-forbidden-vernacular", "status": "found: " + "; ".join(bad[:5])})
        else:
            obl.append({"name": "no-forbidden-vernacular", "status": "closed"})
        self.obligations += obl
        self.coqc_err = r.stderr[-2000:] if r.returncode != 0 else ""
        if self.tier == "thorough" and os.environ.get("VERIF_NO_COQCHK") != "1":
            # independent re-check of the compiled property file and everything it depends on; prints the axioms relied upon
            mod = "Gocc." + fname[len("theories/"):-2].replace("/", ".")
            try:
                c = subprocess.run(["coqchk", "-silent", "-o", "-Q", "theories", "Gocc", mod], cwd=COQ, capture_output=True, text=True, timeout=3000)
                out = (c.stdout + c.stderr)
                ok = c.returncode == 0 and "Axioms:" in out and re.search(r"\* Axioms:\s*<none>", out) is not None
                self.obligations.append({"name": "coqchk -o %s (independent checker; axioms: none)" % mod,
                                         "status": "closed" if ok else ("failed: " + " ".join(out.split())[-400:])})
                self.coqchk_report = out[-1500:]
            except subprocess.TimeoutExpired:
                self.notes.append("coqchk timed out after 50 min (not counted as an obligation)")
        return obl

    def add_obligation(self, name, ok, detail=""):
        self.obligations.append({"name": name, "status": "closed" if ok else ("failed: " + detail)[:400]})

    def failed_obligations(self):
        return [o for o in self.obligations if o["status"] != "closed"]

    # ---------------------------------------------------------------- findings / violations
    def known_findings(self):
        p = os.path.join(ROOT, "known_findings.json")
        if not os.path.exists(p):
            return []
        return [f for f in json.load(open(p)).get("findings", []) if f.get("property") == self.pid]

    def report_known(self, finding, what):
        line = "KNOWN-FINDING: property=%s %s" % (self.pid, what)
        if line not in self.known_hits:
            self.known_hits.append(line)
            print(line, flush=True)

    def violation(self, replay_obj, found_input=True):
        os.makedirs(os.path.join(ROOT, "replays"), exist_ok=True)
        n = len(self.violations)
        h = hashlib.sha1(json.dumps(replay_obj, sort_keys=True, default=str).encode()).hexdigest()[:10]
        path = os.path.join(ROOT, "replays", "%s-%s-%d.json" % (self.pid, h, n))
        replay_obj = dict(replay_obj)
        replay_obj.setdefault("property", self.pid)
        replay_obj.setdefault("seed", self.seed)
        replay_obj.setdefault("tier", self.tier)
        with open(path, "w") as f:
            json.dump(replay_obj, f, indent=1, default=str)
        self.violations.append((path, found_input))
        tail = "" if found_input else " no-failing-input-found"
        print("VIOLATION property=%s replay=%s%s" % (self.pid, path, tail), flush=True)

    # ---------------------------------------------------------------- evidence
    def write_evidence(self, level, coverage, assumptions):
        os.makedirs(os.path.join(ROOT, "evidence"), exist_ok=True)
        nobl = len(self.obligations)
        ndis = len([o for o in self.obligations if o["status"] == "closed"])
        cov = dict(coverage)
        cov.setdefault("obligations", nobl)
        cov.setdefault("discharged", ndis)
        cov.setdefault("obligation_list", self.obligations)
        cov.setdefault("checker_cmd", "make -C coq (full .vo build) && coqc -Q theories Gocc theories/Properties/%s.v" % self.pid)
        cov.setdefault("trusted_base", TRUSTED_BASE_COMMON)
        cov.setdefault("known_findings_reported", self.known_hits)
        ev = {
            "property_id": self.pid,
            "tier": self.tier,
            "seed": self.seed,
            "level": level,
            "coverage": cov,
            "assumptions": assumptions,
            "wall_s": round(time.time() - self.t0, 2),
            "violations": len(self.violations),
        }
        with open(os.path.join(ROOT, "evidence", "%s.json" % self.pid), "w") as f:
            json.dump(ev, f, indent=1, default=str)
        return ev

    def finish(self):
        self.cleanup()
        return 1 if self.violations else 0


def run_lines(cmd, text, cwd=None, timeout=600, env=None):
    r = subprocess.run(cmd, input=text, capture_output=True, text=True, cwd=cwd, timeout=timeout, env=env)
    if r.returncode != 0:
        raise RuntimeError("command failed (%d): %s\n%s" % (r.returncode, " ".join(cmd), r.stderr[-2000:]))
    return r.stdout.split("\n")[:-1] if r.stdout.endswith("\n") else r.stdout.split("\n")
