"""C11 — generation is deterministic.

Proof: Properties/C11.v (every map iteration that can reach a generated file is modelled as iteration over an arbitrary permutation;
       token ids, token numbering, FIRST sets, look-ahead lists, resolved actions and conflict count are independent of it).
Tie R: a go/types scan of the generator lists every `range` over a map, go statement, select and channel operation; the list must equal
       the allow-list of sites the theorems cover (or that only reach diagnostics). A new or moved site breaks the obligation.
Tie K: the real binary is run repeatedly (each run draws fresh map seeds) with GOMAXPROCS 1 and 16: bytes of all generated Go files,
       exit status and conflict count must be identical."""
import collections
import os
import re
import subprocess

import c10
import cfggen
import gen
import vlib

# site -> how it is covered
SITES = {
    "maprange internal/ast/lexpart.go *LexPart.TokenIds this.TokDefs": "C11_token_ids / C11_token_numbering (keys are sorted)",
    "maprange internal/parser/first/first.go *FirstSets.AddSet terminals": "C11_first_sets",
    "maprange internal/parser/first/symbolset.go SymbolSet.AddSet that": "C11_first_sets",
    "maprange internal/parser/first/symbolset.go SymbolSet.Equal this": "boolean set equality: result is a conjunction over the keys",
    "maprange internal/parser/lr1/items/itemset.go first1 firsts": "C11_lookahead_lists (keys are sorted)",
    "maprange internal/parser/lr1/items/itemset.go *ItemSet.Action conflictMap": "C11_action_and_conflict_count",
    "maprange internal/parser/lr1/items/itemset.go *ItemSet.Equal this.imap": "boolean set equality: result is a conjunction over the keys",
    "maprange internal/lexer/symbols/symbols.go NewSymbols lexpart.Imports": "imports are unreachable from the grammar (always empty map)",
    "maprange internal/ast/lexinline.go *LexPart.InlineRegDefs this.stringLitToks": "copies map entries into another map (insertion order is irrelevant)",
    # diagnostics / report files only (stderr, stdout, LR1_*.txt, first.txt, lexer_sets.txt): outside "generated Go packages"
    "maprange internal/ast/grammar.go consistent defs": "warnings on stderr only",
    "maprange internal/ast/grammar.go consistent used": "warnings on stderr; the error flag is a disjunction over the keys",
    "maprange internal/ast/leximports.go *LexImports.String this.Imports": "String() for reports",
    "maprange internal/ast/lexpart.go *LexPart.String this.TokDefs": "String() for reports",
    "maprange internal/frontend/parser/parser.go *ActionRow.String R.Actions": "String() for diagnostics",
    "maprange internal/frontend/parser/parser.go *Parser.Error P.actTab[P.stack.Top()].Actions": "expected-token list of a front-end error message (stdout)",
    "maprange internal/frontend/parser/parser.go *Parser.newError actRow.Actions": "expected-token list of a front-end error message (stdout)",
    "maprange internal/frontend/token/token.go *TokenMap.Equals this.stringMap": "not called by the generator",
    "maprange internal/frontend/token/token.go *TokenMap.String this.stringMap": "String() for diagnostics",
    "maprange internal/parser/first/symbolset.go SymbolSet.String this": "first.txt report (keys sorted)",
    "maprange internal/parser/lr1/items/itemset.go *ItemSet.String this.Transitions": "LR1_sets.txt report (sorted)",
    "maprange main.go conflictString cnf": "LR1_conflicts.txt report only",
}


def snapshot(d):
    out = {}
    for dp, _, fs in os.walk(d):
        for f in fs:
            if f.endswith(".go"):
                out[os.path.relpath(os.path.join(dp, f), d)] = open(os.path.join(dp, f), "rb").read()
    return out


def run(ctx):
    ctx.check_property_file()
    thorough = ctx.tier == "thorough"
    inv = subprocess.run([os.path.join(vlib.BIN, "maprange"), vlib.REPO], capture_output=True, text=True, env=vlib.GOENV)
    sites = [l for l in inv.stdout.split("\n") if l.strip()]
    new = [s for s in sites if s not in SITES]
    gone = [s for s in SITES if s not in sites]
    ctx.add_obligation("R: the map-range / concurrency inventory of the generator equals the %d sites covered by the model" % len(SITES),
                       inv.returncode == 0 and not new and not gone,
                       "new sites: %s; missing: %s; %s" % (new[:3], gone[:3], inv.stderr[-200:]))
    rng = ctx.rng
    ws = gen.Workspace(ctx)
    first_cases = 0
    first_bad = []
    ngr = 30 if not thorough else 300
    runs_per = 4 if not thorough else 8
    total = 0
    reported = 0
    distinct = set()
    hist = collections.Counter()
    samples = []
    for gi in range(ngr):
        if gi % 3 == 0:
            g, _ = c10.hostile_cfg(rng)
        else:
            g = cfggen.gen_cfg(rng, with_error=(rng.random() < 0.2), max_nt=rng.choice([2, 3, 4, 5]))
        text = cfggen.lex_part(g) + "\n" + c10.syntax_text(g)
        # K: the FIRST-set model of Perm.v (under the identity AND the reversing iteration order) vs the FIRST sets gocc computes
        try:
            import json
            dd = os.path.join(ws.dir, "f%d" % gi)
            os.makedirs(dd, exist_ok=True)
            open(os.path.join(dd, "g.bnf"), "w").write(text)
            dj = json.loads(subprocess.run([ctx.verifdump, "lr", os.path.join(dd, "g.bnf")], capture_output=True, text=True, timeout=60).stdout)
            if dj.get("prods"):
                hx = lambda x: x.encode("utf-8").hex()
                line = " ".join(hx(n) for n in dj["nonterminals"]) + " | " + " ; ".join(
                    " ".join([hx(p["id"])] + [hx(x) for x in (p["body"] or [])]) for p in dj["prods"])
                out = vlib.run_lines([ctx.modelrun, "firstsets"], line + "\n")[0]
                want = ";".join(hx(n) + "=" + ",".join(sorted(hx(a) for a in dj["first"].get(n, []))) for n in dj["nonterminals"])
                first_cases += 1
                a, _, b = out.partition(" # ")
                if a != want or b != want:
                    first_bad.append({"grammar": text, "gocc": want, "model_identity_order": a, "model_reversed_order": b})
        except Exception as e:
            first_bad.append({"grammar": text, "error": repr(e)})
        flags = rng.choice([[], ["-a"], ["-a", "-zip"], ["-a", "-v"], ["-zip"], ["-a", "-debug_parser"], ["-a", "-no_lexer"]])
        outs = []
        for k in range(runs_per):
            name = "g%d/r%d/o" % (gi, k)
            os.makedirs(os.path.join(ws.dir, name), exist_ok=True)
            d = os.path.join(ws.dir, name)
            with open(os.path.join(d, "g.bnf"), "w") as f:
                f.write(text)
            env = dict(os.environ)
            env["GOMAXPROCS"] = "1" if k % 2 == 0 else "16"
            try:
                r = subprocess.run([ctx.gocc] + flags + ["-p", "x/o", "g.bnf"], cwd=d, capture_output=True, timeout=60, env=env)
                rc, so = r.returncode, r.stdout.decode("utf-8", "replace")
            except subprocess.TimeoutExpired:
                rc, so = -9, "TIMEOUT"
            m = re.search(r"(\d+) LR-1 conflicts", so)
            outs.append((rc, m.group(1) if m else "0", snapshot(d)))
            total += 1
        hist["rc%d" % outs[0][0]] += 1
        if outs[0][2]:
            distinct.add(gi)
        for k in range(1, runs_per):
            if outs[k][0] != outs[0][0] or outs[k][1] != outs[0][1] or outs[k][2] != outs[0][2]:
                if reported < 3:
                    diff = [f for f in set(outs[0][2]) | set(outs[k][2]) if outs[0][2].get(f) != outs[k][2].get(f)]
                    ctx.violation({"kind": "property-oracle-on-implementation", "grammar": text, "flags": flags,
                                   "run0": {"exit": outs[0][0], "conflicts": outs[0][1]}, "run%d" % k: {"exit": outs[k][0], "conflicts": outs[k][1]},
                                   "differing_files": diff[:5]})
                    reported += 1
                break
        if len(samples) < 2:
            samples.append({"grammar": text, "flags": flags, "exit": outs[0][0], "files": sorted(outs[0][2])[:6]})
    ctx.add_obligation("K: Perm.first_sets (identity and reversed map order) = gocc's FIRST sets on %d grammars" % first_cases,
                       not first_bad, str(first_bad[:1])[:600])
    for o in ctx.failed_obligations():
        if reported < 6:
            # a changed inventory: the K runs above are the search for a failing input
            ctx.violation({"kind": "proof-obligation-broken", "obligation": o,
                           "note": "no grammar with differing outputs between repeated runs was found on this run"}, found_input=False)
            reported += 1
    ctx.write_evidence("proof", {
        "evaluations": total, "distinct_nontrivial": len(distinct),
        "rule": "random grammars (a third with hostile string literals, a fifth with error alternatives) x a random flag set, each run %d "
                "times alternating GOMAXPROCS 1/16 (every run draws fresh map hash seeds); non-trivial = grammars for which gocc wrote Go "
                "files; distinct grammars" % runs_per,
        "samples": samples, "programs": ngr, "exit_histogram": dict(hist), "inventory": sites,
        "traces_validated_against_impl": total,
    }, ["nothing in the generator is concurrent (inventory: no go statement, channel, select): scheduling and CPU count cannot matter; "
        "this is what the inventory obligation pins to the source", "report files (-v) and console messages are outside the property",
        "map iteration order is modelled as an arbitrary permutation per iteration; Go's runtime randomisation is sampled by the repeated runs"])
