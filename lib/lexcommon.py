"""Shared by the lexer checks (C01, C08, C16): generate lexical grammars, run the real gocc,
compile the generated lexer with the driver, re-read the emitted tables for the model,
run both on the same cases."""
import os
import subprocess
from concurrent.futures import ThreadPoolExecutor

import gen
import lexgen
import vlib


class LexRec:
    pass


def write_table_file(path, rows, acts):
    with open(path, "w") as f:
        f.write("%d\n" % len(rows))
        for row, (acc, ign) in zip(rows, acts):
            f.write("%d %d %d" % (acc, row["default"], len(row["cases"])))
            for (lo, hi, nx) in row["cases"]:
                f.write(" %d %d %d" % (lo, hi, nx))
            f.write("\n")


def prepare_lexers(ctx, grammars, flags=(), ws=None):
    """grammars: list of (LexGrammar, alpha). Returns (records, stats)."""
    ws = ws or gen.Workspace(ctx)
    recs = []
    stats = {"gocc_failed": 0, "gocc_timeout": 0, "build_failed": 0}

    def one(i):
        g, alpha = grammars[i]
        name = "g%d" % i
        rc, out, d = ws.gocc(name, g.text(), flags=flags, timeout=30)
        return i, name, rc, out, d

    with ThreadPoolExecutor(max_workers=16) as ex:
        results = list(ex.map(one, range(len(grammars))))
    for i, name, rc, out, d in results:
        g, alpha = grammars[i]
        if rc == -9:
            stats["gocc_timeout"] += 1
            continue
        if rc != 0 or not os.path.exists(os.path.join(d, "lexer", "transitiontable.go")):
            stats["gocc_failed"] += 1
            continue
        r = LexRec()
        r.g, r.alpha, r.name, r.dir, r.gocc_out = g, alpha, name, d, out
        try:
            r.rows = gen.parse_transtab(os.path.join(d, "lexer", "transitiontable.go"))
            r.acts = gen.parse_acttab(os.path.join(d, "lexer", "acttab.go"))
        except (ValueError, AssertionError) as e:
            # the translator does not understand the emitted table: the obligations about it cannot be discharged
            ctx.add_obligation("R: the emitted lexer tables of %s are in the form the translator reads" % name, False, str(e)[:300])
            stats["gocc_failed"] += 1
            continue
        r.table = os.path.join(d, "dfa.tab")
        write_table_file(r.table, r.rows, r.acts)
        ws.add_driver(name, "lexdrv.go.tmpl")
        recs.append(r)
    bins, log = ws.build()
    out = []
    for r in recs:
        b = bins.get((r.name, "cmd"))
        if b is None:
            stats["build_failed"] += 1
            r.build_log = log
            continue
        r.bin = b
        out.append(r)
    stats["build_log"] = log[-2000:]
    return out, stats, ws


def table_obligations(r):
    """Structural facts the Scan model assumes about the emitted tables."""
    probs = []
    if len(r.rows) != len(r.acts):
        probs.append("transition table has %d states, action table %d" % (len(r.rows), len(r.acts)))
    n = len(r.rows)
    for s, (acc, ign) in enumerate(r.acts):
        if acc == -1 and ign == "":
            probs.append("state %d has neither Accept nor Ignore" % s)
        if acc == 1:
            probs.append("state %d accepts with the reserved end-of-input type 1" % s)
    for s, row in enumerate(r.rows):
        for (lo, hi, nx) in row["cases"]:
            if not (-1 <= nx < n):
                probs.append("state %d: transition target %d out of range" % (s, nx))
        if not (-1 <= row["default"] < n):
            probs.append("state %d: default target out of range" % s)
    return probs


def run_impl(r, cases, timeout=120):
    text = "".join(c + "\n" for c in cases)
    p = subprocess.run([r.bin], input=text, capture_output=True, text=True, timeout=timeout)
    lines = p.stdout.split("\n")
    return [l.strip() for l in lines[:len(cases)]] + ["CRASH"] * max(0, len(cases) - (len(lines) - 1))


def run_model(ctx, r, cases, timeout=300):
    text = "".join(c + "\n" for c in cases)
    p = subprocess.run([ctx.modelrun, "lex", r.table], input=text, capture_output=True, text=True, timeout=timeout)
    lines = p.stdout.split("\n")
    return [l.strip() for l in lines[:len(cases)]] + ["MODEL-CRASH"] * max(0, len(cases) - (len(lines) - 1))


def parse_tokens(out):
    """'t:lit:off:line:col ... | ...' -> list of lists of tuples"""
    groups = []
    for grp in out.split("|"):
        toks = []
        for w in grp.split():
            if w.count(":") != 4:
                toks.append(w)
                continue
            t, lit, off, line, col = w.split(":")
            toks.append((int(t), bytes.fromhex(lit), int(off), int(line), int(col)))
        groups.append(toks)
    return groups
