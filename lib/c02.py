"""C02 — the generated parser accepts exactly the language of a conflict-free grammar.

Proof: Properties/C02.v (Sound + Complete + no panic, for every grammar/tables passing the verified validator).
Tie R: for every conflict-free grammar of the run, gocc's own tables (read from the compiled parser) and item sets/FIRST
       (verifdump lr) are translated to Gallina and `lr_valid` is evaluated by the Coq kernel (vm_compute).
Tie K: compiled parser vs extracted Parse model on the same tables and token sequences.
Oracle: independent Earley recogniser: Parse error == nil  <=>  sentence."""
import collections

import cfggen
import lrcommon
import lrobl
import vlib


def gen_grammars(ctx, n_random, with_error=False):
    gs = [cfggen.family(i) for i in range(len(cfggen.FAMILIES))]
    gs += [cfggen.gen_cfg(ctx.rng, with_error=with_error, max_nt=rng_choice(ctx.rng)) for _ in range(n_random)]
    return gs


def rng_choice(rng):
    return rng.choice([1, 2, 2, 3, 3, 4, 5])


def gen_inputs(g, rng, n, extra_terms=()):
    """token spelling sequences: sentences, mutated sentences, prefixes, empty, random"""
    out = []
    terms = [t for t in g.terms if any(t in b for (_, b, _, _) in g.prods)] or g.terms
    for _ in range(n):
        k = rng.random()
        s = cfggen.gen_sentence(g, rng, budget=rng.choice([2, 4, 8, 12])) or []
        if k < 0.4:
            pass
        elif k < 0.75:
            s = cfggen.mutate(s, terms, rng, extra=extra_terms)
        elif k < 0.85:
            s = s[:rng.randint(0, len(s))]
        elif k < 0.9:
            s = []
        else:
            s = [rng.choice(terms + list(extra_terms)) for _ in range(rng.randint(1, 6))]
        out.append(s)
    return out


def shrink_tokens(toks, bad):
    toks = list(toks)
    changed = True
    while changed and toks:
        changed = False
        for i in range(len(toks)):
            cand = toks[:i] + toks[i + 1:]
            if bad(cand):
                toks, changed = cand, True
                break
    return toks


def norm(line):
    """canonicalise: a hang of the implementation == fuel exhaustion of the model"""
    return "NONTERMINATING" if (line.startswith("HANG") or line.startswith("FUEL")) else line


def run(ctx):
    ctx.check_property_file()
    thorough = ctx.tier == "thorough"
    ncand = 140 if not thorough else 1500
    ninp = 150 if not thorough else 400
    cands = gen_grammars(ctx, ncand)
    # only grammars gocc reports conflict-free and without error alternatives are the subject of C02
    cands = [g for g in cands if not g.has_error()]
    recs, stats, ws = lrcommon.prepare_parsers(ctx, cands, flags=[])
    recs = [r for r in recs if r.bin]
    maxg = 40 if not thorough else 500
    recs = recs[:maxg]
    res, errs = lrobl.check_all(recs, lrobl.LR_CHECKS + [lrobl.X_CHECK], "c02")
    n_term = 0
    reported = 0
    long_inputs = 0
    total = 0
    distinct = set()
    verdicts = collections.Counter()
    disagreements = 0
    samples = []
    for r in recs:
        rr = dict(res.get(r.name, {}))
        xc = rr.pop("xc", False)
        n_term += 1 if xc else 0
        ok = all(rr.values()) and bool(rr)
        ctx.add_obligation("R: lr_valid(gocc's tables for %s) = true by vm_compute" % r.name, ok, str(res.get(r.name)) + str(errs[:1]))
        gc = lrcommon.gen_compare(ctx, r)
        ctx.add_obligation("K: model generator (LR/Gen.v) = gocc on %s (states, item order, transitions, compiled action/goto rows)" % r.name,
                           gc is None, str(gc))
        ea = cfggen.Earley(r.g)
        inputs = gen_inputs(r.g, ctx.rng, ninp, extra_terms=["zz"])
        cases = [lrcommon.encode_case(r, [(s, None, False)]) for s in inputs]
        go = [norm(x) for x in lrcommon.run_impl(r, cases)]
        mo = [norm(x) for x in lrcommon.run_model(ctx, r, cases)]
        # long inputs (about 1500 tokens: deep stacks for right recursion and nesting, long lists for left recursion), sentences by
        # construction, each with a near miss; compared without trees (BRIEF); Earley is not run on them
        known = {}
        got_long = 0
        for _ in range(8):
            if got_long >= 2:
                break
            ls = cfggen.gen_long_sentence(r.g, ctx.rng, 1500)
            if ls and len(ls) >= 400:
                got_long += 1
                miss = list(ls)
                miss[ctx.rng.randrange(len(miss))] = "zz"
                for (q, v) in ((ls, True), (miss, False)):
                    known[len(inputs)] = v
                    inputs.append(q)
                    cases.append("BRIEF " + lrcommon.encode_case(r, [(q, None, False)]))
        if known:
            k0 = min(known)
            go += [norm(x) for x in lrcommon.run_impl(r, cases[k0:])]
            mo += [norm(x) for x in lrcommon.run_model(ctx, r, cases[k0:], fuel=400000)]
            long_inputs += len(known)
        for si, (s, c, gline, mline) in enumerate(zip(inputs, cases, go, mo)):
            total += 1
            is_sent = known[si] if si in known else (("zz" not in s) and ea.accepts(s))
            accepted = gline.startswith("OK")
            verdicts[("sentence" if is_sent else "non-sentence") + ("/accepted" if accepted else "/" + gline.split(" ")[0])] += 1
            if len(s) >= 3:
                distinct.add((r.name, tuple(s)))
            bad_prop = (accepted != is_sent) or gline.startswith("PANIC") or gline.startswith("NONTERM") or gline.startswith("CRASH")
            if bad_prop and reported < 3 and si in known:
                ctx.violation({"kind": "property-oracle-on-implementation", "grammar": r.text, "gocc_flags": r.flags,
                               "tokens": "%d tokens (sentence by construction: %s), token types: %s" % (len(s), is_sent, c[:60000]),
                               "parser_output": gline[:300]})
                reported += 1
            elif bad_prop and reported < 3:
                def bad(t, r=r, ea=ea):
                    o = norm(lrcommon.run_impl(r, [lrcommon.encode_case(r, [(t, None, False)])])[0])
                    sent = ("zz" not in t) and ea.accepts(t)
                    return (o.startswith("OK") != sent) or o.startswith(("PANIC", "NONTERM", "CRASH"))
                small = shrink_tokens(s, bad)
                o = lrcommon.run_impl(r, [lrcommon.encode_case(r, [(small, None, False)])])[0]
                ctx.violation({"kind": "property-oracle-on-implementation", "grammar": r.text, "gocc_flags": r.flags,
                               "tokens": small, "is_sentence(Earley)": ("zz" not in small) and ea.accepts(small),
                               "parser_output": o})
                reported += 1
            elif gline != mline:
                disagreements += 1
                if reported < 3:
                    def bad2(t, r=r):
                        c2 = [lrcommon.encode_case(r, [(t, None, False)])]
                        return norm(lrcommon.run_impl(r, c2)[0]) != norm(lrcommon.run_model(ctx, r, c2)[0])
                    small = shrink_tokens(s, bad2)
                    c2 = [lrcommon.encode_case(r, [(small, None, False)])]
                    ctx.violation({"kind": "correspondence-broken",
                                   "correspondence": "generated parser.Parse vs LR/Parse.v (theorems C02_* are about the model)",
                                   "grammar": r.text, "tokens": small, "go": lrcommon.run_impl(r, c2)[0],
                                   "model": lrcommon.run_model(ctx, r, c2)[0]}, found_input=False)
                    reported += 1
        if len(samples) < 3:
            samples.append({"grammar": r.text, "tokens": inputs[0], "parser": go[0]})
    for o in ctx.failed_obligations():
        # a broken obligation: search for a failing input was done above (every grammar's K and Earley oracle ran)
        if reported < 6:
            ctx.violation({"kind": "proof-obligation-broken", "obligation": o,
                           "note": "no failing token sequence was found by the Earley oracle on this run's inputs"}, found_input=False)
            reported += 1
    ctx.write_evidence("proof", {
        "evaluations": total,
        "distinct_nontrivial": len(distinct),
        "rule": "random CFGs (1-5 nonterminals, 1-5 terminals incl. string literals, bodies 0-4, empty alternatives, left/right/mutual "
                "recursion, unreachable/unproductive nonterminals) + seeded families; kept when gocc exits 0 without -a (conflict-free); "
                "token sequences: 40% random derivations, 35% token-level edits of them, 10% prefixes, 5% empty, 10% random, with an "
                "unknown terminal (delivered as INVALID) in the edit pool; plus, per grammar, up to two sentences of about 1500 tokens built by "
                "iterated recursion (deep stacks / long lists) with a near miss each; non-trivial = at least 3 tokens; distinct by (grammar, sequence)",
        "long_inputs": long_inputs,
        "samples": samples,
        "programs": len(recs),
        "candidate_grammars": len(cands),
        "gocc_stats": {k: v for k, v in stats.items() if k != "build_log"},
        "verdict_histogram": dict(verdicts),
        "traces_validated_against_impl": total,
        "disagreements": disagreements,
        "termination_theorem_instantiated_for": n_term,
        "partial": "C02_parse_terminates needs x_checks (canonicity + reachable nonterminals productive): instantiated for %d of %d grammars "
                   "of this run; for the others (reachable unproductive nonterminals, no sentences at all) termination on non-sentences is "
                   "covered by the correspondence run only" % (n_term, len(recs)),
    }, [
        "the generated Parse loop is modelled by hand (LR/Parse.v), tied by differential testing; tables are read from the compiled parser "
        "through an injected dump function in the scratch copy of the generated package",
        "'for all grammars' holds for the validator's theorems; gocc is tied to them grammar by grammar (validator run by the Coq kernel "
        "on gocc's own item sets/tables for the grammars of this run)",
        "text/template, Go compiler and runtime trusted",
    ])
