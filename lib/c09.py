"""C09 — gocc always terminates, and status zero means complete, compilable output.

What Rocq carries: termination of the MODELLED generator algorithms is by construction (structural / fuelled definitions with fuel
adequacy proved: Ranges.add_range, Md.load_md, FScan.fscan_all (totality theorem), Perm.first_sets rounds, LR validation); the obligation
list names them. The rest of the property lives in text/template, go/format, the Go compiler and the OS: explored, not proved.
Exploration: the real binary under a wall-clock limit on well-formed grammars with hostile spellings and on byte-level mutations of
them, times flag subsets; on status 0 the expected file set must exist and `go build ./...` of the output must succeed."""
import collections
import os
import subprocess
from concurrent.futures import ThreadPoolExecutor

import c10
import cfggen
import gen
import vlib

HOSTILE_LITS = ['"a\\"b"', '"`"', '"\\\\"', '"é€"', '"//"', '"/*"', '"*/"', '"%d%s%%"', '"{{.}}"', '"a b"', "`x\"y`", '"\\n"', '"\'"',
                "`a\nb`", "`a\nb\nc\n`", "`\r\n\r\n`", '"a\x00b"', '"\ufeffx"', '"}}"', '"\\x41"', '"$0"', '"<<"', '">>"', '"\t"', "`\\`", '"𝒳"', '"=\\""', '"\\""', "`=\\\"`"]
HOSTILE_IDS = ["type", "func", "package", "import", "nil", "true", "int", "string", "token", "lexer", "parser", "x_1", "aB9"]
ACTIONS = ['<< X[0], nil >>', '<< "`", nil >>', '<< "*/ %d {{", nil >>', "<< '\\'', nil >>", '<< []byte("a\\"b"), nil >>',
           '<< map[string]int{"a": 1}, nil >>', '<< func() interface{} { return 1 }(), nil >>', '<< nil, nil >>', '<< $0, nil >>']
FLAGSETS = [[], ["-a"], ["-a", "-zip"], ["-a", "-no_lexer"], ["-a", "-debug_lexer"], ["-a", "-debug_parser"], ["-a", "-v"],
            ["-a", "-zip", "-debug_lexer", "-debug_parser", "-v"], ["-a", "-o", "out/sub"], ["-a", "-p", "x/custom/pkg"], ["-zip", "-v"]]


def hostile_grammar(rng, idx=None):
    nlit = rng.randint(1, 4)
    lits = rng.sample(HOSTILE_LITS, nlit)
    if idx is not None:
        # every hostile spelling is exercised in every run, whatever the seed
        forced = HOSTILE_LITS[idx % len(HOSTILE_LITS)]
        if forced not in lits:
            lits.append(forced)
    ids = rng.sample(HOSTILE_IDS, rng.randint(1, 3))
    lex = ["!ws : ' ' | '\\t' | '\\n' ;"]
    for t in ids:
        lex.append("%s : %s ;" % (t, " ".join("'%s'" % c for c in t)))
    if rng.random() < 0.4:
        lex.append("_d : '0'-'9' ;")
        lex.append("num : _d { _d } ;")
        ids.append("num")
    if rng.random() < 0.3:
        lex.append("any : '\\u00e9' . ['\\''] { '\\\\' | '\"' } ;")
        ids.append("any")
    syms = ids + lits
    prods = []
    nts = ["S", "A"]
    for nt in nts:
        alts = []
        for _ in range(rng.randint(1, 3)):
            body = [rng.choice(syms + (["A"] if nt == "S" else [])) for _ in range(rng.randint(1, 3))]
            alts.append(" ".join(body) + " " + rng.choice(ACTIONS + ["", ""]))
        if rng.random() < 0.3:
            alts.append("empty")
        prods.append("%s : %s ;" % (nt, "\n  | ".join(alts)))
    if "A" not in prods[0]:
        prods[0] = prods[0].replace(" ;", " | A ;", 1) if prods[0].endswith(" ;") else prods[0]
    return "\n".join(lex) + "\n\n" + "\n".join(prods) + "\n"


def mutate_bytes(b, rng):
    """byte-level damage OUTSIDE the << >> action expressions (the property presupposes valid Go in header and actions)"""
    import re
    b = bytearray(b)
    pool = b"'\"`\\{}[]()|;:./*-\n\x00\xff\xc3 aZ_!9"
    for _ in range(rng.choice([1, 1, 2, 4])):
        protected = set()
        for m in re.finditer(rb"<<.*?>>", bytes(b), flags=re.S):
            protected.update(range(m.start() - 1, m.end() + 1))
        free = [i for i in range(len(b)) if i not in protected]
        if not free:
            break
        i = rng.choice(free)
        k = rng.random()
        if k < 0.3:
            del b[i]
        elif k < 0.6:
            b.insert(i, rng.choice(pool))
        else:
            b[i] = rng.choice(pool)
    return bytes(b)


def expected_dirs(flags, has_syntax):
    want = ["token", "util"]
    if "-no_lexer" not in flags:
        want.append("lexer")
    if has_syntax:
        want += ["parser", "errors"]
    return want


def run(ctx):
    ctx.check_property_file()
    thorough = ctx.tier == "thorough"
    rng = ctx.rng
    ws = gen.Workspace(ctx)
    jobs = []
    n_well = 30 if not thorough else 400
    n_mut = 90 if not thorough else 3000
    for i in range(n_well):
        text = hostile_grammar(rng, i).encode()
        jobs.append(("well%d" % i, text, FLAGSETS[i % len(FLAGSETS)] if i >= len(HOSTILE_LITS) else rng.choice([[], ["-a"], ["-a", "-v"]]), True))
    for i in range(n_mut):
        base = hostile_grammar(rng).encode() if rng.random() < 0.5 else (cfggen.lex_part(cfggen.family(i)) + c10.syntax_text(cfggen.family(i))).encode()
        jobs.append(("mut%d" % i, mutate_bytes(base, rng), rng.choice(FLAGSETS), False))
    # the two grammars that used to hang gocc (fixed defect) run on every check
    jobs.append(("hang0", b"t : { [ 'a' ] } 'b' ;\n", [], True))
    jobs.append(("hang1", b"t : 'c' { { 'a' } } 'b' ;\nS : t ;\n", ["-a"], True))

    def one(job):
        name, text, flags, well = job
        rc, out, d = ws.gocc(name, text, flags=flags, timeout=30)
        return job, rc, out, d

    with ThreadPoolExecutor(max_workers=16) as ex:
        results = list(ex.map(one, jobs))
    hist = collections.Counter()
    reported = 0
    to_build = []
    for (name, text, flags, well), rc, out, d in results:
        hist[("well" if well else "mutated") + "/rc=%s" % ("timeout" if rc == -9 else rc)] += 1
        if rc == -9:
            if reported < 3:
                ctx.violation({"kind": "property-oracle-on-implementation", "grammar_bytes": repr(text), "flags": flags,
                               "reason": "gocc did not terminate within 30 s"})
                reported += 1
            continue
        if rc == 0:
            outdir = d
            if "-o" in flags:
                outdir = os.path.join(d, flags[flags.index("-o") + 1])
            has_syntax = os.path.isdir(os.path.join(outdir, "parser")) or b"S :" in text
            missing = [s for s in expected_dirs(flags, os.path.isdir(os.path.join(outdir, "parser")))
                       if not any(f.endswith(".go") and os.path.getsize(os.path.join(outdir, s, f)) > 0
                                  for f in (os.listdir(os.path.join(outdir, s)) if os.path.isdir(os.path.join(outdir, s)) else []))]
            if missing:
                if reported < 3:
                    ctx.violation({"kind": "property-oracle-on-implementation", "grammar_bytes": repr(text), "flags": flags,
                                   "reason": "exit status 0 but packages missing or empty: %s" % missing, "gocc_output": out[-300:]})
                    reported += 1
                continue
            if "-p" not in flags:
                to_build.append((name, text, flags, d))

    def build(item):
        name, text, flags, d = item
        p = subprocess.run(["go", "build", "./..."], cwd=d, env=vlib.GOENV, capture_output=True, text=True, timeout=600)
        return item, p.returncode, (p.stdout + p.stderr)[-600:]

    built = 0
    with ThreadPoolExecutor(max_workers=16) as ex:
        for (name, text, flags, d), rc, log in ex.map(build, to_build):
            built += 1
            if rc != 0 and reported < 3:
                ctx.violation({"kind": "property-oracle-on-implementation", "grammar_bytes": repr(text), "grammar": text.decode("utf-8", "replace"),
                               "flags": flags, "reason": "exit status 0 but the generated packages do not compile", "go_build": log})
                reported += 1
    for o in ctx.failed_obligations():
        if reported < 6:
            ctx.violation({"kind": "proof-obligation-broken", "obligation": o}, found_input=False)
            reported += 1
    ctx.write_evidence("other", {
        "explanation": "Partial. Proved: termination of the modelled generator algorithms (they are total Gallina functions; fuel adequacy proved "
                       "where fuel is used) — see the obligation list. Not provable with this technique: that text/template, go/format, the Go "
                       "compiler and the file system accept/produce the emitted files; explored by running the real binary on hostile and "
                       "mutated grammar files under a time limit and compiling every output produced with status 0.",
        "evaluations": len(jobs), "distinct_nontrivial": built,
        "rule": "well-formed grammars with hostile spellings (quotes, back-quotes, backslashes, newlines in raw strings, comment openers, "
                "printf/template verbs, non-ASCII, Go keywords as token names, hostile action expressions) and byte-level mutations of grammar "
                "files, each with a flag set out of 11 (-a -zip -no_lexer -debug_lexer -debug_parser -v -o sub/dir -p pkg); non-trivial = runs "
                "that ended with status 0 and whose output was compiled",
        "samples": [repr(jobs[0][1][:300]), repr(jobs[n_well][1][:200])], "outcome_histogram": dict(hist), "outputs_compiled": built,
    }, ["headers and action expressions of the generated grammars are valid Go", "a 30 s wall-clock limit stands for 'terminates'"])
