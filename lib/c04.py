"""C04 — LR(1) conflicts are reported exactly when the grammar is not LR(1).

Proof: Properties/C04.v (the dumped automaton is the canonical LR(1) collection; reports > 0 <=> canonical conflict; panic <=> accept conflict).
Tie R: auto_valid(grammar, item sets in gocc order, transitions, nullable, FIRST) and gocc_reports are evaluated by the Coq kernel on
       gocc's dump for every grammar of the run (verifdump lr); gocc_reports must equal the count gocc prints.
Tie K: the real binary, with and without -a: the line 'N LR-1 conflicts', the exit status (non-zero without -a iff N > 0; zero with -a;
       non-zero in both modes iff the model says resolution is refused = accept conflict).
Oracle: an independent (untrusted) Python canonical LR(1) construction: conflict existence and accept conflicts."""
import collections
import hashlib
import os
import re
import subprocess
from concurrent.futures import ThreadPoolExecutor

import c02
import cfggen
import lrcommon
import lrobl
import pylr
import vlib


def emit(r, name):
    d = r.dump
    terms, nts = d["terminals"], d["nonterminals"]
    ti = {n: i for i, n in enumerate(terms)}
    ni = {n: i for i, n in enumerate(nts)}
    g, items, nullable, first = lrobl.model_terms(r)
    cl = lrobl.coq_list
    gtxt = cl(["{| lhs := %d; rhs := %s |}" % (l, cl(["%s %d" % s for s in rhs])) for (l, rhs) in g])
    an = "{| a_items := %s;\n  a_nullable := %s;\n  a_first := %s |}" % (
        cl([cl(["(%d,%d,%d)" % it for it in its]) for its in items]),
        cl(["true" if b else "false" for b in nullable]), cl([cl([str(a) for a in f]) for f in first]))

    def s2(x):
        return ("NT %d" % ni[x]) if x in ni else ("T %d" % ti[x])
    tr = cl([cl(["(%s, %d)" % (s2(x), t) for x, t in sorted(st["trans"].items())]) for st in d["states"]])
    return ("Definition g_%s : grammar := %s.\nDefinition an_%s : annot := %s.\nDefinition tr_%s : transitions := %s.\n"
            "Definition nt_%s := %d.\n" % (name, gtxt, name, an, name, tr, name, len(terms)))


def coq_batch(batch):
    os.makedirs(lrobl.WORK, exist_ok=True)
    h = hashlib.sha1("".join(r.name for r in batch).encode()).hexdigest()[:10]
    path = os.path.join(lrobl.WORK, "C04_%s.v" % h)
    with open(path, "w") as f:
        f.write("From Coq Require Import List ZArith Bool.\nFrom Gocc Require Import LR.Parse LR.Validate LR.Canonical.\nImport ListNotations.\n")
        for r in batch:
            f.write(emit(r, r.name))
            f.write("Definition v_%s := Eval vm_compute in (auto_valid g_%s nt_%s an_%s tr_%s, gocc_reports g_%s nt_%s an_%s tr_%s).\n"
                    "Print v_%s.\n" % ((r.name,) * 10))
    p = subprocess.run(["coqc", "-Q", os.path.join(vlib.COQ, "theories"), "Gocc", path], capture_output=True, text=True, cwd=lrobl.WORK, timeout=900)
    res = {}
    for m in re.finditer(r"v_(\w+) = \((true|false), (None|Some (\d+))\)", p.stdout.replace("\n", " ")):
        res[m.group(1)] = (m.group(2) == "true", None if m.group(3) == "None" else int(m.group(4)))
    for ext in (".v", ".vo", ".glob", ".vok", ".vos"):
        try:
            os.remove(path[:-2] + ext)
        except OSError:
            pass
    return res, (p.stderr[-500:] if p.returncode else "")


def py_conflicts(g):
    """untrusted oracle: (has_conflict, has_accept_conflict) of the canonical LR(1) collection"""
    prods = [("S'", [g.nts[0]])] + [(l, (["error"] + b) if k == "error" else b) for (l, b, k, a) in g.prods]
    nts = set(g.nts) | {"S'"}
    nullable, first = pylr.nullable_first(prods, nts)
    by = {}
    for i, (l, b) in enumerate(prods):
        by.setdefault(l, []).append(i)
    syms = []
    for (l, b) in prods:
        for s in [l] + b:
            if s not in syms:
                syms.append(s)
    states = [pylr.closure([(0, 0, "␚")], prods, nts, nullable, first, by)]
    seen = {frozenset(states[0]): 0}
    i = 0
    conflict = accept_conflict = False
    while i < len(states):
        I = states[i]
        i += 1
        cands = collections.defaultdict(set)
        for (p, k, la) in I:
            body = prods[p][1]
            if k >= len(body):
                cands[la].add("accept" if (p == 0 and la == "␚") else "reduce %d" % p)
            elif body[k] not in nts:
                cands[body[k]].add("shift")
        for a, cs in cands.items():
            if len(cs) > 1:
                conflict = True
                if "accept" in cs:
                    accept_conflict = True
        for X in syms:
            J = pylr.goto(I, X, prods, nts, nullable, first, by)
            if J and frozenset(J) not in seen:
                seen[frozenset(J)] = len(states)
                states.append(J)
        if len(states) > 3000:
            return None
    return conflict, accept_conflict


def run(ctx):
    ctx.check_property_file()
    thorough = ctx.tier == "thorough"
    cands = c02.gen_grammars(ctx, 110 if not thorough else 1200, with_error=False)
    cands += [cfggen.CFG(["S", "B"], ['"a"'], [("S", ["B"], "normal", None), ("B", ["S"], "normal", None), ("B", ['"a"'], "normal", None)]),
              cfggen.CFG(["S"], ["a"], [("S", ["S"], "normal", None), ("S", ["a"], "normal", None)]),
              cfggen.CFG(["S"], ["a"], [("S", ["a"], "normal", "N"), ("S", ["a"], "normal", "N")])]
    recs, stats, ws = lrcommon.prepare_parsers(ctx, cands, flags=[], build=False)
    recs_a, stats_a, ws_a = lrcommon.prepare_parsers(ctx, cands, flags=["-a"], build=False, prefix="a")
    usable = [(r, ra) for r, ra in zip(recs, recs_a) if "states" in r.dump and r.rc != -9]
    batches = [usable[i:i + 6] for i in range(0, len(usable), 6)]
    res = {}
    errs = []
    with ThreadPoolExecutor(max_workers=14) as ex:
        for rr, e in ex.map(lambda b: coq_batch([r for r, _ in b]), batches):
            res.update(rr)
            if e:
                errs.append(e)
    hist = collections.Counter()
    reported = 0
    total = 0
    distinct = set()
    samples = []
    bad_obl = []
    for r, ra in usable:
        total += 1
        v = res.get(r.name)
        m = re.search(r"(\d+) LR-1 conflicts", r.gocc_out)
        printed = int(m.group(1)) if m else 0
        ma = re.search(r"(\d+) LR-1 conflicts", ra.gocc_out)
        printed_a = int(ma.group(1)) if ma else 0
        panicked = "panic" in r.gocc_out
        panicked_a = "panic" in ra.gocc_out
        kind = "refused" if panicked else ("conflicts" if printed else "clean")
        hist[kind] += 1
        if len(r.dump["states"]) > 3:
            distinct.add(r.name)
        oracle = py_conflicts(r.g)
        why = None
        if oracle is not None:
            has_c, has_acc = oracle
            if has_acc and not (panicked and panicked_a and r.rc != 0 and ra.rc != 0):
                why = "the canonical automaton has an accept conflict but gocc did not refuse the grammar in both modes"
            elif not has_acc and (panicked or panicked_a):
                why = "gocc refused (panic) although no accept conflict exists"
            elif not has_acc and has_c != (printed > 0):
                why = "canonical automaton %s a conflict, gocc announces %d" % ("has" if has_c else "has no", printed)
            elif not has_acc and printed != printed_a:
                why = "conflict count differs with -a (%d vs %d)" % (printed, printed_a)
            elif not has_acc and ((r.rc != 0) != (printed > 0)):
                why = "exit status %d without -a with %d conflicts announced" % (r.rc, printed)
            elif not has_acc and ra.rc != 0:
                why = "exit status %d with -a (conflicts %d)" % (ra.rc, printed_a)
        if why and reported < 3:
            ctx.violation({"kind": "property-oracle-on-implementation", "grammar": r.text, "reason": why, "gocc_output": r.gocc_out[:300],
                           "gocc_-a_output": ra.gocc_out[:300], "exit": r.rc, "exit_-a": ra.rc})
            reported += 1
        # R obligations
        if v is None:
            bad_obl.append("%s: coqc gave no result %s" % (r.name, errs[:1]))
        else:
            valid, reports = v
            want = None if panicked else printed
            if not valid or reports != want:
                bad_obl.append("%s: auto_valid=%s gocc_reports=%s, gocc printed %s" % (r.name, valid, reports, "panic" if panicked else printed))
                if reported < 3 and not why:
                    ctx.violation({"kind": "proof-obligation-broken", "obligation": "auto_valid / gocc_reports on gocc's dump",
                                   "grammar": r.text, "auto_valid": valid, "gocc_reports(model)": reports,
                                   "gocc_printed": "panic" if panicked else printed,
                                   "note": "the independent canonical construction agrees with gocc's announcement for this grammar"},
                                  found_input=False)
                    reported += 1
        if len(samples) < 3 and printed:
            samples.append({"grammar": r.text, "gocc": r.gocc_out.split("\n")[0], "exit": r.rc, "exit_with_-a": ra.rc})
    gen_bad = []
    exit_bad = []
    for r, ra in usable:
        gc = lrcommon.gen_compare(ctx, r)
        if gc is not None:
            gen_bad.append("%s: %s" % (r.name, gc))
        # K: the exit status GenAuto.gocc_exit predicts (C04_every_grammar_exit_status) = the binary's, without and with -a
        lrcommon.gen_compare(ctx, r, auto=True)
        me = getattr(r, "model_exit", None)
        if me is None or me != (r.rc, ra.rc):
            exit_bad.append("%s: model predicts exit %s (plain, -a), gocc exits (%s, %s)" % (r.name, me, r.rc, ra.rc))
    ctx.add_obligation("K: GenAuto.gocc_exit (exit status decided by the syntax part, C04_every_grammar_exit_status) = the binary's exit status "
                       "without and with -a on %d grammars" % len(usable), not exit_bad, "; ".join(exit_bad[:3])[:600])
    ctx.add_obligation("K: model generator (LR/Gen.v; succeeds iff no canonical LR(1) conflict: C02_generator_succeeds_iff_LR1) = gocc on %d "
                       "grammars (automaton, conflict-state count)" % len(usable), not gen_bad, "; ".join(gen_bad[:2])[:600])
    ctx.add_obligation("R: auto_valid = true and gocc_reports = announced count (by vm_compute) for %d dumped automata" % len(usable),
                       not bad_obl, "; ".join(bad_obl[:3]))
    for o in ctx.failed_obligations():
        if reported < 6 and not o["name"].startswith("R: auto_valid"):
            ctx.violation({"kind": "proof-obligation-broken", "obligation": o}, found_input=False)
            reported += 1
    ctx.write_evidence("proof", {
        "evaluations": 2 * total, "distinct_nontrivial": len(distinct),
        "rule": "random/seeded grammars of all classes (conflict-free, shift/reduce, reduce/reduce, duplicate alternatives, start symbol "
                "deriving itself) processed with and without -a; non-trivial = automaton with more than 3 states; distinct grammars",
        "samples": samples, "programs": total, "class_histogram": dict(hist),
        "traces_validated_against_impl": 2 * total,
    }, ["the exit status as a function of the conflict count is read off main.go and checked on the binary, not proved",
        "the Python canonical construction is an untrusted oracle used to label disagreements; the kernel-checked certificate is auto_valid"])
