"""C08 — token positions are exact and lexemes tile the input.

Proof: Properties/C08.v over Lex/Scan.v (all DFAs, all byte strings, all prefixes of the token stream).
Tie K: real generated lexers (gocc from the working tree, compiled) vs the extracted Scan model on the tables
re-read from the emitted transitiontable.go / acttab.go, same inputs; Utf8.decode_rune vs utf8.DecodeRune.
Oracle: offsets/lines/columns/tiling recomputed from the source bytes and the Go token list alone."""
import collections
import json
import os

import lexcommon
import lexgen
import vlib


def decode_rune(b, i):
    """Python mirror of utf8.DecodeRune (only used by the oracle)."""
    b0 = b[i]
    n = len(b)
    if b0 < 0x80:
        return b0, 1
    def cont(x):
        return 0x80 <= x <= 0xBF
    if 0xC2 <= b0 <= 0xDF:
        if i + 1 < n and cont(b[i + 1]):
            return ((b0 - 0xC0) << 6) | (b[i + 1] - 0x80), 2
        return 0xFFFD, 1
    if 0xE0 <= b0 <= 0xEF:
        lo = 0xA0 if b0 == 0xE0 else 0x80
        hi = 0x9F if b0 == 0xED else 0xBF
        if i + 2 < n and lo <= b[i + 1] <= hi and cont(b[i + 2]):
            return ((b0 - 0xE0) << 12) | ((b[i + 1] - 0x80) << 6) | (b[i + 2] - 0x80), 3
        return 0xFFFD, 1
    if 0xF0 <= b0 <= 0xF4:
        lo = 0x90 if b0 == 0xF0 else 0x80
        hi = 0x8F if b0 == 0xF4 else 0xBF
        if i + 3 < n and lo <= b[i + 1] <= hi and cont(b[i + 2]) and cont(b[i + 3]):
            return ((b0 - 0xF0) << 18) | ((b[i + 1] - 0x80) << 12) | ((b[i + 2] - 0x80) << 6) | (b[i + 3] - 0x80), 4
        return 0xFFFD, 1
    return 0xFFFD, 1


def positions(src):
    """offset -> (line, col) for every rune boundary, per the property's definition."""
    pos = {}
    i, line, col = 0, 1, 1
    while True:
        pos[i] = (line, col)
        if i >= len(src):
            break
        r, sz = decode_rune(src, i)
        i += sz
        if r == 10:
            line += 1
            col = 1
        elif r == 13:
            col = 1
        elif r == 9:
            col += 4
        else:
            col += 1
    return pos


def oracle(src, toks, has_ignored):
    """Property C08 evaluated on the implementation's token list for src (tokens until EOF + repeats)."""
    pos = positions(src)
    prev_end = 0
    seen_eof = False
    for t in toks:
        if not isinstance(t, tuple):
            return "lexer output %r" % (t,)
        ty, lit, off, line, col = t
        if seen_eof:
            if ty != 1 or lit != b"" or off != len(src) or (line, col) != pos[len(src)]:
                return "call after end of input returned %r" % (t,)
            continue
        if off < prev_end:
            return "token at offset %d overlaps/reorders (previous lexeme ended at %d)" % (off, prev_end)
        if off > prev_end and not has_ignored:
            return "gap [%d,%d) although the grammar has no ignored token" % (prev_end, off)
        if src[off:off + len(lit)] != lit:
            return "literal %r is not the input bytes at offset %d" % (lit, off)
        if off not in pos:
            return "offset %d is not a rune boundary" % off
        if pos[off] != (line, col):
            return "token at offset %d reports line %d column %d, expected %d:%d" % (off, line, col, pos[off][0], pos[off][1])
        prev_end = off + len(lit)
        if ty == 1:
            seen_eof = True
            if off != len(src) or lit != b"":
                return "EOF token at offset %d (input length %d)" % (off, len(src))
    if not seen_eof:
        return "no EOF token within len(src)+6 calls"
    return None


def shrink_bytes(src, bad):
    src = bytes(src)
    changed = True
    while changed and len(src) > 0:
        changed = False
        for i in range(len(src)):
            cand = src[:i] + src[i + 1:]
            if bad(cand):
                src, changed = cand, True
                break
    return src


def utf8_cases(rng, thorough):
    cases = []
    for b0 in range(256):
        cases.append(bytes([b0]))
    for b0 in range(0x80, 256):
        for b1 in range(256):
            cases.append(bytes([b0, b1]))
    edge = [0x00, 0x7F, 0x80, 0x8F, 0x90, 0x9F, 0xA0, 0xBF, 0xC0, 0xFF]
    for b0 in range(0xE0, 0xF8):
        for b1 in edge:
            for b2 in edge:
                cases.append(bytes([b0, b1, b2]))
                if b0 >= 0xF0:
                    for b3 in edge:
                        cases.append(bytes([b0, b1, b2, b3]))
    for _ in range(200000 if thorough else 20000):
        n = rng.choice([1, 2, 3, 4, 5])
        cases.append(bytes(rng.choice([rng.randrange(256), rng.randrange(0x80, 0xC0), rng.randrange(0xC0, 0x100)]) for _ in range(n)))
    return cases


def check_utf8(ctx):
    cases = utf8_cases(ctx.rng, ctx.tier == "thorough")
    text = "".join(c.hex() + "\n" for c in cases)
    go = vlib.run_lines([ctx.verifdump, "utf8"], text)
    mo = vlib.run_lines([ctx.modelrun, "utf8"], text)
    bad = [(c.hex(), g, m) for c, g, m in zip(cases, go, mo) if g != m]
    ctx.add_obligation("K: Utf8.decode_rune = utf8.DecodeRune on %d byte strings (all 1-,2-byte; 3/4-byte grid; random)" % len(cases),
                       not bad, str(bad[:3]))
    return len(cases), bad


def run(ctx):
    ctx.check_property_file()
    thorough = ctx.tier == "thorough"
    nutf, utf_bad = check_utf8(ctx)
    ngram = 40 if not thorough else 400
    ninp = 200 if not thorough else 500
    grammars = [lexgen.gen_lex_grammar(ctx.rng) for _ in range(ngram)]
    recs, stats, ws = lexcommon.prepare_lexers(ctx, grammars)
    total = 0
    distinct = set()
    outcome = collections.Counter()
    size_hist = collections.Counter()
    samples = []
    disagreements = 0
    reported = 0
    for r in recs:
        probs = lexcommon.table_obligations(r)
        ctx.add_obligation("R: emitted lexer tables of %s well-formed" % r.name, not probs, "; ".join(probs[:3]))
        walker = lexgen.make_walker(r.rows, r.acts, None)
        inputs = [lexgen.gen_input(ctx.rng, r.alpha, walker) for _ in range(ninp)]
        cases = ["N%s A" % s.hex() for s in inputs]
        go = lexcommon.run_impl(r, cases)
        mo = lexcommon.run_model(ctx, r, cases)
        has_ignored = any(n.startswith("!") for (n, _) in r.g.prods)
        for src, c, g, m in zip(inputs, cases, go, mo):
            total += 1
            size_hist[min(len(src) // 8 * 8, 64)] += 1
            toks = lexcommon.parse_tokens(g)[1] if "|" in g else [g]
            kinds = set(t[0] for t in toks if isinstance(t, tuple))
            nl = any(b in src for b in b"\n\r\t") or any(b >= 0x80 for b in src)
            for k in kinds:
                outcome["INVALID" if k == 0 else "EOF" if k == 1 else "token"] += 1
            if len(toks) > 4 and nl:
                distinct.add((r.name, src))
            why = oracle(src, toks, has_ignored)
            if why is not None:
                if reported < 3:
                    def bad(s, r=r, has_ignored=has_ignored):
                        o = lexcommon.run_impl(r, ["N%s A" % s.hex()])[0]
                        return oracle(s, lexcommon.parse_tokens(o)[1] if "|" in o else [o], has_ignored) is not None
                    small = shrink_bytes(src, bad)
                    o = lexcommon.run_impl(r, ["N%s A" % small.hex()])[0]
                    ctx.violation({"kind": "property-oracle-on-implementation", "grammar": r.g.text(), "input_hex": small.hex(),
                                   "input": repr(small), "go_tokens(type:lit:off:line:col)": o,
                                   "reason": oracle(small, lexcommon.parse_tokens(o)[1] if "|" in o else [o], has_ignored)})
                    reported += 1
            elif g != m:
                disagreements += 1
                if reported < 3:
                    def bad2(s, r=r):
                        c2 = ["N%s A" % s.hex()]
                        return lexcommon.run_impl(r, c2) != lexcommon.run_model(ctx, r, c2)
                    small = shrink_bytes(src, bad2)
                    c2 = ["N%s A" % small.hex()]
                    ctx.violation({"kind": "correspondence-broken",
                                   "correspondence": "generated lexer.Scan vs Lex/Scan.v scan (theorems C08_* are about the model)",
                                   "grammar": r.g.text(), "input_hex": small.hex(),
                                   "go": lexcommon.run_impl(r, c2)[0], "model": lexcommon.run_model(ctx, r, c2)[0]},
                                  found_input=False)
                    reported += 1
        if len(samples) < 3:
            samples.append({"grammar": r.g.text(), "input": repr(inputs[0]), "tokens": go[0]})
    for o in ctx.failed_obligations():
        ctx.violation({"kind": "proof-obligation-broken", "obligation": o}, found_input=False)
    ctx.write_evidence("proof", {
        "evaluations": total,
        "distinct_nontrivial": len(distinct),
        "rule": "random lexical grammars (1-6 token/ignored definitions, 0-2 single-rune regular definitions, optional/repeated/grouped "
                "patterns to depth 3, ranges, '.', syntax-part string literals, alphabets with tab/CR/LF/multi-byte/NUL/U+10FFFF) x inputs "
                "(55% walks through the dumped DFA with occasional derailing, 25% random over the alphabet, 20% malformed UTF-8); "
                "non-trivial = more than 4 tokens and the input contains a tab/CR/LF or a non-ASCII byte; distinct by (grammar, input)",
        "samples": samples,
        "programs": len(recs),
        "gocc_stats": {k: v for k, v in stats.items() if k != "build_log"},
        "token_kind_histogram": dict(outcome),
        "input_size_histogram": dict(sorted(size_hist.items())),
        "utf8_cases": nutf,
        "traces_validated_against_impl": total,
        "disagreements": disagreements,
    }, [
        "the generated Scan loop is modelled by hand (Lex/Scan.v) and tied by differential testing on the cases drawn; "
        "text/template expansion and the Go compiler are trusted",
        "unicode/utf8.DecodeRune is modelled by Utf8.decode_rune (K-tested: all 1- and 2-byte strings, boundary grid for 3/4 bytes, random)",
        "positions are counted in decoded runes (an ill-formed byte is one character), as the property's 'character' is read",
    ])
