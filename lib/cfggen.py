"""Random context-free grammars in gocc's BNF, sentences / non-sentences, and an Earley
recogniser used as independent oracle (membership and prefix viability)."""


class CFG:
    """nts: list of nonterminal names (nts[0] is the start symbol);
    terms: list of terminal spellings as written in the BNF (token ids or "string literals");
    prods: list of (lhs, body, kind, action) in gocc's flattened order; body is a list of symbols;
           kind in {'normal','empty','error'}; action: None | 'N' | 'NC' | 'T' (uses $T for terminals)."""

    def __init__(self, nts, terms, prods):
        self.nts, self.terms, self.prods = nts, terms, prods

    def by_lhs(self):
        d = {n: [] for n in self.nts}
        for i, (l, b, k, a) in enumerate(self.prods):
            d[l].append(i)
        return d

    def runs(self):
        """[(lhs, [production indices])]: maximal runs of consecutive productions with the same head"""
        out = []
        for i, (l, b, k, a) in enumerate(self.prods):
            if out and out[-1][0] == l:
                out[-1][1].append(i)
            else:
                out.append((l, [i]))
        return out

    def split_declared(self):
        return len(self.runs()) > len(set(l for (l, _, _, _) in self.prods))

    def text(self, pkg_h, pure=False):
        """pure=True: actions build []interface{}{p, kids...} values without any helper package (no shared state)"""
        out = ['<< import ( "%s" ; "%s/token" ) ; var _ = token.EOF ; var _ = h.Reset >>' % (pkg_h, pkg_h[:-2]), ""]
        if pure:
            out = []
        # one rule per RUN of consecutive productions with the same head, in the order of self.prods: gocc numbers the productions in
        # file order (a nonterminal may be declared in several non-adjacent rules: its alternatives are then not adjacent)
        for (l, idxs) in self.runs():
            alts = []
            for i in idxs:
                (_, b, k, a) = self.prods[i]
                pnum = i + 1  # production index in gocc's table (0 is S')
                if k == "empty":
                    s = "empty"
                elif k == "error":
                    s = "error " + " ".join(b)
                else:
                    s = " ".join(b)
                nsym = len(b) + (1 if k == "error" else 0)
                # an empty alternative may carry an action too ( empty << ... >> : the action runs with no attributes )
                if a is not None:
                    args = []
                    for j in range(nsym):
                        sym = (["error"] + b)[j] if k == "error" else b[j]
                        is_term = sym not in self.nts and sym != "error"
                        args.append("$T%d" % j if (a == "T" and is_term) else "$%d" % j)
                    if pure:
                        s += " << []interface{}{%d%s}, nil >>" % (pnum, "".join(", " + x.replace("$T", "$") for x in args))
                    elif a == "NC":
                        s += " << h.NC(%d, $Context%s) >>" % (pnum, "".join(", " + x for x in args))
                    else:
                        s += " << h.N(%d%s) >>" % (pnum, "".join(", " + x for x in args))
                alts.append(s)
            out.append("%s : %s ;" % (l, "\n  | ".join(alts)))
        return "\n".join(out) + "\n"

    def has_action(self, i):
        (l, b, k, a) = self.prods[i]
        return a is not None

    def has_error(self):
        return any(k == "error" for (_, _, k, _) in self.prods)

    def to_json(self):
        return {"nts": self.nts, "terms": self.terms, "prods": self.prods}


TERM_POOL = ["a", "b", "c", "d", "e", '"+"', '"*"', '"("', '")"', '";"', '","', "id", "num", '"if"', '"x"']


def gen_cfg(rng, with_error=False, max_nt=5, allow_conflicts=True):
    nnt = rng.randint(1, max_nt)
    nts = ["S"] + ["N%d" % i for i in range(1, nnt)]
    nterm = rng.randint(1, 5)
    terms = rng.sample(TERM_POOL, nterm)
    if rng.random() < 0.2:
        # spellings that coincide when symbols are concatenated ( "<" "=" / "<=" ;  a b / ab ): keys built by joining names collide
        terms = rng.choice([['"<"', '"="', '"<="'], ["a", "b", "ab"], ['"+"', '"++"', "a"]]) + rng.sample(TERM_POOL, rng.randint(0, 2))
        terms = list(dict.fromkeys(terms))
    prods = []
    for ni, nt in enumerate(nts):
        nalt = rng.choice([1, 2, 2, 3, 3, 4])
        alts = []
        for ai in range(nalt):
            r = rng.random()
            if r < 0.12 and ai > 0:
                alts.append(([], "empty"))
                continue
            if with_error and r < 0.3:
                ln = rng.choice([0, 1, 1, 2])
                body = [rng.choice(terms) if rng.random() < 0.7 else rng.choice(nts) for _ in range(ln)]
                alts.append((body, "error"))
                continue
            ln = rng.choice([1, 1, 2, 2, 3, 3, 4])
            body = []
            for _ in range(ln):
                if rng.random() < 0.5:
                    body.append(rng.choice(terms))
                else:
                    # bias towards later nonterminals to limit (not exclude) recursion
                    body.append(rng.choice(nts) if rng.random() < 0.5 else rng.choice(nts[ni:]))
            alts.append((body, "normal"))
        # de-duplicate identical alternatives (gocc would report them as reduce/reduce conflicts; keep some)
        seen = []
        for (b, k) in alts:
            if (b, k) in seen and rng.random() < 0.8:
                continue
            seen.append((b, k))
        if all(k == "empty" for (_, k) in seen):
            seen.append(([rng.choice(terms)], "normal"))
        for (b, k) in seen:
            a = rng.choice([None, "N", "N", "N", "NC", "T"])
            prods.append((nt, b, k, a))
    g = CFG(nts, terms, prods)
    if rng.random() < 0.45:
        g = add_optionals(g, rng)
    if rng.random() < 0.3:
        g = split_declarations(g, rng)
    return g


def split_declarations(g, rng):
    """declares some nonterminal in two non-adjacent rules: moves a non-empty proper suffix of its alternatives behind the block of a later
    nonterminal (gocc accepts this and numbers the productions in file order)"""
    runs = g.runs()
    for _ in range(rng.choice([1, 1, 2])):
        cands = [ri for ri, (l, idxs) in enumerate(runs) if len(idxs) >= 2 and ri < len(runs) - 1]
        if not cands:
            break
        ri = rng.choice(cands)
        (l, idxs) = runs[ri]
        cut = rng.randint(1, len(idxs) - 1)
        dest = rng.randint(ri + 1, len(runs) - 1)
        runs[ri] = (l, idxs[:cut])
        runs.insert(dest + 1, (l, idxs[cut:]))
    prods = [g.prods[i] for (_, idxs) in runs for i in idxs]
    return CFG(list(g.nts), list(g.terms), prods)


def add_optionals(g, rng):
    """adds nullable helper nonterminals  Oi : t | empty  and inserts them AFTER nonterminals inside bodies (non-empty nullable
    remainders: the look-aheads of the closure then depend on the inherited look-ahead)"""
    nopt = rng.choice([1, 1, 2])
    nts = list(g.nts)
    prods = []
    opts = []
    for i in range(nopt):
        name = "O%d" % i
        opts.append(name)
    for (l, b, k, a) in g.prods:
        nb = []
        for s_ in b:
            nb.append(s_)
            if s_ in g.nts and rng.random() < 0.5:
                nb.append(rng.choice(opts))
        prods.append((l, nb, k, a))
    for name in opts:
        nts.append(name)
        prods.append((name, [rng.choice(g.terms)], "normal", rng.choice([None, "N"])))
        prods.append((name, [], "empty", rng.choice([None, None, "N"])))
    return CFG(nts, list(g.terms), prods)


FAMILIES = [
    # expression grammar
    (["S", "E", "T", "F"], ['"+"', '"*"', '"("', '")"', "id"],
     [("S", ["E"], "normal", None), ("E", ["E", '"+"', "T"], "normal", "N"), ("E", ["T"], "normal", None),
      ("T", ["T", '"*"', "F"], "normal", "N"), ("T", ["F"], "normal", None),
      ("F", ['"("', "E", '")"'], "normal", "N"), ("F", ["id"], "normal", "T")]),
    # separated list with optional trailing
    (["S", "L", "I"], ['","', "id", '";"'],
     [("S", ["L", '";"'], "normal", "N"), ("S", [], "empty", None), ("L", ["I"], "normal", "N"),
      ("L", ["L", '","', "I"], "normal", "N"), ("I", ["id"], "normal", "T"), ("I", [], "empty", None)]),
    # nested optionals, right recursion
    (["S", "A", "B"], ["a", "b", "c"],
     [("S", ["A", "B", "c"], "normal", "NC"), ("A", ["a", "A"], "normal", "N"), ("A", [], "empty", "N"),
      ("B", ["b"], "normal", None), ("B", [], "empty", None)]),
    # dangling else (shift/reduce)
    (["S", "St"], ['"if"', "e", '"x"', "c"],
     [("S", ["St"], "normal", None), ("St", ['"if"', "c", "St"], "normal", "N"),
      ("St", ['"if"', "c", "St", "e", "St"], "normal", "N"), ("St", ['"x"'], "normal", "N")]),
    # reduce/reduce
    (["S", "A", "B"], ["a", "b"],
     [("S", ["A", "b"], "normal", "N"), ("S", ["B", "b"], "normal", "N"), ("A", ["a"], "normal", "N"), ("B", ["a"], "normal", "N")]),
    # ambiguous expression (many SR conflicts)
    (["S", "E"], ['"+"', '"*"', "id"],
     [("S", ["E"], "normal", None), ("E", ["E", '"+"', "E"], "normal", "N"), ("E", ["E", '"*"', "E"], "normal", "N"), ("E", ["id"], "normal", "N")]),
    # unreachable and unproductive nonterminals
    (["S", "U", "V"], ["a", "b"],
     [("S", ["a", "S"], "normal", "N"), ("S", ["b"], "normal", None), ("U", ["a", "V"], "normal", "N"), ("V", ["V", "b"], "normal", "N")]),
    # error recovery: statements
    (["S", "Ss", "St"], ["a", "b", '";"', '"("', '")"'],
     [("S", ["Ss"], "normal", None), ("Ss", ["St"], "normal", "N"), ("Ss", ["Ss", "St"], "normal", "N"),
      ("St", ["a", '";"'], "normal", "N"), ("St", [ '";"', "b"], "error", "N"), ("St", ['"("', "Ss", '")"'], "normal", "N")]),
    (["S", "L", "I"], ["a", '","', '";"'],
     [("S", ["L", '";"'], "normal", "N"), ("L", ["I"], "normal", "N"), ("L", ["L", '","', "I"], "normal", "N"),
      ("I", ["a"], "normal", "T"), ("I", [], "error", "N")]),
    # 9: wide alternatives (two-digit $i / $Ti references)
    (["S", "R"], ["a", "b", "c", "d", "e"],
     [("S", ["R"], "normal", "N"), ("S", ["S", "R"], "normal", "N"),
      ("R", ["a", "b", "c", "d", "e", "a", "b", "c", "d", "e", "a", "b", "c"], "normal", "T"),
      ("R", ["b", "a", "R", "c", "d", "e", "a", "b", "c", "d", "e", "R"], "normal", "N")]),
    # 10: the word error in the MIDDLE of a body (gocc treats it there as an ordinary terminal that recovery can shift)
    (["S", "Ss", "St"], ["a", "let", '";"'],
     [("S", ["Ss"], "normal", None), ("Ss", ["St"], "normal", "N"), ("Ss", ["Ss", "St"], "normal", "N"),
      ("St", ["a", '";"'], "normal", "N"), ("St", ["let", "error", '";"'], "normal", "N"), ("St", ['";"'], "error", "N")]),
    # 11: nullable non-empty remainder after a nonterminal, item present with several look-aheads
    (["S", "L", "E", "B", "O"], ['","', "b", '"?"'],
     [("S", ["L"], "normal", None), ("L", ["L", '","', "E"], "normal", "N"), ("L", ["E"], "normal", "N"),
      ("E", ["B", "O"], "normal", "N"), ("B", ["b"], "normal", "N"), ("O", ['"?"'], "normal", "N"), ("O", [], "empty", None)]),
    # 12: tails whose spellings coincide when concatenated ( "<" "=" / "<=" ;  a b / ab ), after the same nonterminal: conflict-free
    (["S", "Old", "New", "Third", "B", "C"], ['"<"', '"="', '"<="', '"x"', '"y"', "a", "b", "ab"],
     [("S", ["Old"], "normal", None), ("S", ["New"], "normal", None), ("S", ["Third"], "normal", None),
      ("Old", ["B", '"<"', '"="'], "normal", "N"), ("New", ["B", '"<="'], "normal", "N"),
      ("Third", ["C", "a", "b"], "normal", "N"), ("Third", ["C", "ab"], "normal", "N"),
      ("B", ['"x"'], "normal", "N"), ("C", ['"y"'], "normal", "N")]),
    # 13: the same with a reduce/reduce conflict whose earliest competitor gets its look-ahead from the second of the two tails
    (["S", "Old", "New", "Bound", "Desc", "Extra"], ['"<"', '"="', '"<="', '"x"', '"y"', '"z"'],
     [("S", ["Old"], "normal", None), ("S", ["New"], "normal", None), ("S", ["Desc", '"<="', '"y"'], "normal", "N"),
      ("S", ["Extra", '"<="', '"z"'], "normal", "N"),
      ("Old", ["Bound", '"<"', '"="'], "normal", "N"), ("New", ["Bound", '"<="'], "normal", "N"),
      ("Bound", ['"x"'], "normal", "N"), ("Desc", ['"x"'], "normal", "N"), ("Extra", ['"x"'], "normal", "N")]),
    # 14: a body of eleven symbols in production 1 and more than eleven productions: the items (production 1, dot 10) and
    # (production 11, dot 0) sit in the same state with the same look-ahead (keys built from the two numbers without separator collide);
    # conflict-free
    (["S", "F", "Tr", "Ex"], ["a", "b", "c", "d", "e", '"+"', '"*"', '"("', '")"', '";"', '"x"', "id"],
     [("S", ["a", "b", "c", "d", "e", '"+"', '"*"', '"("', '")"', '";"', "Tr"], "normal", "N"),
      ("S", ["id", "F"], "normal", "N"), ("F", ["a"], "normal", "N"), ("F", ["b"], "normal", "N"), ("F", ["c"], "normal", "N"),
      ("F", ["d"], "normal", "N"), ("F", ["e"], "normal", "N"), ("F", ['"+"'], "normal", "N"), ("F", ['"*"'], "normal", "N"),
      ("F", ['"("'], "normal", "N"),
      ("Tr", [], "empty", None), ("Tr", ["Ex"], "normal", "N"), ("Ex", ['"x"'], "normal", "N")]),
    # 15: the same with a reduce/reduce conflict between productions 11 and 13 on end of input
    (["S", "F", "Tr", "Ex"], ["a", "b", "c", "d", "e", '"+"', '"*"', '"("', '")"', '";"', "id"],
     [("S", ["a", "b", "c", "d", "e", '"+"', '"*"', '"("', '")"', '";"', "Tr"], "normal", "N"),
      ("S", ["id", "F"], "normal", "N"), ("F", ["a"], "normal", "N"), ("F", ["b"], "normal", "N"), ("F", ["c"], "normal", "N"),
      ("F", ["d"], "normal", "N"), ("F", ["e"], "normal", "N"), ("F", ['"+"'], "normal", "N"), ("F", ['"*"'], "normal", "N"),
      ("F", ['"("'], "normal", "N"),
      ("Tr", [], "empty", None), ("Tr", ["Ex"], "normal", "N"), ("Ex", [], "empty", None)]),
]


def big_cfg(rng, nterm=300):
    """A conflict-free grammar with `nterm` token ids (token type numbers beyond 255, several hundred states):
    S : L ; L : L I | I ; I : k_i A_(i mod 10) (one alternative per terminal) ; A_j : k_x | k_y k_z  (x != y)."""
    terms = ["k%d" % i for i in range(nterm)]
    nts = ["S", "L", "I"] + ["A%d" % j for j in range(10)]
    prods = [("S", ["L"], "normal", None), ("L", ["L", "I"], "normal", "N"), ("L", ["I"], "normal", None)]
    for i in range(nterm):
        prods.append(("I", [terms[i], "A%d" % (i % 10)], "normal", "T" if i % 3 == 0 else "N"))
    for j in range(10):
        x, y = rng.sample(range(nterm), 2)
        prods.append(("A%d" % j, [terms[x]], "normal", "N"))
        prods.append(("A%d" % j, [terms[y], terms[rng.randrange(nterm)]], "normal", "N"))
    return CFG(nts, terms, prods)


def family(i):
    nts, terms, prods = FAMILIES[i % len(FAMILIES)]
    return CFG(list(nts), list(terms), [tuple(p) for p in prods])


# ---------------------------------------------------------------- analysis (python side, for generation/oracle only)
def productive(g, ignore_error=True):
    prod = set()
    changed = True
    while changed:
        changed = False
        for (l, b, k, a) in g.prods:
            if k == "error" and ignore_error:
                continue
            if l not in prod and all((s not in g.nts) or (s in prod) for s in b):
                prod.add(l)
                changed = True
    return prod


def reachable(g):
    reach = {g.nts[0]}
    changed = True
    while changed:
        changed = False
        for (l, b, k, a) in g.prods:
            if l in reach:
                for s in b:
                    if s in g.nts and s not in reach:
                        reach.add(s)
                        changed = True
    return reach


def min_heights(g):
    """minimal derivation height per nonterminal (error alternatives ignored)."""
    INF = 10 ** 9
    h = {n: INF for n in g.nts}
    changed = True
    while changed:
        changed = False
        for (l, b, k, a) in g.prods:
            if k == "error":
                continue
            v = 1 + max([h[s] for s in b if s in g.nts] + [0])
            if v < h[l]:
                h[l] = v
                changed = True
    return h


def gen_sentence(g, rng, budget=12):
    """Random derivation from S (error alternatives excluded); returns list of terminal spellings or None."""
    h = min_heights(g)
    if h[g.nts[0]] >= 10 ** 9:
        return None
    d = g.by_lhs()
    out = []

    def expand(nt, depth):
        alts = [i for i in d[nt] if g.prods[i][2] != "error" and
                all((s not in g.nts) or h[s] < 10 ** 9 for s in g.prods[i][1])]
        if depth <= 0:
            m = min(1 + max([h[s] for s in g.prods[i][1] if s in g.nts] + [0]) for i in alts)
            alts = [i for i in alts if 1 + max([h[s] for s in g.prods[i][1] if s in g.nts] + [0]) == m]
        i = rng.choice(alts)
        for s in g.prods[i][1]:
            if s in g.nts:
                expand(s, depth - 1)
            else:
                out.append(s)
            if len(out) > 200:
                raise OverflowError

    try:
        expand(g.nts[0], rng.randint(0, budget))
    except (OverflowError, RecursionError):
        return None
    return out


def gen_long_sentence(g, rng, target):
    """A sentence of about `target` tokens (None when the language has no long sentences or the derivation explodes): iterative
    derivation with an explicit work list; while short of the target, alternatives containing nonterminals are preferred (recursion
    of any kind: left, right, nesting), afterwards the alternatives of least height."""
    h = min_heights(g)
    if h[g.nts[0]] >= 10 ** 9:
        return None
    d = g.by_lhs()
    ntset = set(g.nts)
    out = []
    work = [g.nts[0]]      # stack of symbols still to derive (top = next)
    steps = 0
    while work:
        steps += 1
        if steps > 40 * target + 1000 or len(out) > 3 * target + 50 or len(work) > 20 * target + 100:
            return None
        x = work.pop()
        if x not in ntset:
            out.append(x)
            continue
        alts = [i for i in d[x] if g.prods[i][2] != "error" and all((s_ not in ntset) or h[s_] < 10 ** 9 for s_ in g.prods[i][1])]
        grow = len(out) + len(work) < target
        if grow:
            rec = [i for i in alts if any(s_ in ntset for s_ in g.prods[i][1])]
            i = rng.choice(rec) if rec and rng.random() < 0.9 else rng.choice(alts)
        else:
            m = min(1 + max([h[s_] for s_ in g.prods[i][1] if s_ in ntset] + [0]) for i in alts)
            i = rng.choice([i for i in alts if 1 + max([h[s_] for s_ in g.prods[i][1] if s_ in ntset] + [0]) == m])
        for s_ in reversed(g.prods[i][1]):
            work.append(s_)
    return out


def mutate(seq, terms, rng, extra=()):
    seq = list(seq)
    pool = list(terms) + list(extra)
    for _ in range(rng.choice([1, 1, 1, 2, 3])):
        k = rng.random()
        if k < 0.35 and seq:
            del seq[rng.randrange(len(seq))]
        elif k < 0.7:
            seq.insert(rng.randint(0, len(seq)), rng.choice(pool))
        elif seq:
            seq[rng.randrange(len(seq))] = rng.choice(pool)
    return seq


# ---------------------------------------------------------------- Earley
class Earley:
    """Recogniser over the grammar without its error alternatives. Symbols are spellings."""

    def __init__(self, g):
        self.g = g
        self.prods = [(l, b) for (l, b, k, a) in g.prods if k != "error"]
        self.by = {}
        for i, (l, b) in enumerate(self.prods):
            self.by.setdefault(l, []).append(i)
        self.nullable = set()
        ch = True
        while ch:
            ch = False
            for (l, b) in self.prods:
                if l not in self.nullable and all(s in self.nullable for s in b):
                    self.nullable.add(l)
                    ch = True

    def chart(self, toks):
        """returns list of item sets; item = (prod, dot, origin)"""
        S = [set() for _ in range(len(toks) + 1)]
        start = self.g.nts[0]
        for i in self.by.get(start, []):
            S[0].add((i, 0, 0))
        for k in range(len(toks) + 1):
            work = list(S[k])
            while work:
                (p, dot, org) = work.pop()
                l, b = self.prods[p]
                if dot < len(b):
                    s = b[dot]
                    if s in self.g.nts:
                        for i in self.by.get(s, []):
                            it = (i, 0, k)
                            if it not in S[k]:
                                S[k].add(it)
                                work.append(it)
                        if s in self.nullable:
                            it = (p, dot + 1, org)
                            if it not in S[k]:
                                S[k].add(it)
                                work.append(it)
                    elif k < len(toks) and toks[k] == s:
                        S[k + 1].add((p, dot + 1, org))
                else:
                    for (p2, d2, o2) in list(S[org]):
                        l2, b2 = self.prods[p2]
                        if d2 < len(b2) and b2[d2] == l:
                            it = (p2, d2 + 1, o2)
                            if it not in S[k]:
                                S[k].add(it)
                                work.append(it)
            if k < len(toks) and not S[k + 1]:
                return S[:k + 1]
        return S

    def accepts(self, toks):
        S = self.chart(toks)
        if len(S) != len(toks) + 1:
            return False
        start = self.g.nts[0]
        return any(self.prods[p][0] == start and dot == len(self.prods[p][1]) and org == 0 for (p, dot, org) in S[-1])

    def viable_prefix_len(self, toks):
        """largest i such that toks[:i] is a prefix of ... a string in the Earley sense (items exist);
        exact viability needs productivity of the remaining symbols: caller restricts to reduced grammars."""
        return len(self.chart(toks)) - 1


# ---------------------------------------------------------------- lexical part for whole-tool runs
def lex_part(g):
    """token definitions for every token-id terminal of g (its own spelling as the lexeme) and white space"""
    out = ["!ws : ' ' | '\\n' | '\\t' ;"]
    # tokens that the syntax part never mentions (numbered after all symbols of the syntax part)
    out.append("zq9 : 'z' 'q' '9' ;")
    out.append("aq7 : 'a' 'q' '7' ;")
    out.append("zQ9 : 'z' 'Q' '9' ;")      # equal to zq9 up to letter case (orders that fold case tie on the pair)
    for t in g.terms:
        if not t.startswith('"') and any(t in b for (_, b, _, _) in g.prods):
            out.append("%s : %s ;" % (t, " ".join("'%s'" % c for c in t)))
    return "\n".join(out) + "\n"


def full_text(g, pkg_h, pure=False):
    """lexical part + syntax part (header must come first in the syntax part)"""
    return lex_part(g) + "\n" + g.text(pkg_h, pure=pure)


def source_of(tokens):
    return " ".join(t[1:-1] if t.startswith('"') else t for t in tokens).encode()
