"""Shared by the parser checks: run the real gocc on CFGs, compile the generated parser with the
driver (tables dumped from the compiled package), build the model's table file, run both."""
import json
import os
import shutil
import subprocess
from concurrent.futures import ThreadPoolExecutor

import gen
import vlib


class LRRec:
    pass


def term_name(spelling):
    return spelling[1:-1] if spelling.startswith('"') else spelling


def prepare_parsers(ctx, grammars, flags=(), ws=None, prefix="p", build=True, race=False):
    """grammars: list of cfggen.CFG. Returns (records, stats, ws). Records exist for every grammar gocc processed
    (rec.rc = exit status); rec.bin only when status 0 and the driver compiled."""
    ws = ws or gen.Workspace(ctx)
    stats = {"gocc_nonzero": 0, "gocc_timeout": 0, "build_failed": 0, "gocc_panic": 0}
    htmpl = open(os.path.join(vlib.ROOT, "harness", "h.go.tmpl")).read()
    dtmpl = open(os.path.join(vlib.ROOT, "harness", "zz_verif_dump.go.tmpl")).read()

    def one(i):
        g = grammars[i]
        name = "%s%d" % (prefix, i)
        d = os.path.join(ws.dir, name)
        os.makedirs(os.path.join(d, "h"), exist_ok=True)
        with open(os.path.join(d, "h", "h.go"), "w") as f:
            f.write(htmpl)
        text = g.text("%s/%s/h" % (ws.mod, name))
        rc, out, d = ws.gocc(name, text, flags=flags, timeout=60)
        r = LRRec()
        r.g, r.name, r.dir, r.rc, r.gocc_out, r.text, r.flags = g, name, d, rc, out, text, list(flags)
        dj = subprocess.run([ctx.verifdump, "lr", os.path.join(d, "g.bnf")], capture_output=True, text=True, timeout=120)
        try:
            r.dump = json.loads(dj.stdout)
        except Exception:
            r.dump = {"panic": "verifdump failed: " + dj.stderr[-500:]}
        return r

    with ThreadPoolExecutor(max_workers=16) as ex:
        recs = list(ex.map(one, range(len(grammars))))
    for r in recs:
        if r.rc == -9:
            stats["gocc_timeout"] += 1
        elif r.rc != 0:
            stats["gocc_nonzero"] += 1
            if "panic" in r.gocc_out:
                stats["gocc_panic"] += 1
        r.bin = None
        if r.rc == 0 and build and os.path.exists(os.path.join(r.dir, "parser", "parser.go")):
            with open(os.path.join(r.dir, "parser", "zz_verif_dump.go"), "w") as f:
                f.write(dtmpl)
            ws.add_driver(r.name, "parsedrv.go.tmpl")
    if build:
        bins, log = ws.build(race=race)
        stats["build_log"] = log[-3000:]
        for r in recs:
            if (r.name, "cmd") in ws.names:
                b = bins.get((r.name, "cmd"))
                if b is None:
                    stats["build_failed"] += 1
                else:
                    r.bin = b
                    load_tables(r)
    return recs, stats, ws


def load_tables(r):
    """TABLES from the compiled parser -> r.tables (python) and r.table_file (for modelrun)."""
    p = subprocess.run([r.bin], input="TABLES\n", capture_output=True, text=True, timeout=60)
    lines = p.stdout.split("\n")
    assert lines[0].startswith("P "), p.stdout[:200] + p.stderr[:500]
    np_ = int(lines[0].split()[1])
    prods = [tuple(int(x) for x in lines[1 + i].split()) for i in range(np_)]
    hdr = lines[1 + np_].split()
    ns, numsym, numnt = int(hdr[1]), int(hdr[2]), int(hdr[3])
    states = []
    for i in range(ns):
        w = [int(x) for x in lines[2 + np_ + i].split()]
        rc, na = w[0], w[1]
        acts = w[2:2 + na]
        ng = w[2 + na]
        gotos = w[3 + na:3 + na + ng]
        states.append({"canRecover": rc == 1, "actions": acts, "gotos": gotos})
    terms = r.dump.get("terminals", [])
    err_type = terms.index("error") if "error" in terms else 0
    # production 0 is S' (no action); production i>0 is the (i-1)-th alternative of the CFG
    has_act = [0] + [1 if r.g.has_action(i) else 0 for i in range(len(r.g.prods))]
    r.tables = {"prods": prods, "states": states, "err": err_type, "has_act": has_act, "numsym": numsym, "numnt": numnt}
    r.table_file = os.path.join(r.dir, "lr.tab")
    with open(r.table_file, "w") as f:
        f.write("E %d\n" % err_type)
        f.write("P %d\n" % len(prods))
        for i, (nt, ln) in enumerate(prods):
            f.write("%d %d %d\n" % (nt, ln, has_act[i] if i < len(has_act) else 0))
        f.write("S %d\n" % ns)
        for st in states:
            f.write("%d %d %s %d %s\n" % (1 if st["canRecover"] else 0, len(st["actions"]),
                                          " ".join(map(str, st["actions"])), len(st["gotos"]),
                                          " ".join(map(str, st["gotos"]))))


def type_of(r, spelling):
    n = term_name(spelling)
    t = r.dump["terminals"]
    return t.index(n) if n in t else 0   # a terminal the grammar never mentions is delivered as INVALID


def encode_case(r, parses):
    """parses: list of (token spellings list, fail_at or None, fresh: bool)"""
    out = []
    for (toks, fail, fresh) in parses:
        w = []
        if fresh:
            w.append("NEW")
        if fail is not None:
            w.append("F%d" % fail)
        w += [str(type_of(r, t)) if not isinstance(t, int) else str(t) for t in toks]
        out.append(" ".join(w))
    return ";".join(out)


def run_impl(r, cases, timeout=120):
    """Runs the compiled driver; a parse that does not return within the driver's watchdog gives 'HANG' for that case
    (the driver exits, buffered output of earlier cases is lost, so the harness feeds cases in small batches around it)."""
    out = []
    i = 0
    batch = 400
    while i < len(cases):
        chunk = cases[i:i + batch]
        text = "".join(c + "\n" for c in chunk)
        try:
            p = subprocess.run(["/bin/sh", "-c", "ulimit -v 4000000; exec \"$0\"", r.bin], input=text, capture_output=True,
                               text=True, timeout=timeout)
            lines = p.stdout.split("\n")[:-1]
            rc = p.returncode
        except subprocess.TimeoutExpired:
            lines, rc = [], -9
        if rc == 0 and len(lines) == len(chunk):
            out += [l.strip() for l in lines]
            i += len(chunk)
            batch = 400
        elif len(chunk) == 1:
            out.append("HANG" if (rc == 3 or rc == -9) else "CRASH(rc=%s)" % rc)
            i += 1
        else:
            batch = max(1, len(chunk) // 4)
    return out


def run_model(ctx, r, cases, fuel=20000, timeout=600, mode="parse"):
    """mode "parseobj": LR/ObjParse.v, one parser OBJECT (Go slices with backing arrays, stale look-ahead) per line, handed from
    call to call (NEW = NewParser())."""
    text = "".join(c + "\n" for c in cases)
    p = subprocess.run([ctx.modelrun, mode, r.table_file, str(fuel)], input=text, capture_output=True, text=True, timeout=timeout)
    lines = p.stdout.split("\n")
    got = [l.strip() for l in lines[:len(cases)]]
    return got + ["MODEL-NO-OUTPUT"] * (len(cases) - len(got))


# ---------------------------------------------------------------- model generator (LR/Gen.v) vs gocc
def gen_input_text(r_or_dump, g=None):
    """The text of gen.in (input of `modelrun gen` / `genauto`, and what `modelrun synast` prints from the grammar file's bytes) derived
    from gocc's dump (`verifdump lr`): "nn ntm terr" / productions / Symbols.List() / look-ahead order / p_acts.
    r_or_dump: an LRRec (its .dump and .g are used) or the dump dict; g: the cfggen.CFG the file was written from (p_acts =
    g.has_action); g None: p_acts is read from the dump's "sdt" strings (non-empty action text)."""
    if isinstance(r_or_dump, dict):
        d = r_or_dump
    else:
        d = r_or_dump.dump
        g = g if g is not None else r_or_dump.g
    terms, nts = d["terminals"], d["nonterminals"]
    ti = {n: i for i, n in enumerate(terms)}
    ni = {n: i for i, n in enumerate(nts)}

    def sym(s):
        return ("N%d" % ni[s]) if s in ni else ("T%d" % ti[s])
    prods = ";".join("%d:%s" % (p["nt"], " ".join(sym(s) for s in (p["body"] if p["len"] > 0 else []))) for p in d["prods"])
    la = sorted(range(len(terms)), key=lambda i: terms[i].encode("utf-8"))
    terr = ti.get("error", 0)
    if g is not None:
        pacts = [0] + [1 if g.has_action(i) else 0 for i in range(len(g.prods))]
    else:
        pacts = [1 if p.get("sdt") else 0 for p in d["prods"]]
    return "%d %d %d\n%s\n%s\n%s\n%s\n" % (len(nts), len(terms), terr, prods, " ".join(sym(s) for s in d["symbols"] if s in ni or s in ti),
                                            " ".join(map(str, la)), " ".join(map(str, pacts)))


def gen_compare(ctx, r, auto=False):
    """(auto=True: the model generator in mode -a, GenAuto.gen_run_auto: the RESOLVED action cells, the announced number of conflicts
    and the refusal are compared too.)
    Runs the extracted Gallina model of gocc's LR(1) generator on the grammar of record r (numbering, symbol order and look-ahead
    order taken from gocc's dump) and compares with gocc's own item sets (order included), transitions, and — when gocc produced
    tables — the action rows / canRecover / goto rows read back from the COMPILED parser. Returns None or a description."""
    d = r.dump
    if "states" not in d or not d.get("prods"):
        return None
    terms, nts = d["terminals"], d["nonterminals"]
    ti = {n: i for i, n in enumerate(terms)}
    ni = {n: i for i, n in enumerate(nts)}

    def sym(s):
        return ("N%d" % ni[s]) if s in ni else ("T%d" % ti[s])
    path = os.path.join(r.dir, "gen.in")
    want = gen_input_text(d, r.g)
    with open(path, "w") as f:
        f.write(want)
    # Front/SynAst.v: the same input computed by the MODEL of the front end (scanner, definitions, symbol table, terminal numbering,
    # look-ahead order, which alternatives carry an action) from the BYTES of the grammar file — with it the model generator is
    # compared with gocc from the file to the tables, nothing but the file taken from gocc
    src = os.path.join(r.dir, "g.bnf")
    if os.path.exists(src):
        sa = subprocess.run([ctx.modelrun, "synast", src], capture_output=True, text=True, timeout=120).stdout
        r.synast_checked = True
        if sa.strip() != want.strip():
            wl, gl = want.strip().split("\n"), sa.strip().split("\n")
            k = next((i for i in range(min(len(wl), len(gl))) if wl[i] != gl[i]), min(len(wl), len(gl)))
            names = ["nn ntm terr", "productions", "symbol order", "look-ahead order", "p_acts"]
            return "front-end model (Front/SynAst.v on the file's bytes) and gocc's symbol table differ in %s: model %r, gocc %r" % (
                names[k] if k < len(names) else "length", (gl[k] if k < len(gl) else "")[:200], (wl[k] if k < len(wl) else "")[:200])
    p = subprocess.run([ctx.modelrun, "genauto" if auto else "gen", path], capture_output=True, text=True, timeout=600)
    lines = p.stdout.split("\n")
    if lines and lines[0].startswith("EXIT "):
        # GenAuto.gocc_exit (C04_every_grammar_exit_status): predicted exit status without / with -a
        r.model_exit = tuple(int(x) for x in lines[0].split()[1:3])
        lines = lines[1:]
    kind = lines[0].strip() if lines else "NO-OUTPUT"
    nconf = d.get("numConflicts", 0)
    panicked = bool(d.get("panic"))
    if kind.startswith("AUTO"):
        k = int(kind.split()[1])
        if panicked:
            return "model generator (-a) produces tables, gocc refuses (panic)"
        if k != nconf:
            return "model generator (-a) announces %d conflicts, gocc %d" % (k, nconf)
    elif kind.startswith("REFUSED"):
        if not panicked:
            return "model generator (-a) refuses (an Accept competes), gocc does not"
    elif kind.startswith("OK"):
        if nconf or panicked:
            return "model generator reports no conflict, gocc reports %s" % ("a panic" if panicked else nconf)
    elif kind.startswith("CONFLICT"):
        k = int(kind.split()[1])
        if not panicked and k != nconf:
            return "model generator: %d conflicting states, gocc announces %d" % (k, nconf)
        if not nconf and not panicked:
            return "model generator reports a conflict, gocc none"
    else:
        return "model generator: %s %s" % (kind, p.stderr[-200:])
    rows = [l for l in lines[1:] if l.startswith("I ")]
    if len(rows) != len(d["states"]):
        return "model generator builds %d states, gocc %d" % (len(rows), len(d["states"]))
    tabs = getattr(r, "tables", None) if kind.startswith(("OK", "AUTO")) else None
    for s, (row, st) in enumerate(zip(rows, d["states"])):
        parts = [x.strip() for x in row.split("|")]
        items = parts[0][2:].split()
        want = ["%d,%d,%d" % (it["p"], it["k"], ti[it["la"]]) for it in st["items"]]
        if items != want:
            return "state %d: items (with order) differ: model %s gocc %s" % (s, items[:6], want[:6])
        tr = sorted(parts[1][2:].split())
        wtr = sorted("%s>%d" % (sym(x), t) for x, t in st["trans"].items())
        if tr != wtr:
            return "state %d: transitions differ: model %s gocc %s" % (s, tr, wtr)
        if tabs is not None:
            acts = [int(x) for x in parts[2][2:].split()]
            rec = parts[3][2:].strip() == "1"
            gotos = [int(x) for x in parts[4][2:].split()]
            ct = tabs["states"][s]
            if acts != ct["actions"][:len(acts)] or any(ct["actions"][len(acts):]):
                return "state %d: action row differs: model %s compiled %s" % (s, acts, ct["actions"])
            if rec != ct["canRecover"]:
                return "state %d: canRecover differs" % s
            if gotos != ct["gotos"]:
                return "state %d: goto row differs: model %s compiled %s" % (s, gotos, ct["gotos"])
    return None
