"""C14 — ill-formed grammars are rejected, never silently repaired.

Proof: the front end is (scanner model FScan: C13) + (shipped LR tables = spec grammar: C15, for ALL token sequences; recovery gated off)
+ (semantic checks: Front/Sem.v, a model of the Go code, proved equivalent to a declarative well-formedness predicate; the definitions
it cuts out of the token list are proved to be the definition nodes of the parse tree). Properties/C14.v.
Tie R: valid_backward / valid_forward / gate on the shipped tables and colon_ok / cut_ok on the spec grammar, by the kernel, every run.
Tie K: Sem.front_accepts (extracted) vs gocc's exit status, BOTH directions, on bases, token mutants and semantic mutants.
Tie K / oracle: token-level mutants of well-formed grammars (delete / insert / substitute a token, rename a reference, duplicate a
definition). Ill-formedness is decided by the harness from the REAL scanner's token stream: Earley on the spec grammar + the semantic rules.
Whenever it says ill-formed the binary must exit non-zero; the model front end (FScan + Parse on the shipped tables) must reject too."""
import collections
import os
import re
import subprocess

import semharness
import c09
import c10
import c13
import c15
import cfggen
import gen
import lexgen
import vlib


def semantic_problems(toks, names):
    """toks: [(typename, literal)] of a token stream that IS a sentence of the spec. Returns a list of reasons (may be empty)."""
    defs_lex = collections.Counter()
    defs_prod = set()
    uses_prod, uses_reg = set(), set()
    for i, (t, lit) in enumerate(toks):
        nxt = toks[i + 1][0] if i + 1 < len(toks) else None
        prev = toks[i - 1][0] if i > 0 else ";"
        is_def = nxt == ":" and (i == 0 or prev in (";", "g_sdt_lit"))
        if t in ("tokId", "regDefId", "ignoredTokId") and is_def:
            defs_lex[lit] += 1
        elif t == "prodId" and is_def:
            defs_prod.add(lit)
        elif t == "prodId":
            uses_prod.add(lit)
        elif t == "regDefId":
            uses_reg.add(lit)
    out = []
    for n, c in defs_lex.items():
        if c > 1:
            out.append("definition %s occurs %d times" % (n.decode("utf-8", "replace"), c))
    for n in uses_prod - defs_prod:
        out.append("undefined syntax production %s" % n.decode("utf-8", "replace"))
    for n in uses_reg - set(defs_lex):
        out.append("undefined regular definition %s" % n.decode("utf-8", "replace"))
    return out


def token_mutant(src, toks, rng):
    """token-level damage; returns (bytes, description)"""
    k = rng.random()
    i = rng.randrange(len(toks))
    (t, lit, off) = toks[i]
    if rng.random() < 0.12:
        # a lexeme that is no token of the front end at all (the scanner must hand it over as ILLEGAL), at a token boundary; preferably
        # where the file read so far is complete: after a ';' or at the very end
        bad = rng.choice([b",", b"/", b"<", b"<=", b"import", b"#", b"@", b"$", b"=", b"!", b"%", b"~", b"\\", b"?"])
        ends = [x for x in toks if x[1] == b";"]
        if ends and rng.random() < 0.7:
            (t2, l2, o2) = rng.choice(ends)
            at = o2 + 1
        else:
            at = rng.choice([off, len(src)])
        return src[:at] + b" " + bad + b" " + src[at:], "insert the non-token %r" % bad
    if k < 0.3:
        return src[:off] + src[off + len(lit):], "delete token %r" % lit
    if k < 0.55:
        j = rng.randrange(len(toks))
        return src[:off] + toks[j][1] + b" " + src[off:], "insert token %r" % toks[j][1]
    if k < 0.75:
        j = rng.randrange(len(toks))
        return src[:off] + toks[j][1] + src[off + len(lit):], "substitute %r by %r" % (lit, toks[j][1])
    if k < 0.9:
        ids = [x for x in toks if x[0] in (17, 5)]
        if ids:
            (t2, l2, o2) = rng.choice(ids)
            new = l2 + b"Qx" if t2 == 17 else l2 + b"q"
            return src[:o2] + new + src[o2 + len(l2):], "rename %r to %r" % (l2, new)
    # duplicate a lexical definition (text up to and including the next ';')
    starts = [x for n, x in enumerate(toks) if x[0] in (2, 5, 6) and n + 1 < len(toks) and toks[n + 1][0] == 3]
    if starts:
        (t2, l2, o2) = rng.choice(starts)
        end = src.find(b";", o2)
        if end > 0:
            return src[:end + 1] + b"\n" + src[o2:end + 1] + src[end + 1:], "duplicate definition of %r" % l2
    return src[:off] + src[off + len(lit):], "delete token %r" % lit


def run(ctx):
    ctx.check_property_file()
    thorough = ctx.tier == "thorough"
    rng = ctx.rng
    d, spec, nts, names, tidx, g, tables, items, nl, fs, problems, aprobs = c15.build(ctx)
    cfg = cfggen.CFG(nts[1:], [t for t in names if t != "␚"], [(l, b, "normal", None) for (l, b) in spec[1:]])
    ea = cfggen.Earley(cfg)
    tmp = ctx.mktemp("c14")
    tf = os.path.join(tmp, "front.tab")
    c15.write_table_file(tf, tables)
    bases = []
    for i in range(40 if not thorough else 300):
        if i % 2 == 0:
            gg = cfggen.gen_cfg(rng, with_error=(rng.random() < 0.2))
            bases.append((cfggen.lex_part(gg) + "\n" + c10.syntax_text(gg)).encode())
        else:
            lg, alpha = lexgen.gen_lex_grammar(rng)
            bases.append(lg.text().encode("utf-8"))
    base_toks = [c13.toks_of(l) for l in c13.fscan_go(ctx, bases)]
    ty, ftnums = semharness.init(names)
    for i in range(20 if not thorough else 150):
        bases.append(semharness.base_grammar(rng, i))
    base_toks = [c13.toks_of(l) for l in c13.fscan_go(ctx, bases)]
    # R: the side conditions of C14_accepted_files_are_well_formed on (spec grammar, shipped tables), by the kernel
    obl = semharness.kernel_obligations(g, tables, items, nl, fs, ty[":"] + 1, ty[";"] + 1, ctx.mktemp("c14obl"))
    for label, what in (("vb", "valid_backward spec shipped_tables annot"), ("vf", "valid_forward spec shipped_tables annot"),
                        ("gate", "recovery gated off and no recovering state in the shipped tables"),
                        ("colon", "colon_ok spec (':' occurs only after a definition head)"),
                        ("cut", "cut_ok spec (definitions are exactly  head ':' body ';')")):
        ctx.add_obligation("R: %s = true by vm_compute (Coq kernel)" % what, bool(obl.get(label)), obl.get("__error__", ""))
    muts = [(b, "base (unmodified)", b) for b in bases]
    for b, tk in zip(bases, base_toks):
        tk = [x for x in tk if x[0] != 0]
        if len(tk) < 4:
            continue
        for k in range(12 if not thorough else 40):
            if k % 2 == 0:
                m, desc = token_mutant(b, tk, rng)
                muts.append((m, desc, b))
            else:
                for _ in range(6):
                    r = semharness.sem_mutant(b, tk, rng)
                    if r:
                        muts.append((r[0], "semantic: " + r[1], b))
                        break
    lines = c13.fscan_go(ctx, [m for (m, _, _) in muts])
    mlines = c13.fscan_model(ctx, [m for (m, _, _) in muts])
    ws = gen.Workspace(ctx)
    hist = collections.Counter()
    reported = 0
    disagreements = 0
    total = 0
    distinct = set()
    samples = []
    model_in = []
    verdicts = []
    for (m, desc, b), line in zip(muts, lines):
        tk = c13.toks_of(line)
        tnames = [(names[t] if 0 <= t < len(names) else "ILLEGAL", lit) for (t, lit, off) in tk if t != 0]
        illegal = any(n == "ILLEGAL" for (n, _) in tnames)
        syn_ok = (not illegal) and ea.accepts([n for (n, _) in tnames])
        sem = semantic_problems(tnames, names) if syn_ok else []
        verdicts.append((syn_ok, sem))
        model_in.append(" ".join(str(t + 1) for (t, lit, off) in tk if t != 0))
    mo = vlib.run_lines([ctx.modelrun, "parse", tf, "20000"], "".join(l + "\n" for l in model_in)) if model_in else []
    # the whole front-end model: parser on the shipped tables && semantic verdict
    sem_in = [" ".join("%d:%s" % (t, lit.hex()) for (t, lit, off) in c13.toks_of(line) if t != 0) for line in lines]
    so = vlib.run_lines([ctx.modelrun, "frontsem", tf, "60"] + [str(x) for x in ftnums], "".join(x + "\n" for x in sem_in), timeout=3600)
    so += ["REJ PARSE=? SEM=MODEL-NO-OUTPUT"] * (len(sem_in) - len(so))
    PROPERTY_CLASSES = ("parse", "dup", "undefined-prod", "undefined-regdef", "empty-alt")
    sem_hist = collections.Counter()
    flag_hist = collections.Counter()
    sem_dis = 0
    for i, ((m, desc, b), (syn_ok, sem)) in enumerate(zip(muts, verdicts)):
        total += 1
        # the verdict must not depend on presentation flags: most files with -a alone, the others with one more flag
        fl = ["-a"] + ([] if i % 10 < 6 else [["-no_lexer"], ["-zip"], ["-v"], ["-debug_lexer", "-debug_parser"]][i % 4])
        flag_hist[" ".join(fl)] += 1
        rc, out, dd = ws.gocc("m%d" % i, m, flags=fl, timeout=30)
        ill = (not syn_ok) or bool(sem)
        hist[("ill-formed" if ill else "well-formed") + "/rc=%s" % rc] += 1
        if ill:
            distinct.add(m)
        model_acc = c15.model_line(mo[i]).startswith("ACC") if i < len(mo) else None
        # K: Sem.front_accepts vs exit status, both directions (the accept/reduce conflict "S' : S" with S =>+ S is refused later, in the
        # table generator, and a timeout says nothing: counted apart)
        gcls, mcls = semharness.classify(rc, out), semharness.model_class(so[i])
        sem_hist["model %s / gocc %s" % (mcls if mcls in ("accept", "parse") else "sem-reject", gcls if gcls in ("accept", "accept-conflict", "timeout") else "reject")] += 1
        if gcls in ("timeout", "accept-conflict"):
            if mcls != "accept" and gcls == "accept-conflict" and reported < 3:
                ctx.violation({"kind": "correspondence-broken", "correspondence": "Sem.front_accepts vs gocc", "file": m.decode("utf-8", "replace")[:800],
                               "model": so[i], "gocc_exit": rc, "gocc_flags": fl, "gocc_output": out[-300:]}, found_input=False)
                reported += 1
                sem_dis += 1
        elif (mcls == "accept") != (rc == 0):
            sem_dis += 1
            if reported < 3:
                if rc == 0 and mcls in PROPERTY_CLASSES:
                    ctx.violation({"kind": "model-and-implementation-disagree: ill-formed file accepted", "mutation": desc,
                                   "file": m.decode("utf-8", "replace"), "why_ill_formed(front-end model)": so[i], "gocc_exit": rc,
                                   "gocc_output": out[-300:]})
                else:
                    ctx.violation({"kind": "correspondence-broken", "correspondence": "Sem.front_accepts (parser on shipped tables && semantic "
                                   "verdict) vs gocc's exit status", "mutation": desc, "file": m.decode("utf-8", "replace")[:800], "model": so[i],
                                   "gocc_exit": rc, "gocc_flags": fl, "gocc_output": out[-300:]}, found_input=False)
                reported += 1
        elif mcls != "accept":
            semr = so[i].split()[2][len("SEM="):] if len(so[i].split()) > 2 else ""
            if not (gcls == mcls or (mcls == "parse" and gcls == "dup" and semr.startswith("dup-"))):
                sem_hist["reason-class mismatch"] += 1
        if ill and rc == 0:
            if reported < 3:
                ctx.violation({"kind": "property-oracle-on-implementation", "mutation": desc, "file": m.decode("utf-8", "replace"),
                               "why_ill_formed": ("not a sentence of spec/gocc2.ebnf at token level" if not syn_ok else "; ".join(sem)),
                               "gocc_exit": rc, "gocc_flags": fl, "gocc_output": out[-300:]})
                reported += 1
        elif lines[i] != mlines[i] or (model_acc is not None and model_acc != syn_ok):
            disagreements += 1
            if reported < 3:
                ctx.violation({"kind": "correspondence-broken", "correspondence": "front end model (FScan + Parse on shipped tables) vs real "
                               "scanner / spec membership", "file": m.decode("utf-8", "replace")[:600], "model_accepts": model_acc,
                               "sentence_of_spec": syn_ok}, found_input=False)
                reported += 1
        if len(samples) < 3 and ill:
            samples.append({"mutation": desc, "why": ("token-level" if not syn_ok else "; ".join(sem)), "gocc_exit": rc})
    for o in ctx.failed_obligations():
        if reported < 6:
            ctx.violation({"kind": "proof-obligation-broken", "obligation": o}, found_input=False)
            reported += 1
    ctx.write_evidence("proof", {
        "evaluations": total, "distinct_nontrivial": len(distinct),
        "rule": "well-formed grammar files (CFGs with lexical part; random lexical grammars) damaged at token level: delete / insert / "
                "substitute one token (30/25/20%), rename one reference to an undefined name (15%), duplicate a lexical definition (10%); and "
                "damaged semantically (26 kinds: duplicate token / regular definition / ignored token, undefined regular definition in a token, in "
                "a used or unused definition, self / mutual recursion used or unused, undefined upper-case / lower-case / non-ASCII upper-case "
                "symbol, reserved names, string literals clashing with productions or lexical identifiers, duplicate production); unmodified "
                "bases included; non-trivial = files that are ill-formed by the oracle; distinct files",
        "samples": samples, "programs": len(bases), "verdict_histogram": dict(hist),
        "front_end_model_vs_gocc": dict(sem_hist), "flags": dict(flag_hist), "plain_nonterminals_of_the_spec": [nts[i] for i in obl.get("plain_nonterminals", [])],
        "traces_validated_against_impl": total, "disagreements": disagreements + sem_dis,
    }, ["the semantic rules are modelled in Front/Sem.v (tied by correspondence on every file of the run, both directions) and, independently, "
        "evaluated by the harness on the real scanner's token stream (undefined production / regular definition, duplicate definition)",
        "gocc reports duplicates, string-literal clashes and recursion by Go panics (exit 2): non-zero, which is all the property asks",
        "character-level damage (unterminated comments or literals, illegal escapes: the scanner counts errors that nobody reads) is outside "
        "the property's quantifier (token-level violations); see notes/FSCAN_NOTES.md",
        "a syntax production defined twice merges its alternatives (not an error by the property)"])
