"""C19 — markdown input is equivalent to its fenced code, with positions preserved.

Proof: Properties/C19.v (Front/Md.v model of loadMd).
Tie K: md.loadMd (verifdump md, through a tagged export) vs extracted Md.load_md on random documents; the real binary on x.md vs
       the concatenated blocks as x.bnf: same generated packages; a planted syntax error is reported at the markdown position."""
import collections
import filecmp
import os
import re
import subprocess

import cfggen
import gen
import vlib

PROSE = ["Some text.", "# Title", "a `b` c", "", "line one\nline two", "tab\there", "unicode é €", "- item", "x\r\ny",
         "no-break\u00a0space", "ideographic\u3000space", "ls\u2028ps\u2029", "vt\x0bff\x0cnel\u0085", "~~~", "\ufeffbom", "thin\u2009sp\u202f\u205f\u1680",
         "nul\x00ctl\x1a", "\U0001F600 emoji", "'quote' \"dq\" << >>", "    indented code", "``", "` ` `"]


INLINE_PROSE = ["", "see: ", "é€ ", "\U0001F600\U0001F600 x ", "tab\there ", "日本語の文 ", "\u00a0\u3000", "a `b` c ", "ÿ\u0301 combining "]


def rand_doc_runes(rng):
    alpha = [96, 96, 96, 10, 97, 32, 233, 13, 9]
    if rng.random() < 0.3:
        # runes that other notions of "white space" / "printable" treat specially
        alpha = alpha + [0xA0, 0x3000, 0x2028, 0x85, 0x0B, 0x0C, 0xFEFF, 0, 0x7E, 0xFFFD, 0x1F600, 0x2009, 0x1A]
    return [rng.choice(alpha) for _ in range(rng.randint(0, 40))]


def dir_files(d):
    out = {}
    for dp, _, fs in os.walk(d):
        for f in fs:
            if f.endswith(".go") and "/cmd" not in dp:
                out[os.path.relpath(os.path.join(dp, f), d)] = open(os.path.join(dp, f), "rb").read()
    return out


def run(ctx):
    ctx.check_property_file()
    thorough = ctx.tier == "thorough"
    rng = ctx.rng
    # ---- K1: function level
    docs = [rand_doc_runes(rng) for _ in range(20000 if not thorough else 300000)]
    text_go = "".join("".join(chr(c) for c in d).encode("utf-8").hex() + "\n" for d in docs)
    text_mo = "".join(" ".join(map(str, d)) + "\n" for d in docs)
    go = vlib.run_lines([ctx.verifdump, "md"], text_go)
    # the same documents through the entry point main.go uses (file -> md.GetSource: reading, byte/rune conversions, loadMd)
    go_file = vlib.run_lines([ctx.verifdump, "mdfile"], text_go)
    mo = vlib.run_lines([ctx.modelrun, "md"], text_mo)
    reported = 0
    disagreements = 0
    fences = collections.Counter()
    for d, g, gfile, m in zip(docs, go, go_file, mo):
        gr = [ord(ch) for ch in bytes.fromhex(g).decode("utf-8")]
        if gfile != g:
            # what gocc reads (GetSource) is not what loadMd produced: judge GetSource's output by the property's oracle below
            gr = [ord(ch) for ch in bytes.fromhex(gfile).decode("utf-8", "replace")]
        mr = [int(x) for x in m.split()]
        fences[min("".join(chr(c) for c in d).count("```"), 6)] += 1
        # property-level oracle on the implementation: length and newline positions preserved, runes kept or blanked
        why = None
        if len(gr) != len(d):
            why = "length changed"
        elif any((a == 10) != (b == 10) for a, b in zip(d, gr)):
            why = "a newline moved"
        elif any(not (b == a or (b == 32 and a != 10)) for a, b in zip(d, gr)):
            why = "a rune was altered (neither kept nor blanked)"
        if why and reported < 3:
            ctx.violation({"kind": "property-oracle-on-implementation", "document_runes": d, "loadMd": gr, "reason": why})
            reported += 1
        elif gr != mr:
            disagreements += 1
            if reported < 3:
                ctx.violation({"kind": "correspondence-broken", "correspondence": "md.loadMd vs Md.load_md", "document_runes": d,
                               "go": gr, "model": mr}, found_input=False)
                reported += 1
    # ---- K2: whole tool: x.md vs x.bnf
    ws = gen.Workspace(ctx)
    ngr = 25 if not thorough else 200
    tool_cases = 0
    tool_bad = 0
    pos_cases = 0
    samples = []
    for gi in range(ngr):
        g = cfggen.family(gi) if gi < 6 else cfggen.gen_cfg(rng)
        body = g.text("x/PKG/h")
        if rng.random() < 0.5:
            # tokens that span line breaks (action expressions written over several lines): line ends inside a token are token text
            body = body.replace("<< h.N(", "<< h.N(\n      ").replace(" >>", "\n   >>")
        crlf = rng.random() < 0.4
        lines = body.split("\n")
        # split the grammar text into 1-3 blocks at line boundaries (bare fences on their own lines)
        # cut only BETWEEN tokens: a fence boundary inside a token that spans lines (an action written over several lines) puts the
        # blanked fence lines and prose into the token's text (known finding C19-fence-inside-token, exercised by a fixed witness below)
        allowed = [k for k in range(1, len(lines)) if "\n".join(lines[:k]).count("<<") == "\n".join(lines[:k]).count(">>")]
        cuts = sorted(set(rng.choice(allowed) for _ in range(rng.choice([0, 1, 2])))) if len(lines) > 2 and allowed else []
        parts = []
        prev = 0
        for c in cuts + [len(lines)]:
            parts.append("\n".join(lines[prev:c]) + "\n")
            prev = c
        md = rng.choice(PROSE) + "\n"
        inline = rng.random() < 0.4
        for part in parts:
            if inline:
                # fences opened and closed in the middle of a line: prose (multi-byte characters, tabs) shares a line with code
                md += rng.choice(INLINE_PROSE) + "```" + part + "```" + rng.choice(INLINE_PROSE) + "\n"
            else:
                md += "```\n" + part + "```\n" + rng.choice(PROSE) + "\n"
        if crlf:
            # the whole document with Windows line ends (prose, fence lines and code alike)
            md = md.replace("\r\n", "\n").replace("\n", "\r\n")
            parts = [p_.replace("\n", "\r\n") for p_ in parts]
        name_md, name_bnf = "m%d" % gi, "b%d" % gi
        # same output directory name is needed for identical import paths: generate both into sub-directory 'o' of separate parents
        for nm, fname, content in ((name_md, "g.md", md), (name_bnf, "g.bnf", "".join(parts))):
            os.makedirs(os.path.join(ws.dir, nm, "o"), exist_ok=True)
        rc1, out1, d1 = ws.gocc(name_md + "/o", md.replace("PKG", "o"), flags=["-a", "-p", "x/o"], fname="g.md")
        rc2, out2, d2 = ws.gocc(name_bnf + "/o", "".join(parts).replace("PKG", "o"), flags=["-a", "-p", "x/o"], fname="g.bnf")
        tool_cases += 1
        f1, f2 = dir_files(d1), dir_files(d2)
        strip = lambda s: re.sub(r"warning:[^\n]*\n", "", s)
        if rc1 != rc2 or f1 != f2:
            tool_bad += 1
            if reported < 3:
                diff = [k for k in set(f1) | set(f2) if f1.get(k) != f2.get(k)]
                ctx.violation({"kind": "property-oracle-on-implementation", "markdown": md, "concatenated_blocks": "".join(parts),
                               "exit_md": rc1, "exit_bnf": rc2, "differing_files": diff[:5], "output_md": out1[-300:], "output_bnf": out2[-300:]})
                reported += 1
        if len(samples) < 2:
            samples.append({"markdown": md[:400]})
        # planted syntax error: replace one ';' by ';;' and compare reported position with the position in the markdown file
        if ";" in md and rc1 == 0 and not crlf:
            idx = [m.start() for m in re.finditer(r";\n", md)]
            k = rng.choice(idx)
            # with fences in mid-line prefer an error on a line that begins with prose (columns counted across blanked prose)
            shared = [i for i in idx if "```" in md[md.rfind("\n", 0, i) + 1:i]]
            if shared and rng.random() < 0.8:
                k = rng.choice(shared)
            bad_md = md[:k] + "; ;" + md[k + 1:]
            line = bad_md.count("\n", 0, k + 2) + 1
            col = k + 2 - (bad_md.rfind("\n", 0, k + 2) + 1) + 1
            rc3, out3, _ = ws.gocc(name_md + "/e", bad_md.replace("PKG", "o"), flags=["-a", "-p", "x/o"], fname="g.md")
            pos_cases += 1
            m = re.search(r"@ (\d+):(\d+)|Pos\(offset=\d+, line=(\d+), column=(\d+)\)|line[ =](\d+)[, ]+col(?:umn)?[ =](\d+)", out3)
            got = None
            if m:
                nums = [int(x) for x in m.groups() if x is not None]
                got = (nums[0], nums[1])
            if rc3 == 0 or got != (line, col):
                tool_bad += 1
                if reported < 3:
                    ctx.violation({"kind": "property-oracle-on-implementation", "markdown": bad_md, "expected_line_col": [line, col],
                                   "gocc_exit": rc3, "gocc_output": out3[-400:]})
                    reported += 1
    # ---- known finding: a fence boundary inside a multi-line token (fixed witness; any OTHER difference is still a violation)
    kf = {f["id"]: f for f in ctx.known_findings()}
    wit_blocks = ["S : a << []interface{}{\n", "  $0}, nil >> ;\n"]
    wit_md = "# witness\n```\n" + wit_blocks[0] + "```\nprose between the two halves of one action\n```\n" + wit_blocks[1] + "```\n"
    for nm in ("kfm/o", "kfb/o"):
        os.makedirs(os.path.join(ws.dir, nm), exist_ok=True)
    rcm, outm, dm = ws.gocc("kfm/o", wit_md, flags=["-a", "-p", "x/o"], fname="g.md")
    rcb, outb, db = ws.gocc("kfb/o", "".join(wit_blocks), flags=["-a", "-p", "x/o"], fname="g.bnf")
    fm, fb = dir_files(dm), dir_files(db)
    if rcm != rcb or fm != fb:
        diff = sorted(k for k in set(fm) | set(fb) if fm.get(k) != fb.get(k))
        what = ("a ``` fence boundary inside a token that spans lines (the action of  S : a << ... >>  split over two fenced blocks): the blanked "
                "fence lines and prose become part of the action text; x.md and the concatenated x.bnf differ in %s" % diff)
        if "C19-fence-inside-token" in kf and rcm == rcb and diff == ["parser/productionstable.go"]:
            ctx.report_known(kf["C19-fence-inside-token"], what)
        elif reported < 3:
            ctx.violation({"kind": "property-oracle-on-implementation", "markdown": wit_md, "concatenated_blocks": "".join(wit_blocks),
                           "exit_md": rcm, "exit_bnf": rcb, "differing_files": diff})
            reported += 1
    for o in ctx.failed_obligations():
        if reported < 6:
            ctx.violation({"kind": "proof-obligation-broken", "obligation": o}, found_input=False)
            reported += 1
    ctx.write_evidence("proof", {
        "evaluations": len(docs) + tool_cases + pos_cases, "distinct_nontrivial": sum(v for k, v in fences.items() if k >= 2),
        "rule": "function level: random rune strings over {`,\\n,a,space,é,CR,tab} weighted towards backticks (length 0-40); non-trivial = at "
                "least two fences; tool level: grammars split at line boundaries into 1-3 bare fenced blocks between random prose, x.md vs "
                "concatenated x.bnf (generated files and exit status), and a planted syntax error whose reported line:column must be the "
                "markdown position",
        "samples": samples + [{"runes": docs[0]}], "fence_count_histogram": dict(fences),
        "tool_level_cases": tool_cases, "position_cases": pos_cases, "tool_level_failures": tool_bad,
        "traces_validated_against_impl": len(docs), "disagreements": disagreements,
    }, ["loadMd is reached through an add-only //go:build verif export in package md",
        "fences split inside a token, or blocks not on their own lines, are outside the property's quantifier",
        "the scanner's position function is the one used for the diagnostic; its own model is the subject of C13/C14"])
