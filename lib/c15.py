"""C15 — the front end accepts exactly the token language of spec/gocc2.ebnf.

Tie R (main instrument): the checked-in tables (verifdump ftables) and the syntactic part of spec/gocc2.ebnf are translated
to Gallina; the Coq kernel evaluates the verified validator lr_valid(spec grammar, front-end tables, annotation) by vm_compute;
Sound/Complete (Properties/C15.v) then give: for ALL token sequences, accepted <=> sentence of the spec, and the reductions are
the spec's productions (production i of the tables is compared with production i of the spec).
Tie K: the real front-end Parse loop (verifdump fparse, actions replaced by loggers) vs LR/Parse.v on the translated tables.
Oracle: Earley on the spec grammar."""
import collections
import json
import os
import re
import subprocess

import c02
import cfggen
import lrobl
import pylr
import vlib


def parse_spec(path):
    """syntactic part of gocc2.ebnf -> list of (lhs, [symbols]) with terminals named as in FRONTENDTokens"""
    src = open(path, encoding="utf-8").read()
    src = re.sub(r"/\*.*?\*/", " ", src, flags=re.S)
    src = re.sub(r"//[^\n]*", " ", src)
    src = re.sub(r"<<.*?>>", " ", src, flags=re.S)
    toks = re.findall(r'"(?:[^"\\]|\\.)*"|[A-Za-z_][A-Za-z_0-9]*|[:;|]', src)
    prods = []
    i = 0
    while i < len(toks):
        lhs = toks[i]
        assert toks[i + 1] == ":", (lhs, toks[i:i + 3])
        i += 2
        body = []
        while True:
            t = toks[i]
            i += 1
            if t == "|" or t == ";":
                prods.append((lhs, body))
                body = []
                if t == ";":
                    break
            else:
                body.append(t[1:-1] if t.startswith('"') else t)
    return prods


def table_body(p):
    s = p["string"]
    m = re.match(r"^(\S+) : (.*?)(?: << .* >>)? ;$", s, flags=re.S)
    return m.group(1), m.group(2).split()


def build(ctx):
    d = json.loads(subprocess.run([ctx.verifdump, "ftables"], capture_output=True, text=True, check=True).stdout)
    spec = parse_spec(os.path.join(vlib.REPO, "spec", "gocc2.ebnf"))
    start = spec[0][0]
    spec = [("S!", [start])] + spec
    problems = []
    if len(spec) != len(d["prods"]):
        problems.append("spec has %d productions (with S!), tables have %d" % (len(spec), len(d["prods"])))
    # the property asks for the same productions (head and body), not the same numbering: match every production of the tables
    # with a distinct production of the spec and use the spec's productions in the tables' order
    unused = list(range(len(spec)))
    order = []
    for i, tp in enumerate(d["prods"]):
        head, body = table_body(tp)
        j = next((j for j in unused if spec[j] == (head, body)), None)
        if head != tp["head"] or tp["numSymbols"] != len(body) or j is None:
            problems.append("production %d of the tables (%s : %s, NumSymbols %d) has no unmatched counterpart in the spec" %
                            (i, tp["head"], " ".join(body), tp["numSymbols"]))
        else:
            unused.remove(j)
            order.append(j)
    for j in unused:
        problems.append("spec production %s : %s is missing from the tables" % (spec[j][0], " ".join(spec[j][1])))
    if order and order[0] != 0:
        problems.append("production 0 of the tables is not S! -> start symbol")
    if not problems:
        spec = [spec[j] for j in order]
    nts = []
    for (l, b) in spec:
        if l not in nts:
            nts.append(l)
    ntset = set(nts)
    toks = d["tokens"]                       # index = front-end type; model terminal = type + 1
    tidx = {n: i + 1 for i, n in enumerate(toks)}
    nterms = len(toks) + 1
    for (l, b) in spec:
        for s in b:
            if s not in ntset and s not in tidx:
                problems.append("spec symbol %r is neither a nonterminal nor a front-end token" % s)
    g = [(nts.index(l), [("NT", nts.index(s)) if s in ntset else ("T", tidx.get(s, 0)) for s in b]) for (l, b) in spec]
    states = []
    for st in d["states"]:
        acts = [0] * nterms
        for t, a in st["actions"].items():
            t = int(t) + 1
            if a == "accept":
                acts[t] = 1
            elif a.startswith("shift"):
                acts[t] = 2 + 2 * int(a.split()[1])
            else:
                acts[t] = 3 + 2 * int(a.split()[1])
        gotos = [st["gotos"].get(n, -1) for n in nts]
        states.append({"canRecover": st["canRecover"], "actions": acts, "gotos": gotos})
    tables = {"prods": [(nts.index(p["head"]) if p["head"] in ntset else 0, p["numSymbols"]) for p in d["prods"]],
              "states": states, "err": tidx["error"], "gate": True, "has_act": [1] * len(d["prods"])}

    def table_trans(s, X):
        st = states[s]
        if X in ntset:
            t = st["gotos"][nts.index(X)]
            return t if t >= 0 else None
        a = st["actions"][tidx[X]] if X in tidx else 0
        return (a - 2) // 2 if (a >= 2 and a % 2 == 0) else None

    ann, nullable, first, aprobs = pylr.align(spec, ntset, "␚", table_trans, len(states))
    items = [[(p, k, tidx[la]) for (p, k, la) in (its or [])] for its in ann]
    nl = [n in nullable for n in nts]
    fs = [[tidx[a] for a in sorted(first[n])] for n in nts]
    return d, spec, nts, toks, tidx, g, tables, items, nl, fs, problems, aprobs


def write_table_file(path, tables):
    with open(path, "w") as f:
        f.write("E %d 1\n" % tables["err"])
        f.write("P %d\n" % len(tables["prods"]))
        for (nt, ln) in tables["prods"]:
            f.write("%d %d 1\n" % (nt, ln))
        f.write("S %d\n" % len(tables["states"]))
        for st in tables["states"]:
            f.write("%d %d %s %d %s\n" % (1 if st["canRecover"] else 0, len(st["actions"]), " ".join(map(str, st["actions"])),
                                          len(st["gotos"]), " ".join(map(str, st["gotos"]))))


def model_line(line):
    """modelrun parse output -> 'ACC|REJ [reductions] scans=n'"""
    if line.startswith("PANIC"):
        return "PANIC"
    m = re.match(r"^(OK|ERR|FUEL)(.*?) LOG(.*) SCANS (\d+) CTXBAD 0$", line)
    if not m:
        return "MODEL?" + line[:80]
    reds = re.findall(r"\[(\d+)", re.sub(r"\(err[^)]*\)", "", m.group(3)))
    # nested kids are printed inside [..] with parentheses; only entries start with '['
    return "%s [%s] scans=%s" % ("ACC" if m.group(1) == "OK" else "REJ", " ".join(reds), m.group(4))


def run(ctx):
    ctx.check_property_file()
    thorough = ctx.tier == "thorough"
    d, spec, nts, toks, tidx, g, tables, items, nl, fs, problems, aprobs = build(ctx)
    ctx.add_obligation("R: the productions of tables.go are exactly the productions of spec/gocc2.ebnf (same heads and bodies, %d productions, bijection)" % len(spec),
                       not problems, "; ".join(problems[:4]))
    text = lrobl.emit_raw("front", g, tables, items, nl, fs)
    res, errs = lrobl.check_all([], lrobl.LR_CHECKS, "c15")  # no-op, keeps interface uniform
    res = lrobl.check_batch([("front", text)], lrobl.LR_CHECKS[:2] + [("sf", "start_fresh g_{n}"),
                            ("gate", "t_gate tb_{n} && forallb (fun r => negb (s_recover r)) (t_states tb_{n})")], "c15")
    r1 = res.get("front", {})
    for label, what in (("vb", "valid_backward"), ("vf", "valid_forward"), ("sf", "start_fresh"),
                        ("gate", "recovery is gated on canRecover and no state can recover")):
        ctx.add_obligation("R: %s(spec grammar, front-end tables, annotation) = true by vm_compute" % what, r1.get(label, False),
                           str(res.get("__error__", ""))[-300:] + "; annotation alignment: " + "; ".join(aprobs[:3]))
    # ---- K
    tmp = ctx.mktemp("c15")
    tf = os.path.join(tmp, "front.tab")
    write_table_file(tf, tables)
    cfg = cfggen.CFG(nts[1:], [t for t in toks if t != "␚"], [(l, b, "normal", None) for (l, b) in spec[1:]])
    ea = cfggen.Earley(cfg)
    n = 3000 if not thorough else 60000
    seqs = []
    for _ in range(n):
        s = cfggen.gen_sentence(cfg, ctx.rng, budget=ctx.rng.choice([4, 8, 14, 20])) or []
        k = ctx.rng.random()
        if k < 0.45:
            s = cfggen.mutate(s, cfg.terms, ctx.rng)
        elif k < 0.5:
            s = [ctx.rng.choice(cfg.terms) for _ in range(ctx.rng.randint(0, 8))]
        seqs.append(s)
    # constructed sentences far beyond what random derivations reach: deep bracket nesting (every open bracket stays on the parse stack),
    # long lists; each with a near miss (one closing bracket / separator removed). Their membership is known by construction.
    known = {}
    OPEN = {"(": ")", "[": "]", "{": "}"}
    rng = ctx.rng
    for depth in ([150, 1100, 3000] if not thorough else [150, 1100, 3000, 8000]):
        br = [rng.choice("([{") for _ in range(depth)]
        body = list(br) + ["char_lit"] + [OPEN[b] for b in reversed(br)]
        deep = ["tokId", ":"] + body + [";"]
        miss = list(deep)
        del miss[len(deep) - 2 - rng.randrange(depth)]
        for q, v in ((deep, True), (miss, False)):
            assert all(x in tidx for x in q), [x for x in q if x not in tidx][:3]
            if True:
                seqs.append(q)
                known[len(seqs) - 1] = v
    for ln in ([2500] if not thorough else [2500, 8000]):
        longlex = []
        for i in range(ln // 5):
            longlex += [rng.choice(["tokId", "regDefId", "ignoredTokId"]), ":", "char_lit", rng.choice(["|", "-", "char_lit"]), "char_lit", ";"]
        longsyn = []
        for i in range(ln // 6):
            longsyn += ["prodId", ":"] + [rng.choice(["prodId", "tokId", "string_lit"]) for _ in range(rng.randint(1, 4))] + ["|", "tokId", ";"]
        for q in (longlex, longlex + longsyn, longsyn):
            assert all(x in tidx for x in q), [x for x in q if x not in tidx][:3]
            if True:
                seqs.append(q)
                known[len(seqs) - 1] = True
                m2 = list(q)
                del m2[max(i for i, x in enumerate(m2) if x == ";")]
                seqs.append(m2)
                known[len(seqs) - 1] = False
    ftext = "".join(" ".join(str(tidx[t] - 1) for t in s) + "\n" for s in seqs)
    mtext = "".join(" ".join(str(tidx[t]) for t in s) + "\n" for s in seqs)
    go = vlib.run_lines([ctx.verifdump, "fparse"], ftext)
    mo = [model_line(x) for x in vlib.run_lines([ctx.modelrun, "parse", tf, "400000", "brief"], mtext, timeout=3600)]
    reported = 0
    disagreements = 0
    hist = collections.Counter()
    distinct = set()
    for si, (s, gl, ml) in enumerate(zip(seqs, go, mo)):
        sent = known[si] if si in known else ea.accepts(s)
        acc = gl.startswith("ACC")
        hist[("sentence" if sent else "non-sentence") + "/" + gl.split(" ")[0]] += 1
        if len(s) >= 6:
            distinct.add(tuple(s))
        if (acc != sent or gl.startswith("PANIC")) and reported < 3 and si in known:
            ctx.violation({"kind": "property-oracle-on-implementation", "tokens": "constructed: %d tokens, starts %s" % (len(s), " ".join(s[:12])),
                           "front_end_parse": gl[:300], "is_sentence_of_spec(by construction)": sent,
                           "how_to_replay": "tokens (front-end type numbers): " + " ".join(str(tidx[x] - 1) for x in s)[:100000]})
            reported += 1
        elif (acc != sent or gl.startswith("PANIC")) and reported < 3:
            def bad(t):
                o = vlib.run_lines([ctx.verifdump, "fparse"], " ".join(str(tidx[x] - 1) for x in t) + "\n")[0]
                return o.startswith("ACC") != ea.accepts(t) or o.startswith("PANIC")
            small = c02.shrink_tokens(s, bad)
            o = vlib.run_lines([ctx.verifdump, "fparse"], " ".join(str(tidx[x] - 1) for x in small) + "\n")[0]
            ctx.violation({"kind": "property-oracle-on-implementation", "tokens": small, "front_end_parse": o,
                           "is_sentence_of_spec(Earley)": ea.accepts(small),
                           "how_to_replay": "echo '%s' | build/bin/verifdump fparse" % " ".join(str(tidx[x] - 1) for x in small)})
            reported += 1
        elif gl != ml:
            disagreements += 1
            if reported < 3:
                ctx.violation({"kind": "correspondence-broken", "correspondence": "front-end Parse loop (verifdump fparse) vs LR/Parse.v "
                               "on the translated tables", "tokens": s, "go": gl, "model": ml}, found_input=False)
                reported += 1
    for o in ctx.failed_obligations():
        if reported < 6:
            ctx.violation({"kind": "proof-obligation-broken", "obligation": o,
                           "note": "no token sequence on which the front end and the spec grammar disagree was found on this run"},
                          found_input=False)
            reported += 1
    ctx.write_evidence("proof", {
        "evaluations": len(seqs), "distinct_nontrivial": len(distinct),
        "rule": "token sequences over the front end's alphabet: random derivations of the spec grammar (depth budget 4-20), 45% with "
                "1-3 token-level edits, 5% random; plus constructed sentences and near misses: bracket nesting 150 / 1100 / 3000 deep (thorough: "
                "up to 8000), lists of 2500 tokens (thorough: 8000); non-trivial = at least 6 tokens; distinct sequences",
        "samples": [{"tokens": seqs[i], "front_end": go[i]} for i in range(3)],
        "programs": 1, "verdict_histogram": dict(hist), "states": len(tables["states"]), "productions": len(spec),
        "traces_validated_against_impl": len(seqs), "disagreements": disagreements,
    }, ["the spec file is read by a 20-line tokenizer (ids, string literals, : | ;, comments and << >> stripped)",
        "annotations (LR(1) item sets) are computed by an untrusted Python LR(1) construction aligned along transitions; the verified "
        "validator checks them",
        "actions of the front end are replaced by loggers for the reduction trace (AST construction is outside C15)"])
