"""C18 — rune classes of a lexer state form an exact disjoint partition.

Proof: Properties/C18.v (all interval sequences, all orders).
Tie K: verifdump ranges (real DisjunctRangeSet.AddRange) vs extracted Ranges.classes on the same
interval sequences; independently the property oracle is evaluated on the Go output alone."""
import collections
import os
import vlib

BOUNDARY = [0, 1, 0x7F, 0x80, 0x7FF, 0x800, 0xD7FF, 0xE000, 0xFFFD, 0xFFFF, 0x10000, 0x10FFFE, 0x10FFFF]


def gen_seq(rng, maxlen):
    n = rng.choice([0, 1, 2, 3]) if rng.random() < 0.15 else rng.randint(1, maxlen)
    mode = rng.random()
    if mode < 0.6:
        alpha = list(range(0, rng.choice([6, 9, 14, 30])))
    elif mode < 0.8:
        base = rng.choice(BOUNDARY)
        alpha = [max(0, min(0x10FFFF, base + d)) for d in range(-3, 4)]
    else:
        alpha = BOUNDARY + list(range(60, 70))
    ops = []
    for _ in range(n):
        a = rng.choice(alpha)
        k = rng.random()
        if k < 0.35:
            b = a
        elif k < 0.93:
            b = rng.choice(alpha)
            if b < a and rng.random() < 0.8:
                a, b = b, a
        else:
            b = rng.choice(alpha)  # possibly empty interval (from > to)
        ops.append((a, b))
        if ops and rng.random() < 0.1:
            ops.append(rng.choice(ops))  # duplicate
    return ops


def fmt(ops):
    return " ".join("%d %d" % p for p in ops)


def parse(line):
    w = [int(x) for x in line.split()]
    return list(zip(w[0::2], w[1::2]))


def oracle(ops, cls):
    """The property itself, on the implementation's output. Returns None or a reason."""
    prev_hi = None
    for (a, b) in cls:
        if a > b:
            return "empty class [%d,%d]" % (a, b)
        if prev_hi is not None and a <= prev_hi:
            return "classes not sorted/disjoint at [%d,%d]" % (a, b)
        prev_hi = b
    # union exact + refinement: compare on the finite set of elementary segments
    pts = set()
    for (a, b) in list(ops) + list(cls):
        if a <= b:
            pts.add(a); pts.add(b + 1)
    pts = sorted(pts)
    for i in range(len(pts) - 1):
        x = pts[i]
        in_ops = any(a <= x <= b for (a, b) in ops)
        cs = [c for c in cls if c[0] <= x <= c[1]]
        if in_ops != (len(cs) > 0):
            return "union differs at rune %d" % x
    for c in cls:
        for (a, b) in ops:
            if a > b:
                continue
            inside = a <= c[0] and c[1] <= b
            disjoint = c[1] < a or b < c[0]
            if not (inside or disjoint):
                return "class [%d,%d] straddles added range [%d,%d]" % (c[0], c[1], a, b)
    return None


def shrink(ops, bad):
    ops = list(ops)
    changed = True
    while changed:
        changed = False
        for i in range(len(ops)):
            cand = ops[:i] + ops[i + 1:]
            if bad(cand):
                ops = cand
                changed = True
                break
    return ops


def run(ctx):
    ctx.check_property_file()
    n = 20000 if ctx.tier == "quick" else 600000
    maxlen = 40 if ctx.tier == "quick" else 80
    seqs = []
    import glob, json, os
    for p in sorted(glob.glob(os.path.join(vlib.ROOT, "corpus", "C18", "*.json"))):
        seqs.append([tuple(x) for x in json.load(open(p))["ops"]])
    ncorpus = len(seqs)
    while len(seqs) < n:
        seqs.append(gen_seq(ctx.rng, maxlen))
    text = "".join(fmt(s) + "\n" for s in seqs)
    go = vlib.run_lines([ctx.verifdump, "ranges"], text)
    mo = vlib.run_lines([ctx.modelrun, "ranges", "--cases"], text)
    assert len(go) == len(seqs) == len(mo), (len(go), len(mo), len(seqs))
    case_hist = collections.Counter()
    len_hist = collections.Counter()
    distinct = set()
    disagreements = 0

    def go_classes(ops):
        return parse(vlib.run_lines([ctx.verifdump, "ranges"], fmt(ops) + "\n")[0])

    def mo_classes(ops):
        return parse(vlib.run_lines([ctx.modelrun, "ranges"], fmt(ops) + "\n")[0])

    reported = 0
    for ops, g, m in zip(seqs, go, mo):
        mcls, _, mcases = m.partition("|")
        cases = mcases.split()
        for c in cases:
            case_hist[c] += 1
        len_hist[min(len(ops) // 10 * 10, 80)] += 1
        if len(set(cases)) >= 3:
            distinct.add(tuple(ops))
        gcls = parse(g)
        why = oracle(ops, gcls)
        if why is not None and reported < 3:
            small = shrink(ops, lambda o: oracle(o, go_classes(o)) is not None)
            ctx.violation({"kind": "property-oracle-on-implementation", "ops": small,
                           "go_classes": go_classes(small), "model_classes": mo_classes(small),
                           "reason": oracle(small, go_classes(small)),
                           "how_to_replay": "echo '%s' | build/bin/verifdump ranges" % fmt(small)})
            reported += 1
        elif gcls != parse(mcls):
            disagreements += 1
            if why is None and reported < 3:
                small = shrink(ops, lambda o: go_classes(o) != mo_classes(o))
                # correspondence broke but the property oracle accepts the implementation's output:
                # search neighbours for a failing input
                found = None
                for _ in range(20000):
                    cand = gen_seq(ctx.rng, 12)
                    if oracle(cand, go_classes(cand)) is not None:
                        found = cand
                        break
                if found is not None:
                    small2 = shrink(found, lambda o: oracle(o, go_classes(o)) is not None)
                    ctx.violation({"kind": "property-oracle-on-implementation", "ops": small2,
                                   "go_classes": go_classes(small2), "reason": oracle(small2, go_classes(small2))})
                else:
                    ctx.violation({"kind": "correspondence-broken",
                                   "correspondence": "verifdump ranges (DisjunctRangeSet.AddRange) vs Ranges.classes "
                                                     "(theorems C18_* are about Ranges.classes)",
                                   "ops": small, "go_classes": go_classes(small), "model_classes": mo_classes(small)},
                                  found_input=False)
                reported += 1
    # ---- whole lexer states: the literals and ranges expected in a state as the GENERATOR feeds them into the set (getSymbolClasses):
    # the verified generator model computes every state's classes as Ranges.classes of the expected terminals of its items; its
    # DFA (class lists in order, per state) must equal gocc's. Alphabets with code points that collide under narrowing conversions.
    import c01, gen, lexgen, subprocess
    ws = gen.Workspace(ctx)
    COLL = [["a", "\u0161", "\u0261", "b", "\u0162"], ["\u00ff", "\uffff", "\u01ff", "\U0001ffff", "z"], ["\u0100", "\u0800", "\U00010000", "\x00", "\u0300"],
            ["\x7f", "\u0080", "\u07ff", "\u0800", "\uffff", "\U00010000", "a"], ["a", "\U00010061", "\u1061", "\u0061", "\U00100061"]]
    state_cases = 0
    state_bad = []
    for gi in range(15 if ctx.tier == "quick" else 150):
        # every third grammar over the ordinary alphabet (overlapping, nested and adjacent ranges are frequent there)
        lg, _ = lexgen.gen_lex_grammar(ctx.rng, safe_regdefs=True, alpha=COLL[gi % len(COLL)]) if gi % 3 else lexgen.gen_lex_grammar(ctx.rng, safe_regdefs=True)
        rc, out, d = ws.gocc("s%d" % gi, lg.text(), timeout=60)
        if rc != 0:
            continue
        dump, _ = c01.lexdump(ctx, d)
        if not dump:
            continue
        # the classes as they reach the GENERATED lexer: the case ranges of every state of the emitted transitiontable.go must be
        # the model's classes too (sorted, disjoint, non-empty, same union): the code that writes the table is part of the path
        args = [ctx.modelrun, "lexgen", dump, "100000"]
        try:
            import lexcommon
            rows = gen.parse_transtab(os.path.join(d, "lexer", "transitiontable.go"))
            acts = gen.parse_acttab(os.path.join(d, "lexer", "acttab.go"))
            tab = os.path.join(d, "dfa.tab")
            lexcommon.write_table_file(tab, rows, acts)
            args.append(tab)
            for sno, row in enumerate(rows):
                cs = row["cases"]
                if any(lo > hi for (lo, hi, _) in cs) or any(cs[i][1] >= cs[i + 1][0] for i in range(len(cs) - 1)):
                    state_bad.append({"grammar": lg.text(), "emitted_state": sno, "cases": cs[:12],
                                      "reason": "case ranges of the emitted transition table are not sorted, disjoint and non-empty"})
        except Exception as e:
            state_bad.append({"grammar": lg.text(), "reason": "emitted transition table not readable: %s" % str(e)[:200]})
        v = subprocess.run(args, capture_output=True, text=True, timeout=600).stdout.strip()
        state_cases += 1
        if not v.startswith("EQUAL"):
            state_bad.append({"grammar": lg.text(), "lexgen_vs_gocc": v})
    ctx.add_obligation("K: per lexer state, gocc's rune classes AND the case ranges of the emitted transition table = Ranges.classes of the terminals expected in the state (LexGen model) on %d "
                       "lexical grammars over alphabets with code points equal modulo 256 / 65536" % state_cases, not state_bad, str(state_bad[:1])[:600])
    for b in state_bad[:2]:
        if reported < 5:
            ctx.violation(dict(b, kind="correspondence-broken", correspondence="rune classes of gocc's lexer states vs LexGen/Ranges.classes"),
                          found_input=False)
            reported += 1
    for o in ctx.failed_obligations():
        if not o["name"].startswith("K: per lexer state"):
            ctx.violation({"kind": "proof-obligation-broken", "obligation": o}, found_input=False)
    ctx.write_evidence("proof", {
        "evaluations": len(seqs), "lexer_state_level_grammars": state_cases,
        "distinct_nontrivial": len(distinct),
        "rule": "random interval sequences (length 0-%d; endpoints from a tiny alphabet to force all eleven "
                "AddRange cases, or around UTF-8/surrogate boundaries; singletons, duplicates, reversed=empty intervals); "
                "non-trivial = the sequence exercised at least 3 different numbered cases of the AddRange switch; "
                "distinct = distinct sequences" % maxlen,
        "samples": [fmt(s) for s in seqs[ncorpus:ncorpus + 5]],
        "corpus_cases": ncorpus,
        "addrange_case_histogram": dict(sorted(case_hist.items(), key=lambda kv: int(kv[0]))),
        "length_histogram": dict(sorted(len_hist.items())),
        "traces_validated_against_impl": len(seqs),
        "disagreements": disagreements,
    }, [
        "Go rune is int32, model uses unbounded Z: equal as long as no class ends at MaxInt32 (gocc reads runes <= 0x10FFFF)",
        "the correspondence is differential testing on the sequences drawn; the theorems quantify over all sequences of the model",
    ])
