"""C06 — syntax errors name the first offending token and the exact expected set.

Proof: Properties/C06.v (C06_exact for every table passing lr_valid and the canonicity/productivity checks x_checks).
Tie R: lr_valid and x_checks evaluated by the Coq kernel on gocc's own tables/item sets (in gocc's item order) for every grammar.
Tie K: compiled parser vs Parse model on non-sentences (error token identity, expected list, stack top, log).
Oracle: Earley prefix viability on the grammar: the error token is the first one that makes the prefix non-viable; the expected
        list is exactly the set of viable continuations (end of input included), in terminal order."""
import collections
import re

import c02
import cfggen
import lrcommon
import lrobl


def reduced(g):
    prod = cfggen.productive(g)
    return all(n in prod for n in cfggen.reachable(g))


def expected_oracle(ea, g, prefix, terms_in_order):
    out = []
    for (num, name) in terms_in_order:
        if name == "␚":
            if ea.accepts(prefix):
                out.append(num)
        elif name not in ("INVALID",):
            sp = [t for t in g.terms if lrcommon.term_name(t) == name]
            if sp and ea.viable_prefix_len(prefix + [sp[0]]) == len(prefix) + 1:
                out.append(num)
    return out


def run(ctx):
    ctx.check_property_file()
    thorough = ctx.tier == "thorough"
    cands = [g for g in c02.gen_grammars(ctx, 220 if not thorough else 2500) if not g.has_error() and reduced(g)]
    recs, stats, ws = lrcommon.prepare_parsers(ctx, cands, flags=[])
    recs = [r for r in recs if r.bin][: (36 if not thorough else 400)]
    # the same for parsers generated with -zip (tables decoded in init(); anything computed from them at package level comes first)
    zrecs, zstats, ws = lrcommon.prepare_parsers(ctx, [r.g for r in recs[: (8 if not thorough else 60)]], flags=["-zip"], ws=ws, prefix="z")
    recs = recs + [r for r in zrecs if r.bin]
    res, errs = lrobl.check_all(recs, lrobl.LR_CHECKS + [lrobl.X_CHECK], "c06")
    total, disagreements, reported = 0, 0, 0
    distinct = set()
    hist = collections.Counter()
    samples = []
    for r in recs:
        ok = bool(res.get(r.name)) and all(res[r.name].values())
        ctx.add_obligation("R: lr_valid && x_checks (gocc's tables for %s) = true by vm_compute" % r.name, ok, str(res.get(r.name)) + str(errs[:1]))
        ea = cfggen.Earley(r.g)
        terms = list(enumerate(r.dump["terminals"]))
        inputs = [s for s in c02.gen_inputs(r.g, ctx.rng, 150 if not thorough else 400, extra_terms=["zz"])]
        cases = [lrcommon.encode_case(r, [(s, None, False)]) for s in inputs]
        go = [c02.norm(x) for x in lrcommon.run_impl(r, cases)]
        mo = [c02.norm(x) for x in lrcommon.run_model(ctx, r, cases)]
        for s, gl, ml in zip(inputs, go, mo):
            total += 1
            m = re.match(r"^ERR - t(\d+)@(\d+) \{([\d,]*)\} top=(\d+) LOG(.*) SCANS (\d+)", gl)
            why = None
            if m:
                ety, eidx, exp = int(m.group(1)), int(m.group(2)), [int(x) for x in m.group(3).split(",") if x]
                vp = ea.viable_prefix_len([t for t in s if t != "zz"] if "zz" not in s else s[:s.index("zz")] + ["\0"])
                # first offending index by the oracle: smallest i with s[:i+1] not viable (or len(s) when s is viable but not a sentence)
                first_bad = vp if vp < len(s) else len(s)
                hist["error@%s" % ("eof" if eidx >= len(s) else "token")] += 1
                if eidx != first_bad:
                    why = "error reported at token %d, first offending token is %d" % (eidx, first_bad)
                else:
                    want_ty = lrcommon.type_of(r, s[eidx]) if eidx < len(s) else 1
                    if ety != want_ty:
                        why = "error token has type %d, the token at index %d has type %d" % (ety, eidx, want_ty)
                    want = expected_oracle(ea, r.g, s[:eidx], terms)
                    if why is None and exp != want:
                        why = "expected list %s, viable continuations are %s" % (exp, want)
                    scans = int(m.group(6))
                    if why is None and scans != eidx + 1:
                        why = "%d tokens were scanned before reporting the error at index %d" % (scans, eidx)
                if len(s) >= 3:
                    distinct.add((r.name, tuple(s)))
            else:
                hist[gl.split(" ")[0]] += 1
            if why and reported < 3:
                ctx.violation({"kind": "property-oracle-on-implementation", "grammar": r.text, "tokens": s, "parser_output": gl, "reason": why})
                reported += 1
            elif gl != ml:
                disagreements += 1
                if reported < 3:
                    ctx.violation({"kind": "correspondence-broken", "correspondence": "generated Parse (error token, expected list) vs LR/Parse.v",
                                   "grammar": r.text, "tokens": s, "go": gl, "model": ml}, found_input=False)
                    reported += 1
        if len(samples) < 3:
            bad = [i for i, x in enumerate(go) if x.startswith("ERR")]
            if bad:
                samples.append({"grammar": r.text, "tokens": inputs[bad[0]], "parser": go[bad[0]]})
    for o in ctx.failed_obligations():
        if reported < 6:
            ctx.violation({"kind": "proof-obligation-broken", "obligation": o}, found_input=False)
            reported += 1
    ctx.write_evidence("proof", {
        "evaluations": total, "distinct_nontrivial": len(distinct),
        "rule": "conflict-free random/seeded grammars without error alternatives whose reachable nonterminals are all productive; token "
                "sequences as in C02 (sentences, edits, prefixes, random, unknown tokens); non-trivial = failing parses of >= 3 tokens; "
                "distinct by (grammar, sequence)",
        "samples": samples, "programs": len(recs), "outcome_histogram": dict(hist),
        "traces_validated_against_impl": total, "disagreements": disagreements,
        "gocc_stats": {k: v for k, v in stats.items() if k != "build_log"},
    }, ["as C02; additionally the dump must keep gocc's Closure() append order of items (x_closure justifies each closure item by an earlier one)",
        "the Earley oracle's prefix viability is exact because the grammars are reduced"])
