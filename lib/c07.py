"""C07 — error recovery resumes after the error symbol and preserves token order.

Proof: Properties/C07.v (no panic; exact step specification of Error(); token conservation; inertness on sentences; termination
for conflict-free canonical tables).
Tie R: valid_backward, valid_forward, x_canon, x_recover', x_recover_conv evaluated by the Coq kernel on gocc's tables/item sets for
every conflict-free grammar with error alternatives of the run.
Tie K: compiled parser vs Parse model on valid, singly and multiply erroneous inputs (result incl. error attributes, action log, scans).
Oracle on the implementation: no panic / hang; token ids strictly increasing in every action's arguments; sentences of the grammar
without its error alternatives are accepted without any error attribute."""
import collections
import re

import c02
import cfggen
import lrcommon
import lrobl

CHECKS = [("vb", "valid_backward g_{n} tb_{n} an_{n}"), ("vf", "valid_forward g_{n} tb_{n} an_{n}"),
          ("xcanon", "x_canon g_{n} tb_{n} an_{n}"), ("xrec", "x_recover' tb_{n}"), ("xconv", "x_recover_conv tb_{n}")]


def err_first_only(g):
    return True   # cfggen puts 'error' only in first position


def token_order_ok(line):
    """ids of token leaves in each logged argument list strictly increasing (error attribute's recorded token excluded)"""
    m = re.search(r" LOG(.*) SCANS", line)
    if not m:
        return True
    for call in re.findall(r"\[(?:[^\[\]]|\[[^\[\]]*\])*\]", m.group(1)):
        body = re.sub(r"\(err t\d+@\d+ ", "(err ", call)
        ids = [int(x) for x in re.findall(r"t\d+@(\d+)", body)]
        if any(b <= a for a, b in zip(ids, ids[1:])):
            return False
    return True


def run(ctx):
    ctx.check_property_file()
    thorough = ctx.tier == "thorough"
    rng = ctx.rng
    cands = [cfggen.family(7), cfggen.family(8)] + [cfggen.gen_cfg(rng, with_error=True) for _ in range(220 if not thorough else 2500)]
    cands = [g for g in cands if g.has_error()]
    recs, stats, ws = lrcommon.prepare_parsers(ctx, cands, flags=[])
    recs = [r for r in recs if r.bin][: (30 if not thorough else 300)]
    # the same property for the parser generated with -zip (tables, canRecover included, travel through gob + gzip and are decoded in init):
    # a part of the grammars a second time
    zrecs, zstats, ws = lrcommon.prepare_parsers(ctx, [r.g for r in recs[: (8 if not thorough else 60)]], flags=["-zip"], ws=ws, prefix="z")
    recs = recs + [r for r in zrecs if r.bin]
    res, errs = check_all_recovery(recs)
    total = disagreements = reported = 0
    distinct = set()
    hist = collections.Counter()
    samples = []
    n_term = 0
    for r in recs:
        rr = dict(res.get(r.name, {}))
        xcanon = rr.pop("xcanon", False)
        n_term += 1 if xcanon else 0
        ok = bool(rr) and all(rr.values())
        ctx.add_obligation("R: valid_backward, valid_forward, x_recover', x_recover_conv (gocc's tables for %s) by vm_compute" % r.name,
                           ok, str(res.get(r.name)) + str(errs[:1]))
        ea = cfggen.Earley(r.g)
        inputs = c02.gen_inputs(r.g, rng, 150 if not thorough else 400, extra_terms=["zz"])
        # multiply erroneous inputs
        for _ in range(40):
            s = cfggen.gen_sentence(r.g, rng, budget=8) or []
            for _ in range(rng.randint(2, 4)):
                s = cfggen.mutate(s, r.g.terms, rng, extra=["zz"])
            inputs.append(s)
        cases = [lrcommon.encode_case(r, [(s, None, False)]) for s in inputs]
        go = [c02.norm(x) for x in lrcommon.run_impl(r, cases)]
        mo = [c02.norm(x) for x in lrcommon.run_model(ctx, r, cases, fuel=20000)]
        for s, gl, ml in zip(inputs, go, mo):
            total += 1
            kind = gl.split(" ")[0] + ("+recovered" if "(err" in gl else "")
            hist[kind] += 1
            if "(err" in gl and len(s) >= 3:
                distinct.add((r.name, tuple(s)))
            why = None
            if gl.startswith(("PANIC", "CRASH")):
                why = "Parse panicked"
            elif gl.startswith("NONTERM") and xcanon:
                why = "Parse did not return"
            elif not token_order_ok(gl):
                why = "tokens reach an action out of input order or twice"
            elif "zz" not in s and ea.accepts(s) and (not gl.startswith("OK") or "(err" in gl):
                why = "a sentence of the grammar without its error alternatives is not parsed as such (error alternatives are not inert)"
            if why and reported < 3:
                ctx.violation({"kind": "property-oracle-on-implementation", "grammar": r.text, "tokens": s, "parser_output": gl[:600], "reason": why})
                reported += 1
            elif gl != ml:
                disagreements += 1
                if reported < 3:
                    ctx.violation({"kind": "correspondence-broken", "correspondence": "generated Parse/Error (recovery) vs LR/Parse.v",
                                   "grammar": r.text, "tokens": s, "go": gl[:600], "model": ml[:600]}, found_input=False)
                    reported += 1
        if len(samples) < 3:
            rec = [i for i, x in enumerate(go) if "(err" in x]
            if rec:
                samples.append({"grammar": r.text, "tokens": inputs[rec[0]], "parser": go[rec[0]][:300]})
    for o in ctx.failed_obligations():
        if reported < 6:
            ctx.violation({"kind": "proof-obligation-broken", "obligation": o}, found_input=False)
            reported += 1
    ctx.write_evidence("proof", {
        "evaluations": total, "distinct_nontrivial": len(distinct),
        "rule": "conflict-free random/seeded grammars with alternatives starting with error; inputs: sentences, single edits, prefixes, "
                "random, unknown tokens, and 2-4 stacked edits; non-trivial = parses that went through at least one recovery (error attribute "
                "in result or log) on >= 3 tokens; distinct by (grammar, sequence)",
        "samples": samples, "programs": len(recs), "outcome_histogram": dict(hist),
        "termination_theorem_instantiated_for": n_term,
        "traces_validated_against_impl": total, "disagreements": disagreements,
        "gocc_stats": {k: v for k, v in stats.items() if k != "build_log"},
    }, ["as C02; C07_parse_terminates needs x_canon (reachable nonterminals productive etc.): instantiated for %d of %d grammars, the others "
        "are covered by the driver's watchdog only" % (n_term, len(recs)),
        "the error symbol occurs only as first symbol of an alternative (elsewhere gocc treats it as an ordinary terminal)"])


def check_all_recovery(recs):
    import hashlib, os, subprocess
    from concurrent.futures import ThreadPoolExecutor
    import vlib

    def one(batch):
        os.makedirs(lrobl.WORK, exist_ok=True)
        h = hashlib.sha1("".join(r.name for r in batch).encode()).hexdigest()[:10]
        path = os.path.join(lrobl.WORK, "C07_%s.v" % h)
        with open(path, "w") as f:
            f.write("From Coq Require Import List ZArith Bool.\nFrom Gocc Require Import LR.Parse LR.Validate LR.Complete LR.Exact LR.Recovery LR.RecoveryTerm.\n"
                    "Import ListNotations.\n")
            for r in batch:
                f.write(lrobl.emit(r, r.name))
                for (label, tmpl) in CHECKS:
                    f.write("Definition r_%s_%s : bool := Eval vm_compute in (%s).\nPrint r_%s_%s.\n" % (r.name, label, tmpl.format(n=r.name), r.name, label))
        p = subprocess.run(["coqc", "-Q", os.path.join(vlib.COQ, "theories"), "Gocc", path], capture_output=True, text=True, cwd=lrobl.WORK, timeout=900)
        res = {r.name: {l: False for (l, _) in CHECKS} for r in batch}
        if p.returncode == 0:
            for m in re.finditer(r"r_(\w+?)_([a-z0-9]+) = (true|false)", p.stdout):
                if m.group(1) in res:
                    res[m.group(1)][m.group(2)] = m.group(3) == "true"
        for ext in (".v", ".vo", ".glob", ".vok", ".vos"):
            try:
                os.remove(path[:-2] + ext)
            except OSError:
                pass
        return res, (p.stderr[-400:] if p.returncode else "")
    batches = [recs[i:i + 4] for i in range(0, len(recs), 4)]
    out, errs = {}, []
    with ThreadPoolExecutor(max_workers=14) as ex:
        for res, e in ex.map(one, batches):
            out.update(res)
            if e:
                errs.append(e)
    return out, errs
