"""Semantic front-end model (Front/Sem.v) vs gocc: generators of semantically damaged grammar files, the kernel-evaluated side
conditions of SemTop.front_accepts_sound on (spec grammar, shipped tables), and the classification of gocc's messages.
(Written by the sub-agent that built Front/Sem*.v against the real binary; used by lib/c14.py.)"""
import os
import re
import subprocess

import c10
import cfggen
import lexgen
import lrobl
import vlib


def init(names):
    """front-end token type numbers as built (token.FRONTENDTokens, through verifdump)"""
    global T_TOK, T_COLON, T_SEMI, T_REG, T_IGN, T_BAR, T_CHAR, T_PROD, T_STR
    ty = {n: i for i, n in enumerate(names)}
    T_TOK, T_COLON, T_SEMI, T_REG, T_IGN, T_BAR, T_CHAR, T_PROD, T_STR = (ty[x] for x in
        ("tokId", ":", ";", "regDefId", "ignoredTokId", "|", "char_lit", "prodId", "string_lit"))
    return ty, [ty[x] for x in (":", ";", "|", "tokId", "regDefId", "ignoredTokId", "prodId", "string_lit", "error", "empty", "char_lit", "-")]


# ------------------------------------------------------------------------------------------------ generators
T_TOK, T_COLON, T_SEMI, T_REG, T_IGN, T_BAR, T_CHAR, T_PROD, T_STR = 2, 3, 4, 5, 6, 7, 9, 17, 21   # re-read from tokens.go below


def base_grammar(rng, i):
    k = i % 4
    if k == 0:
        g = cfggen.gen_cfg(rng, with_error=(rng.random() < 0.25))
        return (cfggen.lex_part(g) + "\n" + c10.syntax_text(g)).encode()
    if k == 1:
        lg, _ = lexgen.gen_lex_grammar(rng, safe_regdefs=(rng.random() < 0.4))
        return lg.text().encode("utf-8")
    if k == 2:
        # syntax grammar + a lexical part with regular definitions (nested), ignored tokens
        g = cfggen.gen_cfg(rng, with_error=(rng.random() < 0.2), max_nt=4)
        lex = ["_d : '0'-'9' ;", "_l : 'a'-'z' | 'A'-'Z' | '_' ;", "_ld : _l | _d ;", "!ws : ' ' | '\\t' | '\\n' ;",
               "!cmt : '/' '/' { . } '\\n' ;"]
        for t in g.terms:
            if not t.startswith('"') and any(t in b for (_, b, _, _) in g.prods):
                lex.append("%s : %s%s ;" % (t, " ".join("'%s'" % c for c in t), rng.choice(["", " { _ld }", " [ _d ]", " ( _l | _d _d )"])))
        rng.shuffle(lex)
        hdr = rng.choice(["", "<< import \"fmt\" >>\n"])
        return ("\n".join(lex) + "\n\n" + hdr + c10.syntax_text(g)).encode()
    g = cfggen.gen_cfg(rng, max_nt=3)     # syntax part only (string literals and undefined-but-lower-case token ids)
    return c10.syntax_text(g).encode()


def heads(toks):
    """indices of tokens followed by ':'"""
    return [i for i in range(len(toks) - 1) if toks[i + 1][0] == T_COLON]


def def_span(src, toks, i):
    """byte span of the definition whose head is token i: head .. the next ';' token (inclusive)"""
    for j in range(i + 1, len(toks)):
        if toks[j][0] == T_SEMI:
            return toks[i][2], toks[j][2] + 1, j
    return None


def ins(src, off, text):
    return src[:off] + text + src[off:]


def sem_mutant(src, toks, rng):
    """returns (bytes, description) or None when the mutation does not apply"""
    hs = heads(toks)
    lexh = [i for i in hs if toks[i][0] in (T_TOK, T_REG, T_IGN)]
    synh = [i for i in hs if toks[i][0] == T_PROD]
    first_syn = toks[synh[0]][2] if synh else len(src)
    # the file header, if any, precedes the first production
    if synh and synh[0] > 0 and toks[synh[0] - 1][0] == 18:
        first_syn = toks[synh[0] - 1][2]
    kind = rng.choice(["dup-tok", "dup-reg", "dup-ign", "undef-reg-in-tok", "undef-reg-in-reg", "undef-reg-unused", "rec-self", "rec-mutual-used",
                       "rec-mutual-unused", "undef-upper", "undef-lower", "undef-unicode-upper", "prod-INVALID", "prod-INVALID-first",
                       "lit-INVALID", "lit-EOF", "raw-INVALID", "dup-prod", "strlit-prod-before", "strlit-prod-after", "strlit-tok",
                       "strlit-empty", "strlit-Sprime", "strlit-regdef", "use-INVALID", "regdef-as-tok-twice", "empty-range"])

    def pick(hl, ty=None):
        c = [i for i in hl if ty is None or toks[i][0] == ty]
        return rng.choice(c) if c else None

    if kind in ("dup-tok", "dup-reg", "dup-ign"):
        i = pick(lexh, {"dup-tok": T_TOK, "dup-reg": T_REG, "dup-ign": T_IGN}[kind])
        if i is None:
            return None
        a, b, _ = def_span(src, toks, i)
        j = pick(lexh)
        at = def_span(src, toks, j)[1] if rng.random() < 0.7 else toks[j][2]
        body = src[a:b]
        if rng.random() < 0.5:      # same id, different pattern
            body = toks[i][1] + b" : 'q' ;"
        return ins(src, at, b"\n" + body + b"\n"), kind
    if kind == "empty-range":
        i = pick(lexh)
        if i is None:
            return None
        a, b, j = def_span(src, toks, i)
        rngs = [k for k in range(i + 2, j - 1) if toks[k][0] == T_CHAR and toks[k + 1][0] == 10 and toks[k + 2][0] == T_CHAR]
        if rngs and rng.random() < 0.5:      # swap the bounds of an existing range (no change when they are equal)
            k = rng.choice(rngs)
            lo, hi = toks[k], toks[k + 2]
            return src[:lo[2]] + hi[1] + src[lo[2] + len(lo[1]):hi[2]] + lo[1] + src[hi[2] + len(hi[1]):], kind
        return ins(src, toks[j][2], rng.choice([b" 'z'-'a' ", b" | 'b'-'\\x61' ", b" [ '\\u00e9'-'e' ] ", b" '9'-'0' "])), kind
    if kind == "regdef-as-tok-twice":      # two NEW definitions with one id
        if not lexh:
            return None
        j = pick(lexh)
        at = def_span(src, toks, j)[1]
        return ins(ins(src, at, b"\nnewq : 'q' ;\n"), toks[lexh[0]][2], b"newq : 'q' 'q' ;\n"), kind
    if kind in ("undef-reg-in-tok", "undef-reg-in-reg"):
        i = pick(lexh, T_REG if kind.endswith("reg") else None)
        if i is None:
            return None
        a, b, j = def_span(src, toks, i)
        # before the ';' or in place of a character literal of the body
        cl = [k for k in range(i + 2, j) if toks[k][0] == T_CHAR and toks[k - 1][0] != 10 and (k + 1 >= len(toks) or toks[k + 1][0] != 10)]
        if cl and rng.random() < 0.5:
            k = rng.choice(cl)
            return src[:toks[k][2]] + b"_undefQ" + src[toks[k][2] + len(toks[k][1]):], kind
        return ins(src, toks[j][2], b" _undefQ "), kind
    if kind == "undef-reg-unused":
        if not lexh:
            return None
        j = pick(lexh)
        return ins(src, def_span(src, toks, j)[1], b"\n_unusedZ : 'a' { _nodefZ } ;\n"), kind
    if kind == "rec-self":
        i = pick(lexh, T_REG)
        if i is None:
            return None
        a, b, j = def_span(src, toks, i)
        return ins(src, toks[j][2], b" [ " + toks[i][1] + b" ] "), kind
    if kind in ("rec-mutual-used", "rec-mutual-unused"):
        if not lexh:
            return None
        j = pick(lexh)
        s = ins(src, def_span(src, toks, j)[1], b"\n_m1 : 'a' _m2 ;\n_m2 : 'b' | ( _m1 ) ;\n")
        if kind == "rec-mutual-used":
            i = pick(lexh, rng.choice([T_TOK, T_IGN])) or pick(lexh, T_TOK) or pick(lexh, T_IGN)
            if i is None:
                return None
            # the offsets before the insertion point are unchanged; insert the use first when it lies after
            _, _, e = def_span(src, toks, i)
            if toks[e][2] >= def_span(src, toks, j)[1]:
                s = ins(ins(src, toks[e][2], b" { _m1 } "), def_span(src, toks, j)[1], b"\n_m1 : 'a' _m2 ;\n_m2 : 'b' | ( _m1 ) ;\n")
            else:
                s = ins(s, toks[e][2], b" { _m1 } ")
        return s, kind
    if kind in ("undef-upper", "undef-lower", "undef-unicode-upper", "use-INVALID"):
        uses = [k for k in range(len(toks)) if toks[k][0] == T_PROD and k not in synh]
        if not uses:
            return None
        k = rng.choice(uses)
        new = {"undef-upper": b"Zq9X", "undef-lower": b"zzundef", "undef-unicode-upper": "Ωx".encode(), "use-INVALID": b"INVALID"}[kind]
        return src[:toks[k][2]] + new + src[toks[k][2] + len(toks[k][1]):], kind
    if kind == "prod-INVALID":
        if not synh:
            return None
        return src + b"\nINVALID : " + rng.choice([b"\"q\"", toks[synh[0]][1]]) + b" ;\n", kind
    if kind == "prod-INVALID-first":
        if not synh:
            return None
        return ins(src, toks[synh[0]][2], b"INVALID : " + toks[synh[0]][1] + b" ;\n"), kind
    if kind in ("lit-INVALID", "lit-EOF", "raw-INVALID", "strlit-prod-before", "strlit-prod-after", "strlit-tok", "strlit-empty", "strlit-Sprime",
                "strlit-regdef"):
        if not synh:
            return None
        i = rng.choice(synh)
        a, b, j = def_span(src, toks, i)
        if kind == "strlit-prod-before":      # literal names a production defined at or before this one
            lit = b'"' + toks[rng.choice([h for h in synh if h <= i])][1] + b'"'
        elif kind == "strlit-prod-after":
            later = [h for h in synh if h > i and toks[h][1] not in [toks[x][1] for x in synh if x <= i]]
            if not later:
                return None
            lit = b'"' + toks[rng.choice(later)][1] + b'"'
        elif kind == "strlit-tok":
            c = [h for h in lexh if toks[h][0] in (T_TOK, T_IGN)]
            if not c:
                return None
            lit = rng.choice([b'"', b"`"])
            lit = lit + toks[rng.choice(c)][1] + lit
        elif kind == "strlit-regdef":
            c = [h for h in lexh if toks[h][0] == T_REG]
            if not c:
                return None
            lit = b'"' + toks[rng.choice(c)][1] + b'"'
        else:
            lit = {"lit-INVALID": b'"INVALID"', "lit-EOF": "\"␚\"".encode(), "raw-INVALID": rng.choice([b"`INVALID`", "`␚`".encode()]),
                   "strlit-empty": rng.choice([b'""', b"``"]), "strlit-Sprime": b"\"S'\""}[kind]
        # as an extra symbol of the last alternative, or as a new alternative
        return ins(src, toks[j][2], rng.choice([b" ", b" | "]) + lit + b" "), kind
    if kind == "dup-prod":
        if not synh:
            return None
        i = rng.choice(synh)
        a, b, j = def_span(src, toks, i)
        return src + b"\n" + src[a:b] + b"\n", kind
    return None


# ------------------------------------------------------------------------------------------------ kernel obligations
def plain_nts(g, colon, semi):
    """greatest set of nonterminals (indices) none of whose productions mentions ':' / ';' or a nonterminal outside the set"""
    sf = set(l for (l, _) in g)
    changed = True
    while changed:
        changed = False
        for (l, rhs) in g:
            if l in sf and any((k == "T" and n in (colon, semi)) or (k == "NT" and n not in sf) for (k, n) in rhs):
                sf.discard(l)
                changed = True
    return sorted(sf)


def spec_text(g, name="spec_g"):
    return "Definition %s : grammar := [%s].\n" % (name, ";\n  ".join(
        "{| lhs := %d; rhs := [%s] |}" % (l, "; ".join("%s %d" % s for s in rhs)) for (l, rhs) in g))


def kernel_obligations(g, tables, items, nl, fs, colon, semi, work):
    """Emits the spec grammar and the shipped tables as Gallina and has the kernel evaluate the side conditions of
    SemTop.front_accepts_sound / front_accepts_complete on them.  Returns {label: bool}."""
    sf = plain_nts(g, colon, semi)
    txt = ("From Coq Require Import List ZArith Bool.\nFrom Gocc Require Import LR.Parse LR.Validate Front.Sem Front.SemProofs.\n"
           "Import ListNotations.\nLocal Open Scope nat_scope.\n" + lrobl.emit_raw("front", g, tables, items, nl, fs))
    checks = [("vb", "valid_backward g_front tb_front an_front"), ("vf", "valid_forward g_front tb_front an_front"),
              ("gate", "t_gate tb_front && forallb (fun r => negb (s_recover r)) (t_states tb_front)"),
              ("colon", "colon_ok g_front %d" % colon),
              ("cut", "cut_ok g_front %d %d [%s]" % (colon, semi, "; ".join(map(str, sf))))]
    for (label, e) in checks:
        txt += "Definition r_%s : bool := Eval vm_compute in (%s).\nPrint r_%s.\n" % (label, e, label)
    path = os.path.join(work, "SemObl.v")
    with open(path, "w") as f:
        f.write(txt)
    p = subprocess.run(["coqc", "-Q", os.path.join(vlib.COQ, "theories"), "Gocc", path], capture_output=True, text=True, cwd=work, timeout=900)
    res = {label: False for (label, _) in checks}
    if p.returncode == 0:
        for m in re.finditer(r"r_(\w+) = (true|false)", p.stdout):
            res[m.group(1)] = (m.group(2) == "true")
    else:
        res["__error__"] = p.stderr[-800:]
    res["plain_nonterminals"] = sf
    return res


# ------------------------------------------------------------------------------------------------ gocc
def classify(rc, out):
    if rc == 0:
        return "accept"
    if rc == -9:
        return "timeout"
    if "Cannot have LR1 conflict with Accept" in out:
        return "accept-conflict"
    if "empty character range" in out:
        return "empty-range"
    if "Parse error:" in out and "expected one of" in out:
        return "parse"
    if "already exists" in out and "panic" in out:
        return "strlit-lex" if "UpdateStringLitTokens" in out else ("dup" if "NewLexProdMap" in out else "exists?")
    if "duplicate token def" in out or "duplicate ignored token def" in out:
        return "dup"
    if "empty production alternative" in out:
        return "empty-alt"
    if "is reserved for the invalid token" in out:
        return "reserved-prod"
    if "is reserved" in out:
        return "reserved-sym"
    if "undefined symbol used in production" in out:
        return "undefined-prod"
    if "undefined regular definition" in out:
        return "undefined-regdef"
    if "conflicts with production name" in out:
        return "strlit-prod"
    if "index out of range" in out and "NewLexStringLitTokDef" in out:
        return "strlit-empty"
    if "recursive regular definition" in out:
        return "recursive-regdef"
    return "other"


def model_class(line):
    w = line.split()
    if w[0] == "ACC":
        return "accept"
    if w[1] == "PARSE=rej":
        return "parse"
    r = w[2][len("SEM="):]
    return "dup" if r.startswith("dup-") else r


