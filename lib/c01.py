"""C01 — the generated lexer returns exactly the tokens the lexical rules define.

Proof: Properties/C01.v: (a) the Scan loop relative to ANY DFA (ScanSpec: longest viable text, INVALID owns the killing rune, ignored
text restarts at once, EOF for ever); (b) the derivative semantics of the lexical rules (macro regdefs, contextual '.', priority:
string literal first, then earliest declaration), Brzozowski-correct against the textbook `matches` relation for dot-free rules;
(c) bisim_check soundness: check = true => the emitted DFA and the definitional tokenizer agree on ALL byte strings, token for token.
Tie R: for every grammar of the run the VERIFIED checker is run on (lexical part as gocc parsed it, DFA re-read from the emitted
transitiontable.go/acttab.go): by the extracted checker and by the Coq kernel (vm_compute, in parallel shards).
Tie K: LexGen.lexgen (Gallina model of gocc's lexer generator, proved correct for every grammar) = gocc's DFA, structurally, per grammar.
Tie K: compiled lexers vs the definitional tokenizer (derivatives of the rules, not gocc's DFA) on the input streams."""
import collections
import sys
import hashlib
import os
import re
import subprocess
from concurrent.futures import ThreadPoolExecutor

import c08
import lexcommon
import lexgen
import vlib

D4_WITNESSES = [
    ("regdef-reentrancy-reject", "n : _d { _d } 'y' ;\n_d : '0' [ '1' ] ;\n", b"00y"),
    ("regdef-sharing-overaccept", "a : ( 'x' | 'z' ) _d ;\nb : _d 'q' ;\n_d : 'z' 'z' ;\n", b"zz"),
    ("regdef-nullable-never-empty", "t : 'a' _r ;\n_r : [ 'b' ] ;\n", b"a"),
]

# defect D17 (repaired: such grammars are refused): an empty range kept a dead item in the item sets
EMPTY_RANGE_WITNESSES = [
    ("empty-range-overconsumes", "t : 'x' 'z'-'a' ;\nS : t ;\n", b"x?"),
    ("empty-range-explicit-for-dot", "t : 'x' 'z'-'a' | . 'q' ;\nS : t ;\n", b"xq"),
]


def lexdump(ctx, d):
    """verifdump lexdump, with the patterns of the implicit string-literal tokens REBUILT from the literal's own spelling (the
    terminal's name in the token map): the specification of such a token is 'the literal's characters', independently of how gocc
    constructs its pattern. Returns (path, list of literals whose gocc-built pattern differs)."""
    import json
    p = subprocess.run([ctx.verifdump, "lexdump", os.path.join(d, "g.bnf")], capture_output=True, text=True, timeout=120)
    if p.returncode != 0 or not p.stdout.strip():
        return None, []
    lr = subprocess.run([ctx.verifdump, "lr", os.path.join(d, "g.bnf")], capture_output=True, text=True, timeout=120)
    try:
        terms = json.loads(lr.stdout)["terminals"]
    except Exception:
        terms = []
    out = []
    differ = []
    for line in p.stdout.split("\n"):
        w = line.split()
        if len(w) > 3 and w[0] == "T" and w[2] == "1" and int(w[1]) < len(terms):
            name = terms[int(w[1])]
            want = "P 1 A %d " % len(name) + " ".join("c %d" % ord(ch) for ch in name)
            got = " ".join(w[3:])
            if got != want:
                differ.append(name)
            line = "T %s 1 %s" % (w[1], want)
        out.append(line)
    path = os.path.join(d, "g.lexdump")
    open(path, "w").write("\n".join(out))
    return path, differ


def bisim(ctx, dump, table, fuel=200000):
    p = subprocess.run([ctx.modelrun, "bisim", dump, str(fuel), table], capture_output=True, text=True, timeout=600)
    return p.stdout.strip() or ("ERROR " + p.stderr[-200:])


# ---- kernel evaluation of the checker for a sample
def coq_pattern(toks):
    """parse the lexdump pattern syntax into a Gallina term"""
    def pat():
        assert toks.pop(0) == "P"
        n = int(toks.pop(0))
        return "[" + "; ".join(alt() for _ in range(n)) + "]"

    def alt():
        assert toks.pop(0) == "A"
        n = int(toks.pop(0))
        return "[" + "; ".join(term() for _ in range(n)) + "]"

    def term():
        t = toks.pop(0)
        if t == "c":
            return "Chr (%s)%%Z" % toks.pop(0)
        if t == "r":
            a, b = toks.pop(0), toks.pop(0)
            return "Rng (%s)%%Z (%s)%%Z" % (a, b)
        if t == "d":
            return "Dot"
        if t == "f":
            return "Ref %s" % toks.pop(0)
        return {"o": "Opt", "s": "Rep", "g": "Grp"}[t] + " " + pat()
    return pat()


def coq_of_dump(name, dump_text, rows, acts):
    toks = dump_text.split()
    nreg = int(toks.pop(0))
    regs = [coq_pattern(toks) for _ in range(nreg)]
    ntok = int(toks.pop(0))
    tks = []
    for _ in range(ntok):
        k = toks.pop(0)
        if k == "T":
            ty, sl = toks.pop(0), toks.pop(0)
            tks.append("(Tok (%s)%%Z %s, %s)" % (ty, "true" if sl == "1" else "false", coq_pattern(toks)))
        else:
            tks.append("(Ign, %s)" % coq_pattern(toks))
    rws = ["{| cases := [%s]; dflt := (%d)%%Z |}" % ("; ".join("((%d)%%Z, (%d)%%Z, (%d)%%Z)" % c for c in r["cases"]), r["default"]) for r in rows]
    return ("Definition g_%s : lexgrammar := {| regdefs := [%s]; toks := [%s] |}.\nDefinition rows_%s : list trow := [%s].\n"
            "Definition acts_%s : list Z := [%s].\nDefinition r_%s := Eval vm_compute in bisim_check rows_%s acts_%s g_%s 20000.\nPrint r_%s.\n"
            % (name, "; ".join(regs), "; ".join(tks), name, "; ".join(rws), name, "; ".join("(%d)%%Z" % a for (a, _) in acts),
               name, name, name, name, name))


def kernel_check(batch):
    work = os.path.join(vlib.ROOT, "build", "gen")
    os.makedirs(work, exist_ok=True)
    h = hashlib.sha1("".join(n for n, _ in batch).encode()).hexdigest()[:10]
    path = os.path.join(work, "C01_%s.v" % h)
    with open(path, "w") as f:
        f.write("From Coq Require Import List ZArith Bool.\nFrom Gocc Require Import Lex.Scan Lex.Pattern Lex.Deriv Lex.Bisim.\nImport ListNotations.\n")
        for n, t in batch:
            f.write(t)
    import time
    t0 = time.time()
    p = subprocess.run(["coqc", "-Q", os.path.join(vlib.COQ, "theories"), "Gocc", path], capture_output=True, text=True, cwd=work, timeout=1200)
    if os.environ.get("VERIF_DEBUG"):
        print("kernel_check %s %.1fs" % ([n for n, _ in batch], time.time() - t0), file=sys.stderr)
    res = {m.group(1): m.group(2) == "true" for m in re.finditer(r"r_(\w+) = (true|false)", p.stdout)}
    for ext in (".v", ".vo", ".glob", ".vok", ".vos"):
        try:
            os.remove(path[:-2] + ext)
        except OSError:
            pass
    return res, (p.stderr[-300:] if p.returncode else "")


def run(ctx):
    ctx.check_property_file()
    thorough = ctx.tier == "thorough"
    rng = ctx.rng
    ngram = 40 if not thorough else 500
    ninp = 150 if not thorough else 400
    grammars = [lexgen.gen_lex_grammar(rng, safe_regdefs=(rng.random() < 0.4), nullable_bodies=(rng.random() < 0.4)) for _ in range(ngram)]
    grammars += [lexgen.wide_prefix_grammar(rng) for _ in range(4 if not thorough else 40)]
    recs, stats, ws = lexcommon.prepare_lexers(ctx, grammars)
    total = disagreements = reported = 0
    distinct = set()
    hist = collections.Counter()
    samples = []
    kernel_batch = []
    import concurrent.futures
    kex = concurrent.futures.ThreadPoolExecutor(10)     # kernel evaluations run while the correspondence runs go on
    kfut = []
    lexgen_hist = collections.Counter()
    for r in recs:
        dump, differ = lexdump(ctx, r.dir)
        ctx.add_obligation("R: gocc's pattern for every string-literal token of %s is the literal's characters" % r.name, not differ, str(differ[:3]))
        # Front/LexAst.v: the lexical part computed by the MODEL of the front end (scanner, definitions, pattern parser, literal decoding,
        # terminal numbering) from the BYTES of the grammar file must be the AST gocc parsed (before the string-literal rebuild above):
        # with it the lexer-generator model is compared with gocc from the file to the DFA
        raw = subprocess.run([ctx.verifdump, "lexdump", os.path.join(r.dir, "g.bnf")], capture_output=True, text=True, timeout=120).stdout
        la = subprocess.run([ctx.modelrun, "lexast", os.path.join(r.dir, "g.bnf")], capture_output=True, text=True, timeout=120).stdout
        same = bool(la.strip()) and la.strip() != "NONE" and raw.startswith(la)
        if not same:
            rl, ll = raw.split("\n"), la.split("\n")
            k = next((i for i in range(min(len(rl), len(ll))) if rl[i] != ll[i]), min(len(rl), len(ll)))
            same_msg = "line %d: gocc %r, model %r" % (k, (rl[k] if k < len(rl) else "")[:120], (ll[k] if k < len(ll) else "")[:120])
        else:
            same_msg = ""
        ctx.add_obligation("K: Front/LexAst.v on the bytes of %s's grammar file = the lexical part as gocc parsed it" % r.name, same, same_msg)
        verdict = bisim(ctx, dump, r.table) if dump else "NO-LEXDUMP"
        ok = verdict.startswith("CLOSED") and "check=true" in verdict and "emitted_equals_itemsets=true" in verdict
        ctx.add_obligation("R: bisim_check(emitted DFA of %s, lexical rules) = true (extracted verified checker)" % r.name, ok, verdict[:300])
        if dump:
            lg = subprocess.run([ctx.modelrun, "lexgen", dump, "100000", r.table], capture_output=True, text=True, timeout=600).stdout.strip()
            ctx.add_obligation("K: LexGen.lexgen (verified model of gocc's lexer generator) = gocc's DFA for %s (item sets and emitted tables: "
                               "numbering, classes, targets, accept codes)" % r.name, lg.startswith("EQUAL"), lg[:200])
            lexgen_hist[lg.split(" ")[0] if lg else "NO-OUTPUT"] += 1
        if ok and len(kernel_batch) < (40 if not thorough else 120) and len(r.rows) <= (60 if not thorough else 200):
            kernel_batch.append((r.name, None))
            kfut.append(kex.submit(kernel_check, [(r.name, coq_of_dump(r.name, open(dump).read(), r.rows, r.acts))]))
        hist[verdict.split(" ")[0]] += 1
        if not dump:
            continue
        walker = lexgen.make_walker(r.rows, r.acts, None)
        inputs = [lexgen.gen_input(rng, r.alpha, walker) for _ in range(ninp)]
        cases = ["N%s A" % s.hex() for s in inputs]
        go = lexcommon.run_impl(r, cases)
        p = subprocess.run([ctx.modelrun, "dlex", dump], input="".join(c + "\n" for c in cases), capture_output=True, text=True, timeout=600)
        mo = [l.strip() for l in p.stdout.split("\n")[:len(cases)]]
        mo += ["MODEL-NO-OUTPUT"] * (len(cases) - len(mo))
        for src, g, m in zip(inputs, go, mo):
            total += 1
            if len(src) > 3:
                distinct.add((r.name, src))
            if g != m:
                disagreements += 1
                if reported < 3:
                    def bad(s, r=r, dump=dump):
                        c2 = "N%s A\n" % s.hex()
                        a = lexcommon.run_impl(r, [c2.strip()])[0]
                        b = subprocess.run([ctx.modelrun, "dlex", dump], input=c2, capture_output=True, text=True).stdout.split("\n")[0].strip()
                        return a != b
                    small = c08.shrink_bytes(src, bad)
                    c2 = "N%s A" % small.hex()
                    ctx.violation({"kind": "property-oracle-on-implementation", "grammar": r.g.text(), "input": repr(small), "input_hex": small.hex(),
                                   "generated_lexer(type:lit:off:line:col)": lexcommon.run_impl(r, [c2])[0],
                                   "tokens_defined_by_the_rules(derivative semantics)":
                                       subprocess.run([ctx.modelrun, "dlex", dump], input=c2 + "\n", capture_output=True, text=True).stdout.strip(),
                                   "bisim": verdict[:200]})
                    reported += 1
        if len(samples) < 3:
            samples.append({"grammar": r.g.text(), "input": repr(inputs[0]), "tokens": go[0][:200], "bisim": verdict[:80]})
    # kernel-evaluated sample
    if kernel_batch:
        res, err = {}, ""
        for f in kfut:
            (r1, e1) = f.result()
            res.update(r1)
            err = err or e1
        kex.shutdown()
        for n, _ in kernel_batch:
            ctx.add_obligation("R: bisim_check(emitted DFA of %s, lexical rules) = true by vm_compute (Coq kernel)" % n, res.get(n, False), err)
    # regression: regular definitions are macros (defect D4, repaired)
    known = {f["id"]: f for f in ctx.known_findings()}
    for (wid, text, src) in D4_WITNESSES + EMPTY_RANGE_WITNESSES:
        d = ctx.mktemp("d4")
        os.makedirs(os.path.join(d, "w"))
        open(os.path.join(d, "go.mod"), "w").write("module x\n\ngo 1.24\n")
        open(os.path.join(d, "w", "g.bnf"), "w").write(text)
        rc = subprocess.run([ctx.gocc, "g.bnf"], cwd=os.path.join(d, "w"), capture_output=True, timeout=60).returncode
        if rc != 0 and (wid, text, src) in EMPTY_RANGE_WITNESSES:
            continue    # refused: nothing is generated, the property is not at stake
        dump, _ = lexdump(ctx, os.path.join(d, "w"))
        v = subprocess.run([ctx.modelrun, "bisim", dump, "200000"], capture_output=True, text=True).stdout.strip() if dump else "NO-LEXDUMP"
        still = not ("CLOSED" in v and "check=true" in v)
        if still and wid in known:
            ctx.report_known(known[wid], "C01/%s: grammar %r, input %r: %s" % (wid, text, src, v[:120]))
        elif still and reported < 6:
            ctx.violation({"kind": "property-oracle-on-implementation", "grammar": text, "input": repr(src), "bisim": v})
            reported += 1
    for o in ctx.failed_obligations():
        if reported < 8:
            ctx.violation({"kind": "proof-obligation-broken", "obligation": o,
                           "note": "inputs on which the compiled lexer and the rules disagree are reported separately when found"}, found_input=False)
            reported += 1
    ctx.write_evidence("proof", {
        "evaluations": total, "distinct_nontrivial": len(distinct),
        "rule": "random lexical grammars (tokens, ignored tokens, single- and multi-character regular definitions (nested), optional/repeated/grouped patterns to depth "
                "3 incl. nullable bodies, ranges over the whole Unicode range, '.', syntax-part string literals colliding with named tokens) x "
                "inputs (walks through the DFA, random over the alphabet, malformed UTF-8); non-trivial = input longer than 3 bytes; distinct "
                "by (grammar, input)",
        "samples": samples, "programs": len(recs), "bisim_verdicts": dict(hist), "lexgen_model_vs_gocc": dict(lexgen_hist), "kernel_evaluated_bisimulations": len(kernel_batch),
        "traces_validated_against_impl": total, "disagreements": disagreements,
        "gocc_stats": {k: v for k, v in stats.items() if k != "build_log"},
    }, ["the three witnesses of the repaired regular-definition defect (D4) run on every check as regression cases",
        "imports (external rune predicates) are unreachable from the grammar and outside the model",
        "the derivative tokenizer and the checker are extracted (ExtrOcamlBasic); the bisimulation obligations of DFAs with at most 60 states (thorough: 200 states, at most 120 grammars) are re-evaluated by the kernel"])
