"""C12 — presentation flags do not change the generated language.

Proof: Properties/C12.v (zip encode/decode round trip for every row/table).
Tie R: generated files with / without each flag are diffed: -no_lexer and -v leave token, parser, errors, util byte-identical and only
       remove/add the lexer package / the report files; debug flags may only add printing statements and imports.
Tie K: for every subset of {-zip, -debug_lexer, -debug_parser, -v} the compiled lexer+parser are run on the same sources: decoded tables
       (dumped after init) equal the plain ones; identical results, errors, positions, action logs (stdout noise of debug flags ignored)."""
import collections
import itertools
import os
import re
import subprocess
from concurrent.futures import ThreadPoolExecutor

import c02
import cfggen
import gen
import vlib

RUN_FLAGS = ["-zip", "-debug_lexer", "-debug_parser", "-v"]
DEBUG_LINE = re.compile(r'^\s*(fmt\.Print(f|ln)\(.*|"fmt"|"[^"]*/util"|if nextState != -1 \{|\}|)\s*$')


def go_files(d):
    out = {}
    for sub in ("token", "parser", "errors", "util", "lexer"):
        p = os.path.join(d, sub)
        if os.path.isdir(p):
            for f in sorted(os.listdir(p)):
                if f.endswith(".go") and not f.startswith("zz_"):
                    out[sub + "/" + f] = open(os.path.join(p, f)).read()
    return out


def only_debug_added(base, dbg):
    """every line of dbg that is not in base (in order) must be a printing statement / import"""
    import difflib
    bad = []
    for tag, i1, i2, j1, j2 in difflib.SequenceMatcher(None, base.split("\n"), dbg.split("\n"), autojunk=False).get_opcodes():
        if tag == "equal":
            continue
        if tag in ("replace", "delete") and any(l.strip() for l in base.split("\n")[i1:i2]):
            bad.append("removed/changed: " + " / ".join(base.split("\n")[i1:i2])[:120])
        for l in dbg.split("\n")[j1:j2]:
            if not DEBUG_LINE.match(l):
                bad.append("added: " + l.strip()[:120])
    return bad


def run(ctx):
    ctx.check_property_file()
    thorough = ctx.tier == "thorough"
    ws = gen.Workspace(ctx)
    ngr = 6 if not thorough else 25
    # families, (thorough tier: one grammar with 300 token ids, large tables through gob + gzip under -zip), random grammars
    grammars = [cfggen.family(i) for i in (10, 0, 1, 7)] + ([cfggen.big_cfg(ctx.rng, 300)] if thorough else []) + [cfggen.gen_cfg(ctx.rng, with_error=(ctx.rng.random() < 0.3)) for _ in range(60)]
    htmpl = open(os.path.join(vlib.ROOT, "harness", "h.go.tmpl")).read()
    dtmpl = open(os.path.join(vlib.ROOT, "harness", "zz_verif_dump.go.tmpl")).read()
    subsets = [list(c) for k in range(len(RUN_FLAGS) + 1) for c in itertools.combinations(RUN_FLAGS, k)]
    kept = []
    reported = 0
    rprobs = []
    for gi, g in enumerate(grammars):
        if len(kept) >= ngr:
            break
        # all variants are generated into a directory with the same name 'o' (identical import paths) under different parents
        variants = {}
        ok = True
        for si, fl in enumerate(subsets + [["-no_lexer"] + [f for f in c] for c in
                                           [[], ["-zip"], ["-debug_parser"], ["-v"], ["-zip", "-debug_parser", "-v"]]]):
            name = "g%d/v%d/o" % (gi, si)
            d = os.path.join(ws.dir, name)
            os.makedirs(os.path.join(d, "h"), exist_ok=True)
            open(os.path.join(d, "h", "h.go"), "w").write(htmpl)
            rc, out, d = ws.gocc(name, cfggen.full_text(g, "x/%s/h" % name), flags=fl)
            if rc != 0:
                ok = False
                break
            variants[tuple(fl)] = (name, d, out)
        if not ok:
            continue
        kept.append((gi, g, variants))
    # ---- R: file-level comparison
    for gi, g, variants in kept:
        base_name, base_dir, _ = variants[()]
        base = {k: v.replace(base_name, "@") for k, v in go_files(base_dir).items()}
        for fl, (name, d, out) in variants.items():
            files = {k: v.replace(name, "@") for k, v in go_files(d).items()}
            for k in sorted(set(base) | set(files)):
                sub = k.split("/")[0]
                if "-no_lexer" in fl and sub == "lexer":
                    if k in files:
                        rprobs.append("g%d %s: lexer package generated despite -no_lexer" % (gi, fl))
                    continue
                if k not in files or k not in base:
                    rprobs.append("g%d %s: file set differs at %s" % (gi, list(fl), k))
                    continue
                if files[k] == base[k]:
                    continue
                allowed_zip = "-zip" in fl and k in ("parser/actiontable.go", "parser/gototable.go")
                dbg_l = "-debug_lexer" in fl and k == "lexer/lexer.go"
                dbg_p = "-debug_parser" in fl and k == "parser/parser.go"
                if allowed_zip:
                    continue
                if dbg_l or dbg_p:
                    bad = only_debug_added(base[k], files[k])
                    if bad:
                        rprobs.append("g%d %s: %s differs beyond printing statements: %s" % (gi, list(fl), k, bad[0]))
                    continue
                rprobs.append("g%d %s: %s differs from the plain variant" % (gi, list(fl), k))
    ctx.add_obligation("R: flag variants differ from the plain output only in zip tables / printing statements / presence of the lexer package "
                       "(%d grammars x %d variants)" % (len(kept), len(subsets) + 5), not rprobs, "; ".join(rprobs[:3]))
    # ---- K: behaviour of the 16 runnable subsets
    for gi, g, variants in kept:
        for fl in subsets:
            name, d, _ = variants[tuple(fl)]
            open(os.path.join(d, "parser", "zz_verif_dump.go"), "w").write(dtmpl)
            ws.add_driver(name, "fulldrv.go.tmpl")
    bins, log = ws.build()
    ctx.add_obligation("all %d flag variants compile" % len(ws.names), len(bins) == len(ws.names), log[-400:])
    total = 0
    disagreements = 0
    distinct = set()
    hist = collections.Counter()
    samples = []
    for gi, g, variants in kept:
        srcs = []
        for s in c02.gen_inputs(g, ctx.rng, 60 if not thorough else 200, extra_terms=["?"]):
            b = cfggen.source_of(s)
            if ctx.rng.random() < 0.2:
                b = b.replace(b" ", ctx.rng.choice([b"\n", b"\t", b"  ", b""]), 1)
            srcs.append(b)
        text = "TABLES\n" + "".join(b.hex() + "\n" for b in srcs)

        def run_variant(fl):
            name = variants[tuple(fl)][0]
            b = bins.get((name, "cmd"))
            if b is None:
                return fl, None
            try:
                p = subprocess.run([b], input=text, capture_output=True, text=True, timeout=240)
            except subprocess.TimeoutExpired:
                return fl, None
            res = [l[4:] for l in p.stdout.split("\n") if l.startswith("@@R ")]
            tabs = [l[4:] for l in p.stdout.split("\n") if l.startswith("@@T ")]
            noise = any(not l.startswith("@@") and l.strip() for l in p.stdout.split("\n"))
            return fl, (res, tabs, noise, p.stderr[-200:])
        with ThreadPoolExecutor(max_workers=16) as ex:
            results = dict((tuple(fl), r) for fl, r in ex.map(run_variant, subsets))
        base = results[()]
        if base is None:
            continue
        for fl in subsets:
            r = results[tuple(fl)]
            if r is None:
                continue
            res, tabs, noise, err = r
            name = variants[tuple(fl)][0]
            res_n = [x.replace(name, "@") for x in res]
            base_n = [x.replace(variants[()][0], "@") for x in base[0]]
            if tabs != base[1]:
                disagreements += 1
                if reported < 3:
                    ctx.violation({"kind": "property-oracle-on-implementation", "grammar": cfggen.full_text(g, "x/o/h"), "flags": fl,
                                   "reason": "tables seen by the compiled parser differ from the plain variant's"})
                    reported += 1
            for b, x, y in zip(srcs, base_n, res_n):
                total += 1
                hist[x.split(" ")[0]] += 1
                if len(b) > 4:
                    distinct.add((gi, b))
                if x != y:
                    disagreements += 1
                    if reported < 3:
                        ctx.violation({"kind": "property-oracle-on-implementation", "grammar": cfggen.full_text(g, "x/o/h"), "flags": fl,
                                       "source": repr(b), "plain": x, "with_flags": y})
                        reported += 1
            if len(res) != len(srcs) and reported < 3:
                ctx.violation({"kind": "property-oracle-on-implementation", "grammar": cfggen.full_text(g, "x/o/h"), "flags": fl,
                               "reason": "driver produced %d results for %d sources: %s" % (len(res), len(srcs), err)})
                reported += 1
        if len(samples) < 2:
            samples.append({"grammar": cfggen.full_text(g, "x/o/h"), "source": repr(srcs[0]), "result": base[0][0][:200] if base[0] else ""})
    for o in ctx.failed_obligations():
        if reported < 6:
            ctx.violation({"kind": "proof-obligation-broken", "obligation": o}, found_input=False)
            reported += 1
    ctx.write_evidence("proof", {
        "evaluations": total, "distinct_nontrivial": len(distinct),
        "rule": "grammars with a lexical part (every terminal lexed, white space ignored) and logging actions, some with error alternatives, "
                "generated with -a under all 16 subsets of {-zip,-debug_lexer,-debug_parser,-v} (run) and 5 subsets with -no_lexer (files only); "
                "sources: sentences, token-level edits, prefixes, unknown characters, varied white space; non-trivial = source longer than 4 "
                "bytes; distinct by (grammar, source)",
        "samples": samples, "programs": len(kept), "flag_subsets_run": len(subsets), "flag_subsets_file_only": 5,
        "outcome_histogram": dict(hist), "traces_validated_against_impl": total, "disagreements": disagreements,
    }, ["gob+gzip are a lossless transport (trusted); the decoded tables are read back from the compiled package and compared",
        "debug blocks are judged syntactically (only fmt printing statements and imports may be added)",
        "-no_lexer with -debug_lexer is refused by gocc's configuration and is not a variant"])
