"""C16 — parsers and lexers can be reused: results do not depend on history.

Proof: Properties/C16.v (shallow: the model's Parse starts with Reset, the lexer's Reset is init).
Tie K (the assurance): histories of 2-8 inputs (accepted, rejected, recovered, failing action) fed to ONE parser object vs fresh
objects: result, error, expected list, action log and scan count must coincide segment by segment (and with the model); lexers:
tokens after Reset (after a random number of Scan calls) vs a fresh lexer."""
import collections

import c02
import cfggen
import lexcommon
import lexgen
import lrcommon
import vlib


def run(ctx):
    ctx.check_property_file()
    thorough = ctx.tier == "thorough"
    rng = ctx.rng
    # ---------------- parsers
    gs = [cfggen.family(i) for i in (2, 6, 0, 1, 7, 8)] + [cfggen.gen_cfg(rng, with_error=(rng.random() < 0.5)) for _ in range(45 if not thorough else 600)]
    recs, stats, ws = lrcommon.prepare_parsers(ctx, gs, flags=["-a"])
    recs = [r for r in recs if r.bin]
    # parsers resolved with -a may loop on some inputs (every hang costs the driver's watchdog and a restart): conflict-free grammars and
    # the seeded families first, at most a quarter conflicting ones
    nmax = 12 if not thorough else 200
    free = [r for r in recs if r.dump.get("numConflicts", 0) == 0]
    conf = [r for r in recs if r.dump.get("numConflicts", 0) > 0]
    recs = (free[: nmax - min(len(conf), nmax // 4)] + conf[: nmax // 4])[:nmax]
    total = 0
    reported = 0
    disagreements = 0
    hist = collections.Counter()
    distinct = set()
    samples = []
    for r in recs:
        hists = []
        for _ in range(100 if not thorough else 300):
            segs = []
            for _ in range(rng.randint(2, 8)):
                s = c02.gen_inputs(r.g, rng, 1, extra_terms=["zz"])[0]
                segs.append((s, rng.choice([None, None, None, 0, 1, 3]), False))
            hists.append(segs)
        # histories around a DEEP parse (more than 100 stack entries: the stack's backing arrays grow) on right-recursive grammars
        deep = None
        if r.text == recs[0].text and "A : a A" in r.text:
            deep = ["a"] * 160 + ["c"]
        elif "S : a S" in r.text:
            deep = ["a"] * 160 + ["b"]
        if deep:
            for _ in range(10):
                segs = [(c02.gen_inputs(r.g, rng, 1)[0], None, False) for _ in range(rng.randint(0, 2))]
                segs.append((deep if rng.random() < 0.7 else deep[:-1], None, False))
                segs += [(c02.gen_inputs(r.g, rng, 1)[0], rng.choice([None, None, 1]), False) for _ in range(rng.randint(1, 3))]
                hists.append(segs)
        one = [lrcommon.encode_case(r, h) for h in hists]
        fresh = [lrcommon.encode_case(r, [(s, f, True) for (s, f, _) in h]) for h in hists]
        go_one = lrcommon.run_impl(r, one)
        go_fresh = lrcommon.run_impl(r, fresh)
        mo = lrcommon.run_model(ctx, r, one, fuel=3000)
        mobj = lrcommon.run_model(ctx, r, one, fuel=3000, mode="parseobj")   # the object model, threaded through the history
        for h, a, b, m, mob in zip(hists, go_one, go_fresh, mo, mobj):
            total += 1
            sa = [c02.norm(x.strip()) for x in a.split(" ; ")]
            sb = [c02.norm(x.strip()) for x in b.split(" ; ")]
            sm = [c02.norm(x.strip()) for x in m.split(" ; ")]
            for x in sa:
                hist[x.split(" ")[0]] += 1
            if len(set(x.split(" ")[0] for x in sa)) >= 2:
                distinct.add((r.name, a))
            if "NONTERMINATING" in sa or "NONTERMINATING" in sb:
                continue   # -a resolved tables may loop; a hang ends the driver process, later segments are not comparable
            if sa != sb:
                if reported < 3:
                    k = next(i for i in range(min(len(sa), len(sb))) if sa[i] != sb[i]) if len(sa) == len(sb) else 0
                    ctx.violation({"kind": "property-oracle-on-implementation", "grammar": r.text, "history": [s for (s, f, _) in h],
                                   "failing_calls": [f for (s, f, _) in h], "segment": k, "used_object": sa[k] if k < len(sa) else a,
                                   "fresh_object": sb[k] if k < len(sb) else b})
                    reported += 1
            elif sa != sm or sa != [c02.norm(x.strip()) for x in mob.split(" ; ")]:
                if sa == sm:
                    m = "LR/ObjParse.v (object model): " + mob
                disagreements += 1
                if reported < 3:
                    ctx.violation({"kind": "correspondence-broken", "correspondence": "Parse on a used object vs LR/Parse.v and vs the object model LR/ObjParse.v (k_parse threaded)",
                                   "grammar": r.text, "history": [s for (s, f, _) in h], "go": a, "model": m}, found_input=False)
                    reported += 1
        if len(samples) < 2:
            samples.append({"grammar": r.text, "history": one[0], "output": go_one[0][:300]})
    # ---------------- lexers
    lgs = [lexgen.gen_lex_grammar(rng) for _ in range(10 if not thorough else 120)]
    lrecs, lstats, lws = lexcommon.prepare_lexers(ctx, lgs)
    ltotal = 0
    for r in lrecs:
        walker = lexgen.make_walker(r.rows, r.acts, None)
        cases_used, cases_fresh, srcs = [], [], []
        for _ in range(150 if not thorough else 400):
            src = lexgen.gen_input(rng, r.alpha, walker)
            k = rng.randint(0, 6)
            k2 = rng.randint(0, 4)
            cases_used.append("N%s S%d R S%d R A" % (src.hex(), k, k2))
            cases_fresh.append("N%s A" % src.hex())
            srcs.append(src)
        gu = lexcommon.run_impl(r, cases_used)
        gf = lexcommon.run_impl(r, cases_fresh)
        mu = lexcommon.run_model(ctx, r, cases_used)
        for src, u, f, m in zip(srcs, gu, gf, mu):
            ltotal += 1
            after = u.split("|")[-2].strip() if u.count("|") >= 2 else u
            fresh = f.split("|")[-2].strip() if f.count("|") >= 2 else f
            if len(src) > 3:
                distinct.add((r.name, src))
            if after != fresh:
                if reported < 3:
                    ctx.violation({"kind": "property-oracle-on-implementation", "grammar": r.g.text(), "source": repr(src),
                                   "ops": "Scan*k, Reset, Scan*k2, Reset, Scan all", "after_reset": after, "fresh_lexer": fresh})
                    reported += 1
            elif u != m:
                disagreements += 1
                if reported < 3:
                    ctx.violation({"kind": "correspondence-broken", "correspondence": "Lexer Scan/Reset history vs Lex/Scan.v",
                                   "grammar": r.g.text(), "source": repr(src), "go": u, "model": m}, found_input=False)
                    reported += 1
    for o in ctx.failed_obligations():
        if reported < 6:
            ctx.violation({"kind": "proof-obligation-broken", "obligation": o}, found_input=False)
            reported += 1
    ctx.write_evidence("proof", {
        "evaluations": total + ltotal, "distinct_nontrivial": len(distinct),
        "rule": "parser histories: 2-8 token sequences (sentences, edits, prefixes, random, unknown tokens; a sixth with a failing action "
                "call) on one object of a random/seeded grammar (half with error alternatives, -a) vs fresh objects; non-trivial = the "
                "history mixes at least two outcome kinds; lexer histories: k Scan calls, Reset, k2 calls, Reset, scan all vs fresh lexer; "
                "non-trivial = source longer than 3 bytes; distinct by (grammar, history)",
        "samples": samples, "programs": len(recs) + len(lrecs), "parser_histories": total, "lexer_histories": ltotal,
        "segment_outcome_histogram": dict(hist), "traces_validated_against_impl": total + ltotal, "disagreements": disagreements,
    }, ["actions retain their attribute VALUES only ($i/$Ti/$Context); actions that retain the raw attribute slice X would observe Go "
        "slice aliasing of the parser stack, which an immutable model cannot exhibit (outside the property's 'action calls')",
        "a parse that does not terminate (tables resolved with -a) ends the driver process; such histories are skipped"])
