"""Random lexical grammars (as ASTs + gocc text) and lexer inputs."""

ALPHABETS = [
    list("abc"),
    list("ab01"),
    list("xyz \t\n"),
    list("ab \r\n\t"),
    ["a", "b", "é", "€"],
    ["a", "z", "\U0001F600", "é", " "],
    ["a", "b", "\x00", "\U0010FFFF", "\n"],
    list("abcdefgh"),
    ["a", "b", "�", "\n"],
    ["a", "\ud7ff", "\ue000", "\uf8ff", "\u0080", "\ufffd"],      # around the surrogate gap and the private-use area
    ["\x7f", "\u0080", "\u07ff", "\u0800", "\uffff", "\U00010000", "a"],   # UTF-8 length boundaries
    ["a", "\u0161", "b", "\u0261", "\U00010061"],                        # equal modulo 256 / 65536 (narrowing conversions)
]

# code points at which encodings, tables or printing verbs change behaviour: range bounds are drawn from here now and then
BOUNDARY_CPS = [0x00, 0x09, 0x0A, 0x20, 0x27, 0x5C, 0x7F, 0x80, 0xFF, 0x100, 0x7FF, 0x800, 0xD7FF, 0xE000, 0xF8FF, 0xFEFF, 0xFFFD, 0xFFFE,
                0xFFFF, 0x10000, 0x10FFFF]

NAMED = {"\n": "\\n", "\t": "\\t", "\r": "\\r", "'": "\\'", "\\": "\\\\"}


def char_lit(c, rng=None):
    """gocc char_lit for code point c; spelling chosen by rng when given (else canonical)."""
    o = ord(c)
    if c in NAMED:
        return "'%s'" % NAMED[c]
    if 0x20 <= o < 0x7F:
        return "'%s'" % c
    if rng is not None and rng.random() < 0.5 and o >= 0x80 and not (0xD800 <= o <= 0xDFFF):
        return "'%s'" % c   # raw UTF-8
    if o < 0x100 and rng is not None and rng.random() < 0.5:
        return "'\\x%02x'" % o
    if o < 0x10000:
        return "'\\u%04x'" % o
    return "'\\U%08x'" % o


# ---- pattern AST: pattern = [alt,...]; alt = [term,...]
# term = ('chr', cp) | ('rng', lo, hi) | ('dot',) | ('ref', name) | ('opt', pat) | ('rep', pat) | ('grp', pat)

def render_term(t, rng=None):
    k = t[0]
    if k == "chr":
        return char_lit(chr(t[1]), rng)
    if k == "rng":
        return "%s-%s" % (char_lit(chr(t[1]), rng), char_lit(chr(t[2]), rng))
    if k == "dot":
        return "."
    if k == "ref":
        return t[1]
    if k == "opt":
        return "[ %s ]" % render_pat(t[1], rng)
    if k == "rep":
        return "{ %s }" % render_pat(t[1], rng)
    if k == "grp":
        return "( %s )" % render_pat(t[1], rng)
    raise ValueError(t)


def render_pat(p, rng=None):
    return " | ".join(" ".join(render_term(t, rng) for t in alt) for alt in p)


def nullable_term(t, defs):
    k = t[0]
    if k in ("chr", "rng", "dot"):
        return False
    if k in ("opt", "rep"):
        return True
    if k == "grp":
        return nullable_pat(t[1], defs)
    if k == "ref":
        return nullable_pat(defs[t[1]], defs)
    raise ValueError(t)


def nullable_pat(p, defs):
    return any(all(nullable_term(t, defs) for t in alt) for alt in p)


class LexGrammar:
    """prods: list of (name, pattern) in declaration order; names: tok 'x', ignored '!x', regdef '_x'.
    strlits: string literals of the syntax part (rendered as a tiny syntax part)."""

    def __init__(self, prods, strlits=()):
        self.prods = prods
        self.strlits = list(strlits)

    def text(self, rng=None):
        out = []
        for (n, p) in self.prods:
            out.append("%s : %s ;" % (n, render_pat(p, rng)))
        toks = [n for (n, _) in self.prods if not n.startswith(("_", "!"))]
        if self.strlits or rng is None or True:
            # a syntax part is needed for string literals; always emit one so that every token id is a terminal
            syms = toks + ['"%s"' % s for s in self.strlits]
            if syms:
                out.append("")
                out.append("S : " + " | ".join(syms) + " ;")
        return "\n".join(out) + "\n"

    def defs(self):
        return {n: p for (n, p) in self.prods if n.startswith("_")}

    def to_json(self):
        return {"prods": self.prods, "strlits": self.strlits}


def gen_atom(rng, alpha, regdefs, allow_dot):
    k = rng.random()
    if k < 0.55:
        return ("chr", ord(rng.choice(alpha)))
    if k < 0.8:
        a, b = sorted([ord(rng.choice(alpha)), ord(rng.choice(alpha))])
        if rng.random() < 0.3:
            b = min(0x10FFFF, b + rng.choice([1, 2, 5]))
        if rng.random() < 0.15:
            a, b = sorted([rng.choice(BOUNDARY_CPS), rng.choice(BOUNDARY_CPS)])     # wide ranges (they overlap the others and get split)
        elif rng.random() < 0.1:
            a = rng.choice([x for x in BOUNDARY_CPS if x <= b] or [a])
        if 0xD800 <= b <= 0xDFFF:
            b = 0xD7FF
        return ("rng", a, b)
    if k < 0.87 and allow_dot:
        return ("dot",)
    if regdefs and k < 0.97:
        return ("ref", rng.choice(regdefs))
    return ("chr", ord(rng.choice(alpha)))


def gen_pat(rng, alpha, regdefs, depth, allow_dot, allow_nullable_body=False, top=True):
    nalt = 1 if rng.random() < 0.65 else rng.randint(2, 3)
    wide = top and rng.random() < 0.03
    if wide:
        nalt = rng.randint(10, 14)      # two-digit alternative / term indices (keys built from the position stack)
    pat = []
    for _ in range(nalt):
        nterm = rng.choice([1, 1, 2, 2, 3, 4])
        if wide and rng.random() < 0.2:
            nterm = rng.randint(10, 13)
        alt = []
        for _ in range(nterm):
            k = rng.random()
            if depth > 0 and k < 0.32:
                kind = rng.choice(["opt", "rep", "rep", "grp"])
                body = gen_pat(rng, alpha, regdefs, depth - 1, allow_dot, allow_nullable_body, top=False)
                alt.append((kind, body))
            else:
                alt.append(gen_atom(rng, alpha, regdefs, allow_dot))
        pat.append(alt)
    return pat


def strip_nullable_bodies(p, defs):
    """Replace opt/rep/grp bodies that are nullable by a non-nullable variant (gocc defect D5 territory:
    kept for the dedicated stream) by prefixing a literal to each nullable alternative."""
    out = []
    for alt in p:
        nalt = []
        for t in alt:
            if t[0] in ("opt", "rep", "grp"):
                body = strip_nullable_bodies(t[1], defs)
                if t[0] in ("opt", "rep"):
                    body = [a if not all(nullable_term(x, defs) for x in a) else [("chr", ord("a"))] + a for a in body]
                nalt.append((t[0], body))
            else:
                nalt.append(t)
        out.append(nalt)
    return out


def gen_lex_grammar(rng, safe_regdefs=True, nullable_bodies=False, max_tokens=6, alpha=None):
    alpha = list(alpha) if alpha is not None else list(rng.choice(ALPHABETS))
    allow_dot = rng.random() < 0.35
    prods = []
    regdefs = []
    nreg = rng.choice([0, 0, 1, 2])
    for i in range(nreg):
        name = "_r%d" % i
        if safe_regdefs:
            # single-rune definitions only (gocc's treatment of multi-rune regdefs re-entered while in flight is
            # known finding D4; those run in a separate stream)
            pat = [[gen_atom(rng, alpha, [], False)] for _ in range(rng.choice([1, 1, 2]))]
        else:
            pat = gen_pat(rng, alpha, list(regdefs), 1, False)
        prods.append((name, pat))
        regdefs.append(name)
    ntok = rng.randint(1, max_tokens)
    defs = {n: p for (n, p) in prods}
    nig = 0
    for i in range(ntok):
        ignored = rng.random() < 0.25
        name = ("!i%d" % i) if ignored else ("t%d" % i)
        pat = gen_pat(rng, alpha, regdefs, rng.choice([0, 1, 2, 3]), allow_dot)
        if not nullable_bodies:
            pat = strip_nullable_bodies(pat, defs)
        # a token pattern must not be nullable as a whole (gocc would accept the empty string in state 0)
        pat = [a if not all(nullable_term(x, defs) for x in a) else [("chr", ord(rng.choice(alpha)))] + a for a in pat]
        prods.append((name, pat))
    rng.shuffle(prods)
    # regdefs may be declared anywhere; keep order random but it does not matter to gocc
    strlits = []
    if rng.random() < 0.4:
        for _ in range(rng.choice([1, 2])):
            pool = [c for c in alpha if c.isalnum() or c in "+-*"] or ["a"]
            if rng.random() < 0.4:
                pool = pool + ["é", "€", "≤", "λ", "\U0001F600"]
            s = "".join(rng.choice(pool) for _ in range(rng.choice([1, 2, 3])))
            if s not in strlits:
                strlits.append(s)
    if not any(not n.startswith(("_", "!")) for (n, _) in prods) and not strlits:
        prods.append(("t99", [[("chr", ord(alpha[0]))]]))
    return LexGrammar(prods, strlits), alpha


def wide_prefix_grammar(rng):
    """One token with 10-14 alternatives, among them a word of 4-6 characters (as alternative 1) and all its proper prefixes: two-digit
    alternative / term indices, and items of one pattern that differ only in how their position stack splits into numbers."""
    alpha = list(rng.choice(["abc<=", "ab01", "xyz+-"]))
    n = rng.randint(10, 14)
    w = [rng.choice(alpha) for _ in range(rng.randint(4, 6))]
    alts = [None] * n
    alts[0] = [rng.choice(alpha)]
    alts[1] = list(w)
    free = list(range(2, n))
    rng.shuffle(free)
    for k in range(1, len(w)):
        if free:
            alts[free.pop()] = w[:k]
    for i in range(n):
        if alts[i] is None:
            alts[i] = [rng.choice(alpha) for _ in range(rng.randint(1, 3))]
    pat = [[("chr", ord(c)) for c in a] for a in alts]
    prods = [("op", pat), ("t1", [[("chr", ord("z")), ("chr", ord("z"))]]), ("!ws", [[("chr", 32)], [("chr", 10)]])]
    return LexGrammar(prods, []), alpha + [" ", "z"]


# ---------------------------------------------------------------- inputs
def enc(s):
    return s.encode("utf-8", "surrogatepass")


def gen_input(rng, alpha, walker=None):
    """Returns bytes. Three streams: mostly-valid (walker through the DFA when given), boundary, malformed."""
    if rng.random() < 0.06:
        # inputs that tools like to treat specially: byte order mark, shebang, NUL / ^Z, (CR) LF at the very start or end
        inner = gen_input(rng, alpha, walker)
        pre = rng.choice([b"\xef\xbb\xbf", b"\xef\xbb\xbf", b"#!", b"\x00", b"\r\n", b"\n", b"\xff\xfe", b""])
        post = rng.choice([b"", b"\n", b"\r\n", b"\x1a", b"\x00", b" ", b"\xef\xbb\xbf"])
        return pre + inner + post
    k = rng.random()
    if walker is not None and k < 0.55:
        return walker(rng)
    if k < 0.8:
        n = rng.choice([0, 1, 2, 3, 5, 8, 13, 20])
        extra = ["?", "\n", "\t", "\r", " ", "é", "\U0001F600"]
        return enc("".join(rng.choice(alpha) if rng.random() < 0.85 else rng.choice(extra) for _ in range(n)))
    # malformed: random bytes, truncated / over-long UTF-8, surrogates
    n = rng.choice([1, 2, 3, 6, 10])
    pool = [0x80, 0xBF, 0xC0, 0xC1, 0xC2, 0xE0, 0xED, 0xA0, 0xF0, 0xF4, 0x90, 0xF5, 0xFF, 0x00, 0x0A, 0x09, 0x0D, 0x61, 0x62]
    b = bytearray()
    for _ in range(n):
        if rng.random() < 0.5:
            b.append(rng.choice(pool))
        else:
            b += enc(rng.choice(alpha))
    return bytes(b)


def make_walker(rows, acts, alpha_bytes):
    """Random walks through the dumped DFA so that most bytes extend a lexeme; occasionally derail."""
    def pick_rune(rng, row):
        opts = [(lo, hi, nx) for (lo, hi, nx) in row["cases"] if nx != -1]
        if opts and (row["default"] == -1 or rng.random() < 0.8):
            lo, hi, nx = rng.choice(opts)
            r = rng.choice([lo, hi, (lo + hi) // 2])
            return r, nx
        if row["default"] != -1:
            for _ in range(10):
                r = rng.choice([0x3F, 0x7A, 0xE9, 0x20AC, 0x1F600, 0x0A, 0x09, 0x41])
                if not any(lo <= r <= hi for (lo, hi, _) in row["cases"]):
                    return r, row["default"]
        return None, -1

    def walk(rng):
        out = bytearray()
        ntok = rng.choice([1, 2, 3, 5, 8])
        for _ in range(ntok):
            s = 0
            for _ in range(rng.choice([1, 2, 3, 4, 6, 10])):
                r, nx = pick_rune(rng, rows[s])
                if r is None:
                    break
                if 0xD800 <= r <= 0xDFFF or r > 0x10FFFF or r < 0:
                    break
                out += chr(r).encode("utf-8")
                s = nx
                if acts[s][0] == -1:   # ignore state restarts
                    s = 0
            if rng.random() < 0.12:
                out += rng.choice([b"?", b"\n", b"\xff", b"\t", b"\xe2\x82"])
        return bytes(out)
    return walk
