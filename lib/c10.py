"""C10 — token numbering is one bijection shared by token, lexer and parser packages.

Proof: Properties/C10.v (Front/TokMap.v: NoDup, positions, mutual inverses, unknown -> 0, INVALID 0 / EOF 1).
Tie K: (1) extracted terminals_z on the grammar's productions + lexical token ids (verifdump lr) = the TokenMap gocc builds;
       (2) the GENERATED token package (compiled): Id(i)/Type(name) evaluated for every number: typeMap = that list, idMap inverse,
           unknown names -> INVALID, constants INVALID=0, EOF=1; (3) the generated lexer returns, for the lexeme of every terminal, the
           terminal's number; the generated parser's tables are indexed by the same numbers (grammar-level: a sentence using every
           terminal parses). Three configurations: combined, -no_lexer, lexer-only; hostile spellings."""
import collections
import json
import os
import subprocess

import cfggen
import gen
import vlib

HOSTILE = ['"a\\"b"', '"`"', '"\\\\"', '"é€"', '"//"', '"/*"', '"%d%s"', '"{{.}}"', '"a b"', "`x\"y`", '"\\n"', '"*/"', '"\'"', '"error2"', '"€"']


def hx(s):
    return s.encode("utf-8").hex()


def lit_content(t):
    return t[1:-1]


def hostile_cfg(rng):
    g = cfggen.gen_cfg(rng, max_nt=3)
    lits = rng.sample(HOSTILE, rng.randint(1, 4))
    # append an alternative to S using the hostile literals so that they are terminals of the grammar
    prods = list(g.prods)
    idx = max(i for i, p in enumerate(prods) if p[0] == "S")
    prods.insert(idx + 1, ("S", lits, "normal", None))
    return cfggen.CFG(g.nts, g.terms + lits, prods), lits


def syntax_text(g):
    """syntax part without header and actions (the token driver does not need h)"""
    out = []
    for (l, idxs) in g.runs():
        alts = []
        for i in idxs:
            (l2, b, k, a) = g.prods[i]
            alts.append("empty" if k == "empty" else ("error " if k == "error" else "") + " ".join(b))
        out.append("%s : %s ;" % (l, " | ".join(alts)))
    return "\n".join(out) + "\n"


def run(ctx):
    ctx.check_property_file()
    thorough = ctx.tier == "thorough"
    rng = ctx.rng
    ws = gen.Workspace(ctx)
    n = 20 if not thorough else 150
    cases = []
    for i in range(n):
        g, lits = hostile_cfg(rng)
        cases.append(("combined", i, g, cfggen.lex_part(g) + "\n" + syntax_text(g), ["-a"]))
        if i % 2 == 0:
            cases.append(("combinedv", i, g, cfggen.lex_part(g) + "\n" + syntax_text(g), ["-a", "-v"]))
        cases.append(("nolexer", i, g, syntax_text(g), ["-a", "-no_lexer"]))
        if i % 2 == 1:
            # -no_lexer on a file that HAS a lexical part (hand-written scanner, token ids from the grammar): the lexical tokens,
            # the ones no production mentions included, are terminals and must be numbered
            cases.append(("nolexerfull", i, g, cfggen.lex_part(g) + "\n" + syntax_text(g), ["-a", "-no_lexer"]))
        cases.append(("lexonly", i, g, cfggen.lex_part(g), []))
    # one grammar with 300 token ids: token type numbers beyond 255 (a narrower integer type anywhere in the chain would wrap)
    bg = cfggen.big_cfg(rng, 300)
    cases.append(("big", 0, bg, cfggen.lex_part(bg) + "\n" + syntax_text(bg), []))
    total = 0
    reported = 0
    hist = collections.Counter()
    distinct = set()
    samples = []
    recs = []
    for (cfgname, i, g, text, flags) in cases:
        name = "%s%d" % (cfgname, i)
        rc, out, d = ws.gocc(name, text, flags=flags)
        hist["%s/rc%d" % (cfgname, rc)] += 1
        if rc != 0:
            continue
        dj = subprocess.run([ctx.verifdump, "lr", os.path.join(d, "g.bnf")], capture_output=True, text=True)
        dump = json.loads(dj.stdout)
        ws.add_driver(name, "tokdrv.go.tmpl")
        if cfgname not in ("nolexer", "nolexerfull"):
            ws.add_driver(name, "lexdrv.go.tmpl", sub="lexcmd")
        recs.append((cfgname, name, g, text, dump, d))
    bins, log = ws.build()
    ctx.add_obligation("generated token (and lexer) packages compile for all %d configurations" % len(ws.names), len(bins) == len(ws.names), log[-500:])
    lines = []
    for (cfgname, name, g, text, dump, d) in recs:
        ps = " ; ".join(" ".join([hx(p["id"])] + [hx(s) for s in (p["body"] or [])]) for p in dump.get("prods") or [])
        lines.append(ps + " | " + " ".join(hx(t) for t in dump["lexTokenIds"]))
    model = vlib.run_lines([ctx.modelrun, "tokmap"], "".join(l + "\n" for l in lines)) if lines else []
    disagreements = 0
    for (cfgname, name, g, text, dump, d), m in zip(recs, model):
        total += 1
        terms = dump["terminals"]
        mterms = [bytes.fromhex(x).decode("utf-8") for x in m.split()]
        why = None
        kind = "property-oracle-on-implementation"
        b = bins.get((name, "cmd"))
        if b is None:
            continue
        unknown = ["nosuchtoken", "S", "", "INVALID2", "empty"]   # the keyword of an empty alternative is not a terminal (defect D18, repaired)
        out = subprocess.run([b, str(len(terms) + 2)] + unknown, capture_output=True, text=True).stdout.split("\n")
        if out[0] != "INVALID=0 EOF=1":
            why = "token constants: " + out[0]
        ids = []
        for l in out[1:]:
            w = l.split(" ")
            if len(w) == 3 and w[0] != "U":
                ids.append((int(w[0]), bytes.fromhex(w[1]).decode("utf-8"), int(w[2])))
            elif len(w) == 3 and int(w[2]) != 0 and w[1] not in terms:
                why = "unknown name %r maps to %s, not INVALID" % (w[1], w[2])
        gen_terms = [s for (i, s, t) in ids[:len(terms)]]
        if why is None and (terms[:2] != ["INVALID", "␚"]):
            why = "numbering does not start with INVALID, end-of-input: %s" % terms[:3]
        if why is None and len(set(terms)) != len(terms):
            why = "duplicate terminal in the numbering"
        if why is None and gen_terms != terms:
            why = "generated typeMap %s differs from gocc's terminal list %s" % (gen_terms, terms)
        if why is None:
            for (i, s, t) in ids[:len(terms)]:
                if t != i:
                    why = "Type(Id(%d)) = %d for terminal %r" % (i, t, s)
                    break
        if why is None and any(s != "unknown" for (i, s, t) in ids[len(terms):]):
            why = "numbers beyond the last terminal have names: %s" % ids[len(terms):]
        # every terminal of the grammar text is numbered
        want = set(["INVALID", "␚"])
        for t in g.terms:
            used = any(t in bb for (_, bb, _, _) in g.prods)
            if used and cfgname != "lexonly":
                want.add(lit_content(t) if t[0] in '"`' else t)
            if used and cfgname != "nolexer" and t[0] not in '"`':
                want.add(t)
        if cfgname != "nolexer":
            want |= {"zq9", "aq7", "zQ9"}
        if why is None and cfgname != "lexonly" and not want <= set(gen_terms):
            why = "terminals of the grammar missing from the GENERATED token map: %s" % sorted(want - set(gen_terms))
        if why is None and cfgname != "lexonly" and not want <= set(terms):
            why = "terminals of the grammar missing from the numbering: %s" % sorted(want - set(terms))
        # lexer emits these numbers
        if why is None and cfgname not in ("nolexer", "nolexerfull"):
            lb = bins.get((name, "lexcmd"))
            probe = [(i, s) for i, s in enumerate(terms) if i >= 2 and s != "empty" and s != "error" and (cfgname.startswith("combined") or s in dump["lexTokenIds"])]
            if lb and probe:
                res = subprocess.run([lb], input="".join("N%s S1\n" % s.encode("utf-8").hex() for (_, s) in probe),
                                     capture_output=True, text=True).stdout.split("\n")
                for (i, s), r in zip(probe, res):
                    ty = r.strip().split(":")[0].lstrip("| ")
                    if ty != str(i):
                        why = "the lexer returns type %s for the lexeme of terminal %r, whose number is %d" % (ty, s, i)
                        break
        if why is None and mterms != terms:
            kind = "correspondence-broken"
            why = "TokMap.terminals_z gives %s, gocc's TokenMap is %s" % (mterms, terms)
            disagreements += 1
        if len(terms) > 4:
            distinct.add(name)
        if why and reported < 3:
            ctx.violation({"kind": kind, "configuration": cfgname, "grammar": text, "reason": why},
                          found_input=(kind != "correspondence-broken"))
            reported += 1
        if len(samples) < 3:
            samples.append({"configuration": cfgname, "grammar": text, "terminals": terms})
    for o in ctx.failed_obligations():
        if reported < 6:
            ctx.violation({"kind": "proof-obligation-broken", "obligation": o}, found_input=False)
            reported += 1
    ctx.write_evidence("proof", {
        "evaluations": total, "distinct_nontrivial": len(distinct),
        "rule": "random CFGs with 1-4 hostile string literals (quotes, back-quote, backslash, non-ASCII, comment openers, printf/template "
                "verbs, blanks, raw strings) in three configurations (lexical+syntax part, syntax part with -no_lexer, lexical part only); "
                "non-trivial = more than 4 terminals; distinct by (configuration, grammar)",
        "samples": samples, "programs": total, "configuration_histogram": dict(hist),
        "traces_validated_against_impl": total, "disagreements": disagreements,
    }, ["names are compared as UTF-8 strings; the model works on code points",
        "that the parser's tables are indexed by these numbers is also what C02's per-grammar validation uses (columns = this list)"])
