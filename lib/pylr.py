"""Plain canonical LR(1) construction in Python. Used only to produce UNTRUSTED annotations (item sets,
nullable, FIRST) for tables that come without them (gocc's own checked-in front-end tables): the Coq validator
re-checks everything."""


def nullable_first(prods, nts):
    """prods: list of (lhs, [symbols]); nts: set of nonterminal names. Returns (nullable set, first dict)."""
    nullable = set()
    first = {n: set() for n in nts}
    changed = True
    while changed:
        changed = False
        for (l, b) in prods:
            if l not in nullable and all(s in nullable for s in b):
                nullable.add(l)
                changed = True
            for s in b:
                add = first[s] if s in nts else {s}
                if not add <= first[l]:
                    first[l] |= add
                    changed = True
                if s not in nullable:
                    break
    return nullable, first


def first_seq(seq, la, nts, nullable, first):
    out = set()
    for s in seq:
        if s in nts:
            out |= first[s]
            if s not in nullable:
                return out
        else:
            out.add(s)
            return out
    out.add(la)
    return out


def closure(items, prods, nts, nullable, first, by_lhs):
    items = list(items)
    seen = set(items)
    i = 0
    while i < len(items):
        (p, k, la) = items[i]
        i += 1
        body = prods[p][1]
        if k < len(body) and body[k] in nts:
            for b in sorted(first_seq(body[k + 1:], la, nts, nullable, first)):
                for q in by_lhs[body[k]]:
                    it = (q, 0, b)
                    if it not in seen:
                        seen.add(it)
                        items.append(it)
    return items


def goto(items, X, prods, nts, nullable, first, by_lhs):
    kern = [(p, k + 1, la) for (p, k, la) in items if k < len(prods[p][1]) and prods[p][1][k] == X]
    return closure(kern, prods, nts, nullable, first, by_lhs) if kern else []


def align(prods, nts, eof, table_trans, nstates):
    """table_trans(s, X) -> target state or None (the automaton encoded by given tables).
    Follows the canonical construction and the table's transitions in lock-step from state 0;
    returns per-table-state item lists (None where unreachable) and a list of mismatches."""
    nullable, first = nullable_first(prods, nts)
    by_lhs = {}
    for i, (l, b) in enumerate(prods):
        by_lhs.setdefault(l, []).append(i)
    symbols = []
    for (l, b) in prods:
        for s in [l] + b:
            if s not in symbols:
                symbols.append(s)
    items0 = closure([(0, 0, eof)], prods, nts, nullable, first, by_lhs)
    ann = [None] * nstates
    ann[0] = items0
    work = [0]
    problems = []
    while work:
        s = work.pop()
        for X in symbols:
            tgt = goto(ann[s], X, prods, nts, nullable, first, by_lhs)
            t = table_trans(s, X)
            if not tgt:
                continue
            if t is None:
                problems.append("state %d: canonical automaton moves on %s, tables do not" % (s, X))
                continue
            if ann[t] is None:
                ann[t] = tgt
                work.append(t)
            elif set(ann[t]) != set(tgt):
                problems.append("state %d on %s: target %d reached with different item sets" % (s, X, t))
    return ann, nullable, first, problems
