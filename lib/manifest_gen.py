#!/usr/bin/env python3
"""Regenerates MANIFEST.json from the per-property table below (kept in one place so the
file is always schema-valid)."""
import json, os, sys
ROOT = os.path.dirname(os.path.dirname(os.path.abspath(__file__)))

CHECKS = {}
NA = {}

def claim(pid, category, text, note, technique, design):
    CHECKS[pid] = dict(category=category, text=text, note=note, technique=technique, design=design)

claim("C18", "proof",
      "Coq theorems (Properties/C18.v) over a functional model of AddRange: for every finite sequence of closed intervals, "
      "in every order, the classes are sorted, disjoint, non-empty, their union is the union of the ranges, each class is "
      "inside or outside each range, each range is a union of classes, each rune selects at most one class. The model is tied "
      "to DisjunctRangeSet.AddRange by running both on the same random interval sequences (verifdump ranges vs the extracted "
      "model) and the property oracle is also evaluated on the Go output alone. The code that FEEDS a lexer state's expected literals and "
      "ranges into the set is covered at state level: the verified lexer-generator model computes each state's classes as the model's classes "
      "of the terminals its items expect, and its DFA must equal gocc's on grammars over alphabets with code points equal modulo 256/65536.",
      "Coq kernel; extraction (ExtrOcamlBasic only); verifdump hook prints AddRange results faithfully; int32 vs Z (no rune near MaxInt32).",
      "Rocq proof by induction on the class list + extracted-model differential correspondence", "6 C18")

claim("C08", "proof",
      "Coq theorems (Properties/C08.v) over a model of the generated Scan loop, for every DFA, every byte string and every prefix "
      "of the token stream: every token (INVALID and EOF included) carries the exact offset, line (1 + newlines before) and column "
      "(1 + advance since last CR/LF, 4 per tab) of its first byte, literals are the input bytes they cover, lexemes and ignored text "
      "tile the input without gap/overlap, EOF is sticky, Scan never runs out of fuel. The model is tied to the code by compiling real "
      "generated lexers (gocc built from the working tree) and comparing token streams with the extracted model on the tables re-read "
      "from the emitted Go files; the property oracle is also evaluated on the Go token list alone; Utf8.decode_rune is compared with "
      "utf8.DecodeRune exhaustively on 1-2 byte strings and on a boundary grid.",
      "Coq kernel; hand-written Scan model tied by differential testing (not a translation of the template); text/template, Go compiler, "
      "utf8.DecodeRune modelled; characters = decoded runes.",
      "Rocq proof (loop invariant over consumed prefix) + extracted-model differential correspondence on generated lexers", "6 C08")

LR_NOTE = ("Coq kernel (incl. vm_compute for the per-grammar validator obligations); Python translator from verifdump lr / compiled-table dump to "
           "Gallina literals; hand-written Parse model tied by differential testing; text/template, Go compiler/runtime trusted; "
           "'all grammars' = all grammars for the validator theorems, gocc tied grammar by grammar on each run's sample.")
claim("C02", "proof",
      "Coq theorems (Properties/C02.v): for EVERY grammar, tables and annotation passing the verified boolean validator, Parse (model of the "
      "generated loop) returns a nil error only on sentences (Sound), accepts every sentence within tree-size+1 steps (Complete) and never "
      "panics. On every run the validator is evaluated by the Coq kernel (vm_compute) on gocc's own item sets, FIRST sets and the tables "
      "read back from the compiled parser for each conflict-free grammar of the run, which instantiates the theorems to gocc's output for all "
      "token sequences; the compiled parser is also compared with the extracted model and with an independent Earley recogniser, including "
      "sentences of about 1500 tokens built by iterated recursion (deep stacks, long lists) with near misses. For EVERY grammar: LR/Gen.v, a "
      "Gallina model of gocc's generator proved to output only tables that pass the validators, is compared with gocc on every grammar of the run; "
      "its input (numbered productions, symbol order, terminal numbering, look-ahead order, action flags) is computed by the front-end model "
      "Front/SynAst.v from the BYTES of each grammar file and compared with gocc's symbol table: the comparison runs from the file to the tables.",
      LR_NOTE + " Termination on non-sentences: proved only when LR/ErrorPos.v is present; otherwise covered by the correspondence run (partial).",
      "Rocq proof (LR soundness+completeness for validated tables) + kernel-evaluated translation validation of gocc's tables + differential correspondence", "6 C02")
claim("C03", "proof",
      "Coq theorems (Properties/C03.v): when Parse succeeds, value and action log are exactly the post-order evaluation of the actions over a "
      "parse tree of the input (each action once per node, children's attributes in order, terminals carry the scanner's token object, default "
      "= first attribute, empty = nil); a failing action ends the parse with that error and no further action. Same R/K ties as C02 with "
      "logging actions using $i, $Ti, $Context (the Context field changes at every Scan: $Context is the value stored when the action runs), "
      "actions on empty alternatives, and a chosen failing call, on grammars without AND with error-recovery alternatives (an "
      "action's error must not be recovered from); an implementation-only oracle checks log/result consistency and the failing-call clause.",
      LR_NOTE, "Rocq proof (stack invariant carrying ghost trees and threaded evaluation) + translation validation + differential correspondence", "6 C03")

claim("C15", "proof",
      "The checked-in front-end tables (read through verifdump ftables) and the syntactic part of spec/gocc2.ebnf are translated to Gallina "
      "on every run; the Coq kernel evaluates the verified validators valid_backward / valid_forward(spec grammar, tables, annotation) and the "
      "gate condition (recovery gated on canRecover, no recovering state: the tables shift the keyword error as an ordinary terminal) by "
      "vm_compute, so the Sound (LR/SoundGated.v) / Complete theorems (Properties/C15.v) hold for these very tables: for ALL token sequences, accepted <=> sentence of the spec, "
      "reductions are productions of the spec (the tables' productions are matched one-to-one with the spec's by head and body). The real "
      "front-end Parse loop (after the fix gating recovery on canRecover) is compared with the model on derivations of the spec and their "
      "mutations, and on constructed sentences with bracket nesting up to 3000 (thorough 8000) and lists of 2500 tokens with near misses; "
      "Earley on the spec is the oracle (membership by construction for the long ones).",
      LR_NOTE + " The spec file is read by a small tokenizer; annotations come from an untrusted Python LR(1) construction and are checked by the validator.",
      "kernel-evaluated verified validator on the shipped tables vs the documented grammar (Rocq) + differential correspondence of the real loop", "6 C15")

claim("C19", "proof",
      "Coq theorems (Properties/C19.v) over a model of md.loadMd: for every document built from prose and bare ``` fenced code pieces the "
      "text handed to the scanner is the code kept verbatim at its own offsets and everything else blanked; UNCONDITIONALLY (every rune "
      "string) length and newline positions are preserved, so every rune keeps offset, line and column. Tied to the code by running loadMd "
      "(tagged export) and the extracted model on random documents, and by running the real binary on x.md vs the concatenated blocks "
      "(identical packages, same exit status; LF and CR LF documents, actions written over several lines, prose with Unicode white space) "
      "and on planted syntax errors (reported line:column = markdown position). One known finding (a fence boundary inside a token that "
      "spans lines) is reported as KNOWN-FINDING on a fixed witness.",
      "Coq kernel; hand-written model tied by differential testing; random documents cut between tokens only (the known finding covers cuts inside a token).",
      "Rocq proof (structural recursion on the rune list) + extracted-model correspondence + tool-level metamorphic run", "6 C19")
claim("C20", "proof",
      "Coq theorems (Properties/C20.v): for every valid Go rune literal (specification written from the Go language spec) the decoder "
      "shared by gocc and the generated util package returns Go's code point; every spelling of every code point decodes to it; uint32 "
      "arithmetic never wraps. Tied to the code by comparing the model with util.LitToRune and with the compiled generated util.RuneValue "
      "on every spelling of the code points of the run (exhaustive over all 1,112,064 scalar values in the thorough tier) and on malformed "
      "literals, by comparing the specification with strconv.UnquoteChar, by textual identity of the two Go copies, IntValue/UintValue "
      "with strconv on boundary decimals, and END TO END: grammars with every spelling of boundary/random code points and ranges must be "
      "accepted and the emitted lexer must branch on exactly Go's code point.",
      "Coq kernel; strconv is the reference for Go semantics; two compiler implementation restrictions (raw NUL, raw U+FEFF) excluded.",
      "Rocq proof (symbolic over digits, lia) + exhaustive/finite correspondence of extracted model, Go decoder, generated decoder and strconv", "6 C20")

claim("C05", "proof",
      "Coq theorems (Properties/C05.v) over a model of ItemSet.Action/ResolveConflict: for every candidate list in every order the winner is "
      "shift if present, else the least production; single candidates unchanged; conflict recorded iff two distinct actions compete; result "
      "independent of item order; refusal (panic) iff Accept competes. On every run each compiled action-table cell of each conflicting "
      "grammar is re-derived with the extracted row_action from gocc's dumped item sets, dumped conflict sets are compared, and the -a "
      "parser is compared with the Parse model (verdict + full reduction sequence). For EVERY grammar: LR/GenAuto.v is a Gallina model of the "
      "generator in mode -a, proved to build the canonical LR(1) collection and to write in every cell the winner of that fold (C05_every_grammar_*); "
      "it is compared with gocc -a on every conflicting grammar of the run (item sets, numbering, announced count, refusal, compiled tables).",
      LR_NOTE, "Rocq proof of the resolution fold + per-cell translation validation with the extracted verified function + differential correspondence", "6 C05")
claim("C06", "proof",
      "Coq theorem C06_exact (Properties/C06.v): for every table passing lr_valid and the canonicity/productivity checks x_checks, a syntax "
      "error carries the first token that makes the consumed prefix non-viable, the prefix is viable, the expected list is exactly the set of "
      "viable continuations in terminal order, and no shift/reduce/action ran with that token as look-ahead; plus termination on every input. "
      "Both checks are evaluated by the Coq kernel on gocc's own tables and item sets (gocc's item order) per grammar; compiled parser vs model "
      "on non-sentences (a part of the grammars also generated with -zip); Earley prefix-viability oracle on the implementation's error token "
      "and expected list.",
      LR_NOTE, "Rocq proof (item validity along the stack, canonical LR(1)) + kernel-evaluated translation validation + Earley oracle", "6 C06")
claim("C10", "proof",
      "Coq theorems (Properties/C10.v) over a model of Symbols/TokenMap numbering: the terminal list is duplicate-free, numbers are "
      "positions, name<->number lookups are mutually inverse, unknown names map to 0 (the keyword empty included: fix), INVALID=0/EOF=1 "
      "(grammars naming a production INVALID are now rejected: fix). Tied to the code by evaluating the extracted model on each grammar's productions and comparing with gocc's "
      "TokenMap, by compiling the generated token package and evaluating Id/Type for every number and for unknown names, and by scanning "
      "every terminal's lexeme with the generated lexer; four configurations (with -v), hostile spellings, unused lexical tokens, a grammar with 300 tokens.",
      "Coq kernel; model tied by differential testing; names compared as UTF-8 strings.",
      "Rocq proof (list-based numbering) + extracted-model correspondence + evaluation of the generated packages", "6 C10")
claim("C11", "proof",
      "Coq theorems (Properties/C11.v): with every map iteration modelled as an arbitrary permutation, token ids, token numbering, FIRST "
      "sets, look-ahead lists, resolved actions and conflict count do not depend on iteration order. A go/types inventory of the generator "
      "(every range over a map, go statement, select, channel operation) is re-derived on every run and must equal the list of sites the "
      "theorems cover or that only reach diagnostics (there is no concurrency at all). The binary is run repeatedly with GOMAXPROCS 1/16 and "
      "outputs are byte-compared.",
      "Coq kernel; the inventory tool (golang.org/x/tools/go/packages) is trusted to list map ranges; runtime randomisation is sampled.",
      "Rocq proof of permutation independence + source inventory obligation + repeated-run exploration", "6 C11")
claim("C12", "proof",
      "Coq theorems (Properties/C12.v): the -zip encoding of every action row/table decodes back to the same row/table (any triple order). "
      "On every run all 16 subsets of {-zip,-debug_lexer,-debug_parser,-v} are generated, compiled and run on the same sources (decoded "
      "tables read back from the compiled package, results, errors, positions, action logs identical; debug output ignored) and 5 -no_lexer "
      "subsets are compared file by file; debug variants may differ from plain output only by printing statements and imports.",
      "Coq kernel; gob+gzip trusted as lossless transport; debug blocks judged syntactically.",
      "Rocq proof (zip round trip) + file-level translation validation + behavioural comparison across all flag subsets", "6 C12")

claim("C04", "proof",
      "Coq theorems (Properties/C04.v): the canonical LR(1) collection is specified inductively (Dragon-book closure/goto with semantic "
      "FIRST, no tables); for every dumped automaton passing the boolean certificate auto_valid, its item sets ARE the canonical item sets "
      "of their access strings and all canonical states are present; hence gocc's count is > 0 iff some canonical state has a terminal with "
      "two different actions, and resolution is refused iff accept competes. auto_valid and the recomputed count are evaluated by the Coq "
      "kernel on gocc's dump for every grammar of the run and compared with the announced count; the binary is run with and without -a "
      "(count line, exit status); an independent Python canonical construction labels disagreements.",
      LR_NOTE + " The mapping conflict count -> exit status is checked on the binary, not proved.",
      "Rocq proof (dump = canonical collection under a checked certificate) + kernel-evaluated translation validation + exit-status exploration", "6 C04")
claim("C16", "proof",
      "Coq theorems (Properties/C16.v) over a model of the parser OBJECT as the generated code represents it (LR/ObjParse.v: the two Go slices "
      "of the stack with backing arrays that survive Reset, capacity and re-allocating append with arbitrary content in the new cells, "
      "top/peek/popN indexing those arrays and panicking beyond the length, the stale nextToken field): Parse on EVERY object value returns "
      "exactly what the list model's Parse returns (result, error with expected list, action log, scans) and re-establishes the "
      "representation invariant; a history of calls on ONE object returns what fresh parsers return; what lies beyond the slice lengths and "
      "the growth policy are unobservable; an Example shows the refinement fails for a seeded bad reset. Lexer: Reset = fresh lexer (shallow). "
      "Tie: histories of 2-8 inputs (accepted, rejected, recovered, failing action, inputs deep enough to grow the arrays) on ONE Go parser "
      "object vs fresh objects vs the extracted object model threaded through the same history; the driver changes the Context field at "
      "every Scan and overwrites every list Parse returned before the next call; lexer Scan/Reset histories vs a fresh lexer and the model.",
      "Hand-written object model tied by differential testing over histories; the slice popN returns aliases the backing array (an action "
      "that KEEPS its raw X argument would see later pushes): attribute values are immutable in the model.",
      "Rocq refinement proof (slice-backed parser object refines the list model, for all object states and histories) + extracted-model "
      "differential correspondence over call histories", "6 C16")
claim("C17", "other",
      "Partial by nature. Coq theorem (Properties/C17.v): objects that write only their own state over shared immutable data obtain, under "
      "EVERY schedule, exactly their sequential results. The frame assumption is checked on the emitted code on every run (go/types scan: no "
      "write to package-level state outside init(), neither directly nor through the receiver of a method whose type has a package-level "
      "value; plain and -zip). 16 goroutines with own lexer/parser objects, released together in a cold process BEFORE the sequential "
      "reference run (lazily initialised shared state is first touched concurrently), run under the race detector and are compared with "
      "the sequential run.",
      "The Go memory model and the race detector's coverage cannot be carried by a theorem; named as the runtime residue.",
      "Rocq commutation theorem + source-level frame check on generated code + race-detector exploration", "6 C17")

claim("C01", "proof",
      "Coq theorems (Properties/C01.v): (a) the Scan loop relative to ANY DFA satisfies ScanSpec (longest viable text, the token the text "
      "matches, INVALID owns the killing rune, ignored text restarts at once, EOF for ever; deterministic and complete); (b) a derivative "
      "semantics of the lexical rules (regular definitions as macros, contextual '.', string literal first then earliest declaration) proved "
      "Brzozowski-correct against the textbook matches relation for dot-free rules; (c) soundness of bisim_check: check = true implies the "
      "emitted DFA and the definitional tokenizer return the same tokens on ALL byte strings. On every run the verified checker is executed on "
      "(lexical part as gocc parsed it, DFA re-read from the emitted Go files) for every grammar (extracted), and by the Coq kernel "
      "(vm_compute) for a sample; compiled lexers are compared with the definitional tokenizer on generated inputs. The lexical part itself is "
      "recomputed from the BYTES of each grammar file by the front-end model Front/LexAst.v (scanner model, pattern parser proved a left "
      "inverse of the printer, literal decoding, token numbering) and must equal what gocc parsed.",
      "Coq kernel; extraction; verifdump lexdump prints the AST gocc parsed; multi-character regular definitions: recorded findings (3 witnesses) "
      "until the macro-expansion fix lands; imports outside the model.",
      "Rocq proof (derivatives + verified bisimulation checker = per-grammar translation validation for all inputs) + differential correspondence", "6 C01")
claim("C07", "proof",
      "Coq theorems (Properties/C07.v) for every table passing the validator: Parse never panics with recovery enabled; exact step "
      "specification of Error() (cut to the topmost recovering state, error attribute with offending token / discarded attributes / expected "
      "list, skipping starts with the offending token); tokens reach actions at most once and in input order; on sentences the error "
      "alternatives are inert (result = post-order evaluation, Error() never entered); termination for conflict-free canonical tables (a "
      "looping non-canonical table is exhibited). Validator conditions evaluated by the Coq kernel on gocc's tables per grammar; compiled "
      "parser vs model on valid, singly and multiply erroneous inputs (a part of the grammars also generated with -zip); oracle: no "
      "panic/hang, token order, inertness.",
      LR_NOTE + " 'error' occurs only as first symbol of an alternative.",
      "Rocq proof (structural stack invariant through recovery, progress after recovery) + kernel-evaluated translation validation + differential correspondence", "6 C07")
claim("C09", "other",
      "Partial. Rocq carries termination of the modelled algorithms (total Gallina functions, fuel adequacy proved: generated Scan, generated "
      "Parse on validated canonical tables, markdown blanking, front-end scanner totality). That text/template, go/format, the Go compiler "
      "and the OS produce complete compilable output cannot be expressed as a theorem about an executable model: explored by running the real "
      "binary under a time limit on hostile and mutated grammars with 11 flag sets and compiling every output produced with status 0.",
      "Exploration only for the template/compiler/OS part; 30 s stands for termination.",
      "Rocq termination lemmas for modelled parts + exploration of the tool with compile check", "6 C09")

claim("C13", "proof",
      "Coq theorems (Properties/C13.v) over a model of the hand-written front-end scanner (FScan, total): layout (blanks, // and /* */ "
      "comments) inserted at any token boundary leaves the token list (types and literals) unchanged; every spelling of a character literal "
      "decodes to the same code point; a string literal's symbol is the text between its quotes. The model is tied to the scanner by "
      "comparing token streams (type, literal, offset, line, column, error count) on grammar files and byte-level mutations; the real binary "
      "is run on respelled files (layout incl. the end of the file, character-literal spellings, quoting style) and all generated Go files must be byte-identical; an "
      "inventory obligation checks that no generator reads the original bytes of a character literal.",
      "Coq kernel; scanner modelled by hand (tables for unicode.IsLetter etc. generated from the toolchain); layout only at token boundaries.",
      "Rocq proof (simulation between scanner runs) + extracted-model correspondence + metamorphic run of the tool", "6 C13")
claim("C14", "proof",
      "Properties/C14.v over a model of the WHOLE front end: scanner (FScan) ; parser (Parse.parse on the shipped tables: accepted => sentence "
      "of the spec, for all token sequences, by LR/SoundGated.v: the tables shift the keyword error as an ordinary terminal, recovery is gated "
      "off) ; semantic checks (Front/Sem.v, a model of LexProdMap.Add / ast.consistent / UndefinedRegDef / NewSymbols / "
      "UpdateStringLitTokens / the recursion check, in the order main.go runs them). Theorems: the semantic verdict is Ok IFF a declarative "
      "well-formedness predicate holds (no duplicate lexical identifier, every regular definition referred to is defined, no recursion "
      "reachable from a token, every production name used is defined, no reserved name); the definitions the model cuts out of the token "
      "list ARE the definition nodes of the parse tree (heads and bodies) for every grammar passing the boolean side condition cut_ok, which "
      "the kernel evaluates on the spec grammar on every run together with valid_backward / valid_forward / gate on the shipped tables; "
      "accepted => well formed sentence, and conversely. The extracted model's verdict is compared with gocc's exit status in BOTH directions "
      "on unmodified grammars, token-level mutants and 26 kinds of semantic mutants; independently, ill-formedness decided from the real "
      "scanner's token stream (Earley on the spec + the semantic rules in the harness) must imply a non-zero exit.",
      LR_NOTE + " Character-level damage is outside the property's token-level quantifier (see notes/FSCAN_NOTES.md).",
      "Rocq theorems over a model of scanner, shipped parse tables and semantic checks + two-sided correspondence of the extracted model with "
      "the binary's exit status on mutants", "6 C14")

ALL = ["C%02d" % i for i in range(1, 21)]
NOT_YET = "framework under construction: check for this property not built yet (planned, see DESIGN.md section 6)"

def main():
    checks = []
    for pid in ALL:
        if pid in CHECKS:
            c = CHECKS[pid]
            checks.append({
                "property_id": pid,
                "quick_cmd": "./check %s --tier quick" % pid,
                "thorough_cmd": "./check %s --tier thorough" % pid,
                "evidence_file": "evidence/%s.json" % pid,
                "replay_cmd_template": "./check %s --replay {path}" % pid,
                "engine": "coq+correspondence",
                "level_claimed": {"category": c["category"], "text": c["text"], "design_ref": c["design"]},
                "level_note": c["note"],
                "technique": c["technique"],
            })
    na = [{"property_id": p, "reason": NA.get(p, NOT_YET)} for p in ALL if p not in CHECKS]
    m = {
        "version": 1,
        "setup_cmd": "./build.sh",
        "hooks": {
            "guard": "verif",
            "enable": "go build -tags verif ./internal/verifdump  (add-only directory internal/verifdump, every file //go:build verif)",
            "baseline_off_cmd": "cd /repo && GOFLAGS=-mod=mod GOPROXY=off go test -json -vet=off -count=1 -timeout 25m ./...",
            "source_commits": open(os.path.join(ROOT, "hook_commits.txt")).read().split() if os.path.exists(os.path.join(ROOT, "hook_commits.txt")) else [],
            "add_only": True,
        },
        "engines": [{"name": "coq+correspondence", "path": "check",
                     "serves_properties": sorted(CHECKS),
                     "kind_free_text": "Coq 8.16.1 development under coq/ (theorems in coq/theories/Properties), models extracted to OCaml "
                                       "(build/bin/modelrun) and run against gocc / verifdump / generated code built from /repo on every check"}],
        "checks": checks,
        "notes": "See DESIGN.md. known_findings.json lists recorded findings and fixed defects.",
        "not_applicable": na,
    }
    json.dump(m, open(os.path.join(ROOT, "MANIFEST.json"), "w"), indent=1)
    print("MANIFEST.json: %d checks, %d not claimed" % (len(checks), len(na)))

if __name__ == "__main__":
    main()
