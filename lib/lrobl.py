"""R tie for the parser properties: translate what gocc actually computed for a grammar (tables as the
compiled parser sees them + item sets / FIRST sets from verifdump lr) into Gallina literals and have the Coq
kernel evaluate the verified validator on them (vm_compute)."""
import hashlib
import os
import subprocess
from concurrent.futures import ThreadPoolExecutor

import vlib

WORK = os.path.join(vlib.ROOT, "build", "gen")


def coq_list(xs):
    return "[" + "; ".join(xs) + "]"


def model_terms(r):
    """Python-side model objects from the dump and the compiled tables."""
    d = r.dump
    terms, nts = d["terminals"], d["nonterminals"]
    ti = {n: i for i, n in enumerate(terms)}
    ni = {n: i for i, n in enumerate(nts)}
    g = []
    for p in d["prods"]:
        rhs = []
        if p["len"] > 0:
            for s in p["body"]:
                rhs.append(("NT", ni[s]) if s in ni else ("T", ti[s]))
        g.append((ni[p["id"]], rhs))
    items = [[(it["p"], it["k"], ti[it["la"]]) for it in st["items"]] for st in d["states"]]
    nullable = ["empty" in d["first"].get(n, []) for n in nts]
    first = [[ti[a] for a in d["first"].get(n, []) if a != "empty"] for n in nts]
    return g, items, nullable, first


def emit(r, name):
    g, items, nullable, first = model_terms(r)
    return emit_raw(name, g, r.tables, items, nullable, first)


def emit_raw(name, g, t, items, nullable, first):

    def sym(s):
        return "%s %d" % s

    gtxt = coq_list(["{| lhs := %d; rhs := %s |}" % (l, coq_list([sym(s) for s in rhs])) for (l, rhs) in g])

    def act(a):
        if a == 0:
            return "None"
        if a == 1:
            return "Some Accept"
        if a % 2 == 0:
            return "Some (Shift %d)" % ((a - 2) // 2)
        return "Some (Reduce %d)" % ((a - 3) // 2)

    rows = []
    for st in t["states"]:
        rows.append("{| s_actions := %s; s_recover := %s; s_gotos := %s |}" % (
            coq_list([act(a) for a in st["actions"]]), "true" if st["canRecover"] else "false",
            coq_list(["(%d)%%Z" % z for z in st["gotos"]])))
    prods = ["{| p_nt := %d; p_len := %d; p_act := %s |}" % (nt, ln, "true" if (i < len(t["has_act"]) and t["has_act"][i]) else "false")
             for i, (nt, ln) in enumerate(t["prods"])]
    tb = "{| t_states := %s;\n  t_prods := %s;\n  t_err := %d; t_gate := %s |}" % (
        coq_list(rows), coq_list(prods), t["err"], "true" if t.get("gate") else "false")
    an = "{| a_items := %s;\n  a_nullable := %s;\n  a_first := %s |}" % (
        coq_list([coq_list(["(%d,%d,%d)" % it for it in its]) for its in items]),
        coq_list(["true" if b else "false" for b in nullable]),
        coq_list([coq_list([str(a) for a in f]) for f in first]))
    return ("Definition g_%s : grammar := %s.\nDefinition tb_%s : tables := %s.\nDefinition an_%s : annot := %s.\n"
            % (name, gtxt, name, tb, name, an))


def check_batch(batch, checks, tag, timeout=900):
    """batch: list of (name, rec). checks: list of (label, coq boolean expression template with {n}).
    Writes one .v, runs coqc, returns {name: {label: bool}} (all False when coqc fails on the file)."""
    os.makedirs(WORK, exist_ok=True)
    h = hashlib.sha1(("".join(n for n, _ in batch) + tag).encode()).hexdigest()[:10]
    mod = "G_%s_%s" % (tag, h)
    path = os.path.join(WORK, mod + ".v")
    with open(path, "w") as f:
        f.write("From Coq Require Import List ZArith Bool.\nFrom Gocc Require Import LR.Parse LR.Validate LR.Complete LR.Exact%s.\n"
                "Import ListNotations.\n" % "")
        for name, r in batch:
            f.write(r if isinstance(r, str) else emit(r, name))
            for (label, tmpl) in checks:
                expr = tmpl.format(n=name)
                # each obligation is evaluated by the kernel; the result line is printed for the harness
                f.write("Definition r_%s_%s : bool := Eval vm_compute in (%s).\n" % (name, label, expr))
                f.write("Print r_%s_%s.\n" % (name, label))
    p = subprocess.run(["coqc", "-Q", os.path.join(vlib.COQ, "theories"), "Gocc", path], capture_output=True, text=True,
                       timeout=timeout, cwd=WORK)
    res = {name: {label: False for (label, _) in checks} for name, _ in batch}
    if p.returncode == 0:
        import re
        for m in re.finditer(r"r_(\w+?)_([a-z0-9]+) = (true|false)", p.stdout):
            n, label, v = m.group(1), m.group(2), m.group(3)
            if n in res:
                res[n][label] = (v == "true")
    else:
        res["__error__"] = p.stderr[-1500:]
    for ext in (".v", ".vo", ".glob", ".vok", ".vos"):
        try:
            os.remove(os.path.join(WORK, mod + ext))
        except OSError:
            pass
    try:
        os.remove(os.path.join(WORK, "." + mod + ".aux"))
    except OSError:
        pass
    return res


def check_all(recs, checks, tag, per_file=4):
    named = [(r.name, r) for r in recs]
    batches = [named[i:i + per_file] for i in range(0, len(named), per_file)]
    out = {}
    errs = []
    with ThreadPoolExecutor(max_workers=14) as ex:
        for res in ex.map(lambda b: check_batch(b, checks, tag), batches):
            if "__error__" in res:
                errs.append(res.pop("__error__"))
            out.update(res)
    return out, errs


LR_CHECKS = [
    ("vb", "valid_backward g_{n} tb_{n} an_{n}"),
    ("vf", "valid_forward g_{n} tb_{n} an_{n}"),
    ("nes", "no_error_shift tb_{n}"),
    ("sf", "start_fresh g_{n}"),
]
X_CHECK = ("xc", "x_checks g_{n} tb_{n} an_{n}")
