"""C13 — a grammar's meaning does not depend on how it is spelled.

Proof: Properties/C13.v (front-end scanner model: layout inserted at token boundaries leaves the token list unchanged; every spelling of
a character literal decodes to the same code point; a string literal's symbol is the text between its quotes).
Tie K1: verifdump fscan (real scanner) vs extracted FScan.fscan_all on grammar files and byte-level mutations (type, literal, offset,
line, column of every token and the error count).
Tie K2 / oracle on the tool: respelled grammar files (layout at token boundaries, character-literal spellings, string-literal quoting
style) generated into a same-named directory: all generated Go files and the exit status must be byte-identical.
Tie R: no generator reads the original bytes of a character literal (inventory of `.Lit` readers)."""
import collections
import os
import re
import subprocess

import c09
import c10
import c20
import cfggen
import gen
import lexgen
import vlib

LAYOUT = [" ", "\n", "\t", "  \n", "\r\n", "// comment ' \" ` \n", "/* block * / ' */", "/**/", " /* a */ // b\n",
          "/** doc **/", "/***/", "/* x **/", "/****/", "/*/ */", "/* * / ** */", "//\n", "// */ /*\n", "/*\n//\n*/"]


def fscan_go(ctx, srcs):
    return vlib.run_lines([ctx.verifdump, "fscan"], "".join(s.hex() + "\n" for s in srcs), timeout=900)


def fscan_model(ctx, srcs):
    return vlib.run_lines([ctx.modelrun, "fscan"], "".join(s.hex() + "\n" for s in srcs), timeout=1800)


def toks_of(line):
    out = []
    for w in line.split()[:-1]:
        t, lit, off, ln, col = w.split(":")
        out.append((int(t), bytes.fromhex(lit), int(off)))
    return out


def respell_char(lit, rng):
    """another spelling of the same code point, or None"""
    body = lit[1:-1].decode("utf-8", "replace")
    try:
        if body.startswith("\\"):
            k = body[1]
            if k in "abfnrtv\\'":
                c = {"a": 7, "b": 8, "f": 12, "n": 10, "r": 13, "t": 9, "v": 11, "\\": 92, "'": 39}[k]
            elif k == "x":
                c = int(body[2:], 16)
            elif k in "uU":
                c = int(body[2:], 16)
            else:
                c = int(body[1:], 8)
        else:
            if len(body) != 1:
                return None
            c = ord(body)
    except Exception:
        return None
    opts = [l for (kind, l) in c20.spellings(c) if l != lit]
    return rng.choice(opts) if opts else None


def scans_as_interpreted(body):
    """True iff  " + body + "  is ONE interpreted string literal of the front-end scanner whose content is body: no line break, every
    quote escaped, no dangling backslash (the scanner skips the byte after a backslash; gocc does not decode escapes in string literals,
    so the CONTENT of "..." and `...` with the same bytes is the same)"""
    i = 0
    while i < len(body):
        c = body[i:i + 1]
        if c in (b"\n", b'"'):
            return False
        if c == b"\\":
            if i + 1 >= len(body) or body[i + 1:i + 2] == b"\n":
                return False
            # only escapes the scanner accepts silently
            if body[i + 1:i + 2] not in (b'"', b"\\", b"n", b"t", b"r", b"a", b"b", b"f", b"v", b"'"):
                return False
            i += 2
            continue
        i += 1
    return True


def requote(lit):
    body = lit[1:-1]
    if lit[:1] == b'"' and b"`" not in body:
        return b"`" + body + b"`"
    if lit[:1] == b"`" and scans_as_interpreted(body):
        return b'"' + body + b'"'
    return None


EOF_LAYOUT = [b"", b" ", b"\n", b"\r\n", b"\t", b"// closing remark", b"// closing remark\n", b" // x\r\n", b"/* end */", b"/**/\n", b"\n\n\n",
              b"//", b"/* a */ // b"]


def variant(src, toks, rng, mode):
    """rebuild src from its token list with respelling; returns bytes or None when nothing changed"""
    if mode == "eof":
        # layout at the very end of the file (after the last token): trailing blanks dropped or not, a comment with or without line end
        body = src.rstrip(b" \t\r\n") if rng.random() < 0.7 else src
        sep = b"" if rng.random() < 0.3 else rng.choice([b" ", b"\n"])
        v = body + sep + rng.choice(EOF_LAYOUT)
        return v if v != src else None
    out = bytearray()
    pos = 0
    changed = False
    for (t, lit, off) in toks:
        gap = src[pos:off]
        out += gap
        if mode == "layout" and rng.random() < 0.35 and (pos > 0 or off > 0 or True):
            out += rng.choice(LAYOUT).encode()
            changed = True
        new = lit
        if mode == "char" and t == 9 and rng.random() < 0.7:
            r = respell_char(lit, rng)
            if r:
                new, changed = r, True
        if mode == "quote" and t == 21:
            r = requote(lit)
            if r:
                new, changed = r, True
        out += new
        pos = off + len(lit)
    out += src[pos:]
    return bytes(out) if changed else None


def run(ctx):
    ctx.check_property_file()
    thorough = ctx.tier == "thorough"
    rng = ctx.rng
    # ---- R: nobody reads LexCharLit.Lit
    hits = subprocess.run("grep -rn '\\.Lit\\b' --include=*.go internal/ast internal/lexer internal/token main.go | grep -v _test", shell=True,
                          cwd=vlib.REPO, capture_output=True, text=True).stdout.strip().split("\n")
    hits = [h for h in hits if h and not re.search(r"(tok|t|T|Token\)|attr|ErrorToken)\.Lit", h)]
    allowed = [h for h in hits if "lexcharlit.go" in h and ("cl.Lit =" in h or "c.Lit =" in h)]
    ctx.add_obligation("R: the original bytes of a character literal (LexCharLit.Lit) are written but never read by a generator",
                       sorted(hits) == sorted(allowed), "; ".join(h for h in hits if h not in allowed)[:300])
    # ---- base grammars
    bases = []
    for i in range(30 if not thorough else 300):
        k = i % 3
        if k == 0:
            g, alpha = lexgen.gen_lex_grammar(rng)
            bases.append(g.text(rng).encode("utf-8"))
        elif k == 1:
            bases.append(c09.hostile_grammar(rng, idx=len(c09.HOSTILE_LITS) - 1 - i // 3).encode("utf-8"))
        else:
            g = cfggen.gen_cfg(rng, with_error=(rng.random() < 0.3))
            bases.append((cfggen.lex_part(g) + "\n" + c10.syntax_text(g)).encode("utf-8"))
    for f in ("example/calc/calc.bnf", "example/astx/ast.bnf", "spec/gocc2.ebnf", "example/errorrecovery/er.bnf"):
        p = os.path.join(vlib.REPO, f)
        if os.path.exists(p):
            bases.append(open(p, "rb").read())
    # ---- K1: scanner correspondence
    srcs = list(bases)
    for b in bases:
        for _ in range(20 if not thorough else 60):
            srcs.append(c09.mutate_bytes(b, rng))
    pre = fscan_go(ctx, bases)
    for b, l in zip(bases, pre):
        for _ in range(3):
            v = variant(b, toks_of(l), rng, "layout")
            if v:
                srcs.append(v)
        for _ in range(3):
            v = variant(b, toks_of(l), rng, "eof")
            if v:
                srcs.append(v)
    go = fscan_go(ctx, srcs)
    mo = fscan_model(ctx, srcs)
    reported = 0
    disagreements = 0
    errhist = collections.Counter()
    for s, g, m in zip(srcs, go, mo):
        errhist["errors>0" if not g.endswith("E0") else "clean"] += 1
        if g != m:
            disagreements += 1
            if reported < 3:
                ctx.violation({"kind": "correspondence-broken", "correspondence": "frontend/scanner.Scan vs Front/FScan.fscan_all",
                               "source": repr(s[:400]), "go": g[:400], "model": m[:400]}, found_input=False)
                reported += 1
    # ---- K2: respelling must not change the generated packages
    ws = gen.Workspace(ctx)
    total = 0
    distinct = set()
    modehist = collections.Counter()
    samples = []
    for bi, b in enumerate(bases):
        rc0, out0, d0 = ws.gocc("b%d/o" % bi, b, flags=["-a", "-p", "x/o"])
        base_files = c09_files(d0)
        toks = toks_of(go[bi])
        for vi, mode in enumerate(["layout", "layout", "char", "quote", "eof", "eof"]):
            v = variant(b, toks, rng, mode)
            if v is None:
                continue
            total += 1
            modehist[mode] += 1
            rc1, out1, d1 = ws.gocc("b%d_v%d/o" % (bi, vi), v, flags=["-a", "-p", "x/o"])
            files = c09_files(d1)
            if rc0 == 0:
                distinct.add((bi, vi))
            if (rc0 != rc1 or files != base_files) and reported < 3:
                diff = [k for k in set(files) | set(base_files) if files.get(k) != base_files.get(k)]
                ctx.violation({"kind": "property-oracle-on-implementation", "respelling": mode, "original": b.decode("utf-8", "replace"),
                               "respelled": v.decode("utf-8", "replace"), "exit_original": rc0, "exit_respelled": rc1,
                               "differing_files": diff[:6], "output_respelled": out1[-300:]})
                reported += 1
            if len(samples) < 3 and mode != "layout":
                samples.append({"mode": mode, "original": b.decode("utf-8", "replace")[:300], "respelled": v.decode("utf-8", "replace")[:300]})
    for o in ctx.failed_obligations():
        if reported < 6:
            ctx.violation({"kind": "proof-obligation-broken", "obligation": o}, found_input=False)
            reported += 1
    ctx.write_evidence("proof", {
        "evaluations": len(srcs) + total, "distinct_nontrivial": len(distinct),
        "rule": "grammar files: random lexical grammars with varied literal spellings, hostile-spelling grammars, CFGs with lexical part, and "
                "shipped .bnf files; scanner correspondence on these and on 20 byte-level mutations each; respellings: layout (blanks, CR LF, "
                "// and /* */ comments) inserted before random tokens, character literals respelled (raw, \\x, octal, \\u, \\U, named), string "
                "literals requoted; non-trivial = respelled variants of grammars gocc accepts; distinct by (grammar, variant)",
        "samples": samples, "programs": len(bases), "scanner_cases": len(srcs), "scanner_error_histogram": dict(errhist),
        "respelling_histogram": dict(modehist), "traces_validated_against_impl": len(srcs), "disagreements": disagreements,
    }, ["unicode.IsLetter/IsDigit/IsUpper are tables generated from the Go toolchain (Front/FUnicode.v), opaque in the proofs",
        "layout is inserted only at token boundaries; splits inside tokens, literals, actions and comments are outside the property",
        "grammar files are valid UTF-8"])


def c09_files(d):
    out = {}
    for dp, _, fs in os.walk(d):
        for f in fs:
            if f.endswith(".go"):
                out[os.path.relpath(os.path.join(dp, f), d)] = open(os.path.join(dp, f), "rb").read()
    return out
