"""C05 — automatic conflict resolution prefers shift, then the earliest production.

Proof: Properties/C05.v (fold over candidate actions: winner, conflict set, order independence, refusal).
Tie R: for every state and terminal of every conflicting grammar of the run, the cell of the COMPILED action table equals
       row_action(candidates) where the candidates are re-derived from gocc's dumped item sets, and the dumped conflict set equals
       the model's (as a set).
Tie K: GenAuto.gen_run_auto (verified Gallina generator, mode -a) vs gocc -a: item sets, numbering, count, refusal, compiled resolved tables.
Tie K: with -a, compiled parser vs Parse model on those tables (verdict and full reduction sequence: every alternative logs).
Oracle: the rule itself (shift, else least production) evaluated in the harness on the candidates vs the compiled cell."""
import collections

import c02
import cfggen
import lrcommon
import vlib


def code(a):
    if a == "nil":
        return 0
    if a == "accept":
        return 1
    k, n = a.split()
    return 2 + 2 * int(n) if k == "shift" else 3 + 2 * int(n)


def candidates(d, s, a):
    """candidate action codes of state s on terminal name a, in item order (item.action of gocc)"""
    st = d["states"][s]
    out = []
    for it in st["items"]:
        p = d["prods"][it["p"]]
        ln, k, la = p["len"], it["k"], it["la"]
        if a == "INVALID":
            out.append(0)
        elif it["p"] == 0 and k >= ln and la == "␚" and a == "␚":
            out.append(1)
        elif (ln == 0 or k >= ln) and la == a:
            out.append(3 + 2 * it["p"])
        elif k < ln and p["body"][k] == a:
            out.append(2 + 2 * st["trans"][a])
        else:
            out.append(0)
    return out


def rule(cands):
    cs = [c for c in cands if c != 0]
    if not cs:
        return 0
    sh = [c for c in cs if c >= 2 and c % 2 == 0]
    if sh:
        return sh[0]
    rd = [c for c in cs if c >= 3 and c % 2 == 1]
    if rd:
        return min(rd)
    return 1


def all_actions(g):
    return cfggen.CFG(g.nts, g.terms, [(l, b, k, ("N" if k != "empty" else None)) for (l, b, k, a) in g.prods])


def run(ctx):
    ctx.check_property_file()
    thorough = ctx.tier == "thorough"
    cands_g = [all_actions(cfggen.family(i)) for i in (3, 4, 5, 13)]
    cands_g += [all_actions(cfggen.gen_cfg(ctx.rng, max_nt=ctx.rng.choice([1, 2, 3, 4]))) for _ in range(90 if not thorough else 900)]
    cands_g = [g for g in cands_g if not g.has_error()]
    recs, stats, ws = lrcommon.prepare_parsers(ctx, cands_g, flags=["-a"])
    refused = [r for r in recs if r.dump.get("states") and r.dump.get("panic")][:10]
    recs = [r for r in recs if r.bin and r.dump.get("numConflicts", 0) > 0][: (30 if not thorough else 300)]
    # K: the Gallina model of the generator in mode -a (GenAuto.gen_run_auto; Properties/C05.v: every cell it writes is the winner of
    # row_action, for EVERY grammar) against gocc -a: item sets, numbering, announced count, refusal, and the RESOLVED tables read back
    # from the compiled parser
    gen_bad = []
    for r in recs + refused:
        gc = lrcommon.gen_compare(ctx, r, auto=True)
        if gc:
            gen_bad.append((r, gc))
    ctx.add_obligation("K: GenAuto.gen_run_auto (verified generator model, mode -a) = gocc -a on %d conflicting and %d refused grammars "
                       "(item sets, numbering, conflict count, refusal, resolved action/goto tables as compiled)" % (len(recs), len(refused)),
                       not gen_bad, "; ".join(x for (_, x) in gen_bad[:3]))
    cells = 0
    conflict_cells = 0
    multi = 0
    reported = 0
    for (r, gc) in gen_bad[:2]:
        ctx.violation({"kind": "correspondence-broken", "correspondence": "GenAuto.gen_run_auto (Gallina generator, mode -a) vs gocc -a",
                       "grammar": r.text, "difference": gc}, found_input=False)
        reported += 1
    lines = []
    index = []
    for r in recs:
        d = r.dump
        for s in range(len(d["states"])):
            for ti, a in enumerate(d["terminals"]):
                cs = candidates(d, s, a)
                lines.append(" ".join(map(str, cs)))
                index.append((r, s, ti, a, cs))
    mo = vlib.run_lines([ctx.modelrun, "resolve"], "".join(l + "\n" for l in lines)) if lines else []
    bad_cells = []
    for (r, s, ti, a, cs), m in zip(index, mo):
        cells += 1
        compiled = r.tables["states"][s]["actions"][ti]
        dumped_conf = sorted(code(x) for x in r.dump["states"][s]["conflicts"].get(a, []))
        distinct = sorted(set(c for c in cs if c))
        if len(distinct) >= 2:
            conflict_cells += 1
        if len(distinct) >= 3:
            multi += 1
        if m == "PANIC":
            bad_cells.append((r, s, a, cs, compiled, "model refuses (Accept conflict) but gocc produced a table"))
            continue
        w, _, cf = m.partition("|")
        w = int(w)
        cf = sorted(int(x) for x in cf.split() if x != "ZIPBAD")
        if rule(cs) != compiled:
            bad_cells.append((r, s, a, cs, compiled, "cell is not 'shift if present else least production' (rule gives %d)" % rule(cs)))
        elif w != compiled or cf != dumped_conf or "ZIPBAD" in m:
            bad_cells.append((r, s, a, cs, compiled, "model row_action gives %s, gocc's cell %d conflicts %s" % (m, compiled, dumped_conf)))
    for (r, s, a, cs, compiled, why) in bad_cells[:3]:
        is_prop = why.startswith("cell is not")
        ctx.violation({"kind": "property-oracle-on-implementation" if is_prop else "correspondence-broken", "grammar": r.text, "state": s,
                       "terminal": a, "candidates(codes: 1 accept, 2+2k shift k, 3+2k reduce k)": cs, "compiled_cell": compiled, "reason": why},
                      found_input=is_prop)
        reported += 1
    ctx.add_obligation("R: every compiled action cell = row_action(candidates from the dumped items) for %d cells of %d grammars" % (cells, len(recs)),
                       not bad_cells, str(len(bad_cells)) + " cells differ")
    total = 0
    disagreements = 0
    distinct_in = set()
    hist = collections.Counter()
    samples = []
    for r in recs:
        inputs = c02.gen_inputs(r.g, ctx.rng, 100 if not thorough else 250)
        cases = [lrcommon.encode_case(r, [(s, None, False)]) for s in inputs]
        go = [c02.norm(x) for x in lrcommon.run_impl(r, cases)]
        mo2 = [c02.norm(x) for x in lrcommon.run_model(ctx, r, cases, fuel=3000)]
        for s, gl, ml in zip(inputs, go, mo2):
            total += 1
            hist[gl.split(" ")[0]] += 1
            if len(s) >= 3:
                distinct_in.add((r.name, tuple(s)))
            if gl != ml:
                disagreements += 1
                if reported < 3:
                    ctx.violation({"kind": "correspondence-broken", "correspondence": "compiled -a parser vs Parse model on the resolved tables "
                                   "(verdict + reduction sequence)", "grammar": r.text, "tokens": s, "go": gl, "model": ml}, found_input=False)
                    reported += 1
        if len(samples) < 3:
            samples.append({"grammar": r.text, "gocc": r.gocc_out.split("\n")[0], "tokens": inputs[0], "parser": go[0][:200]})
    for o in ctx.failed_obligations():
        if reported < 6 and not o["name"].startswith(("R: every compiled", "K: GenAuto")):
            ctx.violation({"kind": "proof-obligation-broken", "obligation": o}, found_input=False)
            reported += 1
    ctx.write_evidence("proof", {
        "evaluations": total + cells, "distinct_nontrivial": len(distinct_in) + conflict_cells,
        "rule": "random CFGs and seeded conflicting families (dangling else, reduce/reduce, ambiguous expressions), every alternative with a "
                "logging action, processed with -a; kept when gocc reports >= 1 conflict; every (state, terminal) cell checked; token sequences as "
                "in C02; non-trivial = cells with >= 2 distinct candidates, sequences with >= 3 tokens",
        "samples": samples, "programs": len(recs), "cells": cells, "cells_with_competition": conflict_cells,
        "cells_with_3_or_more_competitors": multi, "outcome_histogram": dict(hist),
        "traces_validated_against_impl": total, "disagreements": disagreements,
        "gocc_stats": {k: v for k, v in stats.items() if k != "build_log"},
    }, ["candidates are re-derived in the harness from the dumped item sets following Item.action; the fold is the verified row_action "
        "(extracted)", "parsers resolved with -a may not terminate on some inputs (e.g. S : S S | empty): a hang of the implementation is "
        "matched with fuel exhaustion of the model"])
