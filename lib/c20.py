"""C20 — literal conversion helpers agree with Go's own literal semantics.

Proof: Properties/C20.v (decoder model = Go rune-literal semantics on every valid literal; every spelling decodes).
Tie R: the two Go copies of the decoder (internal/util/litconv.go and the template in internal/util/gen/golang/litconv.go) are
       compared textually; IntValue/UintValue bodies must be the single strconv calls.
Tie K: gocc end to end: grammars with every spelling of boundary/random code points and ranges -> accepted, emitted transitions on exactly
       that code point.
Tie K: model lit_to_rune vs util.LitToRune (verifdump litconv) vs the GENERATED util.RuneValue (compiled) on every spelling of
       code points (exhaustive in the thorough tier) and on malformed literals; model golit_value vs strconv.Unquote (Go's own
       reading); decimal literals around power-of-two boundaries vs strconv."""
import collections
import os
import re
import subprocess

import gen
import vlib

NAMED = {7: "a", 8: "b", 12: "f", 10: "n", 13: "r", 9: "t", 11: "v", 92: "\\", 39: "'"}


def spellings(c):
    out = []
    surrogate = 0xD800 <= c <= 0xDFFF
    if not surrogate and c not in (39, 92, 10):
        out.append(("raw", b"'" + chr(c).encode("utf-8") + b"'"))
    if c < 256:
        out.append(("hex", ("'\\x%02x'" % c).encode()))
        out.append(("oct", ("'\\%03o'" % c).encode()))
    if c < 0x10000 and not surrogate:
        out.append(("u", ("'\\u%04x'" % c).encode()))
        out.append(("uU", ("'\\u%04X'" % c).encode()))
    if not surrogate:
        out.append(("U", ("'\\U%08x'" % c).encode()))
    if c in NAMED:
        out.append(("named", ("'\\%s'" % NAMED[c]).encode()))
    return out


def malformed(rng, n):
    pool = [b"'\\x4'", b"'\\x'", b"'\\u41'", b"'\\7'", b"'\\nabc'", b"'''", b"'\\\"'", b"'\\400'", b"'\\xg0'", b"'\\ud800'",
            b"'\\U00110000'", b"''", b"'ab'", b"'\\'", b"'\xff'", b"'\xc3'", b"'\n'", b"'\\UFFFFFFFF'", b"'\\x0g'", b"'\\008'"]
    out = list(pool)
    alpha = b"'\\xuU0123456789abcdefABCDEFgn\"\xc3\xa9\xff \n"
    for _ in range(n):
        k = rng.randint(1, 10)
        body = bytes(rng.choice(alpha) for _ in range(k))
        out.append(b"'" + body + b"'" if rng.random() < 0.8 else body + b"''")
    return [("malformed", x) for x in out if len(x) >= 3]


def source_obligations(ctx):
    a = open(os.path.join(vlib.REPO, "internal/util/litconv.go")).read()
    b = open(os.path.join(vlib.REPO, "internal/util/gen/golang/litconv.go")).read()
    m = re.search(r"const\s+\w+\s*=\s*`(.*)`", b, flags=re.S)
    tmpl = m.group(1) if m else ""

    def norm(s):
        s = re.sub(r"//[^\n]*", "", s)
        s = re.sub(r"/\*.*?\*/", "", s, flags=re.S)
        s = s.replace("RuneValue", "LitToRune")
        i = s.find("func LitToRune")
        return re.sub(r"\s+", " ", s[i:]).strip()
    same = norm(a) == norm(tmpl) and "func LitToRune" in a
    ctx.add_obligation("R: generated util.RuneValue template is textually the decoder of internal/util/litconv.go (modulo name/comments)",
                       same, "the two copies differ")
    iv = re.search(r"func IntValue\(lit \[\]byte\) \(int64, error\) \{\s*return strconv\.ParseInt\(string\(lit\), 10, 64\)\s*\}", tmpl)
    uv = re.search(r"func UintValue\(lit \[\]byte\) \(uint64, error\) \{\s*return strconv\.ParseUint\(string\(lit\), 10, 64\)\s*\}", tmpl)
    ctx.add_obligation("R: generated IntValue/UintValue are single strconv.ParseInt/ParseUint(…, 10, 64) calls", bool(iv and uv), "bodies changed")


def end_to_end(ctx, ws, thorough):
    """gocc itself reads a literal in a GRAMMAR as Go's code point: grammars  tK : <prefix letter> <literal> ;  (and ranges), every
    spelling of boundary and random code points; gocc must accept them and the emitted transition table must branch on exactly
    that code point (range) after the prefix letter. Returns (cases, [problem dicts])."""
    from concurrent.futures import ThreadPoolExecutor
    rng = ctx.rng
    cps = [1, 0x09, 0x0A, 0x0D, 0x20, 0x27, 0x5C, 0x7E, 0x7F, 0x80, 0xA0, 0xFF, 0x100, 0x7FF, 0x800, 0xD7FF, 0xE000, 0xFEFF, 0xFFF0, 0xFFFD, 0xFFFE,
           0xFFFF, 0x10000, 0x1F600, 0x10FFFE, 0x10FFFF, 0]
    cps += [rng.randrange(0x110000) for _ in range(60 if not thorough else 1500)]
    cps = [c for c in cps if not (0xD800 <= c <= 0xDFFF)]
    items = []   # (kind, literal text bytes, lo, hi)
    for c in cps:
        for (k, l) in spellings(c):
            if k == "raw" and c in (0, 0xFEFF, 0x0D):
                continue
            items.append((k, l, c, c))
    for _ in range(40 if not thorough else 600):
        a, b = sorted([rng.choice(cps), rng.choice(cps)])
        (ka, la), (kb, lb) = rng.choice(spellings(a)), rng.choice(spellings(b))
        if (ka == "raw" and a in (0, 0xFEFF, 0x0D)) or (kb == "raw" and b in (0, 0xFEFF, 0x0D)):
            continue
        items.append(("range:%s-%s" % (ka, kb), la + b"-" + lb, a, b))
    letters = "bcdefghijklmnopqrstuvwxyz"
    groups = [items[i:i + len(letters)] for i in range(0, len(items), len(letters))]
    problems = []

    def one(gi):
        grp = groups[gi]
        text = b"".join(b"t%c : '%c' %s ;\n" % (ord(letters[i]), ord(letters[i]), l) for i, (k, l, lo, hi) in enumerate(grp))
        rc, out, d = ws.gocc("e2e%d" % gi, text, timeout=60)
        if rc != 0:
            return [{"grammar": text.decode("utf-8", "replace"), "reason": "gocc refuses a grammar whose character literals are all valid Go rune "
                     "literals (exit %s)" % rc, "gocc_output": out[-300:]}]
        rows = gen.parse_transtab(os.path.join(d, "lexer", "transitiontable.go"))
        bad = []
        for i, (k, l, lo, hi) in enumerate(grp):
            nxt = [nx for (a, b, nx) in rows[0]["cases"] if a <= ord(letters[i]) <= b]
            if len(nxt) != 1 or nxt[0] < 0:
                bad.append({"grammar": text.decode("utf-8", "replace"), "reason": "no transition on the prefix letter %r" % letters[i]})
                continue
            cases = [(a, b) for (a, b, nx) in rows[nxt[0]]["cases"] if nx >= 0]
            if cases != [(lo, hi)] or rows[nxt[0]]["default"] != -1:
                bad.append({"grammar": ("t%s : '%s' " % (letters[i], letters[i])).encode().decode() + l.decode("utf-8", "replace") + " ;",
                            "literal_hex": l.hex(), "reason": "Go assigns %s to the literal(s); the generated lexer branches on %s after the "
                            "prefix letter" % ((lo, hi) if lo != hi else lo, cases)})
        return bad

    with ThreadPoolExecutor(max_workers=12) as ex:
        for bad in ex.map(one, range(len(groups))):
            problems += bad
    return len(items), problems


def run(ctx):
    ctx.check_property_file()
    source_obligations(ctx)
    thorough = ctx.tier == "thorough"
    rng = ctx.rng
    if thorough:
        cps = range(0, 0x110000)
    else:
        cps = set(range(0, 0x900)) | set(range(0xD7F0, 0xE010)) | set(range(0xFFF0, 0x10010)) | set(range(0x10FFF0, 0x110000))
        cps |= set(rng.randrange(0x110000) for _ in range(40000))
        cps = sorted(cps)
    cases = []
    for c in cps:
        for (k, l) in spellings(c):
            cases.append((k, l, c))
    mal = malformed(rng, 20000 if not thorough else 300000)
    cases += [(k, l, None) for (k, l) in mal]
    # generated util package
    ws = gen.Workspace(ctx)
    rc, out, d = ws.gocc("u", "t : 'a' ;\n")
    ws.add_driver("u", "utildrv.go.tmpl")
    bins, log = ws.build()
    ub = bins.get(("u", "cmd"))
    ctx.add_obligation("generated util package compiles with the driver", ub is not None, log[-300:])
    n_e2e, e2e_bad = end_to_end(ctx, ws, thorough)
    ctx.add_obligation("K: gocc reads %d character literals / ranges of generated GRAMMARS (every spelling) as Go's code points: accepted, and "
                       "the emitted transition table branches on exactly that code point" % n_e2e, not e2e_bad, str(e2e_bad[:2])[:600])
    text = "".join(l.hex() + "\n" for (_, l, _) in cases)
    go = vlib.run_lines([ctx.verifdump, "litconv"], text, timeout=1800)
    mo = vlib.run_lines([ctx.modelrun, "litconv"], text, timeout=3600)
    gen_out = vlib.run_lines([ub], "".join("R " + l.hex() + "\n" for (_, l, _) in cases), timeout=1800) if ub else []
    hist = collections.Counter()
    reported = 0
    disagreements = 0
    for b in e2e_bad[:2]:
        ctx.violation(dict(b, kind="property-oracle-on-implementation"))
        reported += 1
    for i, (k, l, c) in enumerate(cases):
        g_val, g_go = go[i].split(" ")
        m_val, m_go = mo[i].split(" ")
        hist[k] += 1
        why = None
        if c is not None:
            # the property itself, on the implementation: valid literal -> Go's code point, by gocc and by the generated helper
            if g_go != str(c):
                why = "harness spelling is not a valid literal for Go (%s)" % g_go   # generator bug guard
            elif g_val != str(c):
                why = "util.LitToRune returns %s for %r, Go assigns %d" % (g_val, l, c)
            elif ub and gen_out[i] != str(c):
                why = "generated util.RuneValue returns %s for %r, Go assigns %d" % (gen_out[i], l, c)
        elif g_go != "INVALID" and g_val != g_go:
            why = "valid literal %r: LitToRune %s, Go %s" % (l, g_val, g_go)
        if why and reported < 3:
            ctx.violation({"kind": "property-oracle-on-implementation", "literal_hex": l.hex(), "literal": repr(l), "reason": why})
            reported += 1
        elif g_val != m_val or (ub and gen_out[i] != m_val):
            disagreements += 1
            if reported < 3:
                ctx.violation({"kind": "correspondence-broken", "correspondence": "util.LitToRune / generated RuneValue vs LitConv.lit_to_rune",
                               "literal_hex": l.hex(), "literal": repr(l), "LitToRune": g_val,
                               "RuneValue": gen_out[i] if ub else None, "model": m_val}, found_input=False)
                reported += 1
        elif m_go != g_go and not (l in (b"'\x00'", b"'\xef\xbb\xbf'")):
            # GoLit.golit_value vs strconv.Unquote: the specification side of the theorem
            disagreements += 1
            if reported < 3:
                ctx.violation({"kind": "correspondence-broken", "correspondence": "GoLit.golit_value (spec used in theorem C20) vs strconv.Unquote",
                               "literal_hex": l.hex(), "literal": repr(l), "go": g_go, "spec_model": m_go}, found_input=False)
                reported += 1
    # decimal literals
    decs = []
    for p in list(range(0, 66)):
        for dlt in (-2, -1, 0, 1, 2):
            decs.append(str(2 ** p + dlt))
            decs.append(str(-(2 ** p) + dlt))
    decs += ["", "+1", "-0", "00012", "1_000", "0x10", " 1", "1 ", "9223372036854775808", "18446744073709551616", "-9223372036854775809"]
    decs += [str(rng.randrange(-2 ** 70, 2 ** 70)) for _ in range(5000 if not thorough else 50000)]
    if ub:
        res = vlib.run_lines([ub], "".join("I %s\nU %s\n" % (x, x) for x in decs))
        bad = [(decs[i // 2], r) for i, r in enumerate(res) if r != "SAME"]
        ctx.add_obligation("K: generated IntValue/UintValue = strconv.ParseInt/ParseUint on %d decimal literals" % len(decs), not bad, str(bad[:3]))
    for o in ctx.failed_obligations():
        if reported < 6 and not o["name"].startswith("K: gocc reads"):
            ctx.violation({"kind": "proof-obligation-broken", "obligation": o}, found_input=False)
            reported += 1
    nvalid = sum(1 for (_, _, c) in cases if c is not None)
    ctx.write_evidence("proof", {
        "evaluations": len(cases), "distinct_nontrivial": nvalid,
        "rule": ("every code point 0..0x10FFFF" if thorough else "all code points < 0x900, surrogate/BMP/plane-16 boundaries and 40000 random code points")
                + " in every applicable spelling (raw UTF-8, \\x, octal, \\u lower/upper hex, \\U, named) plus a malformed stream "
                  "(too few digits, bad digits, surrogates, out of range, wrong quotes, ill-formed UTF-8); non-trivial = the valid literals; "
                  "all cases distinct",
        "samples": [repr(cases[i][1]) for i in (0, len(cases) // 3, len(cases) // 2, nvalid - 1, len(cases) - 1)],
        "exhaustive": bool(thorough), "spelling_histogram": dict(hist), "decimal_literals": len(decs), "grammar_level_literals": n_e2e,
        "traces_validated_against_impl": len(cases), "disagreements": disagreements,
    }, ["strconv (Unquote, ParseInt, ParseUint) is Go's own semantics and is trusted as the reference",
        "GoLit.golit_value is our reading of the Go specification; it is compared with strconv.Unquote on every case (two implementation "
        "restrictions of the Go compiler, raw NUL and raw U+FEFF, are outside the language specification and excluded)",
        "invalid literals are outside the property (the decoder accepts some of them, e.g. '\\x4' -> 4: logged, not a violation)"])
