#!/bin/sh
# Builds the Coq development (full .vo build), extracts the executable models and
# compiles the OCaml model runner.  Offline; everything from files on disk.
set -e
cd "$(dirname "$0")"
mkdir -p build/ocaml build/bin
( cd coq && [ -f Makefile ] || coq_makefile -f _CoqProject -o Makefile >/dev/null
  coq_makefile -f _CoqProject -o Makefile >/dev/null
  timeout 3000 make -j16 >../build/coq_make.log 2>&1 || { tail -30 ../build/coq_make.log; echo "COQ BUILD FAILED"; exit 1; } )
if [ ! -f build/ocaml/model.ml ] || [ -n "$(find coq/theories coq/extract -name '*.v' -newer build/ocaml/model.ml 2>/dev/null)" ] \
   || [ harness/main.ml -nt build/bin/modelrun ] || [ ! -x build/bin/modelrun ]; then
  ( cd build/ocaml && timeout 600 coqc -Q ../../coq/theories Gocc ../../coq/extract/Extract.v >extract.log 2>&1 \
      || { cat extract.log; echo "EXTRACTION FAILED"; exit 1; }
    cp ../../harness/main.ml main.ml
    ocamlfind ocamlopt -O2 -w -a -package str model.mli model.ml main.ml -o ../bin/modelrun 2>/dev/null \
      || ocamlfind ocamlopt -w -a model.mli model.ml main.ml -o ../bin/modelrun )
fi
if [ ! -x build/bin/maprange ] || [ harness/maprange/main.go -nt build/bin/maprange ]; then ( cd harness/maprange && GOFLAGS=-mod=mod GOPROXY=off GOTOOLCHAIN=auto go build -o ../../build/bin/maprange . ) || { echo "MAPRANGE BUILD FAILED"; exit 1; }; fi
echo "build ok"
