(** Extraction of the executable models for the correspondence checks.
    Only [ExtrOcamlBasic] is used: bool, option, unit, list, prod, sumbool map to
    OCaml natives; [nat], [positive], [N], [Z] stay extracted inductives. *)
Require Extraction.
Require Import ExtrOcamlBasic.
From Gocc Require Import Base.Ranges Base.Utf8 Lex.Scan Lex.Pattern Lex.Deriv Lex.Bisim Lex.LexGen LR.Gen LR.GenAuto LR.Parse LR.ObjParse LR.Resolve LR.ZipTab Front.LitConv Front.GoLit Front.Md Front.TokMap Front.FUnicode Front.FScan Front.PermRun Front.Sdt Front.Sem Front.SemRange Front.SynAst Front.LexAst.
Extraction "model.ml" add_range classes add_range_cases sorted_disjoint_from
  decode_rune encode_rune
  Scan.scan Scan.scan_n Scan.init Scan.reset Scan.table_dfa
  Bisim.bisim_check Bisim.bisim_diag Deriv.dscan_n Deriv.dinit
  LexGen.lexgen LexGen.lex_wf
  Gen.gen_run GenAuto.gen_run_auto GenAuto.gocc_exit
  Parse.parse Parse.sem_node
  ObjParse.k_parse ObjParse.k_new ObjParse.go_grow_s ObjParse.go_grow_a
  Resolve.row_action ZipTab.encode_row ZipTab.decode_row
  TokMap.terminals_z FScan.fscan_all PermRun.first_sets_z Sdt.sdt_val
  Sem.sem_verdict Sem.parse_ok Sem.front_accepts SemRange.ranges_ok SemRange.front_accepts_r
  SynAst.gen_input_of_source SynAst.gen_input_of_tokens
  LexAst.lexgrammar_of_source LexAst.lexgrammar_of_tokens LexAst.parse_pattern LexAst.shipped_ltypes Sem.shipped_ftypes
  LitConv.lit_to_rune GoLit.golit_value GoLit.spell Md.load_md.
