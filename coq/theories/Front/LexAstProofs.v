(** Proofs about Front/LexAst.v.

    (i)  FUEL.  [LexAst.parse_tokens] is STRUCTURALLY recursive on the token list (one pass, explicit stack of open brackets):
         there is no fuel, hence nothing to exhaust; Coq's termination check of the Fixpoint is the whole argument.
    (ii) ROUND TRIP.  [print_pattern regs p] spells a pattern as classified tokens (class + literal bytes; groups with their
         brackets, alternatives separated by "|", character literals in the \U spelling of GoLit.spell, a reference as the
         NAME of the regular definition).  For every pattern that satisfies the boolean predicate [wf_pattern regs]
              - the pattern and every group body have at least one alternative, every alternative at least one term
                (LexPattern = LexAlt {"|" LexAlt}, LexAlt = LexTerm+),
              - character values are Unicode scalar values (what a literal can denote), ranges have lo <= hi
                (ast.NewLexCharRange refuses the others),
              - a reference [Ref n] points into [regs] and [n] is the FIRST position of that name,
         [parse_classes regs (print_pattern regs p) = Some p]   (Theorem [parse_print]); and the same through real front-end
         tokens with the shipped type numbers ([parse_pattern_print]).
    Every theorem is followed by Print Assumptions. *)
From Coq Require Import List ZArith Bool Lia.
From Gocc Require Import Base.Utf8 Lex.Pattern Front.LitConv Front.GoLit Front.LitConvProofs Front.FScan Front.Sem Front.LexAst.
Import ListNotations.
Local Open Scope Z_scope.

(** * The printer *)
Definition chr_lit (c : Z) : list Z := match spell BigU c with Some l => l | None => [] end.

Definition t_bar : ltok := (CBar, [124]).
Definition t_open (k : bkind) : ltok := (COpen k, [match k with BOpt => 91 | BRep => 123 | BGrp => 40 end]).
Definition t_close (k : bkind) : ltok := (CClose k, [match k with BOpt => 93 | BRep => 125 | BGrp => 41 end]).

Definition print_alts (pa : list term -> list ltok) (p : list (list term)) : list ltok :=
  match p with
  | [] => []
  | a :: r => pa a ++ flat_map (fun b => t_bar :: pa b) r
  end.

Section Printer.
Variable regs : list name.

Fixpoint print_term (t : term) : list ltok :=
  match t with
  | Chr c => [(CChar, chr_lit c)]
  | Rng lo hi => [(CChar, chr_lit lo); (CMinus, [45]); (CChar, chr_lit hi)]
  | Dot => [(CDot, [46])]
  | Ref n => [(CRef, nth n regs [])]
  | Opt p => t_open BOpt :: print_alts (flat_map print_term) p ++ [t_close BOpt]
  | Rep p => t_open BRep :: print_alts (flat_map print_term) p ++ [t_close BRep]
  | Grp p => t_open BGrp :: print_alts (flat_map print_term) p ++ [t_close BGrp]
  end.

Definition print_alt (a : Pattern.alt) : list ltok := flat_map print_term a.
Definition print_pattern (p : pattern) : list ltok := print_alts print_alt p.

(** * Well-formedness *)
Definition nonempty {A} (l : list A) : bool := match l with [] => false | _ :: _ => true end.

Definition ref_ok (n : nat) : bool :=
  match nth_error regs n with
  | Some nm => match index_of nm regs with Some m => Nat.eqb m n | None => false end
  | None => false
  end.

Fixpoint wf_term (t : term) : bool :=
  match t with
  | Chr c => is_scalar c
  | Rng lo hi => is_scalar lo && is_scalar hi && (lo <=? hi)
  | Dot => true
  | Ref n => ref_ok n
  | Opt p | Rep p | Grp p => nonempty p && forallb (fun a => nonempty a && forallb wf_term a) p
  end.

Definition wf_alt (a : Pattern.alt) : bool := nonempty a && forallb wf_term a.
Definition wf_pattern (p : pattern) : bool := nonempty p && forallb wf_alt p.

(** * One step of the parser per token class *)
Lemma chr_lit_ok c : is_scalar c = true -> lit_to_rune (chr_lit c) = Some c.
Proof.
  intros H. unfold chr_lit. destruct (spell BigU c) as [l|] eqn:E.
  - apply lit_to_rune_agrees. eapply spell_denotes; eauto.
  - exfalso. exact (spell_BigU_defined c H E).
Qed.

Lemma step_dot stk alts cur l r :
  parse_tokens regs stk alts cur ((CDot, l) :: r) = parse_tokens regs stk alts (Dot :: cur) r.
Proof. reflexivity. Qed.

Lemma step_chr stk alts cur l v r : lit_to_rune l = Some v ->
  parse_tokens regs stk alts cur ((CChar, l) :: r) = parse_tokens regs stk alts (Chr v :: cur) r.
Proof. intros H. cbn [parse_tokens]. rewrite H. reflexivity. Qed.

Lemma step_rng stk alts cur lo hi m l r : lit_to_rune l = Some hi -> (hi <? lo) = false ->
  parse_tokens regs stk alts (Chr lo :: cur) ((CMinus, m) :: (CChar, l) :: r) = parse_tokens regs stk alts (Rng lo hi :: cur) r.
Proof. intros H1 H2. cbn [parse_tokens]. rewrite H1, H2. reflexivity. Qed.

Lemma step_ref stk alts cur l n r : index_of l regs = Some n ->
  parse_tokens regs stk alts cur ((CRef, l) :: r) = parse_tokens regs stk alts (Ref n :: cur) r.
Proof. intros H. cbn [parse_tokens]. rewrite H. reflexivity. Qed.

Lemma step_open stk alts cur k l r :
  parse_tokens regs stk alts cur ((COpen k, l) :: r) = parse_tokens regs ((k, alts, cur) :: stk) [] [] r.
Proof. reflexivity. Qed.

Lemma step_bar stk alts cur l r : cur <> [] ->
  parse_tokens regs stk alts cur ((CBar, l) :: r) = parse_tokens regs stk (rev cur :: alts) [] r.
Proof. intros H. destruct cur; [congruence|]. reflexivity. Qed.

Lemma step_close stk alts cur k alts' cur' l r : cur <> [] ->
  parse_tokens regs ((k, alts', cur') :: stk) alts cur ((CClose k, l) :: r)
  = parse_tokens regs stk alts' (mk_group k (close_level alts cur) :: cur') r.
Proof. intros H. destruct cur; [congruence|]. cbn [parse_tokens]. destruct k; reflexivity. Qed.

Lemma step_end alts cur : cur <> [] -> parse_tokens regs [] alts cur [] = Some (close_level alts cur).
Proof. intros H. destruct cur; [congruence|]. reflexivity. Qed.

(** * The state after a sequence of further alternatives *)
Fixpoint feedA (alts : list Pattern.alt) (cur : list term) (r : list Pattern.alt) : list Pattern.alt :=
  match r with [] => alts | b :: r' => feedA (rev cur :: alts) (rev b) r' end.
Fixpoint feedC (cur : list term) (r : list Pattern.alt) : list term :=
  match r with [] => cur | b :: r' => feedC (rev b) r' end.

Lemma rev_nonnil {A} (l : list A) : l <> [] -> rev l <> [].
Proof. destruct l; [congruence|]. simpl. intros _ H. apply app_eq_nil in H. destruct H; discriminate. Qed.

Lemma nonempty_nonnil {A} (l : list A) : nonempty l = true -> l <> [].
Proof. destruct l; [discriminate|congruence]. Qed.

Lemma feedC_nonnil r : forall cur, cur <> [] -> forallb wf_alt r = true -> feedC cur r <> [].
Proof.
  induction r as [|b r IH]; intros cur Hc Hr; simpl; [exact Hc|].
  simpl in Hr. apply andb_true_iff in Hr. destruct Hr as [Hb Hr]. unfold wf_alt in Hb. apply andb_true_iff in Hb.
  apply IH; [|exact Hr]. apply rev_nonnil, nonempty_nonnil, Hb.
Qed.

Lemma close_feed r : forall alts cur, close_level (feedA alts cur r) (feedC cur r) = rev alts ++ rev cur :: r.
Proof.
  induction r as [|b r IH]; intros alts cur; simpl.
  - unfold close_level. reflexivity.
  - rewrite IH. simpl. rewrite rev_involutive, <- app_assoc. reflexivity.
Qed.

(** * The round trip *)
Definition term_rt (t : term) : Prop :=
  wf_term t = true -> forall stk alts cur rest,
    parse_tokens regs stk alts cur (print_term t ++ rest) = parse_tokens regs stk alts (t :: cur) rest.

Lemma alt_rt a : Forall term_rt a -> forallb wf_term a = true -> forall stk alts cur rest,
  parse_tokens regs stk alts cur (print_alt a ++ rest) = parse_tokens regs stk alts (rev a ++ cur) rest.
Proof.
  induction 1 as [|t a Ht Ha IH]; intros Hw stk alts cur rest; [reflexivity|].
  simpl in Hw. apply andb_true_iff in Hw. destruct Hw as [Hwt Hwa].
  unfold print_alt in *. cbn [flat_map app print_term print_alts]. rewrite <- app_assoc. rewrite (Ht Hwt). rewrite (IH Hwa).
  cbn [rev]. rewrite <- app_assoc. reflexivity.
Qed.

Lemma alts_rt r : Forall (Forall term_rt) r -> forallb wf_alt r = true -> forall stk alts cur rest, cur <> [] ->
  parse_tokens regs stk alts cur (flat_map (fun b => t_bar :: print_alt b) r ++ rest)
  = parse_tokens regs stk (feedA alts cur r) (feedC cur r) rest.
Proof.
  induction 1 as [|b r Hb Hr IH]; intros Hw stk alts cur rest Hc; [reflexivity|].
  simpl in Hw. apply andb_true_iff in Hw. destruct Hw as [Hwb Hwr].
  unfold wf_alt in Hwb. apply andb_true_iff in Hwb. destruct Hwb as [Hne Hwb].
  cbn [flat_map app print_term print_alts]. unfold t_bar at 1. rewrite (step_bar _ _ _ _ _ Hc). rewrite <- app_assoc.
  rewrite (alt_rt b Hb Hwb). rewrite app_nil_r.
  apply (IH Hwr). apply rev_nonnil, nonempty_nonnil, Hne.
Qed.

Lemma group_rt k p : Forall (Forall term_rt) p -> nonempty p && forallb wf_alt p = true -> forall stk alts cur rest,
  parse_tokens regs stk alts cur ((t_open k :: print_alts print_alt p ++ [t_close k]) ++ rest)
  = parse_tokens regs stk alts (mk_group k p :: cur) rest.
Proof.
  intros HF Hw stk alts cur rest. apply andb_true_iff in Hw. destruct Hw as [Hne Hw].
  destruct p as [|a r]; [discriminate|].
  inversion HF as [|? ? Ha Hr]; subst.
  simpl in Hw. apply andb_true_iff in Hw. destruct Hw as [Hwa Hwr].
  unfold wf_alt in Hwa. apply andb_true_iff in Hwa. destruct Hwa as [Hnea Hwa].
  cbn [flat_map app print_term print_alts]. unfold t_open at 1. rewrite step_open. rewrite <- !app_assoc.
  rewrite (alt_rt a Ha Hwa). rewrite app_nil_r.
  assert (Hc : rev a <> []) by (apply rev_nonnil, nonempty_nonnil, Hnea).
  rewrite (alts_rt r Hr Hwr _ _ _ _ Hc).
  cbn [flat_map app print_term print_alts]. unfold t_close at 1. rewrite step_close by (apply feedC_nonnil; assumption).
  rewrite close_feed. simpl. rewrite rev_involutive. reflexivity.
Qed.

Lemma index_of_nth n nm m : nth_error regs n = Some nm -> index_of nm regs = Some m -> Nat.eqb m n = true ->
  index_of (nth n regs []) regs = Some n.
Proof.
  intros H1 H2 H3. apply Nat.eqb_eq in H3. subst m. rewrite (nth_error_nth _ _ _ H1). exact H2.
Qed.

Lemma term_rt_all t : term_rt t.
Proof.
  induction t using term_ind'; unfold term_rt; intros Hw stk alts cur rest.
  - simpl in Hw. cbn [flat_map app print_term print_alts]. apply step_chr, chr_lit_ok, Hw.
  - simpl in Hw. apply andb_true_iff in Hw. destruct Hw as [Hw Hle]. apply andb_true_iff in Hw. destruct Hw as [Hlo Hhi].
    cbn [flat_map app print_term print_alts]. rewrite (step_chr _ _ _ _ _ _ (chr_lit_ok lo Hlo)).
    apply step_rng; [apply chr_lit_ok, Hhi|]. apply Z.ltb_ge. apply Z.leb_le in Hle. exact Hle.
  - reflexivity.
  - simpl in Hw. unfold ref_ok in Hw. cbn [flat_map app print_term print_alts].
    destruct (nth_error regs n) as [nm|] eqn:E1; [|discriminate].
    destruct (index_of nm regs) as [m|] eqn:E2; [|discriminate].
    apply step_ref. eapply index_of_nth; eauto.
  - exact (group_rt BOpt p H Hw stk alts cur rest).
  - exact (group_rt BRep p H Hw stk alts cur rest).
  - exact (group_rt BGrp p H Hw stk alts cur rest).
Qed.

Lemma all_rt (p : pattern) : Forall (Forall term_rt) p.
Proof. apply Forall_forall. intros a _. apply Forall_forall. intros t _. apply term_rt_all. Qed.

(** (ii) parsing the printed pattern gives the pattern back *)
Theorem parse_print (p : pattern) : wf_pattern p = true -> parse_classes regs (print_pattern p) = Some p.
Proof.
  unfold wf_pattern. intros Hw. apply andb_true_iff in Hw. destruct Hw as [Hne Hw].
  destruct p as [|a r]; [discriminate|].
  simpl in Hw. apply andb_true_iff in Hw. destruct Hw as [Hwa Hwr].
  unfold wf_alt in Hwa. apply andb_true_iff in Hwa. destruct Hwa as [Hnea Hwa].
  pose proof (all_rt (a :: r)) as HF. inversion HF as [|? ? Ha Hr]; subst.
  unfold parse_classes, print_pattern. cbn [flat_map app print_term print_alts].
  rewrite (alt_rt a Ha Hwa). rewrite app_nil_r.
  assert (Hc : rev a <> []) by (apply rev_nonnil, nonempty_nonnil, Hnea).
  rewrite <- (app_nil_r (flat_map _ r)).
  rewrite (alts_rt r Hr Hwr _ _ _ _ Hc).
  rewrite step_end by (apply feedC_nonnil; assumption).
  rewrite close_feed. simpl. rewrite rev_involutive. reflexivity.
Qed.

End Printer.

Print Assumptions parse_print.

(** * Through real front-end tokens (type numbers of token.FRONTENDTokens as shipped) *)
Definition type_of_class (c : lclass) : Z :=
  match c with
  | CDot => 8 | CChar => 9 | CMinus => 10 | CBar => 7 | CRef => 5
  | COpen BOpt => 11 | CClose BOpt => 12 | COpen BRep => 13 | CClose BRep => 14 | COpen BGrp => 15 | CClose BGrp => 16
  | COther => -1
  end.

Definition ftok_of_ltok (x : ltok) : ftok :=
  {| f_type := type_of_class (fst x); f_lit := snd x; f_off := 0; f_line := 0; f_col := 0 |}.

Definition print_pattern_ftok (regs : list name) (p : pattern) : list ftok := map ftok_of_ltok (print_pattern regs p).

Lemma ltok_of_ftok x : ltok_of shipped_ftypes shipped_ltypes (ftok_of_ltok x) = x.
Proof. destruct x as [c l]. destruct c as [| | | | |k|k|]; try destruct k; reflexivity. Qed.

Theorem parse_pattern_print regs (p : pattern) : wf_pattern regs p = true ->
  parse_pattern shipped_ftypes shipped_ltypes regs (print_pattern_ftok regs p) = Some p.
Proof.
  intros H. unfold parse_pattern, print_pattern_ftok. rewrite map_map.
  rewrite (map_ext _ (fun x => x) ltok_of_ftok), map_id. apply parse_print, H.
Qed.

Print Assumptions parse_pattern_print.

(** * A non-trivial well-formed pattern:   _d { _d | '_' } [ '.' ( 'a'-'f' | . ) ] | 'é'   with regs = [_l; _d] *)
Definition ex_regs : list name := [[95; 108]; [95; 100]].
Definition ex_pat : pattern :=
  [ [Ref 1; Rep [[Ref 1]; [Chr 95]]; Opt [[Chr 46; Grp [[Rng 97 102]; [Dot]]]]]; [Chr 233] ].

Example ex_pat_wf : wf_pattern ex_regs ex_pat = true.
Proof. vm_compute. reflexivity. Qed.

Example ex_pat_round_trip : parse_pattern shipped_ftypes shipped_ltypes ex_regs (print_pattern_ftok ex_regs ex_pat) = Some ex_pat.
Proof. apply parse_pattern_print, ex_pat_wf. Qed.

(** the same by evaluation, and the printed token classes *)
Example ex_pat_round_trip_eval : parse_classes ex_regs (print_pattern ex_regs ex_pat) = Some ex_pat.
Proof. vm_compute. reflexivity. Qed.

Example ex_pat_types : map (fun t => f_type t) (print_pattern_ftok ex_regs ex_pat)
  = [5; 13; 5; 7; 9; 14; 11; 9; 15; 9; 10; 9; 7; 8; 16; 12; 7; 9].
Proof. vm_compute. reflexivity. Qed.

(** what the grammar does not allow is refused: empty alternative, empty group, unbalanced or crossed brackets, a range
    whose bound is not a literal, a descending range, an undefined regular definition *)
Example refused :
  let ch c := (CChar, chr_lit c) in
  map (parse_classes ex_regs)
    [ []; [ch 97; t_bar]; [t_bar; ch 97]; [t_open BGrp; t_close BGrp]; [t_open BGrp; ch 97; t_close BOpt]; [t_open BGrp; ch 97];
      [ch 97; t_close BGrp]; [t_open BGrp; ch 97; t_close BGrp; (CMinus, [45]); ch 98]; [ch 97; (CMinus, [45])];
      [ch 97; (CMinus, [45]); ch 98; (CMinus, [45]); ch 99]; [ch 122; (CMinus, [45]); ch 97]; [(CRef, [95; 120])]; [(COther, [])] ]
  = repeat None 13.
Proof. vm_compute. reflexivity. Qed.

Print Assumptions ex_pat_round_trip.
