(** Model of gocc's markdown pre-processor (internal/util/md/md.go, function [loadMd]).

    Go:
<<
      i := 0; text := true
      for i < len(input) {
        if i <= len(input)-3 && input[i]=='`' && input[i+1]=='`' && input[i+2]=='`' {
          text = !text
          input[i], input[i+1], input[i+2] = ' ', ' ', ' '
          i += 3
        }
        if i < len(input) {
          if text { if input[i] != '\n' { input[i] = ' ' } }
          i += 1
        }
      }
>>
    The loop only ever writes positions < i+3 that it never reads again, so the in-place
    mutation is observationally a pure function of the not yet consumed suffix [input[i:]]
    and of the flag [text].  [load_from text l] is one run of the loop from such a state;
    the recursion is structural on the suffix (one loop iteration consumes 1 or 4 runes, or
    the 3 runes of a fence that ends the input).

    QUIRK (kept faithfully): after a fence has been blanked, the same iteration processes the
    rune following the fence WITHOUT testing whether a fence starts there.  Hence in
    "``````" only the first three backticks are a fence.

    Runes are [Z]; backtick = 96, newline = 10, space = 32.
    Definitions only; proofs are in MdProofs.v. *)
From Coq Require Import List ZArith Bool.
Import ListNotations.
Open Scope Z_scope.

Definition backtick : Z := 96.
Definition newline : Z := 10.
Definition space : Z := 32.

(** what happens to a prose rune: newlines stay, everything else becomes a space *)
Definition blank_rune (c : Z) : Z := if c =? 10 then 10 else 32.

(** the second [if] of the loop body: the rune is blanked in prose and kept in code *)
Definition step (text : bool) (c : Z) : Z := if text then blank_rune c else c.

(** the guard of the first [if] of the loop body, on the suffix input[i:] *)
Definition starts_fence (l : list Z) : bool :=
  match l with
  | a :: b :: c :: _ => (a =? 96) && (b =? 96) && (c =? 96)
  | _ => false
  end.

(** [load_from text l]: result of running the loop on the suffix [l] = input[i:] with the
    current value of the flag [text]; returns the new contents of input[i:]. *)
Fixpoint load_from (text : bool) (l : list Z) {struct l} : list Z :=
  match l with
  | [] => []
  | a :: l1 =>
    match l1 with
    | b :: c :: rest =>
      if (a =? 96) && (b =? 96) && (c =? 96) then
        (* fence: toggle, blank it, then process the next rune (if any) unchecked *)
        32 :: 32 :: 32 ::
          match rest with
          | [] => []
          | d :: rest' => step (negb text) d :: load_from (negb text) rest'
          end
      else step text a :: load_from text l1
    | _ => step text a :: load_from text l1
    end
  end.

Definition load_md (l : list Z) : list Z := load_from true l.
