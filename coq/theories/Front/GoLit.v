(** Specification of Go rune literals, written from the Go language specification
    (section Rune literals), independently of gocc's decoder.  In the grammar below
    SQ is the single quote, DQ the double quote, BS the backslash character.

      rune_lit         = SQ ( unicode_value | byte_value ) SQ .
      unicode_value    = unicode_char | little_u_value | big_u_value | escaped_char .
      byte_value       = octal_byte_value | hex_byte_value .
      octal_byte_value = BS octal_digit octal_digit octal_digit .
      hex_byte_value   = BS x hex_digit hex_digit .
      little_u_value   = BS u hex_digit hex_digit hex_digit hex_digit .
      big_u_value      = BS U hex_digit hex_digit hex_digit hex_digit
                              hex_digit hex_digit hex_digit hex_digit .
      escaped_char     = BS ( a | b | f | n | r | t | v | BS | SQ | DQ ) .

    with the side conditions of the spec: inside a rune literal the unicode_char may be
    any code point except newline and the unescaped single quote (and a backslash starts
    an escape, so a raw backslash is not a unicode_char here either); BS DQ is illegal in
    a rune literal; octal values above 255 are illegal; BS u and BS U values must be valid
    code points: at most 0x10FFFF and not surrogate halves.  Source text is UTF-8, so the
    unicode_char must be the well-formed UTF-8 encoding of one Unicode scalar value.
    (The spec's implementation restrictions allowing a compiler to reject NUL and a
    non-initial BOM are not part of the language and are not modelled.)

    A literal is a byte list ([Z] in 0..255) including both quotes.
    [golit_value l] = Some c iff l is a valid rune literal denoting code point c.

    The numeric escapes have a fixed number of digits, so their values are given as
    explicit positional sums, not as a loop.  The raw form is specified through the
    ENCODER: the body must be equal to [encode_rune c] for a scalar value c (the decoder
    is used only to guess the candidate c).

    Definitions only; proofs are in LitConvProofs.v. *)
From Coq Require Import List ZArith Bool.
From Gocc Require Import Base.Utf8.
Import ListNotations.
Open Scope Z_scope.

Definition is_scalar (c : Z) : bool :=
  (0 <=? c) && (c <=? 1114111) && negb ((55296 <=? c) && (c <=? 57343)).

(** octal_digit / hex_digit and their values *)
Definition oct_val (b : Z) : option Z :=
  if (48 <=? b) && (b <=? 55) then Some (b - 48) else None.

Definition hex_val (b : Z) : option Z :=
  if (48 <=? b) && (b <=? 57) then Some (b - 48)          (* 0-9 *)
  else if (97 <=? b) && (b <=? 102) then Some (b - 87)    (* a-f *)
  else if (65 <=? b) && (b <=? 70) then Some (b - 55)     (* A-F *)
  else None.

(** escaped_char, rune-literal variant (no BS DQ) *)
Definition named_value (b : Z) : option Z :=
  if b =? 97 then Some 7          (* \a  U+0007 alert or bell *)
  else if b =? 98 then Some 8     (* \b  U+0008 backspace *)
  else if b =? 102 then Some 12   (* \f  U+000C form feed *)
  else if b =? 110 then Some 10   (* \n  U+000A line feed *)
  else if b =? 114 then Some 13   (* \r  U+000D carriage return *)
  else if b =? 116 then Some 9    (* \t  U+0009 horizontal tab *)
  else if b =? 118 then Some 11   (* \v  U+000B vertical tab *)
  else if b =? 92 then Some 92    (* \\  U+005C backslash *)
  else if b =? 39 then Some 39    (* \'  U+0027 single quote *)
  else None.

Definition opt_bind {A B} (o : option A) (f : A -> option B) : option B :=
  match o with Some a => f a | None => None end.
Notation "'do' x <- o ; k" := (opt_bind o (fun x => k))
  (at level 200, x name, o at level 100, k at level 200).

Definition guard (b : bool) (c : Z) : option Z := if b then Some c else None.

(** What follows the backslash (closing quote already removed). *)
Definition escape_value (e : list Z) : option Z :=
  match e with
  | [c] => named_value c
  | [a; b; c] =>
    if a =? 120 (* x *) then
      do h1 <- hex_val b; do h0 <- hex_val c; Some (16 * h1 + h0)
    else
      do o2 <- oct_val a; do o1 <- oct_val b; do o0 <- oct_val c;
      let v := 64 * o2 + 8 * o1 + o0 in guard (v <=? 255) v
  | [u; a; b; c; d] =>
    if u =? 117 (* u *) then
      do h3 <- hex_val a; do h2 <- hex_val b; do h1 <- hex_val c; do h0 <- hex_val d;
      let v := 4096 * h3 + 256 * h2 + 16 * h1 + h0 in guard (is_scalar v) v
    else None
  | [u; a; b; c; d; e'; f; g; h] =>
    if u =? 85 (* U *) then
      do h7 <- hex_val a; do h6 <- hex_val b; do h5 <- hex_val c; do h4 <- hex_val d;
      do h3 <- hex_val e'; do h2 <- hex_val f; do h1 <- hex_val g; do h0 <- hex_val h;
      let v := 268435456 * h7 + 16777216 * h6 + 1048576 * h5 + 65536 * h4
               + 4096 * h3 + 256 * h2 + 16 * h1 + h0 in
      guard (is_scalar v) v
    else None
  | _ => None
  end.

(** unicode_char: body is exactly the UTF-8 encoding of one scalar value other than
    single quote, backslash, newline. *)
Definition raw_ok (c : Z) : bool :=
  is_scalar c && negb (c =? 39) && negb (c =? 92) && negb (c =? 10).

Definition raw_value (body : list Z) : option Z :=
  let c := fst (decode_rune body) in
  if raw_ok c then
    if list_eq_dec Z.eq_dec (encode_rune c) body then Some c else None
  else None.

(** Strip the two quotes. *)
Definition unquote (l : list Z) : option (list Z) :=
  match l with
  | q :: rest =>
    if q =? 39 then
      match rev rest with
      | q' :: rbody => if q' =? 39 then Some (rev rbody) else None
      | [] => None
      end
    else None
  | [] => None
  end.

Definition golit_value (l : list Z) : option Z :=
  match unquote l with
  | None => None
  | Some body =>
    match body with
    | [] => None
    | b0 :: e => if b0 =? 92 then escape_value e else raw_value body
    end
  end.

(** ** Spellings of a code point *)
Inductive spelling := Raw | Hex | Octal | LittleU | BigU | Named.

(** lower-case hex digit character of v in 0..15 *)
Definition hex_digit (v : Z) : Z := if v <? 10 then 48 + v else 87 + v.

Definition named_char (c : Z) : option Z :=
  if c =? 7 then Some 97
  else if c =? 8 then Some 98
  else if c =? 12 then Some 102
  else if c =? 10 then Some 110
  else if c =? 13 then Some 114
  else if c =? 9 then Some 116
  else if c =? 11 then Some 118
  else if c =? 92 then Some 92
  else if c =? 39 then Some 39
  else None.

Definition is_byte (c : Z) : bool := (0 <=? c) && (c <? 256).

Definition spell (k : spelling) (c : Z) : option (list Z) :=
  match k with
  | Raw =>
    if raw_ok c then Some (39 :: encode_rune c ++ [39]) else None
  | Hex =>
    if is_byte c then Some [39; 92; 120; hex_digit (c / 16); hex_digit (c mod 16); 39]
    else None
  | Octal =>
    if is_byte c then Some [39; 92; 48 + c / 64; 48 + (c / 8) mod 8; 48 + c mod 8; 39]
    else None
  | LittleU =>
    if is_scalar c && (c <? 65536) then
      Some [39; 92; 117;
            hex_digit (c / 4096); hex_digit ((c / 256) mod 16);
            hex_digit ((c / 16) mod 16); hex_digit (c mod 16); 39]
    else None
  | BigU =>
    if is_scalar c then
      Some [39; 92; 85;
            hex_digit (c / 268435456); hex_digit ((c / 16777216) mod 16);
            hex_digit ((c / 1048576) mod 16); hex_digit ((c / 65536) mod 16);
            hex_digit ((c / 4096) mod 16); hex_digit ((c / 256) mod 16);
            hex_digit ((c / 16) mod 16); hex_digit (c mod 16); 39]
    else None
  | Named =>
    match named_char c with
    | Some b => Some [39; 92; b; 39]
    | None => None
    end
  end.
