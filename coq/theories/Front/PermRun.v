(** Executable instance of the FIRST-set model (Perm.v) on rune strings, with two iteration orders
    (identity and reversal at every map range), for the correspondence check of C11. Definitions only. *)
From Coq Require Import List ZArith Bool.
From Gocc Require Import Front.TokMap Front.Perm.
Import ListNotations.

Definition first_sets_z (rev_order : bool) (fuel : nat) (empty : list Z)
           (nts : list (list Z)) (prods : list (list Z * list (list Z)))
  : list (list Z * list (list Z)) * bool :=
  let is_term := fun s => negb (existsb (zstr_eqb s) nts) in
  let ord := fun (_ _ _ : nat) (l : list (list Z)) => if rev_order then rev l else l in
  let r := first_sets (list Z) zstr_eqb empty is_term ord fuel prods in
  (map (fun n => (n, fst r n)) nts, snd r).
