(** Independent objects over shared immutable data: any interleaving of their steps gives every
    object exactly the state (results included) it reaches when run alone (C17, model level). *)
From Coq Require Import List Arith Lia.
Import ListNotations.

Section Interleave.
Variables (T O : Type).
Variable step : T -> O -> O.     (* one step of an object: reads the shared tables, writes only itself *)

Fixpoint upd (i : nat) (f : O -> O) (s : list O) : list O :=
  match s, i with
  | [], _ => []
  | o :: r, 0 => f o :: r
  | o :: r, S j => o :: upd j f r
  end.

(** a schedule is the sequence of object indices that take a step *)
Definition run_sched (t : T) (sch : list nat) (s : list O) : list O :=
  fold_left (fun s i => upd i (step t) s) sch s.

Definition steps_of (i : nat) (sch : list nat) : nat := count_occ Nat.eq_dec sch i.

Lemma nth_upd_same i f s o : nth_error s i = Some o -> nth_error (upd i f s) i = Some (f o).
Proof.
  revert i. induction s as [|x s IH]; intros [|i] H; simpl in *; try discriminate.
  - inversion H; reflexivity.
  - apply IH; exact H.
Qed.

Lemma nth_upd_other i j f s : i <> j -> nth_error (upd i f s) j = nth_error s j.
Proof.
  revert i j. induction s as [|x s IH]; intros [|i] [|j] H; simpl; try reflexivity; try lia.
  apply IH. lia.
Qed.

Theorem interleaving_irrelevant : forall t sch s i o,
  nth_error s i = Some o ->
  nth_error (run_sched t sch s) i = Some (Nat.iter (steps_of i sch) (step t) o).
Proof.
  intros t sch. induction sch as [|j sch IH]; intros s i o H; simpl.
  - exact H.
  - unfold steps_of in *. simpl. destruct (Nat.eq_dec j i) as [->|Hne].
    + rewrite (IH _ _ _ (nth_upd_same i (step t) s o H)). simpl.
      f_equal. clear. induction (count_occ Nat.eq_dec sch i); simpl; congruence.
    + apply IH. rewrite nth_upd_other by exact Hne. exact H.
Qed.

(** two schedules that give every object the same number of steps end in the same system state *)
Corollary schedules_equivalent : forall t sch sch' s,
  (forall i, steps_of i sch = steps_of i sch') ->
  forall i, nth_error (run_sched t sch s) i = nth_error (run_sched t sch' s) i.
Proof.
  intros t sch sch' s Hc i. destruct (nth_error s i) as [o|] eqn:E.
  - rewrite (interleaving_irrelevant t sch s i o E), (interleaving_irrelevant t sch' s i o E), Hc. reflexivity.
  - assert (Hlen : forall sc s0, length (run_sched t sc s0) = length s0).
    { assert (Hu : forall k f s0, length (upd k f s0) = length s0).
      { intros k f s0. revert k. induction s0 as [|x s0 IH]; intros [|k]; simpl; auto. }
      induction sc as [|j sc IH]; intros s0; simpl; [reflexivity|]. rewrite IH. apply Hu. }
    apply nth_error_None in E.
    rewrite (proj2 (nth_error_None _ _)), (proj2 (nth_error_None _ _)); [reflexivity| |]; rewrite Hlen; exact E.
Qed.
End Interleave.
