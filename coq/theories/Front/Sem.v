(** Model of the SEMANTIC checks gocc applies to a grammar file after (and while) it parses:
      /repo/internal/ast/lexpart.go     NewLexPart   (and lexprodmap.go: NewLexProdMap / LexProdMap.Add)
      /repo/internal/ast/grammar.go     NewGrammar, consistent, LexPart.UndefinedRegDef
      /repo/internal/ast/syntaxpart.go  augment
      /repo/internal/parser/symbols/symbols.go   NewSymbols    (string_lit / production name clash: panic)
      /repo/internal/ast/lexpart.go     UpdateStringLitTokens  (NewLexStringLitTokDef on "", LexProdMap.Add: panics)
      /repo/internal/ast/lexinline.go   InlineRegDefs, called by lexer/items.GetItemSets (error => panic)
    in the ORDER main.go runs them.  The model works on the FRONT-END TOKEN LIST of the file (FScan.ftok: type number in
    token.FRONTENDTokens and literal bytes); the numbers of the token types are passed in a record [ftypes], so the harness
    takes them from /repo/internal/frontend/token/tokens.go at run time.

    HOW THE TOKEN LIST IS CUT.  In spec/gocc2.ebnf the terminal ":" occurs only in
        LexProduction : tokId ":" LexPattern ";" | regDefId ":" LexPattern ";" | ignoredTokId ":" LexPattern ";"
        SyntaxProduction : prodId ":" Alternatives ";"
    i.e. immediately after the head of a definition, and ";" only as the terminator of those four productions (character and
    string literals containing ':' or ';' are single tokens of type char_lit / string_lit).  Hence, for a token list the
    front-end parser accepts, the definitions are exactly: (token followed by ":", tokens after that ":" up to the next ";").
    [defs] computes that; SemProofs.v (part b) proves that "followed by ':'" is the right notion of definition head for every
    parse tree of a grammar satisfying the kernel-evaluable side condition [colon_ok].

    WHAT GOCC DOES (as the code stands), in order; every item ends in a non-zero exit status:
     1. LexicalPart is reduced -> NewLexPart -> NewLexProdMap(prodList) -> LexProdMap.Add PANICS ("Production x already
        exists", exit 2) on the first lexical production whose id occurred before, whatever the kinds (the three
        "duplicate ... def" errors of NewLexPart behind it are unreachable).                       [RDupTok/RDupRegDef/RDupIgn]
     2. Grammar is reduced -> NewGrammar -> (syntax part present) augment: production S' : <head of first production> is put
        in front; consistent(g): for every alternative (= one SyntaxProd) in order:
           no symbols (only reachable with the keyword tokens "error" alone / "empty", which the scanner never
           produces: it classifies both words as tokId)                                                           [REmptyAlt]
           production id = "INVALID"                                                                              [RReservedProd]
           a symbol whose SymbolString is "INVALID" or "␚" (string literals: the text between the quotes)       [RReservedSym]
        then: a used non-string symbol that is neither a token id nor a production id, is not "empty"/"error", and whose
        FIRST RUNE is in unicode.IsUpper (the scanner's prodId test; before the repair of D16: first byte in 'A'..'Z') [RUndefinedProd]
        (a lower-case undefined symbol is a warning only).  Errors are reported as "Parse error: ..." and exit 1.
     3. main: g.LexPart.UndefinedRegDef(): lexical productions in order, first regDefId in a pattern that is not the id of a
        regular definition (Imports is always empty: the shipped grammar has no import declaration), exit 1.  [RUndefinedRegDef]
     4. symbols.NewSymbols: walking the alternatives in order, a string literal whose text is the id of a production seen SO
        FAR (S' included) PANICS.                                                                                  [RStrLitProd]
     5. UpdateStringLitTokens: for the distinct string literals in order of first occurrence: "" PANICS (index out of range
        in NewLexStringLitTokDef), a literal whose text is the id of a lexical production PANICS in LexProdMap.Add.
                                                                                                     [RStrLitEmpty/RStrLitLex]
     6. GetItemSets -> InlineRegDefs: for every token / ignored-token definition in order, expanding the regular definitions
        depth first; a reference to a definition that is being expanded PANICS.  Regular definitions that no token reaches
        are never expanded: a cycle among them is NOT detected.                                              [RRecursiveRegDef]
    A syntax production defined twice simply contributes more alternatives (no error).

    Not modelled: the decoding of character literals (util.LitToRune panics on malformed ones: character level), LR
    conflicts (no failure under -a, except the accept/reduce conflict panic when the start symbol derives itself).

    Definitions only, executable; proofs in SemProofs.v. *)
From Coq Require Import List ZArith Bool.
From Gocc Require Import Base.Utf8 LR.Parse Front.FUnicode Front.FScan.
Import ListNotations.
Local Open Scope Z_scope.

Definition name := list Z.                       (* the bytes of an identifier or of a string literal's text *)

Fixpoint name_eqb (a b : name) : bool :=
  match a, b with
  | [], [] => true
  | x :: a', y :: b' => (x =? y) && name_eqb a' b'
  | _, _ => false
  end.

Fixpoint mem (n : name) (l : list name) : bool :=
  match l with
  | [] => false
  | m :: t => name_eqb n m || mem n t
  end.

(** type numbers of token.FRONTENDTokens the rules need *)
Record ftypes := {
  ft_colon : Z; ft_semi : Z; ft_bar : Z;
  ft_tokId : Z; ft_regDefId : Z; ft_ignoredTokId : Z; ft_prodId : Z;
  ft_string_lit : Z; ft_error : Z; ft_empty : Z }.

Definition n_INVALID : name := [73; 78; 86; 65; 76; 73; 68].
Definition n_EOF : name := [226; 144; 154].                 (* "␚" U+241A *)
Definition n_empty : name := [101; 109; 112; 116; 121].
Definition n_error : name := [101; 114; 114; 111; 114].
Definition n_Sprime : name := [83; 39].                     (* "S'" *)

(** ** Cutting the token list *)

(** the elements that are immediately followed by an element satisfying [isc] *)
Fixpoint heads_of {A} (isc : A -> bool) (l : list A) : list A :=
  match l with
  | [] => []
  | h :: rest =>
    match rest with
    | c :: _ => if isc c then h :: heads_of isc rest else heads_of isc rest
    | [] => []
    end
  end.

Fixpoint until {A} (iss : A -> bool) (l : list A) : list A :=
  match l with
  | [] => []
  | x :: t => if iss x then [] else x :: until iss t
  end.

(** (head, body) of every definition: x ":" body ";" *)
Fixpoint defs_gen {A} (isc iss : A -> bool) (l : list A) : list (A * list A) :=
  match l with
  | [] => []
  | h :: rest =>
    match rest with
    | c :: rest' => if isc c then (h, until iss rest') :: defs_gen isc iss rest else defs_gen isc iss rest
    | [] => []
    end
  end.

(** the pieces between separators; never the empty list *)
Fixpoint split_at {A} (isb : A -> bool) (l : list A) : list (list A) :=
  match l with
  | [] => [[]]
  | x :: t =>
    if isb x then [] :: split_at isb t
    else match split_at isb t with
         | [] => [[x]]
         | a :: r => (x :: a) :: r
         end
  end.

Section Sem.
Variable ft : ftypes.

Definition is_ty (ty : Z) (t : ftok) : bool := f_type t =? ty.

Definition defs (toks : list ftok) : list (ftok * list ftok) :=
  defs_gen (is_ty (ft_colon ft)) (is_ty (ft_semi ft)) toks.

(** *** lexical part *)
Inductive lkind := LTok | LReg | LIgn.

Definition lex_kind (t : ftok) : option lkind :=
  if is_ty (ft_tokId ft) t then Some LTok
  else if is_ty (ft_regDefId ft) t then Some LReg
  else if is_ty (ft_ignoredTokId ft) t then Some LIgn
  else None.

(** ids of the regular definitions referred to in a pattern, in order *)
Definition refs_of (body : list ftok) : list name :=
  map f_lit (filter (is_ty (ft_regDefId ft)) body).

Record lexdef := { ld_kind : lkind; ld_id : name; ld_refs : list name }.

Fixpoint lex_defs_of (ds : list (ftok * list ftok)) : list lexdef :=
  match ds with
  | [] => []
  | (h, body) :: t =>
    match lex_kind h with
    | Some k => {| ld_kind := k; ld_id := f_lit h; ld_refs := refs_of body |} :: lex_defs_of t
    | None => lex_defs_of t
    end
  end.

Definition lex_defs (toks : list ftok) : list lexdef := lex_defs_of (defs toks).

Definition lkind_eqb (a b : lkind) : bool :=
  match a, b with LTok, LTok | LReg, LReg | LIgn, LIgn => true | _, _ => false end.

Definition ids_of_kind (k : lkind) (l : list lexdef) : list name :=
  map ld_id (filter (fun d => lkind_eqb (ld_kind d) k) l).

Definition tok_defs (toks : list ftok) : list name := ids_of_kind LTok (lex_defs toks).
Definition reg_defs (toks : list ftok) : list name := ids_of_kind LReg (lex_defs toks).
Definition ign_defs (toks : list ftok) : list name := ids_of_kind LIgn (lex_defs toks).
Definition lex_ids (toks : list ftok) : list name := map ld_id (lex_defs toks).
(** all references to regular definitions *)
Definition reg_uses (toks : list ftok) : list name := flat_map ld_refs (lex_defs toks).

(** *** syntax part *)
Inductive skind := KProd | KTok | KStr.
Definition ssym := (skind * name)%type.

(** Go: lit[1 : len(lit)-1] *)
Definition strip (lit : list Z) : name := removelast (tl lit).

Definition sym_of_tok (t : ftok) : option ssym :=
  if is_ty (ft_prodId ft) t then Some (KProd, f_lit t)
  else if is_ty (ft_tokId ft) t then Some (KTok, f_lit t)
  else if is_ty (ft_string_lit ft) t then Some (KStr, strip (f_lit t))
  else None.                                        (* g_sdt_lit, the keywords error / empty *)

Fixpoint symbols_of (alt : list ftok) : list ssym :=
  match alt with
  | [] => []
  | t :: r => match sym_of_tok t with Some s => s :: symbols_of r | None => symbols_of r end
  end.

Definition alt := (name * list ssym)%type.          (* one ast.SyntaxProd: Id, Body.Symbols *)

Fixpoint syn_defs_of (ds : list (ftok * list ftok)) : list (ftok * list ftok) :=
  match ds with
  | [] => []
  | (h, body) :: t => if is_ty (ft_prodId ft) h then (h, body) :: syn_defs_of t else syn_defs_of t
  end.

Definition alts_of_def (d : ftok * list ftok) : list alt :=
  map (fun a => (f_lit (fst d), symbols_of a)) (split_at (is_ty (ft_bar ft)) (snd d)).

(** SyntaxPart.ProdList before augment *)
Definition prod_alts (toks : list ftok) : list alt := flat_map alts_of_def (syn_defs_of (defs toks)).

(** after augment; [] when there is no syntax part *)
Definition aug_alts (toks : list ftok) : list alt :=
  match prod_alts toks with
  | [] => []
  | (h, _) :: _ => (n_Sprime, [(KProd, h)]) :: prod_alts toks
  end.

Definition has_syntax (toks : list ftok) : bool :=
  match prod_alts toks with [] => false | _ => true end.

Definition prod_heads (toks : list ftok) : list name := map fst (aug_alts toks).

Definition is_str (s : ssym) : bool := match fst s with KStr => true | _ => false end.

(** the names of the non-string symbols used in bodies (Go: keys of [used]) *)
Definition prod_uses (toks : list ftok) : list name :=
  map snd (filter (fun s => negb (is_str s)) (flat_map snd (aug_alts toks))).

(** the texts of the string literals, in order of occurrence *)
Definition str_uses (toks : list ftok) : list name :=
  map snd (filter is_str (flat_map snd (aug_alts toks))).

(** ** The checks *)

Inductive reason :=
| RDupTok (id : name) | RDupRegDef (id : name) | RDupIgn (id : name)
| REmptyAlt (prod : name)
| RReservedProd (prod : name)
| RReservedSym (s prod : name)
| RUndefinedProd (s : name)
| RUndefinedRegDef (r def : name)
| RStrLitProd (s : name)
| RStrLitEmpty
| RStrLitLex (s : name)
| RRecursiveRegDef (def : name).

Inductive verdict := SemOk | SemReject (r : reason).

Fixpoint first_some {A B} (f : A -> option B) (l : list A) : option B :=
  match l with
  | [] => None
  | x :: t => match f x with Some b => Some b | None => first_some f t end
  end.

(** 1. LexProdMap.Add *)
Definition dup_reason (d : lexdef) : reason :=
  match ld_kind d with LTok => RDupTok (ld_id d) | LReg => RDupRegDef (ld_id d) | LIgn => RDupIgn (ld_id d) end.

Fixpoint first_dup (seen : list name) (l : list lexdef) : option reason :=
  match l with
  | [] => None
  | d :: t => if mem (ld_id d) seen then Some (dup_reason d) else first_dup (ld_id d :: seen) t
  end.

(** 2. consistent *)
Definition reserved (n : name) : bool := name_eqb n n_INVALID || name_eqb n n_EOF.

Definition check_alt (a : alt) : option reason :=
  match snd a with
  | [] => Some (REmptyAlt (fst a))
  | _ =>
    if name_eqb (fst a) n_INVALID then Some (RReservedProd (fst a))
    else match find (fun s => reserved (snd s)) (snd a) with
         | Some s => Some (RReservedSym (snd s) (fst a))
         | None => None
         end
  end.

(** Go (after the repair of defect D16): r, _ := utf8.DecodeRuneInString(s); unicode.IsUpper(r) — the very test by which
    the scanner classifies an identifier as prodId (FScan.ident_type) *)
Definition upper_initial (n : name) : bool := uni_upper (fst (decode_rune n)).

Definition undefined_error (defined : list name) (n : name) : bool :=
  negb (mem n defined) && negb (name_eqb n n_empty) && negb (name_eqb n n_error) && upper_initial n.

Definition check_consistent (toks : list ftok) : option reason :=
  match first_some check_alt (aug_alts toks) with
  | Some r => Some r
  | None =>
    match find (undefined_error (tok_defs toks ++ prod_heads toks)) (prod_uses toks) with
    | Some n => Some (RUndefinedProd n)
    | None => None
    end
  end.

(** 3. UndefinedRegDef *)
Definition check_regdef_refs (regs : list name) (d : lexdef) : option reason :=
  match find (fun r => negb (mem r regs)) (ld_refs d) with
  | Some r => Some (RUndefinedRegDef r (ld_id d))
  | None => None
  end.

(** 4. NewSymbols *)
Fixpoint check_strlit_prod (seen : list name) (l : list alt) : option reason :=
  match l with
  | [] => None
  | a :: t =>
    let seen' := fst a :: seen in
    match find (fun s => is_str s && mem (snd s) seen') (snd a) with
    | Some s => Some (RStrLitProd (snd s))
    | None => check_strlit_prod seen' t
    end
  end.

(** 5. UpdateStringLitTokens (a repeated literal is handled once: same outcome) *)
Definition check_strlit_tok (lexids : list name) (s : name) : option reason :=
  match s with
  | [] => Some RStrLitEmpty
  | _ => if mem s lexids then Some (RStrLitLex s) else None
  end.

(** 6. InlineRegDefs.  [env] = the regular definitions with their references; [path] = the ids being expanded
    (Go: expanding).  true = "recursive regular definition".  The fuel is never exhausted when it starts at the number of
    regular definitions (SemProofs.cyc_fuel_enough): the ids on [path] are distinct ids of regular definitions. *)
Fixpoint lookup (env : list (name * list name)) (r : name) : option (list name) :=
  match env with
  | [] => None
  | (n, refs) :: t => if name_eqb r n then Some refs else lookup t r
  end.

Fixpoint cyc (fuel : nat) (env : list (name * list name)) (path : list name) (r : name) : bool :=
  match lookup env r with
  | None => false                                   (* not a regular definition: left in place *)
  | Some refs =>
    if mem r path then true
    else match fuel with
         | O => true
         | S f => existsb (cyc f env (r :: path)) refs
         end
  end.

Definition reg_env (l : list lexdef) : list (name * list name) :=
  map (fun d => (ld_id d, ld_refs d)) (filter (fun d => lkind_eqb (ld_kind d) LReg) l).

Definition check_recursive (env : list (name * list name)) (d : lexdef) : option reason :=
  match ld_kind d with
  | LReg => None
  | _ => if existsb (cyc (length env) env []) (ld_refs d) then Some (RRecursiveRegDef (ld_id d)) else None
  end.

(** all of it, in gocc's order *)
Definition sem_check (toks : list ftok) : option reason :=
  let lds := lex_defs toks in
  match first_dup [] lds with Some r => Some r | None =>
  match check_consistent toks with Some r => Some r | None =>
  match first_some (check_regdef_refs (reg_defs toks)) lds with Some r => Some r | None =>
  match check_strlit_prod [] (aug_alts toks) with Some r => Some r | None =>
  match first_some (check_strlit_tok (lex_ids toks)) (str_uses toks) with Some r => Some r | None =>
  first_some (check_recursive (reg_env lds)) lds
  end end end end end.

Definition sem_verdict (toks : list ftok) : verdict :=
  match sem_check toks with Some r => SemReject r | None => SemOk end.

(** ** The whole front end on a token list (without the EOF token) *)

(** the parser model's token: terminal number = front-end type + 1 (ILLEGAL = -1 becomes 0 = INVALID, which no table row
    has an action for); the token's identity is its index *)
Fixpoint to_ptoks (i : nat) (toks : list ftok) : list token :=
  match toks with
  | [] => []
  | t :: r => {| ttype := Z.to_nat (f_type t + 1); tid := i |} :: to_ptoks (S i) r
  end.

Definition parse_ok (tb : tables) (fuel : nat) (toks : list ftok) : bool :=
  match r_out (parse tb (sem_node None) (to_ptoks 0 toks) fuel) with POk _ => true | _ => false end.

Definition front_accepts (tb : tables) (fuel : nat) (toks : list ftok) : bool :=
  parse_ok tb fuel toks && match sem_verdict toks with SemOk => true | SemReject _ => false end.

End Sem.

(** from the source bytes: scanner model, EOF token dropped *)
Definition strip_eof (ts : list ftok) : list ftok := filter (fun t => negb (f_type t =? 0)) ts.

Definition front_accepts_src (ft : ftypes) (tb : tables) (fuel : nat) (src : list Z) : bool :=
  front_accepts ft tb fuel (strip_eof (fst (fscan_all src))).

(** the numbering of token.FRONTENDTokens as shipped (the harness passes the numbers it reads from tokens.go) *)
Definition shipped_ftypes : ftypes :=
  {| ft_colon := 3; ft_semi := 4; ft_bar := 7; ft_tokId := 2; ft_regDefId := 5; ft_ignoredTokId := 6; ft_prodId := 17;
     ft_string_lit := 21; ft_error := 19; ft_empty := 20 |}.
