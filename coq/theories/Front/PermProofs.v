(** Property C11: the generator's outputs do not depend on Go's map iteration order.
    Each theorem quantifies over the permutation parameters ("oracles") of Perm.v.

      - [sort_unique], [isort_perm_eq], [token_ids_order_independent],
        [terminals_lex_order_independent] : TokenIds() -- hence the token numbering of C10 --
        is the same list whatever order the map TokDefs yields its keys in (for ANY sorting
        function meeting the specification "sorted permutation of the input");
      - [union_iter_order_independent], [firstS_respects], [prod_step_respects],
        [round_respects], [first_sets_order_independent], [first1_order_independent] :
        the FIRST sets computed with two arbitrary families of iteration orders are equal as
        sets (pointwise, duplicate-free, same elements), the [again] flag of every round and
        the number of rounds are the same, and the sorted key lists used by the LR(1) closure
        are equal lists;
      - [action_order_independent] : conflictMap order only permutes the conflict list;
        together with the order of the items it affects neither the winner nor the count. *)
From Coq Require Import List Bool Arith Lia Permutation Sorted ZArith.
From Gocc Require Import LR.Parse LR.Resolve LR.ResolveProofs Front.TokMap Front.TokMapProofs Front.Perm.
Import ListNotations.

(* ------------------------------------------------------------------------- *)
(** * (1) Sorting *)
Section SortProofs.
Variable A : Type.
Variable leb : A -> A -> bool.
Definition le (a b : A) : Prop := leb a b = true.
Hypothesis leb_total : forall a b, leb a b = true \/ leb b a = true.
Hypothesis leb_trans : forall a b c, leb a b = true -> leb b c = true -> leb a c = true.
Hypothesis leb_antisym : forall a b, leb a b = true -> leb b a = true -> a = b.

Notation insert := (insert A leb).
Notation isort := (isort A leb).

Lemma insert_perm : forall x l, Permutation (insert x l) (x :: l).
Proof.
  induction l as [|a l IH]; simpl.
  - apply Permutation_refl.
  - destruct (leb x a).
    + apply Permutation_refl.
    + apply perm_trans with (a :: x :: l); [apply perm_skip; exact IH|apply perm_swap].
Qed.

Lemma isort_perm : forall l, Permutation (isort l) l.
Proof.
  induction l as [|a l IH]; simpl.
  - constructor.
  - apply perm_trans with (a :: isort l); [apply insert_perm|apply perm_skip; exact IH].
Qed.

Lemma insert_sorted : forall x l, Sorted le l -> Sorted le (insert x l).
Proof.
  induction l as [|a l IH]; intros H; simpl.
  - repeat constructor.
  - destruct (leb x a) eqn:E.
    + constructor; [exact H|]. constructor. exact E.
    + assert (Hax : le a x).
      { destruct (leb_total a x) as [H1|H1]; [exact H1|congruence]. }
      inversion H as [|? ? HS HR]; subst.
      constructor; [apply IH; exact HS|].
      destruct l as [|b l']; simpl.
      * constructor. exact Hax.
      * destruct (leb x b); constructor; [exact Hax|].
        inversion HR; subst. assumption.
Qed.

Lemma isort_sorted : forall l, Sorted le (isort l).
Proof.
  induction l as [|a l IH]; simpl; [constructor|]. apply insert_sorted. exact IH.
Qed.

Lemma le_transitive : Relations_1.Transitive le.
Proof. intros a b c. apply leb_trans. Qed.

Lemma strongly_sorted_perm_eq : forall l l',
  StronglySorted le l -> StronglySorted le l' -> Permutation l l' -> l = l'.
Proof.
  induction l as [|a l IH]; intros l' H H' HP.
  - apply Permutation_nil in HP. congruence.
  - destruct l' as [|b l'].
    + apply Permutation_sym, Permutation_nil in HP. discriminate.
    + inversion H as [|? ? HS HF]; subst. inversion H' as [|? ? HS' HF']; subst.
      assert (a = b) as ->.
      { assert (Ha : In a (b :: l')) by (apply (Permutation_in _ HP); left; reflexivity).
        assert (Hb : In b (a :: l))
          by (apply (Permutation_in _ (Permutation_sym HP)); left; reflexivity).
        destruct Ha as [Ha|Ha]; [congruence|]. destruct Hb as [Hb|Hb]; [congruence|].
        rewrite Forall_forall in HF, HF'.
        apply leb_antisym; [apply HF; exact Hb|apply HF'; exact Ha]. }
      f_equal. apply IH; [exact HS|exact HS'|]. eapply Permutation_cons_inv. exact HP.
Qed.

(** sort.Strings as a specification: ANY two sorted permutations of two permutations of the
    same keys are the same list *)
Theorem sort_unique : forall keys keys' r r',
  Permutation keys keys' ->
  Sorted le r -> Permutation r keys ->
  Sorted le r' -> Permutation r' keys' ->
  r = r'.
Proof.
  intros keys keys' r r' HP HS Hr HS' Hr'.
  apply strongly_sorted_perm_eq.
  - apply Sorted_StronglySorted; [exact le_transitive|exact HS].
  - apply Sorted_StronglySorted; [exact le_transitive|exact HS'].
  - apply perm_trans with keys; [exact Hr|].
    apply perm_trans with keys'; [exact HP|apply Permutation_sym; exact Hr'].
Qed.

Theorem isort_perm_eq : forall l l', Permutation l l' -> isort l = isort l'.
Proof.
  intros l l' HP.
  apply (sort_unique l l'); [exact HP|apply isort_sorted|apply isort_perm|apply isort_sorted|apply isort_perm].
Qed.

(** LexPart.TokenIds(): independent of the order in which the map yields the keys *)
Theorem token_ids_order_independent : forall order order',
  Permutation order order' -> token_ids A leb order = token_ids A leb order'.
Proof. intros. unfold token_ids. apply isort_perm_eq. assumption. Qed.

(** C10 + C11: the token numbering does not depend on that order either *)
Theorem terminals_lex_order_independent :
  forall (eqb : A -> A -> bool) (INVALID EOFSYM EMPTY : A) prods order order',
  Permutation order order' ->
  terminals A eqb INVALID EOFSYM EMPTY prods (token_ids A leb order)
  = terminals A eqb INVALID EOFSYM EMPTY prods (token_ids A leb order').
Proof. intros. rewrite (token_ids_order_independent order order'); [reflexivity|assumption]. Qed.

End SortProofs.

(* ------------------------------------------------------------------------- *)
(** * (2) FIRST sets *)
Section FirstProofs.
Variable str : Type.
Variable eqb : str -> str -> bool.
Variable EMPTY : str.
Variable is_term : str -> bool.
Hypothesis eqb_eq : forall a b, eqb a b = true <-> a = b.

Notation mem := (mem str eqb).
Notation add := (add str eqb).
Notation add_all := (add_all str eqb).
Notation env := (env str).
Notation upd := (upd str eqb).
Notation union_iter := (union_iter str eqb).
Notation rem := (rem str eqb).
Notation set_eqb := (set_eqb str eqb).
Notation first_of := (first_of str is_term).
Notation firstS_loop := (firstS_loop str eqb EMPTY is_term).
Notation firstS := (firstS str eqb EMPTY is_term).
Notation add_token := (add_token str eqb).
Notation add_set_env := (add_set_env str eqb).
Notation prod_step := (prod_step str eqb EMPTY is_term).
Notation round_from := (round_from str eqb EMPTY is_term).
Notation round := (round str eqb EMPTY is_term).
Notation iterate := (iterate str eqb EMPTY is_term).
Notation first_sets := (first_sets str eqb EMPTY is_term).
Notation first1 := (first1 str eqb EMPTY is_term).

Let mem_In := mem_In str eqb eqb_eq.
Let mem_false := mem_false str eqb eqb_eq.
Let add_In := add_In str eqb eqb_eq.
Let add_NoDup := add_NoDup str eqb eqb_eq.
Let add_all_In := add_all_In str eqb eqb_eq.
Let add_all_NoDup := add_all_NoDup str eqb eqb_eq.
Let eqb_refl := eqb_refl str eqb eqb_eq.
Let eqb_neq := eqb_neq str eqb eqb_eq.

(** two representations of the same set (the keys of a Go map in two orders) *)
Definition seteq (a b : list str) : Prop :=
  NoDup a /\ NoDup b /\ forall x, In x a <-> In x b.
Definition env_eq (fs fs' : env) : Prop := forall n, seteq (fs n) (fs' n).

Lemma bool_eq_iff : forall a b : bool, (a = true <-> b = true) -> a = b.
Proof.
  intros [|] [|] [H1 H2]; try reflexivity.
  - symmetry. apply H1. reflexivity.
  - apply H2. reflexivity.
Qed.

Lemma perm_in_iff : forall (o l : list str), Permutation o l -> forall x, In x o <-> In x l.
Proof.
  intros o l H x. split; apply Permutation_in; [exact H|apply Permutation_sym; exact H].
Qed.

Lemma seteq_perm : forall a b, seteq a b -> Permutation a b.
Proof. intros a b [H1 [H2 H3]]. apply NoDup_Permutation; assumption. Qed.

Lemma seteq_nil : seteq [] [].
Proof. split; [constructor|]. split; [constructor|]. tauto. Qed.

Lemma seteq_single : forall s, seteq [s] [s].
Proof.
  intros s. assert (NoDup [s]) by (constructor; [intros []|constructor]).
  split; [assumption|]. split; [assumption|]. tauto.
Qed.

(** SymbolSet.AddSet: same set whatever the iteration orders *)
Lemma seteq_add_all : forall a a' o o',
  seteq a a' -> (forall x, In x o <-> In x o') -> seteq (add_all o a) (add_all o' a').
Proof.
  intros a a' o o' [H1 [H2 H3]] Ho.
  split; [apply add_all_NoDup; exact H1|]. split; [apply add_all_NoDup; exact H2|].
  intros x. rewrite !add_all_In. specialize (H3 x). specialize (Ho x). tauto.
Qed.

Theorem union_iter_order_independent : forall this this' that o o',
  seteq this this' -> Permutation o that -> Permutation o' that ->
  seteq (union_iter o this) (union_iter o' this').
Proof.
  intros this this' that o o' H Ho Ho'. unfold Perm.union_iter. apply seteq_add_all; [exact H|].
  intros x. rewrite (perm_in_iff _ _ Ho x), (perm_in_iff _ _ Ho' x). tauto.
Qed.

Lemma seteq_add : forall a a' t, seteq a a' -> seteq (add t a) (add t a').
Proof.
  intros a a' t [H1 [H2 H3]].
  split; [apply add_NoDup; exact H1|]. split; [apply add_NoDup; exact H2|].
  intros x. rewrite !add_In. specialize (H3 x). tauto.
Qed.

Lemma mem_seteq : forall a a' x, (forall y, In y a <-> In y a') -> mem x a = mem x a'.
Proof. intros a a' x H. apply bool_eq_iff. rewrite !mem_In. apply H. Qed.

Lemma rem_In : forall x l y, In y (rem x l) <-> In y l /\ y <> x.
Proof.
  intros x l y. unfold Perm.rem. rewrite filter_In, negb_true_iff, eqb_neq.
  split; intros [H1 H2]; split; auto.
Qed.

Lemma seteq_rem : forall a a' x, seteq a a' -> seteq (rem x a) (rem x a').
Proof.
  intros a a' x [H1 [H2 H3]].
  split; [apply NoDup_filter; exact H1|]. split; [apply NoDup_filter; exact H2|].
  intros y. rewrite !rem_In. specialize (H3 y). tauto.
Qed.

Lemma set_eqb_respects : forall a a' b b',
  seteq a a' -> seteq b b' -> set_eqb a b = set_eqb a' b'.
Proof.
  intros a a' b b' Ha Hb. unfold Perm.set_eqb.
  rewrite (Permutation_length (seteq_perm _ _ Ha)), (Permutation_length (seteq_perm _ _ Hb)).
  f_equal. apply bool_eq_iff. rewrite !forallb_forall.
  destruct Ha as [_ [_ Ha]]. destruct Hb as [_ [_ Hb]].
  split; intros H x Hx.
  - apply mem_In. apply Hb. apply mem_In. apply H. apply Ha. exact Hx.
  - apply mem_In. apply Hb. apply mem_In. apply H. apply Ha. exact Hx.
Qed.

Lemma first_of_respects : forall fs fs' s,
  env_eq fs fs' -> seteq (first_of fs s) (first_of fs' s).
Proof.
  intros fs fs' s H. unfold Perm.first_of. destruct (is_term s); [apply seteq_single|apply H].
Qed.

(** an oracle family only permutes *)
Definition permuting1 (o : nat -> list str -> list str) : Prop :=
  forall i l, Permutation (o i l) l.

Lemma firstS_loop_respects : forall syms o o' fs fs' i acc acc',
  permuting1 o -> permuting1 o' -> env_eq fs fs' -> seteq acc acc' ->
  seteq (fst (firstS_loop o fs i acc syms)) (fst (firstS_loop o' fs' i acc' syms))
  /\ snd (firstS_loop o fs i acc syms) = snd (firstS_loop o' fs' i acc' syms).
Proof.
  induction syms as [|x r IH]; intros o o' fs fs' i acc acc' Ho Ho' Hfs Hacc.
  - simpl. split; [exact Hacc|reflexivity].
  - cbn [Perm.firstS_loop].
    pose proof (first_of_respects fs fs' x Hfs) as Hf.
    assert (Hacc' : seteq (union_iter (o i (first_of fs x)) acc)
                          (union_iter (o' i (first_of fs' x)) acc')).
    { unfold Perm.union_iter. apply seteq_add_all; [exact Hacc|]. intros y.
      rewrite (perm_in_iff _ _ (Ho i _) y), (perm_in_iff _ _ (Ho' i _) y).
      destruct Hf as [_ [_ Hf]]. apply Hf. }
    rewrite (mem_seteq _ (first_of fs' x) EMPTY (proj2 (proj2 Hf))).
    destruct (mem EMPTY (first_of fs' x)).
    + apply IH; assumption.
    + simpl. split; [exact Hacc'|reflexivity].
Qed.

(** first.FirstS *)
Theorem firstS_respects : forall o o' fs fs' syms,
  permuting1 o -> permuting1 o' -> env_eq fs fs' ->
  seteq (firstS o fs syms) (firstS o' fs' syms).
Proof.
  intros o o' fs fs' syms Ho Ho' Hfs. unfold Perm.firstS.
  destruct (firstS_loop_respects syms o o' fs fs' 0 [] [] Ho Ho' Hfs seteq_nil) as [H1 H2].
  rewrite H2. destruct (snd (firstS_loop o' fs' 0 [] syms)); [exact H1|].
  apply seteq_rem. exact H1.
Qed.

Lemma upd_respects : forall fs fs' id s s',
  env_eq fs fs' -> seteq s s' -> env_eq (upd fs id s) (upd fs' id s').
Proof. intros fs fs' id s s' H Hs n. unfold Perm.upd. destruct (eqb n id); [exact Hs|apply H]. Qed.

Lemma env_eq_ext : forall (f f' g g' : env),
  (forall n, g n = f n) -> (forall n, g' n = f' n) -> env_eq f f' -> env_eq g g'.
Proof. intros f f' g g' H H' E n. rewrite H, H'. apply E. Qed.

Lemma add_token_fst : forall fs id t n,
  fst (add_token fs id t) n = upd fs id (add t (fs id)) n.
Proof.
  intros fs id t n. unfold Perm.add_token, TokMap.add, Perm.upd.
  destruct (mem t (fs id)); simpl; [|reflexivity].
  destruct (eqb n id) eqn:E; [|reflexivity]. apply eqb_eq in E. subst. reflexivity.
Qed.

Lemma add_token_snd : forall fs id t, snd (add_token fs id t) = negb (mem t (fs id)).
Proof. intros. unfold Perm.add_token. destruct (mem t (fs id)); reflexivity. Qed.

Lemma add_token_respects : forall fs fs' id t,
  env_eq fs fs' ->
  env_eq (fst (add_token fs id t)) (fst (add_token fs' id t))
  /\ snd (add_token fs id t) = snd (add_token fs' id t).
Proof.
  intros fs fs' id t H. split.
  - eapply env_eq_ext; [apply add_token_fst|apply add_token_fst|].
    apply upd_respects; [exact H|]. apply seteq_add. apply H.
  - rewrite !add_token_snd. f_equal. apply mem_seteq. apply (H id).
Qed.

(** FirstSets.AddSet: the new set is the union; the flag says whether something was new *)
Lemma add_set_env_char : forall o fs id,
  (forall n, fst (add_set_env o fs id) n = upd fs id (add_all o (fs id)) n)
  /\ (snd (add_set_env o fs id) = true <-> exists x, In x o /\ ~ In x (fs id)).
Proof.
  induction o as [|t o IH] using rev_ind; intros fs id.
  - split.
    + intros n. simpl. unfold Perm.upd. destruct (eqb n id) eqn:E; [|reflexivity].
      apply eqb_eq in E. subst. reflexivity.
    + simpl. split; [discriminate|]. intros [x [[] _]].
  - destruct (IH fs id) as [IH1 IH2].
    unfold Perm.add_set_env in *. rewrite fold_left_app. cbn [fold_left].
    set (st := fold_left
                 (fun st t => (fst (add_token (fst st) id t), snd st || snd (add_token (fst st) id t)))
                 o (fs, false)) in *.
    cbn [fst snd].
    assert (Hid : fst st id = add_all o (fs id)).
    { rewrite IH1. unfold Perm.upd. rewrite eqb_refl. reflexivity. }
    split.
    + intros n. rewrite add_token_fst. unfold Perm.upd.
      destruct (eqb n id) eqn:E.
      * rewrite Hid. unfold TokMap.add_all. rewrite fold_left_app. reflexivity.
      * rewrite IH1. unfold Perm.upd. rewrite E. reflexivity.
    + rewrite orb_true_iff, add_token_snd, negb_true_iff, Hid, IH2. split.
      * intros [[x [H1 H2]]|H].
        -- exists x. split; [apply in_or_app; left; exact H1|exact H2].
        -- apply mem_false in H. exists t. split; [apply in_or_app; right; left; reflexivity|].
           intros Hi. apply H. apply add_all_In. left. exact Hi.
      * intros [x [H1 H2]]. apply in_app_or in H1. destruct H1 as [H1|[<-|[]]].
        -- left. exists x. split; assumption.
        -- destruct (mem t (add_all o (fs id))) eqn:E; [|right; reflexivity].
           left. apply mem_In in E. apply add_all_In in E. destruct E as [E|E]; [contradiction|].
           exists t. split; assumption.
Qed.

Lemma add_set_env_respects : forall o o' fs fs' id,
  env_eq fs fs' -> (forall x, In x o <-> In x o') ->
  env_eq (fst (add_set_env o fs id)) (fst (add_set_env o' fs' id))
  /\ snd (add_set_env o fs id) = snd (add_set_env o' fs' id).
Proof.
  intros o o' fs fs' id H Ho.
  destruct (add_set_env_char o fs id) as [F1 S1].
  destruct (add_set_env_char o' fs' id) as [F2 S2].
  split.
  - eapply env_eq_ext; [exact F1|exact F2|].
    apply upd_respects; [exact H|]. apply seteq_add_all; [apply H|exact Ho].
  - apply bool_eq_iff. rewrite S1, S2.
    destruct (H id) as [_ [_ Hid]].
    split; intros [x [H1 H2]]; exists x; split.
    + apply Ho. exact H1.
    + intros Hi. apply H2. apply Hid. exact Hi.
    + apply Ho. exact H1.
    + intros Hi. apply H2. apply Hid. exact Hi.
Qed.

(** one production of one round of GetFirstSets *)
Theorem prod_step_respects : forall o o' fs fs' p,
  permuting1 o -> permuting1 o' -> env_eq fs fs' ->
  env_eq (fst (prod_step o fs p)) (fst (prod_step o' fs' p))
  /\ snd (prod_step o fs p) = snd (prod_step o' fs' p).
Proof.
  intros o o' fs fs' [id body] Ho Ho' H. unfold Perm.prod_step. cbn [fst snd].
  destruct body as [|x r].
  - apply add_token_respects. exact H.
  - destruct (is_term x).
    + apply add_token_respects. exact H.
    + pose proof (firstS_respects o o' fs fs' (x :: r) Ho Ho' H) as Hf.
      rewrite (set_eqb_respects _ _ _ _ Hf (H id)).
      destruct (set_eqb (firstS o' fs' (x :: r)) (fs' id)).
      * split; [exact H|reflexivity].
      * apply add_set_env_respects; [exact H|]. intros y.
        rewrite (perm_in_iff _ _ (Ho _ _) y), (perm_in_iff _ _ (Ho' _ _) y).
        destruct Hf as [_ [_ Hf]]. apply Hf.
Qed.

Definition permuting2 (o : nat -> nat -> list str -> list str) : Prop :=
  forall k i l, Permutation (o k i l) l.
Definition permuting3 (o : nat -> nat -> nat -> list str -> list str) : Prop :=
  forall r k i l, Permutation (o r k i l) l.

Lemma round_from_respects : forall prods o o' k st st',
  permuting2 o -> permuting2 o' -> env_eq (fst st) (fst st') -> snd st = snd st' ->
  env_eq (fst (round_from o k st prods)) (fst (round_from o' k st' prods))
  /\ snd (round_from o k st prods) = snd (round_from o' k st' prods).
Proof.
  induction prods as [|p ps IH]; intros o o' k st st' Ho Ho' H Hb.
  - simpl. split; assumption.
  - cbn [Perm.round_from].
    destruct (prod_step_respects (o k) (o' k) (fst st) (fst st') p (Ho k) (Ho' k) H) as [H1 H2].
    apply IH; try assumption; cbn [fst snd]; try exact H1. rewrite Hb, H2. reflexivity.
Qed.

(** one round: same sets, same [again] *)
Theorem round_respects : forall prods o o' fs fs',
  permuting2 o -> permuting2 o' -> env_eq fs fs' ->
  env_eq (fst (round o fs prods)) (fst (round o' fs' prods))
  /\ snd (round o fs prods) = snd (round o' fs' prods).
Proof.
  intros. unfold Perm.round. apply round_from_respects; try assumption. reflexivity.
Qed.

Lemma iterate_respects : forall fuel ord ord' r fs fs' prods,
  permuting3 ord -> permuting3 ord' -> env_eq fs fs' ->
  env_eq (fst (iterate ord fuel r fs prods)) (fst (iterate ord' fuel r fs' prods))
  /\ snd (iterate ord fuel r fs prods) = snd (iterate ord' fuel r fs' prods).
Proof.
  induction fuel as [|f IH]; intros ord ord' r fs fs' prods Ho Ho' H.
  - simpl. split; [exact H|reflexivity].
  - cbn [Perm.iterate].
    destruct (round_respects prods (ord r) (ord' r) fs fs' (Ho r) (Ho' r) H) as [H1 H2].
    rewrite H2. destruct (snd (round (ord' r) fs' prods)).
    + apply IH; assumption.
    + simpl. split; [exact H1|reflexivity].
Qed.

(** GetFirstSets: whatever the iteration orders, every FIRST set is the same set, and the
    loop stops after the same number of rounds (same "out of fuel" flag for every fuel) *)
Theorem first_sets_order_independent : forall ord ord' fuel prods,
  permuting3 ord -> permuting3 ord' ->
  env_eq (fst (first_sets ord fuel prods)) (fst (first_sets ord' fuel prods))
  /\ snd (first_sets ord fuel prods) = snd (first_sets ord' fuel prods).
Proof.
  intros. unfold Perm.first_sets. apply iterate_respects; try assumption.
  intros n. apply seteq_nil.
Qed.

(** the FIRST sets are sets: no duplicates *)
Corollary first_sets_NoDup : forall ord fuel prods n,
  permuting3 ord -> NoDup (fst (first_sets ord fuel prods) n).
Proof.
  intros ord fuel prods n Ho.
  destruct (first_sets_order_independent ord ord fuel prods Ho Ho) as [H _].
  destruct (H n) as [H1 _]. exact H1.
Qed.

(** items.first1: the sorted key list handed to the LR(1) closure is the same LIST *)
Theorem first1_order_independent :
  forall (leb : str -> str -> bool),
  (forall a b, leb a b = true \/ leb b a = true) ->
  (forall a b c, leb a b = true -> leb b c = true -> leb a c = true) ->
  (forall a b, leb a b = true -> leb b a = true -> a = b) ->
  forall o o' (pm pm' : list str -> list str) fs fs' syms following,
  permuting1 o -> permuting1 o' ->
  (forall l, Permutation (pm l) l) -> (forall l, Permutation (pm' l) l) ->
  env_eq fs fs' ->
  first1 leb o pm fs syms following = first1 leb o' pm' fs' syms following.
Proof.
  intros leb T1 T2 T3 o o' pm pm' fs fs' syms following Ho Ho' Hp Hp' H.
  unfold Perm.first1. apply (isort_perm_eq str leb T1 T2 T3).
  pose proof (firstS_respects o o' fs fs' (syms ++ [following]) Ho Ho' H) as Hf.
  apply perm_trans with (firstS o fs (syms ++ [following])); [apply Hp|].
  apply perm_trans with (firstS o' fs' (syms ++ [following])); [apply seteq_perm; exact Hf|].
  apply Permutation_sym. apply Hp'.
Qed.

End FirstProofs.

(* ------------------------------------------------------------------------- *)
(** * (3) ItemSet.Action *)

Theorem action_order_independent : forall pm pm' cs cs',
  (forall l, Permutation (pm l) l) -> (forall l, Permutation (pm' l) l) ->
  Permutation cs cs' ->
  match action_go pm cs, action_go pm' cs' with
  | None, None => True
  | Some (w, cf), Some (w', cf') => w = w' /\ Permutation cf cf' /\ length cf = length cf'
  | _, _ => False
  end.
Proof.
  intros pm pm' cs cs' Hp Hp' HP. unfold action_go.
  pose proof (row_action_perm cs cs' HP) as H.
  destruct (row_action cs) as [[w cf]|], (row_action cs') as [[w' cf']|]; try exact H.
  destruct H as [H1 H2]. split; [exact H1|].
  assert (P : Permutation (pm cf) (pm' cf')).
  { apply perm_trans with cf; [apply Hp|]. apply perm_trans with cf'; [exact H2|].
    apply Permutation_sym. apply Hp'. }
  split; [exact P|apply Permutation_length; exact P].
Qed.

(* ------------------------------------------------------------------------- *)
(** * The string instance: lexicographic order on code points *)

Lemma lex_leb_total : forall a b, lex_leb a b = true \/ lex_leb b a = true.
Proof.
  induction a as [|x a IH]; intros [|y b]; simpl; auto.
  destruct (Z.ltb_spec x y), (Z.ltb_spec y x); auto; try lia.
  assert (x = y) as -> by lia. rewrite Z.eqb_refl. apply IH.
Qed.

Lemma lex_leb_trans : forall a b c,
  lex_leb a b = true -> lex_leb b c = true -> lex_leb a c = true.
Proof.
  induction a as [|x a IH]; intros [|y b] [|z c]; simpl; auto; try discriminate.
  destruct (Z.ltb_spec x y), (Z.ltb_spec y z), (Z.ltb_spec x z); auto; try lia;
    destruct (Z.eqb_spec x y), (Z.eqb_spec y z), (Z.eqb_spec x z);
    try discriminate; try lia; auto.
  apply IH.
Qed.

Lemma lex_leb_antisym : forall a b, lex_leb a b = true -> lex_leb b a = true -> a = b.
Proof.
  induction a as [|x a IH]; intros [|y b]; simpl; auto; try discriminate.
  destruct (Z.ltb_spec x y), (Z.ltb_spec y x); try lia; try discriminate;
    destruct (Z.eqb_spec x y), (Z.eqb_spec y x); try discriminate; try lia.
  intros H1 H2. f_equal; [assumption|apply IH; assumption].
Qed.

Theorem token_ids_z_order_independent : forall order order',
  Permutation order order' -> token_ids_z order = token_ids_z order'.
Proof.
  intros. unfold token_ids_z.
  apply (token_ids_order_independent _ lex_leb lex_leb_total lex_leb_trans lex_leb_antisym).
  assumption.
Qed.

Theorem terminals_z_lex_order_independent : forall prods order order',
  Permutation order order' ->
  terminals_z prods (token_ids_z order) = terminals_z prods (token_ids_z order').
Proof. intros. rewrite (token_ids_z_order_independent order order'); [reflexivity|assumption]. Qed.

Local Open Scope Z_scope.
(** "id", "a", "b", "ab" in two map orders *)
Example ex_token_ids :
  token_ids_z [[105; 100]; [97]; [98]; [97; 98]] = [[97]; [97; 98]; [98]; [105; 100]]
  /\ token_ids_z [[98]; [97; 98]; [105; 100]; [97]] = [[97]; [97; 98]; [98]; [105; 100]].
Proof. split; vm_compute; reflexivity. Qed.

(** FIRST sets of  S : A b | c ;  A : empty | a ;  with identity and reversing oracles
    (names: S=[83] A=[65] a=[97] b=[98] c=[99] empty=[0]); read at S *)
Definition ex_prods : list (list Z * list (list Z)) :=
  [([83], [[65]; [98]]); ([83], [[99]]); ([65], []); ([65], [[97]])].
Definition ex_is_term (s : list Z) : bool := negb (zstr_eqb s [83] || zstr_eqb s [65]).
Example ex_first_id :
  let r := first_sets (list Z) zstr_eqb [0] ex_is_term (fun _ _ _ l => l) 10 ex_prods in
  (fst r [83], fst r [65], snd r) = ([[99]; [97]; [98]], [[0]; [97]], false).
Proof. vm_compute. reflexivity. Qed.
Example ex_first_rev :
  let r := first_sets (list Z) zstr_eqb [0] ex_is_term (fun _ _ _ l => rev l) 10 ex_prods in
  (fst r [83], fst r [65], snd r) = ([[99]; [98]; [97]], [[0]; [97]], false).
Proof. vm_compute. reflexivity. Qed.

Print Assumptions sort_unique.
Print Assumptions isort_perm_eq.
Print Assumptions token_ids_order_independent.
Print Assumptions terminals_lex_order_independent.
Print Assumptions union_iter_order_independent.
Print Assumptions firstS_respects.
Print Assumptions prod_step_respects.
Print Assumptions round_respects.
Print Assumptions first_sets_order_independent.
Print Assumptions first1_order_independent.
Print Assumptions action_order_independent.
Print Assumptions token_ids_z_order_independent.
Print Assumptions terminals_z_lex_order_independent.
