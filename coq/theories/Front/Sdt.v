(** Model of frontend/token.Token.SDTVal: the rewriting of action expressions
    ($i -> X[i], $Ti -> X[i].( *token.Token), $Context -> C; the enclosing << >> and surrounding ASCII white
    space removed).  The Go code uses the regular expression  \$(?:[0-9]+|T[0-9]+|Context)  with leftmost,
    first-alternative, greedy matching.  Bytes are [Z].  Definitions only.
    (strings.TrimSpace also trims non-ASCII Unicode spaces; the model trims the ASCII ones only.) *)
From Coq Require Import List ZArith Bool.
Import ListNotations.
Open Scope Z_scope.

Definition is_digit (b : Z) : bool := (48 <=? b) && (b <=? 57).

Fixpoint span_digits (l : list Z) : list Z * list Z :=
  match l with
  | b :: t => if is_digit b then let '(d, r) := span_digits t in (b :: d, r) else ([], l)
  | [] => ([], [])
  end.

Fixpoint strip_prefix (p l : list Z) : option (list Z) :=
  match p, l with
  | [], _ => Some l
  | a :: p', b :: l' => if a =? b then strip_prefix p' l' else None
  | _ :: _, [] => None
  end.

Definition s_context : list Z := [67; 111; 110; 116; 101; 120; 116].            (* "Context" *)
Definition s_x_open : list Z := [88; 91].                                          (* "X[" *)
Definition s_close : list Z := [93].                                               (* "]" *)
Definition s_tok : list Z := [93; 46; 40; 42; 116; 111; 107; 101; 110; 46; 84; 111; 107; 101; 110; 41]. (* the string ].( *token.Token) without the blank *)

(** one match attempt right after a '$': Some (replacement, rest) or None *)
Definition match_ref (t : list Z) : option (list Z * list Z) :=
  match span_digits t with
  | (d :: ds, r) => Some (s_x_open ++ (d :: ds) ++ s_close, r)
  | ([], _) =>
    match t with
    | 84 :: t' =>                                                                 (* 'T' *)
      match span_digits t' with
      | (d :: ds, r) => Some (s_x_open ++ (d :: ds) ++ s_tok, r)
      | ([], _) => None
      end
    | _ =>
      match strip_prefix s_context t with
      | Some r => Some ([67], r)                                                  (* "C" *)
      | None => None
      end
    end
  end.

Fixpoint rewrite (fuel : nat) (l : list Z) : list Z :=
  match fuel with
  | O => l
  | S f =>
    match l with
    | [] => []
    | 36 :: t =>                                                                  (* '$' *)
      match match_ref t with
      | Some (rep, r) => rep ++ rewrite f r
      | None => 36 :: rewrite f t
      end
    | b :: t => b :: rewrite f t
    end
  end.

Definition is_space (b : Z) : bool := ((9 <=? b) && (b <=? 13)) || (b =? 32).
Fixpoint trim_left (l : list Z) : list Z :=
  match l with b :: t => if is_space b then trim_left t else l | [] => [] end.
Definition trim (l : list Z) : list Z := rev (trim_left (rev (trim_left l))).

(** SDTVal: rewrite the whole literal, drop the first two and last two bytes ("<<", ">>"), trim *)
Definition sdt_val (lit : list Z) : list Z :=
  let r := rewrite (length lit) lit in
  trim (firstn (length r - 4) (skipn 2 r)).
