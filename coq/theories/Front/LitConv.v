(** Model of gocc's rune-literal decoder:
      internal/util/litconv.go            LitToRune / escapeCharVal / digitVal
      internal/util/gen/golang/litconv.go RuneValue (identical copy emitted into generated code)

    A literal is the byte list of the token INCLUDING both quote characters (bytes are
    [Z] in 0..255).  [None] models a Go panic: the explicit [panic(...)] calls and the
    implicit index-out-of-range panics of [lit[1]] and [lit[2]] on too-short input.

    The model is a line-by-line transliteration of the Go control flow, meant to be
    extracted and run against the Go code.  Points worth noting:

    - The Go code never looks at lit[0] or at the last byte: the quotes are NOT checked.
    - The digit loop is [for ; i > 0 && offset < len(lit)-1; i--]: it stops EARLY (without
      panic) when it reaches the last byte, so escapes with too few digits are accepted;
      and nothing checks that the loop consumed everything up to the closing quote, so
      trailing bytes after a complete escape are ignored.
    - [i] (uint32, one of 2,3,4,8) is the structural fuel [nat] argument of [esc_loop].
    - [offset] and [len(lit)] are Go [int]s; they are modelled by unbounded [Z] (they are
      bounded by the literal length, no overflow possible).
    - [x], [base], [max], [d] are Go [uint32]s.  [d = uint32(digitVal ch)] is in 0..16, no
      wrap.  The only operation that could wrap is [x = x*base + d]; the model applies
      [u32] (reduction mod 2^32) there, exactly as Go does.  The wrap never fires: the
      loop runs at most i <= 8 times with base <= 16 and d < base, so x < 16^8 = 2^32
      throughout (proved: [LitConvProofs.esc_loop_no_wrap]).
    - [utf8.DecodeRune] is [Utf8.decode_rune]; [lit[offset:]] is [skipn offset lit]
      (inside the loop offset < len(lit)-1, so the slice expression cannot panic;
      [lit[1:]] in LitToRune is evaluated only after [lit[1]] succeeded).
    - [rune(x)] at the end: x <= max <= 0x10FFFF, so the uint32 -> int32 conversion is
      the identity.

    Definitions only; proofs are in LitConvProofs.v. *)
From Coq Require Import List ZArith Bool.
From Gocc Require Import Base.Utf8.
Import ListNotations.
Open Scope Z_scope.

(** Go: func digitVal(ch rune) int *)
Definition digit_val (ch : Z) : Z :=
  if (48 <=? ch) && (ch <=? 57) then ch - 48              (* '0'..'9' *)
  else if (97 <=? ch) && (ch <=? 102) then ch - 97 + 10   (* 'a'..'f' *)
  else if (65 <=? ch) && (ch <=? 70) then ch - 65 + 10    (* 'A'..'F' *)
  else 16.

(** uint32 truncation *)
Definition u32 (x : Z) : Z := x mod 4294967296.

Definition max_rune : Z := 1114111.  (* unicode.MaxRune = 0x10FFFF *)

(** lit[i] with Go's bounds check *)
Definition byte_at (lit : list Z) (i : Z) : option Z :=
  if i <? 0 then None else nth_error lit (Z.to_nat i).

(** The loop
      for ; i > 0 && offset < len(lit)-1; i-- {
        ch, size := utf8.DecodeRune(lit[offset:]); offset += size
        d := uint32(digitVal(ch))
        if d >= base { panic }
        x = x*base + d
      }
    Returns the final x, or None on panic.  [len] = len(lit). *)
Fixpoint esc_loop (lit : list Z) (len : Z) (i : nat) (base x offset : Z) : option Z :=
  match i with
  | O => Some x
  | S i' =>
    if offset <? len - 1 then
      let '(ch, size) := decode_rune (skipn (Z.to_nat offset) lit) in
      let offset' := offset + Z.of_nat size in
      let d := u32 (digit_val ch) in
      if d >=? base then None
      else esc_loop lit len i' base (u32 (x * base + d)) offset'
    else Some x
  end.

(** The part of escapeCharVal after the switch: loop, then range check. *)
Definition esc_number (lit : list Z) (i : nat) (base max offset : Z) : option Z :=
  match esc_loop lit (Z.of_nat (length lit)) i base 0 offset with
  | None => None
  | Some x =>
    if (x >? max) || ((55296 <=? x) && (x <? 57344)) then None else Some x
  end.

(** Go: func escapeCharVal(lit []byte) rune *)
Definition escape_char_val (lit : list Z) : option Z :=
  match byte_at lit 2 with
  | None => None                                   (* index out of range *)
  | Some c =>
    if c =? 97 then Some 7                         (* 'a' -> '\a' *)
    else if c =? 98 then Some 8                    (* 'b' -> '\b' *)
    else if c =? 102 then Some 12                  (* 'f' -> '\f' *)
    else if c =? 110 then Some 10                  (* 'n' -> '\n' *)
    else if c =? 114 then Some 13                  (* 'r' -> '\r' *)
    else if c =? 116 then Some 9                   (* 't' -> '\t' *)
    else if c =? 118 then Some 11                  (* 'v' -> '\v' *)
    else if c =? 92 then Some 92                   (* '\\' *)
    else if c =? 39 then Some 39                   (* '\'' *)
    else if (48 <=? c) && (c <=? 55) then esc_number lit 3 8 255 2          (* '0'..'7' *)
    else if c =? 120 then esc_number lit 2 16 255 3                         (* 'x' *)
    else if c =? 117 then esc_number lit 4 16 max_rune 3                    (* 'u' *)
    else if c =? 85 then esc_number lit 8 16 max_rune 3                     (* 'U' *)
    else None                                                               (* default: panic *)
  end.

(** Go: func LitToRune(lit []byte) rune   (= RuneValue in generated code) *)
Definition lit_to_rune (lit : list Z) : option Z :=
  match byte_at lit 1 with
  | None => None                                   (* index out of range *)
  | Some b1 =>
    if b1 =? 92 then escape_char_val lit
    else
      let '(r, size) := decode_rune (skipn 1 lit) in
      if Z.of_nat size =? Z.of_nat (length lit) - 2 then Some r else None
  end.
