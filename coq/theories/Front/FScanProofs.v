(** Proofs about the model of gocc's hand-written front-end scanner (Front/FScan.v).

    (a) TOTALITY
        fscan_opt_total           fscan_all never runs out of fuel
        fscan_all_ends_with_eof   its token list is non-EOF tokens followed by exactly one EOF
    (c) LITERALS AND OFFSETS
        fscan_all_lits, tok_lit_slice   f_lit t = src[f_off t : f_off t + len]  (all token kinds)
        fscan_all_offsets               tokens do not overlap and offsets strictly increase
    (b) LAYOUT  (strip t = (f_type t, f_lit t);  toks src = map strip (fst (fscan_all src)))
        is_layout ws       ws is a sequence of blanks (space, tab, CR, LF), line comments
                           INCLUDING their terminating newline, and block comments whose body does
                           not contain the closing pair
        boundary pre suf   after some complete Scan calls on pre ++ suf (none returning EOF) the
                           scanner is about to start a Scan call exactly at suf
        boundary_start, boundary_token_end
                           offset 0 and the end offset of every non-EOF token reported by
                           fscan_all are boundaries
        toks_layout        toks (ws ++ suf) = toks suf            (leading layout, any suf)
        layout_insert      toks (pre ++ ws ++ suf) = toks (pre ++ suf) for a boundary pre|suf with
                           suf <> [], suf not starting with a UTF-8 continuation byte, and, if pre
                           ends with a slash, ws starting with a blank
        layout_insert_in_layout
                           toks (pre ++ L1 ++ ws ++ suf) = toks (pre ++ L1 ++ suf) for a boundary
                           pre | L1 ++ suf with L1 a nonempty layout (no other condition; suf may
                           be empty)
        Read right to left the equations are the deletion of layout.  All input bytes are
        assumed nonnegative ([nonneg]); Go bytes are 0..255.
        NOT covered, with counterexamples [not_covered_*] at the end of the file: a comment
        right after the lone slash token; layout appended at end of file directly after the
        last token (only an unterminated literal/comment makes a difference there, but the
        theorem needs a nonempty rest: put the layout in front of an existing final newline);
        the point between a line comment and its newline; positions inside tokens, literals,
        SDTs, comments.
    Supporting development: every scanning function only moves forward ([adv]); a simulation
    between two runs on inputs c ++ X and c ++ Y that holds as long as the first run does not
    go beyond X ([scan_sim]); instantiated with X = Y = [] it gives independence of tokens
    from positions, error count and fuel ([scan_indep], [scan1], [toks_step]). *)
From Coq Require Import List ZArith Lia Bool Arith Sorted.
From Gocc Require Import Base.Utf8 Front.FUnicode Front.FScan.
Import ListNotations.
Open Scope Z_scope.

(** * Basic facts about [read] and [next] *)

Lemma decode_rune_width : forall b t,
  (1 <= snd (decode_rune (b :: t)) <= length (b :: t))%nat.
Proof.
  intros b t. unfold decode_rune.
  destruct (b <? 128); [cbn; lia|].
  destruct (in_rng 194 223 b).
  { destruct t as [|b1 t]; [cbn; lia|]. destruct (cont b1); cbn; lia. }
  destruct (in_rng 224 239 b).
  { destruct t as [|b1 [|b2 t]]; try (cbn; lia).
    match goal with |- context [if ?c then _ else _] => destruct c end; cbn; lia. }
  destruct (in_rng 240 244 b).
  { destruct t as [|b1 [|b2 [|b3 t]]]; try (cbn; lia).
    match goal with |- context [if ?c then _ else _] => destruct c end; cbn; lia. }
  cbn; lia.
Qed.

Lemma read_width : forall b t, (1 <= snd (read (b :: t)) <= length (b :: t))%nat.
Proof.
  intros b t. unfold read. destruct (b =? 0); [cbn; lia|].
  destruct (b >=? 80); [apply decode_rune_width | cbn; lia].
Qed.

Lemma read_nil : read [] = (-1, 0%nat).
Proof. reflexivity. Qed.

Definition len (st : state) : nat := length (s_cur st).

Lemma next_cur : forall st, s_cur (next st) = skipn (snd (read (s_cur st))) (s_cur st).
Proof.
  intro st. unfold next. destruct (skipn (snd (read (s_cur st))) (s_cur st)); reflexivity.
Qed.

Lemma next_po : forall st, s_po (next st) = s_po st + Z.of_nat (snd (read (s_cur st))).
Proof.
  intro st. unfold next. destruct (skipn (snd (read (s_cur st))) (s_cur st)); reflexivity.
Qed.

Lemma add_err_cur : forall st, s_cur (add_err st) = s_cur st.
Proof. reflexivity. Qed.
Lemma add_err_po : forall st, s_po (add_err st) = s_po st.
Proof. reflexivity. Qed.
Lemma ch_add_err : forall st, ch (add_err st) = ch st.
Proof. reflexivity. Qed.

(** [adv st r]: [r] is [st] after consuming some prefix [p] of the remaining input. *)
Definition adv (st r : state) : Prop :=
  exists p, s_cur st = p ++ s_cur r /\ s_po r = s_po st + Z.of_nat (length p).

Lemma adv_refl : forall st, adv st st.
Proof. intro st. exists []. split; [reflexivity | cbn; lia]. Qed.

Lemma adv_trans : forall a b c, adv a b -> adv b c -> adv a c.
Proof.
  intros a b c (p & Hp & Pp) (q & Hq & Pq). exists (p ++ q). split.
  - rewrite Hp, Hq, app_assoc. reflexivity.
  - rewrite app_length. lia.
Qed.

Lemma adv_next : forall st, adv st (next st).
Proof.
  intro st. exists (firstn (snd (read (s_cur st))) (s_cur st)). split.
  - rewrite next_cur, firstn_skipn. reflexivity.
  - rewrite next_po, firstn_length. f_equal. f_equal.
    destruct (s_cur st) as [|b t]; [reflexivity|].
    pose proof (read_width b t). lia.
Qed.

Lemma adv_add_err : forall st, adv st (add_err st).
Proof. intro st. exists []. split; [reflexivity | cbn; lia]. Qed.

Lemma adv_len : forall st r, adv st r -> (len r <= len st)%nat.
Proof. intros st r (p & Hp & _). unfold len. rewrite Hp, app_length. lia. Qed.

Lemma ch_nonneg_cons : forall st, ch st <> -1 -> exists b t, s_cur st = b :: t.
Proof.
  intros st H. unfold ch in H. destruct (s_cur st) as [|b t]; [exfalso; apply H; reflexivity|].
  eauto.
Qed.

(** consuming a real character makes the input strictly shorter *)
Lemma next_len_lt : forall st, ch st <> -1 -> (len (next st) < len st)%nat.
Proof.
  intros st H. destruct (ch_nonneg_cons st H) as (b & t & E).
  unfold len. rewrite next_cur, E, skipn_length. pose proof (read_width b t). lia.
Qed.

Lemma next_len_le : forall st, (len (next st) <= len st)%nat.
Proof. intro st. apply adv_len, adv_next. Qed.

(** * Every scanning function only moves forward ([adv]) *)

Local Hint Resolve adv_refl adv_next adv_add_err : adv.

Ltac adv_tr :=
  repeat match goal with
  | |- adv ?a ?a => apply adv_refl
  | |- adv ?a (next ?b) => apply (adv_trans a b (next b)); [|apply adv_next]
  | |- adv ?a (add_err ?b) => apply (adv_trans a b (add_err b)); [|apply adv_add_err]
  end.

Lemma adv_line_directive : forall c0 col0 st, adv st (line_directive c0 col0 st).
Proof.
  intros c0 col0 st. unfold line_directive.
  destruct (col0 =? 1); [|apply adv_refl].
  destruct (has_prefix _ _); [|apply adv_refl].
  destruct (after_colon _); [|apply adv_refl].
  destruct (atoi_pos _); [|apply adv_refl].
  exists []. split; [reflexivity | cbn; lia].
Qed.

Lemma skip_ws_adv : forall fuel st r, skip_ws fuel st = Some r -> adv st r.
Proof.
  induction fuel as [|f IH]; intros st r H; [discriminate|]. cbn [skip_ws] in H.
  destruct (is_blank (ch st)).
  - apply IH in H. eapply adv_trans; [apply adv_next | exact H].
  - inversion H; subst. apply adv_refl.
Qed.

Lemma line_comment_adv : forall fuel c0 col0 st r,
  line_comment fuel c0 col0 st = Some r -> adv st r.
Proof.
  induction fuel as [|f IH]; intros c0 col0 st r H; [discriminate|]. cbn [line_comment] in H.
  destruct (ch st >=? 0).
  - destruct (ch (next st) =? 10).
    + inversion H; subst. eapply adv_trans; [apply adv_next | apply adv_line_directive].
    + apply IH in H. eapply adv_trans; [apply adv_next | exact H].
  - inversion H; subst. apply adv_add_err.
Qed.

Lemma block_comment_adv : forall fuel st r, block_comment fuel st = Some r -> adv st r.
Proof.
  induction fuel as [|f IH]; intros st r H; [discriminate|]. cbn [block_comment] in H.
  destruct (ch st >=? 0).
  - destruct ((ch st =? 42) && (ch (next st) =? 47)).
    + inversion H; subst. adv_tr.
    + apply IH in H. eapply adv_trans; [apply adv_next | exact H].
  - inversion H; subst. apply adv_add_err.
Qed.

Lemma expect_adv : forall c st, adv st (expect c st).
Proof. intros c st. unfold expect. destruct (ch st =? c); adv_tr. Qed.

Lemma scan_comment_adv : forall F st0 st r, scan_comment F st0 st = Some r -> adv st r.
Proof.
  intros F st0 st r H. unfold scan_comment in H. destruct (ch st =? 47).
  - eapply line_comment_adv; exact H.
  - apply block_comment_adv in H. eapply adv_trans; [apply expect_adv | exact H].
Qed.

Lemma esc_digits_adv : forall i base x st, adv st (fst (esc_digits i base x st)).
Proof.
  induction i as [|i IH]; intros base x st; cbn [esc_digits]; [apply adv_refl|].
  destruct (fdigit_val (ch st) >? base); cbn [fst]; [apply adv_add_err|].
  eapply adv_trans; [apply adv_next | apply IH].
Qed.

Lemma esc_number_adv : forall i base mx st, adv st (esc_number i base mx st).
Proof.
  intros i base mx st. unfold esc_number.
  pose proof (esc_digits_adv i base 0 st) as H.
  destruct (esc_digits i base 0 st) as [st' [x|]]; cbn [fst] in H; [|exact H].
  destruct ((x >? mx) || _); [|exact H]. eapply adv_trans; [exact H | apply adv_add_err].
Qed.

Lemma scan_escape_adv : forall q st, adv st (scan_escape q st).
Proof.
  intros q st. unfold scan_escape.
  repeat match goal with
  | |- adv _ (if ?b then _ else _) => destruct b
  end; try (eapply adv_trans; [apply adv_next | apply esc_number_adv]);
  try apply esc_number_adv; adv_tr.
Qed.

Lemma scan_string_adv : forall fuel st r, scan_string fuel st = Some r -> adv st r.
Proof.
  induction fuel as [|f IH]; intros st r H; [discriminate|]. cbn [scan_string] in H.
  destruct (ch st =? 34); [inversion H; subst; adv_tr|].
  destruct ((ch st =? 10) || (ch st <? 0)); [inversion H; subst; adv_tr|].
  destruct (ch st =? 92); apply IH in H.
  - eapply adv_trans; [apply adv_next|]. eapply adv_trans; [apply scan_escape_adv | exact H].
  - eapply adv_trans; [apply adv_next | exact H].
Qed.

Lemma char_finish_adv : forall n st, adv st (char_finish n st).
Proof. intros n st. unfold char_finish. destruct (n =? 1); adv_tr. Qed.

Lemma scan_char_adv : forall fuel n st r, scan_char fuel n st = Some r -> adv st r.
Proof.
  induction fuel as [|f IH]; intros n st r H; [discriminate|]. cbn [scan_char] in H.
  destruct (ch st =? 39).
  { inversion H; subst. eapply adv_trans; [apply adv_next | apply char_finish_adv]. }
  destruct ((ch st =? 10) || (ch st <? 0)).
  { inversion H; subst. eapply adv_trans; [|apply char_finish_adv]. adv_tr. }
  destruct (ch st =? 92); apply IH in H.
  - eapply adv_trans; [apply adv_next|]. eapply adv_trans; [apply scan_escape_adv | exact H].
  - eapply adv_trans; [apply adv_next | exact H].
Qed.

Lemma scan_raw_adv : forall fuel st r, scan_raw fuel st = Some r -> adv st r.
Proof.
  induction fuel as [|f IH]; intros st r H; [discriminate|]. cbn [scan_raw] in H.
  destruct (ch st =? 96); [inversion H; subst; adv_tr|].
  destruct (ch st <? 0); [inversion H; subst; adv_tr|].
  apply IH in H. eapply adv_trans; [apply adv_next | exact H].
Qed.

Lemma sdt_loop_adv : forall fuel st r, sdt_loop fuel st = Some r -> adv st r.
Proof.
  induction fuel as [|f IH]; intros st r H; [discriminate|]. cbn [sdt_loop] in H.
  destruct (ch st <? 0); [inversion H; subst; adv_tr|].
  destruct (ch st =? 62).
  - destruct (ch (next st) =? 62); [inversion H; subst; adv_tr|].
    apply IH in H. eapply adv_trans; [|exact H]. adv_tr.
  - apply IH in H. eapply adv_trans; [apply adv_next | exact H].
Qed.

Lemma scan_sdt_adv : forall F st r, scan_sdt F st = Some r -> adv st r.
Proof.
  intros F st r H. unfold scan_sdt in H. apply sdt_loop_adv in H.
  eapply adv_trans; [apply adv_next | exact H].
Qed.

Lemma ident_loop_adv : forall fuel st r, ident_loop fuel st = Some r -> adv st r.
Proof.
  induction fuel as [|f IH]; intros st r H; [discriminate|]. cbn [ident_loop] in H.
  destruct (ident_char (ch st)).
  - apply IH in H. eapply adv_trans; [apply adv_next | exact H].
  - inversion H; subst. apply adv_refl.
Qed.

(** * Fuel: no loop can run out of it *)

Lemma ch_eof : forall st, s_cur st = [] -> ch st = -1.
Proof. intros st H. unfold ch. rewrite H. reflexivity. Qed.

Lemma is_blank_not_eof : forall c, is_blank c = true -> c <> -1.
Proof. intros c H ->. discriminate H. Qed.

Lemma ident_char_not_eof : forall c, ident_char c = true -> c <> -1.
Proof. intros c H ->. vm_compute in H. discriminate H. Qed.

Lemma geb0_not_eof : forall c, (c >=? 0) = true -> c <> -1.
Proof. intros c H ->. discriminate H. Qed.

Lemma ltb0_false_not_eof : forall c, (c <? 0) = false -> c <> -1.
Proof. intros c H ->. discriminate H. Qed.

Lemma nl_or_eof_false : forall c, ((c =? 10) || (c <? 0)) = false -> c <> -1.
Proof. intros c H ->. discriminate H. Qed.

Lemma skip_ws_total : forall fuel st, (len st < fuel)%nat -> exists r, skip_ws fuel st = Some r.
Proof.
  induction fuel as [|f IH]; intros st L; [lia|]. cbn [skip_ws].
  destruct (is_blank (ch st)) eqn:B; [|eauto].
  apply IH. apply is_blank_not_eof, next_len_lt in B. lia.
Qed.

Lemma line_comment_total : forall fuel c0 col0 st, (len st < fuel)%nat ->
  exists r, line_comment fuel c0 col0 st = Some r.
Proof.
  induction fuel as [|f IH]; intros c0 col0 st L; [lia|]. cbn [line_comment].
  destruct (ch st >=? 0) eqn:B; [|eauto].
  destruct (ch (next st) =? 10); [eauto|].
  apply IH. apply geb0_not_eof, next_len_lt in B. lia.
Qed.

Lemma block_comment_total : forall fuel st, (len st < fuel)%nat ->
  exists r, block_comment fuel st = Some r.
Proof.
  induction fuel as [|f IH]; intros st L; [lia|]. cbn [block_comment].
  destruct (ch st >=? 0) eqn:B; [|eauto].
  destruct ((ch st =? 42) && (ch (next st) =? 47)); [eauto|].
  apply IH. apply geb0_not_eof, next_len_lt in B. lia.
Qed.

Lemma scan_comment_total : forall F st0 st, (len st < F)%nat ->
  exists r, scan_comment F st0 st = Some r.
Proof.
  intros F st0 st L. unfold scan_comment. destruct (ch st =? 47).
  - apply line_comment_total. exact L.
  - apply block_comment_total. pose proof (adv_len _ _ (expect_adv 42 st)). lia.
Qed.

Lemma scan_string_total : forall fuel st, (len st < fuel)%nat ->
  exists r, scan_string fuel st = Some r.
Proof.
  induction fuel as [|f IH]; intros st L; [lia|]. cbn [scan_string].
  destruct (ch st =? 34); [eauto|].
  destruct ((ch st =? 10) || (ch st <? 0)) eqn:B; [eauto|].
  apply nl_or_eof_false, next_len_lt in B.
  destruct (ch st =? 92); apply IH; [|lia].
  pose proof (adv_len _ _ (scan_escape_adv 34 (next st))). lia.
Qed.

Lemma scan_char_total : forall fuel n st, (len st < fuel)%nat ->
  exists r, scan_char fuel n st = Some r.
Proof.
  induction fuel as [|f IH]; intros n st L; [lia|]. cbn [scan_char].
  destruct (ch st =? 39); [eauto|].
  destruct ((ch st =? 10) || (ch st <? 0)) eqn:B; [eauto|].
  apply nl_or_eof_false, next_len_lt in B.
  destruct (ch st =? 92); apply IH; [|lia].
  pose proof (adv_len _ _ (scan_escape_adv 39 (next st))). lia.
Qed.

Lemma scan_raw_total : forall fuel st, (len st < fuel)%nat ->
  exists r, scan_raw fuel st = Some r.
Proof.
  induction fuel as [|f IH]; intros st L; [lia|]. cbn [scan_raw].
  destruct (ch st =? 96); [eauto|].
  destruct (ch st <? 0) eqn:B; [eauto|].
  apply IH. apply ltb0_false_not_eof, next_len_lt in B. lia.
Qed.

Lemma sdt_loop_total : forall fuel st, (len st < fuel)%nat ->
  exists r, sdt_loop fuel st = Some r.
Proof.
  induction fuel as [|f IH]; intros st L; [lia|]. cbn [sdt_loop].
  destruct (ch st <? 0) eqn:B; [eauto|].
  apply ltb0_false_not_eof, next_len_lt in B.
  destruct (ch st =? 62).
  - destruct (ch (next st) =? 62); [eauto|]. apply IH.
    pose proof (next_len_le (next st)). lia.
  - apply IH. lia.
Qed.

Lemma scan_sdt_total : forall F st, (len st < F)%nat -> exists r, scan_sdt F st = Some r.
Proof.
  intros F st L. unfold scan_sdt. apply sdt_loop_total.
  pose proof (next_len_le st). lia.
Qed.

Lemma ident_loop_total : forall fuel st, (len st < fuel)%nat ->
  exists r, ident_loop fuel st = Some r.
Proof.
  induction fuel as [|f IH]; intros st L; [lia|]. cbn [ident_loop].
  destruct (ident_char (ch st)) eqn:B; [|eauto].
  apply IH. apply ident_char_not_eof, next_len_lt in B. lia.
Qed.

Lemma ident_loop_strict : forall fuel st r, ident_char (ch st) = true ->
  ident_loop fuel st = Some r -> (len r < len st)%nat.
Proof.
  intros [|f] st r B H; [discriminate|]. cbn [ident_loop] in H. rewrite B in H.
  apply ident_loop_adv, adv_len in H.
  apply ident_char_not_eof, next_len_lt in B. lia.
Qed.

(** * One call of Scan *)

(** [tok_ok st t st']: the call skipped from [st] to the token start [st0], the token is
    the input between [st0] and [st'], and a non-EOF token is not empty. *)
Definition tok_ok (st : state) (t : ftok) (st' : state) : Prop :=
  exists st0 ty, adv st st0 /\ adv st0 st' /\ t = mk_tok ty st0 st' /\
                 (ty <> 0 -> (len st' < len st0)%nat) /\ (ty = 0 -> ch st0 = -1).

Lemma tok_ok_pre : forall a b t c, adv a b -> tok_ok b t c -> tok_ok a t c.
Proof.
  intros a b t c H (st0 & ty & A & B & E & S & Z0). exists st0, ty.
  repeat split; try assumption. eapply adv_trans; eassumption.
Qed.

Lemma ident_start : forall c, ((c =? 33) || is_letter c) = true -> ident_char c = true.
Proof.
  intros c H. unfold ident_char. apply orb_true_iff in H. destruct H as [H|H].
  - rewrite H. apply orb_true_r.
  - rewrite H. reflexivity.
Qed.

Lemma ident_type_nonzero : forall l c, ident_type l c <> 0.
Proof.
  intros l c. unfold ident_type.
  repeat match goal with |- (if ?b then _ else _) <> _ => destruct b end; discriminate.
Qed.

Lemma punct_type_nonzero : forall c ty, punct_type c = Some ty -> ty <> 0.
Proof.
  intros c ty. unfold punct_type.
  repeat match goal with |- (if ?b then _ else _) = _ -> _ => destruct b end;
    intro H; inversion H; discriminate.
Qed.

Ltac bind_some H x E :=
  match type of H with
  | opt_bind ?o _ = Some _ =>
    destruct o as [x|] eqn:E; cbn [opt_bind] in H; [|discriminate H]
  end.

Lemma eqb_m1_false : forall c, (c =? -1) = false -> c <> -1.
Proof. intros c H. apply Z.eqb_neq. exact H. Qed.

Lemma scan_spec : forall F fuel st t st', scan F fuel st = Some (t, st') -> tok_ok st t st'.
Proof.
  intros F. induction fuel as [|f IH]; intros st t st' H; [discriminate|].
  cbn [scan] in H. bind_some H st0 W. apply skip_ws_adv in W.
  destruct ((ch st0 =? 33) || is_letter (ch st0)) eqn:I.
  { bind_some H st1 L. inversion H; subst; clear H.
    exists st0, (ident_type (lit_between st0 st') (ch st0)). repeat split; try assumption.
    - eapply ident_loop_adv; eassumption.
    - intros _. eapply ident_loop_strict; [apply ident_start; exact I | eassumption].
    - intro Z0. exfalso. eapply ident_type_nonzero; exact Z0. }
  destruct (ch st0 =? -1) eqn:E.
  { inversion H; subst; clear H. exists st0, 0. repeat split; try assumption.
    - apply adv_next.
    - intro N; contradiction.
    - intros _. apply Z.eqb_eq. exact E. }
  apply eqb_m1_false, next_len_lt in E.
  assert (D : forall st2 ty, adv (next st0) st2 -> ty <> 0 -> tok_ok st (mk_tok ty st0 st2) st2).
  { intros st2 ty A N. exists st0, ty. repeat split; try assumption.
    - eapply adv_trans; [apply adv_next | exact A].
    - intros _. apply adv_len in A. lia.
    - intro Z0. contradiction. }
  destruct (ch st0 =? 34).
  { bind_some H st2 S2. inversion H; subst; clear H. apply D; [|discriminate].
    eapply scan_string_adv; eassumption. }
  destruct (ch st0 =? 39).
  { bind_some H st2 S2. inversion H; subst; clear H. apply D; [|discriminate].
    eapply scan_char_adv; eassumption. }
  destruct (ch st0 =? 96).
  { bind_some H st2 S2. inversion H; subst; clear H. apply D; [|discriminate].
    eapply scan_raw_adv; eassumption. }
  destruct (ch st0 =? 47).
  { destruct ((ch (next st0) =? 47) || (ch (next st0) =? 42)).
    - bind_some H st2 S2. apply IH in H. apply scan_comment_adv in S2.
      eapply tok_ok_pre; [|exact H].
      eapply adv_trans; [exact W|]. eapply adv_trans; [apply adv_next | exact S2].
    - inversion H; subst; clear H. apply D; [apply adv_refl | discriminate]. }
  destruct (ch st0 =? 60).
  { destruct (ch (next st0) =? 60).
    - bind_some H st2 S2. inversion H; subst; clear H. apply D; [|discriminate].
      eapply scan_sdt_adv; eassumption.
    - destruct (ch (next st0) =? 61); inversion H; subst; clear H;
        (apply D; [|discriminate]); [apply adv_next | apply adv_refl]. }
  destruct (punct_type (ch st0)) as [ty|] eqn:P; inversion H; subst; clear H.
  - apply D; [apply adv_refl | eapply punct_type_nonzero; exact P].
  - apply D; [apply adv_add_err | discriminate].
Qed.

Lemma scan_total : forall F fuel st, (len st < F)%nat -> (len st < fuel)%nat ->
  exists t st', scan F fuel st = Some (t, st').
Proof.
  intros F. induction fuel as [|f IH]; intros st LF L; [lia|].
  cbn [scan].
  destruct (skip_ws_total F st LF) as (st0 & W). rewrite W. cbn [opt_bind].
  apply skip_ws_adv, adv_len in W.
  destruct ((ch st0 =? 33) || is_letter (ch st0)).
  { destruct (ident_loop_total F st0) as (st1 & L1); [lia|]. rewrite L1. cbn [opt_bind]. eauto. }
  destruct (ch st0 =? -1) eqn:E; [eauto|].
  apply eqb_m1_false, next_len_lt in E.
  destruct (ch st0 =? 34).
  { destruct (scan_string_total F (next st0)) as (st2 & S2); [lia|]. rewrite S2. cbn [opt_bind]. eauto. }
  destruct (ch st0 =? 39).
  { destruct (scan_char_total F 0 (next st0)) as (st2 & S2); [lia|]. rewrite S2. cbn [opt_bind]. eauto. }
  destruct (ch st0 =? 96).
  { destruct (scan_raw_total F (next st0)) as (st2 & S2); [lia|]. rewrite S2. cbn [opt_bind]. eauto. }
  destruct (ch st0 =? 47).
  { destruct ((ch (next st0) =? 47) || (ch (next st0) =? 42)); [|eauto].
    destruct (scan_comment_total F st0 (next st0)) as (st2 & S2); [lia|]. rewrite S2. cbn [opt_bind].
    apply scan_comment_adv, adv_len in S2. apply IH; lia. }
  destruct (ch st0 =? 60).
  { destruct (ch (next st0) =? 60).
    - destruct (scan_sdt_total F (next st0)) as (st2 & S2); [lia|]. rewrite S2. cbn [opt_bind]. eauto.
    - destruct (ch (next st0) =? 61); eauto. }
  destruct (punct_type (ch st0)); eauto.
Qed.

(** * The whole token list *)

(** [st] is a state of a scan of [src]: [s_cur] is the suffix of [src] at offset [s_po]. *)
Definition at_src (src : list Z) (st : state) : Prop :=
  exists p, src = p ++ s_cur st /\ s_po st = Z.of_nat (length p).

(** the literal of [t] is the piece of [src] at [f_off t] *)
Definition tok_in_src (src : list Z) (t : ftok) : Prop :=
  exists p q, src = p ++ f_lit t ++ q /\ f_off t = Z.of_nat (length p).

Definition tok_end (t : ftok) : Z := f_off t + Z.of_nat (length (f_lit t)).

Lemma at_src_init : forall src, at_src src (init src).
Proof. intro src. exists []. split; reflexivity. Qed.

Lemma at_src_adv : forall src st r, at_src src st -> adv st r -> at_src src r.
Proof.
  intros src st r (p & Hp & Pp) (q & Hq & Pq). exists (p ++ q). split.
  - rewrite Hp, Hq, app_assoc. reflexivity.
  - rewrite app_length. lia.
Qed.

Lemma lit_between_adv : forall st0 st1 p, s_cur st0 = p ++ s_cur st1 -> lit_between st0 st1 = p.
Proof.
  intros st0 st1 p H. unfold lit_between. rewrite H, app_length.
  replace (length p + length (s_cur st1) - length (s_cur st1))%nat with (length p) by lia.
  rewrite firstn_app, Nat.sub_diag, firstn_all. cbn [firstn]. apply app_nil_r.
Qed.

Lemma tok_ok_facts : forall src st t st', at_src src st -> tok_ok st t st' ->
  tok_in_src src t /\ s_po st <= f_off t /\ s_po st' = tok_end t /\ at_src src st' /\
  (f_type t <> 0 -> (1 <= length (f_lit t))%nat).
Proof.
  intros src st t st' A (st0 & ty & A0 & A1 & E & S & _).
  pose proof (at_src_adv _ _ _ A A0) as (p & Hp & Pp).
  destruct A1 as (l & Hl & Pl). destruct A0 as (p0 & Hp0 & Pp0).
  subst t. unfold tok_end, tok_in_src. cbn [f_lit f_off f_type mk_tok].
  rewrite (lit_between_adv st0 st' l Hl).
  split; [|split; [|split; [|split]]].
  - exists p, (s_cur st'). split; [rewrite Hp, Hl; reflexivity | exact Pp].
  - lia.
  - lia.
  - exists (p ++ l). split; [rewrite Hp, Hl, app_assoc; reflexivity | rewrite app_length; lia].
  - intro N. specialize (S N). unfold len in S. rewrite Hl, app_length in S. lia.
Qed.

(** [a] ends before [b] starts, and starts strictly before it *)
Definition tok_before (a b : ftok) : Prop := tok_end a <= f_off b /\ f_off a < f_off b.

Lemma scan_all_spec : forall src F fuel st ts st',
  scan_all F fuel st = Some (ts, st') -> at_src src st ->
  (exists ts' e, ts = ts' ++ [e] /\ f_type e = 0 /\ Forall (fun t => f_type t <> 0) ts') /\
  Forall (tok_in_src src) ts /\
  StronglySorted tok_before ts /\
  Forall (fun t => s_po st <= f_off t) ts /\
  at_src src st'.
Proof.
  intros src F. induction fuel as [|f IH]; intros st ts st' H A; [discriminate|].
  cbn [scan_all] in H. bind_some H r S1. destruct r as [t st1].
  apply scan_spec in S1.
  destruct (tok_ok_facts src st t st1 A S1) as (T1 & T2 & T3 & T4 & T5).
  destruct (f_type t =? 0) eqn:Z0.
  - inversion H; subst; clear H. apply Z.eqb_eq in Z0.
    split; [exists [], t; auto|]. repeat split; auto.
    constructor; constructor.
  - bind_some H r' S2. destruct r' as [ts2 st2]. inversion H; subst; clear H.
    apply Z.eqb_neq in Z0. specialize (T5 Z0).
    destruct (IH st1 ts2 st' S2 T4) as ((ts' & e & E1 & E2 & E3) & L & O & B & A').
    split; [exists (t :: ts'), e; subst ts2; repeat split; auto|].
    repeat split; auto.
    + constructor; [exact O|].
      eapply Forall_impl; [|exact B]. intros b Hb. unfold tok_before, tok_end in *.
      cbv beta in Hb. lia.
    + constructor; [exact T2|].
      eapply Forall_impl; [|exact B]. intros b Hb. cbv beta in Hb. unfold tok_end in T3. lia.
Qed.

Lemma scan_all_total : forall F fuel st, (len st < F)%nat -> (len st < fuel)%nat ->
  exists ts st', scan_all F fuel st = Some (ts, st').
Proof.
  intros F. induction fuel as [|f IH]; intros st LF L; [lia|].
  cbn [scan_all]. destruct (scan_total F F st LF LF) as (t & st1 & S1).
  rewrite S1. cbn [opt_bind]. destruct (f_type t =? 0) eqn:Z0; [eauto|].
  apply scan_spec in S1. destruct S1 as (st0 & ty & A0 & A1 & E & S & _).
  assert (N : ty <> 0). { subst t. cbn [f_type mk_tok] in Z0. apply Z.eqb_neq. exact Z0. }
  specialize (S N). apply adv_len in A0.
  destruct (IH st1) as (ts2 & st2 & S2); [lia | lia|].
  rewrite S2. cbn [opt_bind]. eauto.
Qed.

(** ** (a) Totality: [fscan_all] never runs out of fuel and its token list is some
    non-EOF tokens followed by exactly one EOF token. *)

Theorem fscan_opt_total : forall src, exists ts e,
  fscan_opt src = Some (ts, e) /\ fscan_all src = (ts, e).
Proof.
  intro src. unfold fscan_all, fscan_opt.
  destruct (scan_all_total (fuel_for src) (fuel_for src) (init src)) as (ts & st' & H);
    try (unfold len, fuel_for, init; cbn [s_cur]; lia).
  rewrite H. eauto.
Qed.

Lemma fscan_all_inv : forall src ts e, fscan_all src = (ts, e) ->
  exists st', scan_all (fuel_for src) (fuel_for src) (init src) = Some (ts, st') /\ e = s_err st'.
Proof.
  intros src ts e H. destruct (fscan_opt_total src) as (ts0 & e0 & H1 & H2).
  rewrite H in H2. inversion H2; subst. unfold fscan_opt in H1.
  destruct (scan_all _ _ _) as [[ts1 st1]|]; [|discriminate].
  inversion H1; subst. eauto.
Qed.

Theorem fscan_all_ends_with_eof : forall src ts e, fscan_all src = (ts, e) ->
  exists ts' eof, ts = ts' ++ [eof] /\ f_type eof = 0 /\ Forall (fun t => f_type t <> 0) ts'.
Proof.
  intros src ts e H. apply fscan_all_inv in H. destruct H as (st' & H & _).
  eapply scan_all_spec in H; [|apply at_src_init]. tauto.
Qed.

(** ** (c) Literals are the source bytes at the token offsets; offsets increase. *)

Theorem fscan_all_lits : forall src ts e, fscan_all src = (ts, e) ->
  Forall (tok_in_src src) ts.
Proof.
  intros src ts e H. apply fscan_all_inv in H. destruct H as (st' & H & _).
  eapply scan_all_spec in H; [|apply at_src_init]. tauto.
Qed.

(** the same with Go's slice expression src[off : off+len(lit)] *)
Corollary tok_lit_slice : forall src ts e t, fscan_all src = (ts, e) -> In t ts ->
  0 <= f_off t /\ tok_end t <= Z.of_nat (length src) /\
  f_lit t = firstn (length (f_lit t)) (skipn (Z.to_nat (f_off t)) src).
Proof.
  intros src ts e t H I. apply fscan_all_lits in H.
  rewrite Forall_forall in H. destruct (H t I) as (p & q & E & O).
  unfold tok_end. rewrite O, E, !app_length. repeat split; try lia.
  rewrite Nat2Z.id, skipn_app, skipn_all, Nat.sub_diag. cbn [skipn app].
  rewrite firstn_app, Nat.sub_diag, firstn_all. cbn [firstn]. symmetry. apply app_nil_r.
Qed.

Theorem fscan_all_offsets : forall src ts e, fscan_all src = (ts, e) ->
  StronglySorted tok_before ts.
Proof.
  intros src ts e H. apply fscan_all_inv in H. destruct H as (st' & H & _).
  eapply scan_all_spec in H; [|apply at_src_init]. tauto.
Qed.

(** * (b) Layout *)

(** ** More about [read] *)

Lemma read_lt128 : forall b t, b < 128 -> read (b :: t) = (b, 1%nat).
Proof.
  intros b t H. unfold read. destruct (b =? 0) eqn:E0.
  - apply Z.eqb_eq in E0. subst. reflexivity.
  - destruct (b >=? 80); [|reflexivity]. unfold decode_rune.
    replace (b <? 128) with true by (symmetry; apply Z.ltb_lt; exact H). reflexivity.
Qed.

Definition hard (l : list Z) : Prop :=
  match l with [] => True | b :: _ => cont b = false end.

Definition nonneg (l : list Z) : Prop := Forall (fun b => 0 <= b) l.

Lemma in_rng_cont : forall lo hi b, 128 <= lo -> hi <= 191 -> cont b = false -> in_rng lo hi b = false.
Proof.
  intros lo hi b Hl Hh C. unfold cont, in_rng in *.
  apply andb_false_iff in C. apply andb_false_iff.
  destruct C as [C|C]; [left | right].
  - apply Z.leb_gt in C. apply Z.leb_gt. lia.
  - apply Z.leb_gt in C. apply Z.leb_gt. lia.
Qed.

Lemma lo_hi_bounds : forall b0 : Z,
  128 <= (if b0 =? 224 then 160 else 128) /\ (if b0 =? 237 then 159 else 191) <= 191 /\
  128 <= (if b0 =? 240 then 144 else 128) /\ (if b0 =? 244 then 143 else 191) <= 191.
Proof. intro b0. destruct (b0 =? 224), (b0 =? 237), (b0 =? 240), (b0 =? 244); lia. Qed.

(** Decoding at [c ++ X] with [c] not empty and [X] not starting with a continuation byte
    never looks beyond [c] in a way that matters: same result for any two such tails, and
    the width stays within [c]. *)
Lemma decode_rune_hard : forall b c X Y, hard X -> hard Y ->
  decode_rune (b :: c ++ X) = decode_rune (b :: c ++ Y) /\
  (snd (decode_rune (b :: c ++ X)) <= S (length c))%nat.
Proof.
  intros b c X Y HX HY. unfold decode_rune.
  destruct (lo_hi_bounds b) as (L1 & H1 & L2 & H2).
  destruct (b <? 128); [cbn; split; [reflexivity | lia]|].
  assert (K1 : forall Z0, hard Z0 -> match Z0 with b1 :: _ => cont b1 = false | [] => True end)
    by (intros Z0 HZ; exact HZ).
  destruct (in_rng 194 223 b).
  { destruct c as [|b1 c]; cbn [app].
    - destruct X as [|x X], Y as [|y Y]; cbn in HX, HY; try rewrite HX; try rewrite HY;
        cbn; split; (reflexivity || lia).
    - destruct (cont b1); cbn; split; (reflexivity || lia). }
  destruct (in_rng 224 239 b).
  { destruct c as [|b1 [|b2 c]]; cbn [app].
    - destruct X as [|x [|x2 X]], Y as [|y [|y2 Y]]; cbn in HX, HY;
        try rewrite (in_rng_cont _ _ x L1 H1 HX); try rewrite (in_rng_cont _ _ y L1 H1 HY);
        cbn; split; (reflexivity || lia).
    - destruct X as [|x X], Y as [|y Y]; cbn in HX, HY; try rewrite HX; try rewrite HY;
        rewrite ?andb_false_r; cbn; split; (reflexivity || lia).
    - destruct (in_rng _ _ b1 && cont b2); cbn; split; (reflexivity || lia). }
  destruct (in_rng 240 244 b).
  { destruct c as [|b1 [|b2 [|b3 c]]]; cbn [app].
    - destruct X as [|x [|x2 [|x3 X]]], Y as [|y [|y2 [|y3 Y]]]; cbn in HX, HY;
        try rewrite (in_rng_cont _ _ x L2 H2 HX); try rewrite (in_rng_cont _ _ y L2 H2 HY);
        cbn; split; (reflexivity || lia).
    - destruct X as [|x [|x2 X]], Y as [|y [|y2 Y]]; cbn in HX, HY; try rewrite HX; try rewrite HY;
        rewrite ?andb_false_r; cbn; split; (reflexivity || lia).
    - destruct X as [|x X], Y as [|y Y]; cbn in HX, HY; try rewrite HX; try rewrite HY;
        rewrite ?andb_false_r; cbn; split; (reflexivity || lia).
    - destruct (in_rng _ _ b1 && cont b2 && cont b3); cbn; split; (reflexivity || lia). }
  cbn; split; [reflexivity | lia].
Qed.

Lemma read_hard : forall b c X Y, hard X -> hard Y ->
  read (b :: c ++ X) = read (b :: c ++ Y) /\ (snd (read (b :: c ++ X)) <= S (length c))%nat.
Proof.
  intros b c X Y HX HY. unfold read. destruct (b =? 0); [cbn; split; [reflexivity|lia]|].
  destruct (b >=? 80); [apply decode_rune_hard; assumption | cbn; split; [reflexivity|lia]].
Qed.

Lemma read_err_hard : forall b c X Y, hard X -> hard Y ->
  read_err (b :: c ++ X) = read_err (b :: c ++ Y).
Proof.
  intros b c X Y HX HY. unfold read_err. destruct (b =? 0); [reflexivity|].
  destruct (b >=? 80); [|reflexivity].
  destruct (decode_rune_hard b c X Y HX HY) as (E & _). rewrite E. reflexivity.
Qed.

Lemma decode_rune_nonneg : forall b t, 0 <= b -> nonneg t -> 0 <= fst (decode_rune (b :: t)).
Proof.
  intros b t Hb Ht. unfold decode_rune, rune_error.
  destruct (b <? 128); [cbn; lia|].
  destruct (in_rng 194 223 b) eqn:R1.
  { destruct t as [|b1 t]; [cbn; lia|]. destruct (cont b1) eqn:C; [|cbn; lia].
    unfold in_rng, cont, in_rng in *. cbn [fst]. lia. }
  destruct (in_rng 224 239 b) eqn:R2.
  { destruct t as [|b1 [|b2 t]]; try (cbn; lia).
    match goal with |- context [if ?c then _ else _] => destruct c eqn:C end; [|cbn; lia].
    unfold in_rng, cont, in_rng in *. cbn [fst].
    destruct (b =? 224), (b =? 237); lia. }
  destruct (in_rng 240 244 b) eqn:R3.
  { destruct t as [|b1 [|b2 [|b3 t]]]; try (cbn; lia).
    match goal with |- context [if ?c then _ else _] => destruct c eqn:C end; [|cbn; lia].
    unfold in_rng, cont, in_rng in *. cbn [fst].
    destruct (b =? 240), (b =? 244); lia. }
  cbn; lia.
Qed.

Lemma read_nonneg : forall b t, 0 <= b -> nonneg t -> 0 <= fst (read (b :: t)).
Proof.
  intros b t Hb Ht. unfold read. destruct (b =? 0); [cbn; lia|].
  destruct (b >=? 80); [apply decode_rune_nonneg; assumption | cbn; lia].
Qed.

(** ** Strict progress of the loops that always consume *)

Lemma nonneg_ch_not_eof : forall st, 0 <= ch st -> ch st <> -1.
Proof. intros st H. lia. Qed.

Lemma line_comment_progress : forall fuel c0 col0 a ra,
  line_comment fuel c0 col0 a = Some ra -> 0 <= ch a -> (len ra < len a)%nat.
Proof.
  intros [|f] c0 col0 a ra H P; [discriminate|]. cbn [line_comment] in H.
  pose proof (next_len_lt a (nonneg_ch_not_eof a P)) as N.
  replace (ch a >=? 0) with true in H by (symmetry; apply Z.geb_le; lia).
  destruct (ch (next a) =? 10).
  - inversion H; subst. pose proof (adv_len _ _ (adv_line_directive c0 col0 (next a))). lia.
  - apply line_comment_adv, adv_len in H. lia.
Qed.

Lemma block_comment_progress : forall fuel a ra,
  block_comment fuel a = Some ra -> 0 <= ch a -> (len ra < len a)%nat.
Proof.
  intros [|f] a ra H P; [discriminate|]. cbn [block_comment] in H.
  pose proof (next_len_lt a (nonneg_ch_not_eof a P)) as N.
  replace (ch a >=? 0) with true in H by (symmetry; apply Z.geb_le; lia).
  destruct ((ch a =? 42) && (ch (next a) =? 47)).
  - inversion H; subst. pose proof (next_len_le (next a)). lia.
  - apply block_comment_adv, adv_len in H. lia.
Qed.

Lemma esc_number_first : forall i base mx a, (fdigit_val (ch a) >? base) = false ->
  (len (esc_number (S i) base mx a) <= len (next a))%nat.
Proof.
  intros i base mx a D. unfold esc_number. cbn [esc_digits]. rewrite D.
  pose proof (adv_len _ _ (esc_digits_adv i base (fu32 (0 * base + fdigit_val (ch a))) (next a))) as L.
  destruct (esc_digits i base _ (next a)) as [st' [x'|]]; cbn [fst] in L.
  - destruct ((x' >? mx) || _); unfold add_err, len in *; cbn [s_cur]; lia.
  - lia.
Qed.

Lemma scan_escape_progress : forall q a, 0 <= ch a -> (len (scan_escape q a) < len a)%nat.
Proof.
  intros q a P. pose proof (next_len_lt a (nonneg_ch_not_eof a P)) as N.
  unfold scan_escape.
  repeat match goal with
  | |- (len (if ?b then _ else _) < _)%nat => destruct b eqn:?
  end;
  try (match goal with |- (len (esc_number ?i ?b ?m (next a)) < _)%nat =>
         pose proof (adv_len _ _ (esc_number_adv i b m (next a))); lia end);
  try (unfold add_err, len in *; cbn [s_cur]; lia); try lia.
  (* octal: the first digit is accepted *)
  assert (D : (fdigit_val (ch a) >? 8) = false).
  { unfold fdigit_val.
    match goal with H : ((48 <=? ch a) && (ch a <=? 55)) = true |- _ =>
      replace ((48 <=? ch a) && (ch a <=? 57)) with true by lia end. lia. }
  pose proof (esc_number_first 2 8 255 a D). lia.
Qed.

Lemma scan_string_progress : forall fuel a ra,
  scan_string fuel a = Some ra -> 0 <= ch a -> (len ra < len a)%nat.
Proof.
  intros [|f] a ra H P; [discriminate|]. cbn [scan_string] in H.
  pose proof (next_len_lt a (nonneg_ch_not_eof a P)) as N.
  destruct (ch a =? 34); [inversion H; subst; lia|].
  destruct ((ch a =? 10) || (ch a <? 0)).
  { inversion H; subst. pose proof (next_len_le (add_err (next a))). unfold len in *. cbn [add_err s_cur] in *. lia. }
  destruct (ch a =? 92); apply scan_string_adv, adv_len in H.
  - pose proof (adv_len _ _ (scan_escape_adv 34 (next a))). lia.
  - lia.
Qed.

Lemma char_finish_len : forall n st, len (char_finish n st) = len st.
Proof. intros n st. unfold char_finish. destruct (n =? 1); reflexivity. Qed.

Lemma scan_char_progress : forall fuel n a ra,
  scan_char fuel n a = Some ra -> 0 <= ch a -> (len ra < len a)%nat.
Proof.
  intros [|f] n a ra H P; [discriminate|]. cbn [scan_char] in H.
  pose proof (next_len_lt a (nonneg_ch_not_eof a P)) as N.
  destruct (ch a =? 39); [inversion H; subst; rewrite char_finish_len; lia|].
  destruct ((ch a =? 10) || (ch a <? 0)).
  { inversion H; subst. rewrite char_finish_len.
    pose proof (next_len_le (add_err (next a))). unfold len in *. cbn [add_err s_cur] in *. lia. }
  destruct (ch a =? 92); apply scan_char_adv, adv_len in H.
  - pose proof (adv_len _ _ (scan_escape_adv 39 (next a))). lia.
  - lia.
Qed.

Lemma scan_raw_progress : forall fuel a ra,
  scan_raw fuel a = Some ra -> 0 <= ch a -> (len ra < len a)%nat.
Proof.
  intros [|f] a ra H P; [discriminate|]. cbn [scan_raw] in H.
  pose proof (next_len_lt a (nonneg_ch_not_eof a P)) as N.
  destruct (ch a =? 96); [inversion H; subst; lia|].
  destruct (ch a <? 0).
  { inversion H; subst. pose proof (next_len_le (add_err (next a))). unfold len in *. cbn [add_err s_cur] in *. lia. }
  apply scan_raw_adv, adv_len in H. lia.
Qed.

Lemma sdt_loop_progress : forall fuel a ra,
  sdt_loop fuel a = Some ra -> 0 <= ch a -> (len ra < len a)%nat.
Proof.
  intros [|f] a ra H P; [discriminate|]. cbn [sdt_loop] in H.
  pose proof (next_len_lt a (nonneg_ch_not_eof a P)) as N.
  replace (ch a <? 0) with false in H by (symmetry; apply Z.ltb_ge; lia).
  destruct (ch a =? 62).
  - destruct (ch (next a) =? 62).
    + inversion H; subst. pose proof (next_len_le (next a)). lia.
    + apply sdt_loop_adv, adv_len in H. pose proof (next_len_le (next a)). lia.
  - apply sdt_loop_adv, adv_len in H. lia.
Qed.

Lemma decode_rune_ge128 : forall b t, 128 <= b -> 128 <= fst (decode_rune (b :: t)).
Proof.
  intros b t Hb. unfold decode_rune, rune_error.
  replace (b <? 128) with false by (symmetry; apply Z.ltb_ge; lia).
  destruct (in_rng 194 223 b) eqn:R1.
  { destruct t as [|b1 t]; [cbn; lia|]. destruct (cont b1) eqn:C; [|cbn; lia].
    unfold in_rng, cont, in_rng in *. cbn [fst]. lia. }
  destruct (in_rng 224 239 b) eqn:R2.
  { destruct t as [|b1 [|b2 t]]; try (cbn; lia).
    match goal with |- context [if ?c then _ else _] => destruct c eqn:C end; [|cbn; lia].
    unfold in_rng, cont, in_rng in *. cbn [fst].
    destruct (b =? 224) eqn:E1, (b =? 237); lia. }
  destruct (in_rng 240 244 b) eqn:R3.
  { destruct t as [|b1 [|b2 [|b3 t]]]; try (cbn; lia).
    match goal with |- context [if ?c then _ else _] => destruct c eqn:C end; [|cbn; lia].
    unfold in_rng, cont, in_rng in *. cbn [fst].
    destruct (b =? 240) eqn:E1, (b =? 244); lia. }
  cbn; lia.
Qed.

Lemma read_ge128 : forall b t, 128 <= b -> 128 <= fst (read (b :: t)).
Proof.
  intros b t Hb. unfold read.
  replace (b =? 0) with false by (symmetry; apply Z.eqb_neq; lia).
  replace (b >=? 80) with true by (symmetry; apply Z.geb_le; lia).
  apply decode_rune_ge128. exact Hb.
Qed.

(** an ASCII look-ahead character is the next byte *)
Lemma ch_ascii_inv : forall st k, ch st = k -> 0 <= k < 128 -> exists t, s_cur st = k :: t.
Proof.
  intros st k H K. unfold ch in H. destruct (s_cur st) as [|b t]; [cbn in H; lia|].
  destruct (Z_lt_le_dec b 128) as [L|L].
  - rewrite (read_lt128 b t L) in H. cbn [fst] in H. subst. eauto.
  - pose proof (read_ge128 b t L). lia.
Qed.

Lemma next_ascii : forall st k t, s_cur st = k :: t -> k < 128 -> s_cur (next st) = t.
Proof.
  intros st k t H K. rewrite next_cur, H, (read_lt128 k t K). reflexivity.
Qed.

(** ** The body of Scan after skipWhitespace, with the [goto scanAgain] abstracted *)

Definition scan_tok (F : nat) (rec : state -> option (ftok * state)) (st0 : state)
  : option (ftok * state) :=
  let c := ch st0 in
  if (c =? 33) || is_letter c then
    do st1 <- ident_loop F st0;
    Some (mk_tok (ident_type (lit_between st0 st1) c) st0 st1, st1)
  else
    let st1 := next st0 in
    if c =? -1 then Some (mk_tok 0 st0 st1, st1)
    else if c =? 34 then do st2 <- scan_string F st1; Some (mk_tok 21 st0 st2, st2)
    else if c =? 39 then do st2 <- scan_char F 0 st1; Some (mk_tok 9 st0 st2, st2)
    else if c =? 96 then do st2 <- scan_raw F st1; Some (mk_tok 21 st0 st2, st2)
    else if c =? 47 then
      if (ch st1 =? 47) || (ch st1 =? 42) then do st2 <- scan_comment F st0 st1; rec st2
      else Some (mk_tok (-1) st0 st1, st1)
    else if c =? 60 then
      if ch st1 =? 60 then do st2 <- scan_sdt F st1; Some (mk_tok 18 st0 st2, st2)
      else if ch st1 =? 61 then let st2 := next st1 in Some (mk_tok (-1) st0 st2, st2)
      else Some (mk_tok (-1) st0 st1, st1)
    else
      match punct_type c with
      | Some ty => Some (mk_tok ty st0 st1, st1)
      | None => let st2 := add_err st1 in Some (mk_tok (-1) st0 st2, st2)
      end.

Lemma scan_unfold : forall F f st,
  scan F (S f) st = do st0 <- skip_ws F st; scan_tok F (scan F f) st0.
Proof. reflexivity. Qed.

Lemma skip_ws_stops : forall fuel st r, skip_ws fuel st = Some r -> is_blank (ch r) = false.
Proof.
  induction fuel as [|f IH]; intros st r H; [discriminate|]. cbn [skip_ws] in H.
  destruct (is_blank (ch st)) eqn:B; [eapply IH; exact H|]. inversion H; subst. exact B.
Qed.

Lemma ch_nonneg_of : forall e, nonneg (s_cur e) -> (0 < len e)%nat -> 0 <= ch e.
Proof.
  intros e N L. unfold ch, len in *. destruct (s_cur e) as [|b t]; [cbn in L; lia|].
  inversion N; subst. apply read_nonneg; assumption.
Qed.

Lemma adv_nonneg_of : forall a e, adv a e -> nonneg (s_cur a) -> nonneg (s_cur e).
Proof.
  intros a e (p & Hp & _) N. rewrite Hp in N. apply Forall_app in N. tauto.
Qed.

(** A call of Scan on a nonempty rest consumes something (possibly only blanks). *)
Lemma scan_consumes : forall F fuel st t st', scan F fuel st = Some (t, st') ->
  nonneg (s_cur st) -> (0 < len st)%nat -> (len st' < len st)%nat.
Proof.
  intros F fuel st t st' H N L. apply scan_spec in H.
  destruct H as (st0 & ty & A0 & A1 & E & S & Z0).
  pose proof (adv_len _ _ A0). pose proof (adv_len _ _ A1).
  destruct (Z.eq_dec ty 0) as [Zy|Ny]; [|specialize (S Ny); lia].
  specialize (Z0 Zy). destruct (Nat.eq_dec (len st0) 0) as [L0|L0]; [lia|].
  pose proof (ch_nonneg_of st0 (adv_nonneg_of _ _ A0 N)). lia.
Qed.

Lemma scan_tok_consumes : forall F rec st0 t ra,
  scan_tok F rec st0 = Some (t, ra) ->
  (forall a t r, rec a = Some (t, r) -> adv a r) ->
  ch st0 <> -1 -> (len ra < len st0)%nat.
Proof.
  intros F rec st0 t ra H Hadv N. unfold scan_tok in H.
  destruct ((ch st0 =? 33) || is_letter (ch st0)) eqn:I.
  { bind_some H st1 L. inversion H; subst.
    eapply ident_loop_strict; [apply ident_start; exact I | eassumption]. }
  pose proof (next_len_lt st0 N) as L.
  replace (ch st0 =? -1) with false in H by (symmetry; apply Z.eqb_neq; exact N).
  assert (D : forall st2, adv (next st0) st2 -> (len st2 < len st0)%nat).
  { intros st2 A. apply adv_len in A. lia. }
  destruct (ch st0 =? 34).
  { bind_some H st2 S2. inversion H; subst. apply D. eapply scan_string_adv; eassumption. }
  destruct (ch st0 =? 39).
  { bind_some H st2 S2. inversion H; subst. apply D. eapply scan_char_adv; eassumption. }
  destruct (ch st0 =? 96).
  { bind_some H st2 S2. inversion H; subst. apply D. eapply scan_raw_adv; eassumption. }
  destruct (ch st0 =? 47).
  { destruct ((ch (next st0) =? 47) || (ch (next st0) =? 42)).
    - bind_some H st2 S2. apply D. eapply adv_trans; [eapply scan_comment_adv; eassumption|].
      eapply Hadv; eassumption.
    - inversion H; subst. apply D, adv_refl. }
  destruct (ch st0 =? 60).
  { destruct (ch (next st0) =? 60).
    - bind_some H st2 S2. inversion H; subst. apply D. eapply scan_sdt_adv; eassumption.
    - destruct (ch (next st0) =? 61); inversion H; subst; apply D; [apply adv_next | apply adv_refl]. }
  destruct (punct_type (ch st0)); inversion H; subst; apply D; [apply adv_refl | apply adv_add_err].
Qed.

Lemma scan_adv : forall F fuel st t st', scan F fuel st = Some (t, st') -> adv st st'.
Proof.
  intros F fuel st t st' H. apply scan_spec in H. destruct H as (st0 & ty & A0 & A1 & _).
  eapply adv_trans; eassumption.
Qed.

(** ** Simulation: two runs on inputs [.. ++ X] and [.. ++ Y]

    As long as the first run does not go beyond the point where [X] starts, the second run
    does the same thing.  Instantiated three times: with [X = Y = []] (positions, error
    count and fuel do not influence tokens), with tails having the same first byte, and
    with [Y = layout ++ X]. *)

Section Sim.
Variables X Y : list Z.
Variable PS : Prop.     (* "the byte before the boundary is a slash" *)

Definition chX : Z := fst (read X).
Definition chY : Z := fst (read Y).

Hypothesis Hcase : (X = [] /\ Y = []) \/
                   (X <> [] /\ Y <> [] /\ hard X /\ hard Y /\ nonneg X).
Hypothesis H3 : ident_char chX = false -> ident_char chY = false.
Hypothesis H4 : PS -> ((chX =? 47) || (chX =? 42)) = false ->
                      ((chY =? 47) || (chY =? 42)) = false.
Hypothesis H5 : (chX =? 60) = false -> (chX =? 61) = false ->
                (chY =? 60) = false /\ (chY =? 61) = false.

Definition sim (a b : state) : Prop :=
  exists c, nonneg c /\ (forall c', c = c' ++ [47] -> PS) /\
            s_cur a = c ++ X /\ s_cur b = c ++ Y.

Lemma hardXY : hard X /\ hard Y.
Proof.
  destruct Hcase as [(-> & ->) | (_ & _ & HX & HY & _)]; [split; exact I | split; assumption].
Qed.

Lemma sim_cur : forall a b a' b', sim a b -> s_cur a' = s_cur a -> s_cur b' = s_cur b -> sim a' b'.
Proof.
  intros a b a' b' (c & N & S & Ea & Eb) Ha Hb. exists c. rewrite Ha, Hb. auto.
Qed.

Lemma nonneg_skipn : forall n l, nonneg l -> nonneg (skipn n l).
Proof.
  intros n l H. unfold nonneg in *. rewrite Forall_forall in *. intros x Hx.
  apply H. rewrite <- (firstn_skipn n l). apply in_or_app. right. exact Hx.
Qed.

(** Either both runs read the same character and stay related, or the first run stands
    exactly at the boundary (in front of a nonempty [X]). *)
Lemma sim_cases : forall a b, sim a b ->
  (ch a = ch b /\ sim (next a) (next b)) \/
  (s_cur a = X /\ s_cur b = Y /\ X <> [] /\ 0 <= ch a).
Proof.
  intros a b (c & N & S & Ea & Eb). destruct c as [|b0 c].
  - cbn [app] in Ea, Eb. destruct Hcase as [(EX & EY) | (NX & NY & _ & _ & NNX)].
    + left. unfold ch. rewrite Ea, Eb, EX, EY. split; [reflexivity|].
      exists []. rewrite !next_cur, Ea, Eb, EX, EY.
      split; [constructor|]. split; [intros c' Hc'; destruct c'; discriminate|].
      split; reflexivity.
    + right. repeat split; auto. unfold ch. rewrite Ea.
      destruct X as [|x0 X']; [contradiction|]. inversion NNX; subst.
      apply read_nonneg; assumption.
  - left. destruct hardXY as (HX & HY).
    destruct (read_hard b0 c X Y HX HY) as (ER & W).
    unfold ch. rewrite Ea, Eb. cbn [app]. rewrite ER. split; [reflexivity|].
    exists (skipn (snd (read (b0 :: c ++ Y))) (b0 :: c)).
    rewrite !next_cur, Ea, Eb. cbn [app]. rewrite <- ER.
    set (w := snd (read (b0 :: c ++ X))) in *.
    repeat split.
    + apply nonneg_skipn. exact N.
    + intros c' Hc'. apply (S (firstn w (b0 :: c) ++ c')).
      rewrite <- app_assoc, <- Hc', firstn_skipn. reflexivity.
    + change (b0 :: c ++ X) with ((b0 :: c) ++ X). rewrite skipn_app.
      replace (w - length (b0 :: c))%nat with 0%nat by (cbn [length]; lia). reflexivity.
    + change (b0 :: c ++ Y) with ((b0 :: c) ++ Y). rewrite skipn_app.
      replace (w - length (b0 :: c))%nat with 0%nat by (cbn [length]; lia). reflexivity.
Qed.

Lemma sim_add_err_l : forall a b, sim a b -> sim (add_err a) b.
Proof. intros a b H. eapply sim_cur; [exact H | reflexivity | reflexivity]. Qed.
Lemma sim_add_err : forall a b, sim a b -> sim (add_err a) (add_err b).
Proof. intros a b H. eapply sim_cur; [exact H | reflexivity | reflexivity]. Qed.

Lemma sim_len : forall a b, sim a b -> (length X <= len a)%nat.
Proof. intros a b (c & _ & _ & Ea & _). unfold len. rewrite Ea, app_length. lia. Qed.


Definition not_past (ra : state) : Prop := (length X <= len ra)%nat.
Definition before (ra : state) : Prop := X = [] \/ (length X < len ra)%nat.

Lemma nonnegX : nonneg X.
Proof. destruct Hcase as [(-> & _) | (_ & _ & _ & _ & H)]; [constructor | exact H]. Qed.

Lemma sim_nonneg : forall a b, sim a b -> nonneg (s_cur a).
Proof.
  intros a b (c & N & _ & Ea & _). rewrite Ea. apply Forall_app. split; [exact N | apply nonnegX].
Qed.

Definition adv_nonneg := adv_nonneg_of.
Definition ch_nonneg := ch_nonneg_of.

(** at the boundary, a result that is still [before] is impossible *)
Lemma atb_before_contra : forall a ra, s_cur a = X -> X <> [] -> adv a ra -> before ra -> False.
Proof.
  intros a ra Ea NX A [B|B]; [contradiction|]. apply adv_len in A. unfold len in *.
  rewrite Ea in A. lia.
Qed.

Lemma skip_ws_sim : forall fuel a b ra, sim a b -> skip_ws fuel a = Some ra -> before ra ->
  exists rb, (forall fuel', (fuel <= fuel')%nat -> skip_ws fuel' b = Some rb) /\ sim ra rb.
Proof.
  induction fuel as [|f IH]; intros a b ra S H B; [discriminate|].
  destruct (sim_cases a b S) as [(E & SN) | (Ea & _ & NX & _)].
  2: { exfalso. eapply atb_before_contra; eauto. eapply skip_ws_adv; eassumption. }
  cbn [skip_ws] in H. destruct (is_blank (ch a)) eqn:C.
  - destruct (IH _ _ _ SN H B) as (rb & Hrb & Srb). exists rb. split; [|exact Srb].
    intros [|f'] Hf; [lia|]. cbn [skip_ws]. rewrite <- E, C. apply Hrb. lia.
  - inversion H; subst. exists b. split; [|exact S].
    intros [|f'] Hf; [lia|]. cbn [skip_ws]. rewrite <- E, C. reflexivity.
Qed.

Lemma esc_digits_sim : forall i base x a b, sim a b -> before (fst (esc_digits i base x a)) ->
  sim (fst (esc_digits i base x a)) (fst (esc_digits i base x b)) /\
  snd (esc_digits i base x a) = snd (esc_digits i base x b).
Proof.
  induction i as [|i IH]; intros base x a b S B; [split; [exact S | reflexivity]|].
  destruct (sim_cases a b S) as [(E & SN) | (Ea & _ & NX & _)].
  2: { exfalso. eapply atb_before_contra; eauto. apply esc_digits_adv. }
  cbn [esc_digits] in *. rewrite <- E.
  destruct (fdigit_val (ch a) >? base); cbn [fst snd] in *.
  - split; [apply sim_add_err; exact S | reflexivity].
  - apply IH; assumption.
Qed.

Lemma esc_number_sim : forall i base mx a b, sim a b -> before (esc_number i base mx a) ->
  sim (esc_number i base mx a) (esc_number i base mx b).
Proof.
  intros i base mx a b S B. unfold esc_number in *.
  assert (B' : before (fst (esc_digits i base 0 a))).
  { destruct (esc_digits i base 0 a) as [st' [x|]]; cbn [fst]; [|exact B].
    destruct ((x >? mx) || _); exact B. }
  destruct (esc_digits_sim i base 0 a b S B') as (S' & E').
  destruct (esc_digits i base 0 a) as [sa oa], (esc_digits i base 0 b) as [sb ob].
  cbn [fst snd] in *. subst ob. destruct oa as [x|]; [|exact S'].
  destruct ((x >? mx) || _); [apply sim_add_err|]; exact S'.
Qed.

Lemma scan_escape_sim : forall q a b, sim a b -> before (scan_escape q a) ->
  sim (scan_escape q a) (scan_escape q b).
Proof.
  intros q a b S B.
  destruct (sim_cases a b S) as [(E & SN) | (Ea & _ & NX & _)].
  2: { exfalso. eapply atb_before_contra; eauto. apply scan_escape_adv. }
  unfold scan_escape in *. rewrite <- E.
  repeat match goal with
  | |- sim (if ?c then _ else _) _ => destruct c
  end;
  try (apply esc_number_sim; assumption); try (apply sim_add_err); exact SN.
Qed.


Lemma atb_progress_contra : forall a ra, s_cur a = X -> (len ra < len a)%nat -> not_past ra -> False.
Proof. intros a ra Ea L N. unfold not_past, len in *. rewrite Ea in L. lia. Qed.

Lemma line_directive_sim : forall c0 c0' col0 col0' a b, sim a b ->
  sim (line_directive c0 col0 a) (line_directive c0' col0' b).
Proof.
  intros. eapply sim_cur; [eassumption| |];
    unfold line_directive;
    repeat match goal with |- context [if ?c then _ else _] => destruct c end;
    repeat match goal with |- context [match ?o with Some _ => _ | None => _ end] => destruct o end;
    reflexivity.
Qed.

Lemma line_comment_sim : forall fuel c0 c0' col0 col0' a b ra, sim a b ->
  line_comment fuel c0 col0 a = Some ra -> before ra ->
  exists rb, (forall fuel', (fuel <= fuel')%nat -> line_comment fuel' c0' col0' b = Some rb) /\
             sim ra rb.
Proof.
  induction fuel as [|f IH]; intros c0 c0' col0 col0' a b ra S H B; [discriminate|].
  destruct (sim_cases a b S) as [(E & SN) | (Ea & _ & NX & P)].
  2: { exfalso. eapply atb_before_contra; eauto. eapply line_comment_adv; eassumption. }
  cbn [line_comment] in H. destruct (ch a >=? 0) eqn:C.
  - destruct (sim_cases _ _ SN) as [(E1 & _) | (Ea1 & _ & NX & P1)].
    2: { exfalso. eapply atb_before_contra; [exact Ea1 | exact NX | | exact B].
         destruct (ch (next a) =? 10).
         - inversion H; subst. apply adv_line_directive.
         - eapply line_comment_adv; eassumption. }
    destruct (ch (next a) =? 10) eqn:C1.
    + inversion H; subst. exists (line_directive c0' col0' (next b)).
      split; [|apply line_directive_sim; exact SN].
      intros [|f'] Hf; [lia|]. cbn [line_comment]. rewrite <- E, C, <- E1, C1. reflexivity.
    + destruct (IH c0 c0' col0 col0' _ _ _ SN H B) as (rb & Hrb & Srb). exists rb. split; [|exact Srb].
      intros [|f'] Hf; [lia|]. cbn [line_comment]. rewrite <- E, C, <- E1, C1. apply Hrb. lia.
  - inversion H; subst. exists (add_err b). split; [|apply sim_add_err; exact S].
    intros [|f'] Hf; [lia|]. cbn [line_comment]. rewrite <- E, C. reflexivity.
Qed.

Lemma block_comment_sim : forall fuel a b ra, sim a b ->
  block_comment fuel a = Some ra -> before ra ->
  exists rb, (forall fuel', (fuel <= fuel')%nat -> block_comment fuel' b = Some rb) /\ sim ra rb.
Proof.
  induction fuel as [|f IH]; intros a b ra S H B; [discriminate|].
  destruct (sim_cases a b S) as [(E & SN) | (Ea & _ & NX & P)].
  2: { exfalso. eapply atb_before_contra; eauto. eapply block_comment_adv; eassumption. }
  cbn [block_comment] in H. destruct (ch a >=? 0) eqn:C.
  - destruct (sim_cases _ _ SN) as [(E1 & SN1) | (Ea1 & _ & NX & P1)].
    2: { exfalso. eapply atb_before_contra; [exact Ea1 | exact NX | | exact B].
         destruct ((ch a =? 42) && (ch (next a) =? 47)).
         - inversion H; subst. apply adv_next.
         - eapply block_comment_adv; eassumption. }
    destruct ((ch a =? 42) && (ch (next a) =? 47)) eqn:C1.
    + inversion H; subst. exists (next (next b)). split; [|exact SN1].
      intros [|f'] Hf; [lia|]. cbn [block_comment]. rewrite <- E, C, <- E1, C1. reflexivity.
    + destruct (IH _ _ _ SN H B) as (rb & Hrb & Srb). exists rb. split; [|exact Srb].
      intros [|f'] Hf; [lia|]. cbn [block_comment]. rewrite <- E, C, <- E1, C1. apply Hrb. lia.
  - inversion H; subst. exists (add_err b). split; [|apply sim_add_err; exact S].
    intros [|f'] Hf; [lia|]. cbn [block_comment]. rewrite <- E, C. reflexivity.
Qed.

Lemma scan_comment_sim : forall F a0 b0 a b ra, sim a b ->
  scan_comment F a0 a = Some ra -> before ra ->
  exists rb, (forall F', (F <= F')%nat -> scan_comment F' b0 b = Some rb) /\ sim ra rb.
Proof.
  intros F a0 b0 a b ra S H B.
  destruct (sim_cases a b S) as [(E & SN) | (Ea & _ & NX & P)].
  2: { exfalso. eapply atb_before_contra; eauto. eapply scan_comment_adv; eassumption. }
  unfold scan_comment in *. rewrite <- E. destruct (ch a =? 47).
  - destruct (line_comment_sim F (s_cur a0) (s_cur b0) (s_col a0) (s_col b0) a b ra S H B)
      as (rb & Hrb & Srb). exists rb. split; [|exact Srb]. intros F' HF. apply Hrb. exact HF.
  - assert (SE : sim (expect 42 a) (expect 42 b)).
    { unfold expect in *. rewrite <- E. destruct (ch a =? 42); [exact SN|].
      destruct (sim_cases _ _ (sim_add_err _ _ S)) as [(_ & SN') | (Ea' & _ & NX' & _)]; [exact SN'|].
      exfalso. eapply atb_before_contra; [exact Ea' | exact NX' | | exact B].
      eapply adv_trans; [apply adv_next | eapply block_comment_adv; eassumption]. }
    destruct (block_comment_sim F _ _ ra SE H B) as (rb & Hrb & Srb).
    exists rb. split; [|exact Srb]. intros F' HF. apply Hrb. exact HF.
Qed.


(** [before] for the state after an escape inside a literal whose scan does not go past X *)
Lemma before_from_progress : forall a0 b0 e ra, sim a0 b0 -> adv a0 e ->
  (0 <= ch e -> (len ra < len e)%nat) -> (len ra <= len e)%nat -> not_past ra -> before e.
Proof.
  intros a0 b0 e ra S A P L N.
  destruct (Nat.eq_dec (length X) 0) as [Z0|NZ]; [left; apply length_zero_iff_nil; exact Z0|].
  right. unfold not_past in N.
  assert (Le : (0 < len e)%nat) by lia.
  assert (Pe : 0 <= ch e).
  { apply ch_nonneg; [|exact Le]. eapply adv_nonneg; [exact A|]. eapply sim_nonneg; exact S. }
  specialize (P Pe). lia.
Qed.

Lemma scan_string_sim : forall fuel a b ra, sim a b ->
  scan_string fuel a = Some ra -> not_past ra ->
  exists rb, (forall fuel', (fuel <= fuel')%nat -> scan_string fuel' b = Some rb) /\ sim ra rb.
Proof.
  induction fuel as [|f IH]; intros a b ra S H B; [discriminate|].
  destruct (sim_cases a b S) as [(E & SN) | (Ea & _ & NX & P)].
  2: { exfalso. eapply atb_progress_contra; eauto. eapply scan_string_progress; eassumption. }
  cbn [scan_string] in H. destruct (ch a =? 34) eqn:C1.
  { inversion H; subst. exists (next b). split; [|exact SN].
    intros [|f'] Hf; [lia|]. cbn [scan_string]. rewrite <- E, C1. reflexivity. }
  destruct ((ch a =? 10) || (ch a <? 0)) eqn:C2.
  { inversion H; subst.
    destruct (sim_cases _ _ (sim_add_err _ _ SN)) as [(_ & SN') | (Ea' & _ & NX' & P')].
    - exists (next (add_err (next b))). split; [|exact SN'].
      intros [|f'] Hf; [lia|]. cbn [scan_string]. rewrite <- E, C1, C2. reflexivity.
    - exfalso. eapply atb_progress_contra; [exact Ea' | | exact B].
      apply next_len_lt. apply nonneg_ch_not_eof. exact P'. }
  destruct (ch a =? 92) eqn:C3.
  - assert (Be : before (scan_escape 34 (next a))).
    { eapply (before_from_progress (next a) (next b)); [exact SN | apply scan_escape_adv | | | exact B].
      - intro Pe. eapply scan_string_progress; eassumption.
      - eapply adv_len, scan_string_adv; eassumption. }
    pose proof (scan_escape_sim 34 _ _ SN Be) as SE.
    destruct (IH _ _ _ SE H B) as (rb & Hrb & Srb). exists rb. split; [|exact Srb].
    intros [|f'] Hf; [lia|]. cbn [scan_string]. rewrite <- E, C1, C2, C3. apply Hrb. lia.
  - destruct (IH _ _ _ SN H B) as (rb & Hrb & Srb). exists rb. split; [|exact Srb].
    intros [|f'] Hf; [lia|]. cbn [scan_string]. rewrite <- E, C1, C2, C3. apply Hrb. lia.
Qed.

Lemma char_finish_sim : forall n a b, sim a b -> sim (char_finish n a) (char_finish n b).
Proof.
  intros n a b S. unfold char_finish. destruct (n =? 1); [exact S | apply sim_add_err; exact S].
Qed.

Lemma scan_char_sim : forall fuel n a b ra, sim a b ->
  scan_char fuel n a = Some ra -> not_past ra ->
  exists rb, (forall fuel', (fuel <= fuel')%nat -> scan_char fuel' n b = Some rb) /\ sim ra rb.
Proof.
  induction fuel as [|f IH]; intros n a b ra S H B; [discriminate|].
  destruct (sim_cases a b S) as [(E & SN) | (Ea & _ & NX & P)].
  2: { exfalso. eapply atb_progress_contra; eauto. eapply scan_char_progress; eassumption. }
  cbn [scan_char] in H. destruct (ch a =? 39) eqn:C1.
  { inversion H; subst. exists (char_finish n (next b)). split; [|apply char_finish_sim; exact SN].
    intros [|f'] Hf; [lia|]. cbn [scan_char]. rewrite <- E, C1. reflexivity. }
  destruct ((ch a =? 10) || (ch a <? 0)) eqn:C2.
  { inversion H; subst.
    destruct (sim_cases _ _ (sim_add_err _ _ SN)) as [(_ & SN') | (Ea' & _ & NX' & P')].
    - exists (char_finish 1 (next (add_err (next b)))). split; [|apply char_finish_sim; exact SN'].
      intros [|f'] Hf; [lia|]. cbn [scan_char]. rewrite <- E, C1, C2. reflexivity.
    - exfalso. eapply atb_progress_contra; [exact Ea' | | exact B].
      rewrite char_finish_len. apply next_len_lt. apply nonneg_ch_not_eof. exact P'. }
  destruct (ch a =? 92) eqn:C3.
  - assert (Be : before (scan_escape 39 (next a))).
    { eapply (before_from_progress (next a) (next b)); [exact SN | apply scan_escape_adv | | | exact B].
      - intro Pe. eapply scan_char_progress; eassumption.
      - eapply adv_len, scan_char_adv; eassumption. }
    pose proof (scan_escape_sim 39 _ _ SN Be) as SE.
    destruct (IH _ _ _ _ SE H B) as (rb & Hrb & Srb). exists rb. split; [|exact Srb].
    intros [|f'] Hf; [lia|]. cbn [scan_char]. rewrite <- E, C1, C2, C3. apply Hrb. lia.
  - destruct (IH _ _ _ _ SN H B) as (rb & Hrb & Srb). exists rb. split; [|exact Srb].
    intros [|f'] Hf; [lia|]. cbn [scan_char]. rewrite <- E, C1, C2, C3. apply Hrb. lia.
Qed.

Lemma scan_raw_sim : forall fuel a b ra, sim a b ->
  scan_raw fuel a = Some ra -> not_past ra ->
  exists rb, (forall fuel', (fuel <= fuel')%nat -> scan_raw fuel' b = Some rb) /\ sim ra rb.
Proof.
  induction fuel as [|f IH]; intros a b ra S H B; [discriminate|].
  destruct (sim_cases a b S) as [(E & SN) | (Ea & _ & NX & P)].
  2: { exfalso. eapply atb_progress_contra; eauto. eapply scan_raw_progress; eassumption. }
  cbn [scan_raw] in H. destruct (ch a =? 96) eqn:C1.
  { inversion H; subst. exists (next b). split; [|exact SN].
    intros [|f'] Hf; [lia|]. cbn [scan_raw]. rewrite <- E, C1. reflexivity. }
  destruct (ch a <? 0) eqn:C2.
  { inversion H; subst.
    destruct (sim_cases _ _ (sim_add_err _ _ SN)) as [(_ & SN') | (Ea' & _ & NX' & P')].
    - exists (next (add_err (next b))). split; [|exact SN'].
      intros [|f'] Hf; [lia|]. cbn [scan_raw]. rewrite <- E, C1, C2. reflexivity.
    - exfalso. eapply atb_progress_contra; [exact Ea' | | exact B].
      apply next_len_lt. apply nonneg_ch_not_eof. exact P'. }
  destruct (IH _ _ _ SN H B) as (rb & Hrb & Srb). exists rb. split; [|exact Srb].
  intros [|f'] Hf; [lia|]. cbn [scan_raw]. rewrite <- E, C1, C2. apply Hrb. lia.
Qed.

Lemma sdt_loop_sim : forall fuel a b ra, sim a b ->
  sdt_loop fuel a = Some ra -> not_past ra ->
  exists rb, (forall fuel', (fuel <= fuel')%nat -> sdt_loop fuel' b = Some rb) /\ sim ra rb.
Proof.
  induction fuel as [|f IH]; intros a b ra S H B; [discriminate|].
  destruct (sim_cases a b S) as [(E & SN) | (Ea & _ & NX & P)].
  2: { exfalso. eapply atb_progress_contra; eauto. eapply sdt_loop_progress; eassumption. }
  cbn [sdt_loop] in H. destruct (ch a <? 0) eqn:C1.
  { inversion H; subst.
    destruct (sim_cases _ _ (sim_add_err _ _ S)) as [(_ & SN') | (Ea' & _ & NX' & P')].
    - exists (next (add_err b)). split; [|exact SN'].
      intros [|f'] Hf; [lia|]. cbn [sdt_loop]. rewrite <- E, C1. reflexivity.
    - exfalso. rewrite ch_add_err in P'. lia. }
  destruct (ch a =? 62) eqn:C2.
  - destruct (sim_cases _ _ SN) as [(E1 & SN1) | (Ea1 & _ & NX1 & P1)].
    2: { exfalso. eapply atb_progress_contra; [exact Ea1 | | exact B].
         pose proof (next_len_lt _ (nonneg_ch_not_eof _ P1)) as L1.
         destruct (ch (next a) =? 62).
         - inversion H; subst. exact L1.
         - apply sdt_loop_adv, adv_len in H. lia. }
    destruct (ch (next a) =? 62) eqn:C3.
    + inversion H; subst. exists (next (next b)). split; [|exact SN1].
      intros [|f'] Hf; [lia|]. cbn [sdt_loop]. rewrite <- E, C1, C2, <- E1, C3. reflexivity.
    + destruct (IH _ _ _ SN1 H B) as (rb & Hrb & Srb). exists rb. split; [|exact Srb].
      intros [|f'] Hf; [lia|]. cbn [sdt_loop]. rewrite <- E, C1, C2, <- E1, C3. apply Hrb. lia.
  - destruct (IH _ _ _ SN H B) as (rb & Hrb & Srb). exists rb. split; [|exact Srb].
    intros [|f'] Hf; [lia|]. cbn [sdt_loop]. rewrite <- E, C1, C2. apply Hrb. lia.
Qed.

Lemma ident_loop_sim : forall fuel a b ra, sim a b ->
  ident_loop fuel a = Some ra -> not_past ra ->
  exists rb, (forall fuel', (fuel <= fuel')%nat -> ident_loop fuel' b = Some rb) /\ sim ra rb.
Proof.
  induction fuel as [|f IH]; intros a b ra S H B; [discriminate|].
  cbn [ident_loop] in H.
  destruct (sim_cases a b S) as [(E & SN) | (Ea & Eb & NX & P)].
  - destruct (ident_char (ch a)) eqn:C.
    + destruct (IH _ _ _ SN H B) as (rb & Hrb & Srb). exists rb. split; [|exact Srb].
      intros [|f'] Hf; [lia|]. cbn [ident_loop]. rewrite <- E, C. apply Hrb. lia.
    + inversion H; subst. exists b. split; [|exact S].
      intros [|f'] Hf; [lia|]. cbn [ident_loop]. rewrite <- E, C. reflexivity.
  - destruct (ident_char (ch a)) eqn:C.
    + exfalso. eapply atb_progress_contra; [exact Ea | | exact B].
      apply ident_loop_adv, adv_len in H.
      pose proof (next_len_lt _ (nonneg_ch_not_eof _ P)). lia.
    + inversion H; subst. exists b. split; [|exact S].
      intros [|f'] Hf; [lia|]. cbn [ident_loop].
      replace (ch b) with chY by (unfold chY, ch; rewrite Eb; reflexivity).
      rewrite H3; [reflexivity|]. unfold chX. unfold ch in C. rewrite Ea in C. exact C.
Qed.


Definition tok_eq (ta tb : ftok) : Prop := f_type ta = f_type tb /\ f_lit ta = f_lit tb.

Lemma lit_between_sim : forall a0 b0 ra rb, sim a0 b0 -> sim ra rb -> adv a0 ra -> adv b0 rb ->
  lit_between a0 ra = lit_between b0 rb.
Proof.
  intros a0 b0 ra rb (c0 & _ & _ & Ea0 & Eb0) (c1 & _ & _ & Ea1 & Eb1) (p & Hp & _) (q & Hq & _).
  rewrite (lit_between_adv a0 ra p Hp), (lit_between_adv b0 rb q Hq).
  rewrite Ea0, Ea1, app_assoc in Hp. apply app_inv_tail in Hp.
  rewrite Eb0, Eb1, app_assoc in Hq. apply app_inv_tail in Hq.
  rewrite Hp in Hq. apply app_inv_tail in Hq. exact Hq.
Qed.

Lemma mk_tok_eq : forall ty a0 b0 ra rb, sim a0 b0 -> sim ra rb -> adv a0 ra -> adv b0 rb ->
  tok_eq (mk_tok ty a0 ra) (mk_tok ty b0 rb).
Proof.
  intros. split; [reflexivity|]. cbn [f_lit mk_tok]. apply lit_between_sim; assumption.
Qed.

Lemma scan_tok_sim : forall F F' reca recb a0 b0 ta ra,
  (F <= F')%nat -> sim a0 b0 ->
  scan_tok F reca a0 = Some (ta, ra) -> not_past ra ->
  (forall a b t r, sim a b -> reca a = Some (t, r) -> not_past r ->
     exists tb rb, recb b = Some (tb, rb) /\ sim r rb /\ tok_eq t tb) ->
  (forall a t r, reca a = Some (t, r) -> adv a r) ->
  (forall a t r, reca a = Some (t, r) -> nonneg (s_cur a) -> (0 < len a)%nat -> (len r < len a)%nat) ->
  exists tb rb, scan_tok F' recb b0 = Some (tb, rb) /\ sim ra rb /\ tok_eq ta tb.
Proof.
  intros F F' reca recb a0 b0 ta ra HF S H B Hrec Hadv Hcons.
  destruct (sim_cases a0 b0 S) as [(E & SN) | (Ea & Eb & NX & P)].
  2: { exfalso. eapply atb_progress_contra; [exact Ea | | exact B].
       eapply scan_tok_consumes; [exact H | exact Hadv | apply nonneg_ch_not_eof; exact P]. }
  unfold scan_tok in *. rewrite <- E.
  destruct ((ch a0 =? 33) || is_letter (ch a0)) eqn:I.
  { bind_some H st1 L. inversion H; subst; clear H.
    destruct (ident_loop_sim F a0 b0 ra S L B) as (rb & Hrb & Srb).
    rewrite (Hrb F' HF). cbn [opt_bind].
    assert (Ab : adv b0 rb) by (eapply ident_loop_adv; apply (Hrb F' HF)).
    assert (Aa : adv a0 ra) by (eapply ident_loop_adv; exact L).
    rewrite <- (lit_between_sim a0 b0 ra rb S Srb Aa Ab).
    eexists; eexists. split; [reflexivity|]. split; [exact Srb|].
    apply mk_tok_eq; assumption. }
  destruct (ch a0 =? -1) eqn:C0.
  { inversion H; subst; clear H. eexists; eexists. split; [reflexivity|]. split; [exact SN|].
    apply mk_tok_eq; try assumption; apply adv_next. }
  destruct (ch a0 =? 34).
  { bind_some H st2 S2. inversion H; subst; clear H.
    destruct (scan_string_sim F _ _ ra SN S2 B) as (rb & Hrb & Srb).
    rewrite (Hrb F' HF). cbn [opt_bind]. eexists; eexists. split; [reflexivity|]. split; [exact Srb|].
    apply mk_tok_eq; try assumption.
    - eapply adv_trans; [apply adv_next | eapply scan_string_adv; exact S2].
    - eapply adv_trans; [apply adv_next | eapply scan_string_adv; apply (Hrb F' HF)]. }
  destruct (ch a0 =? 39).
  { bind_some H st2 S2. inversion H; subst; clear H.
    destruct (scan_char_sim F 0 _ _ ra SN S2 B) as (rb & Hrb & Srb).
    rewrite (Hrb F' HF). cbn [opt_bind]. eexists; eexists. split; [reflexivity|]. split; [exact Srb|].
    apply mk_tok_eq; try assumption.
    - eapply adv_trans; [apply adv_next | eapply scan_char_adv; exact S2].
    - eapply adv_trans; [apply adv_next | eapply scan_char_adv; apply (Hrb F' HF)]. }
  destruct (ch a0 =? 96).
  { bind_some H st2 S2. inversion H; subst; clear H.
    destruct (scan_raw_sim F _ _ ra SN S2 B) as (rb & Hrb & Srb).
    rewrite (Hrb F' HF). cbn [opt_bind]. eexists; eexists. split; [reflexivity|]. split; [exact Srb|].
    apply mk_tok_eq; try assumption.
    - eapply adv_trans; [apply adv_next | eapply scan_raw_adv; exact S2].
    - eapply adv_trans; [apply adv_next | eapply scan_raw_adv; apply (Hrb F' HF)]. }
  destruct (ch a0 =? 47) eqn:C47.
  { destruct (sim_cases _ _ SN) as [(E1 & SN1) | (Ea1 & Eb1 & NX & P1)].
    - rewrite <- E1. destruct ((ch (next a0) =? 47) || (ch (next a0) =? 42)).
      + bind_some H st2 S2.
        assert (Bst2 : before st2).
        { destruct (Nat.eq_dec (length X) 0) as [Z0|NZ]; [left; apply length_zero_iff_nil; exact Z0|].
          right. pose proof (adv_len _ _ (Hadv _ _ _ H)). unfold not_past in B.
          assert (L2 : (0 < len st2)%nat) by lia.
          assert (N2 : nonneg (s_cur st2)).
          { eapply adv_nonneg; [eapply scan_comment_adv; exact S2|]. eapply sim_nonneg; exact SN. }
          pose proof (Hcons _ _ _ H N2 L2). lia. }
        destruct (scan_comment_sim F a0 b0 _ _ st2 SN S2 Bst2) as (st2b & Hst2b & Sst2).
        rewrite (Hst2b F' HF). cbn [opt_bind].
        destruct (Hrec _ _ _ _ Sst2 H B) as (tb & rb & Hb & Srb & Teq).
        exists tb, rb. auto.
      + inversion H; subst; clear H. eexists; eexists. split; [reflexivity|]. split; [exact SN|].
        apply mk_tok_eq; try assumption; apply adv_next.
    - (* the slash is the last byte before X *)
      apply Z.eqb_eq in C47. destruct (ch_ascii_inv a0 47 C47 ltac:(lia)) as (t & Et).
      assert (EtX : t = X) by (rewrite <- Ea1; symmetry; eapply next_ascii; [exact Et | lia]).
      subst t.
      assert (HPS : PS).
      { destruct S as (c0 & _ & Sc & Ea0 & _). apply (Sc []). cbn [app].
        rewrite Et in Ea0. change (47 :: X) with ([47] ++ X) in Ea0.
        apply app_inv_tail in Ea0. symmetry. exact Ea0. }
      assert (CX : ch (next a0) = chX) by (unfold ch, chX; rewrite Ea1; reflexivity).
      assert (CY : ch (next b0) = chY) by (unfold ch, chY; rewrite Eb1; reflexivity).
      rewrite CY. rewrite CX in H.
      destruct ((chX =? 47) || (chX =? 42)) eqn:T.
      + exfalso. bind_some H st2 S2.
        assert (L2 : (len st2 < len (next a0))%nat).
        { unfold scan_comment in S2. destruct (ch (next a0) =? 47).
          - eapply line_comment_progress; [exact S2 | exact P1].
          - apply block_comment_adv, adv_len in S2.
            assert (Le : (len (expect 42 (next a0)) < len (next a0))%nat).
            { unfold expect. destruct (ch (next a0) =? 42); [apply next_len_lt, nonneg_ch_not_eof; exact P1|].
              pose proof (next_len_lt (add_err (next a0))) as Q. rewrite ch_add_err in Q.
              specialize (Q (nonneg_ch_not_eof _ P1)). unfold len in *. cbn [add_err s_cur] in *. exact Q. }
            lia. }
        pose proof (adv_len _ _ (Hadv _ _ _ H)).
        eapply atb_progress_contra; [exact Ea1 | | exact B]. lia.
      + rewrite (H4 HPS eq_refl). inversion H; subst; clear H.
        eexists; eexists. split; [reflexivity|]. split; [exact SN|].
        apply mk_tok_eq; try assumption; apply adv_next. }
  destruct (ch a0 =? 60).
  { destruct (sim_cases _ _ SN) as [(E1 & SN1) | (Ea1 & Eb1 & NX & P1)].
    - rewrite <- E1. destruct (ch (next a0) =? 60).
      + bind_some H st2 S2. inversion H; subst; clear H.
        assert (S2' := S2). unfold scan_sdt in S2'.
        destruct (sdt_loop_sim F _ _ ra SN1 S2' B) as (rb & Hrb & Srb).
        unfold scan_sdt. rewrite (Hrb F' HF). cbn [opt_bind].
        eexists; eexists. split; [reflexivity|]. split; [exact Srb|].
        apply mk_tok_eq; try assumption.
        * eapply adv_trans; [apply adv_next | eapply scan_sdt_adv; exact S2].
        * eapply adv_trans; [apply adv_next|]. eapply adv_trans; [apply adv_next|].
          eapply sdt_loop_adv; apply (Hrb F' HF).
      + destruct (ch (next a0) =? 61); inversion H; subst; clear H.
        * eexists; eexists. split; [reflexivity|]. split; [exact SN1|].
          apply mk_tok_eq; try assumption; (eapply adv_trans; [apply adv_next | apply adv_next]).
        * eexists; eexists. split; [reflexivity|]. split; [exact SN|].
          apply mk_tok_eq; try assumption; apply adv_next.
    - assert (CX : ch (next a0) = chX) by (unfold ch, chX; rewrite Ea1; reflexivity).
      assert (CY : ch (next b0) = chY) by (unfold ch, chY; rewrite Eb1; reflexivity).
      rewrite CY. rewrite CX in H.
      pose proof (next_len_lt _ (nonneg_ch_not_eof _ P1)) as L1.
      destruct (chX =? 60) eqn:T1.
      { exfalso. bind_some H st2 S2. inversion H; subst; clear H.
        unfold scan_sdt in S2. apply sdt_loop_adv, adv_len in S2.
        eapply atb_progress_contra; [exact Ea1 | | exact B]. lia. }
      destruct (chX =? 61) eqn:T2.
      { exfalso. inversion H; subst; clear H.
        eapply atb_progress_contra; [exact Ea1 | exact L1 | exact B]. }
      destruct (H5 eq_refl eq_refl) as (U1 & U2). rewrite U1, U2. inversion H; subst; clear H.
      eexists; eexists. split; [reflexivity|]. split; [exact SN|].
      apply mk_tok_eq; try assumption; apply adv_next. }
  destruct (punct_type (ch a0)); inversion H; subst; clear H.
  - eexists; eexists. split; [reflexivity|]. split; [exact SN|].
    apply mk_tok_eq; try assumption; apply adv_next.
  - eexists; eexists. split; [reflexivity|]. split; [apply sim_add_err; exact SN|].
    apply mk_tok_eq; try assumption; try (apply sim_add_err; exact SN);
      (eapply adv_trans; [apply adv_next | apply adv_add_err]).
Qed.


Lemma skip_ws_idem : forall fuel st r, skip_ws fuel st = Some r -> skip_ws fuel r = Some r.
Proof.
  intros fuel st r H. pose proof (skip_ws_stops _ _ _ H) as B.
  destruct fuel as [|f]; [discriminate|]. cbn [skip_ws]. rewrite B. reflexivity.
Qed.

Lemma scan_sim : forall F fuel a b ta ra, sim a b ->
  scan F fuel a = Some (ta, ra) -> not_past ra ->
  forall F' fuel', (F <= F')%nat -> (fuel <= fuel')%nat ->
  exists tb rb, scan F' fuel' b = Some (tb, rb) /\ sim ra rb /\ tok_eq ta tb.
Proof.
  intros F. induction fuel as [|f IH]; intros a b ta ra Sab H B F' fuel' HF Hf; [discriminate|].
  destruct fuel' as [|f']; [lia|].
  rewrite scan_unfold in H |- *. bind_some H st0 W.
  assert (Hst0 : scan F (S f) st0 = Some (ta, ra)).
  { rewrite scan_unfold, (skip_ws_idem _ _ _ W). exact H. }
  assert (N0 : nonneg (s_cur st0)).
  { eapply adv_nonneg; [eapply skip_ws_adv; exact W | eapply sim_nonneg; exact Sab]. }
  assert (B0 : before st0).
  { destruct (Nat.eq_dec (length X) 0) as [Z0|NZ]; [left; apply length_zero_iff_nil; exact Z0|].
    right. unfold not_past in B. pose proof (adv_len _ _ (scan_adv _ _ _ _ _ Hst0)).
    destruct (Nat.eq_dec (len st0) 0) as [L0|L0]; [lia|].
    pose proof (scan_consumes _ _ _ _ _ Hst0 N0). lia. }
  destruct (skip_ws_sim F a b st0 Sab W B0) as (st0b & Hst0b & Sst0).
  rewrite (Hst0b F' HF). cbn [opt_bind].
  eapply scan_tok_sim; [exact HF | exact Sst0 | exact H | exact B | | | ].
  - intros a1 b1 t r S1 H1 B1. eapply IH; [exact S1 | exact H1 | exact B1 | exact HF | lia].
  - intros a1 t r H1. eapply scan_adv; exact H1.
  - intros a1 t r H1. eapply scan_consumes; exact H1.
Qed.

End Sim.

(** ** Tokens depend only on the remaining input (not on positions, error count, fuel) *)

Lemma scan_indep : forall F fuel a b ta ra,
  nonneg (s_cur a) -> s_cur a = s_cur b ->
  scan F fuel a = Some (ta, ra) ->
  forall F' fuel', (F <= F')%nat -> (fuel <= fuel')%nat ->
  exists tb rb, scan F' fuel' b = Some (tb, rb) /\ s_cur ra = s_cur rb /\ tok_eq ta tb.
Proof.
  intros F fuel a b ta ra N E H F' fuel' HF Hf.
  assert (S : sim [] [] True a b).
  { exists (s_cur a). rewrite <- E, !app_nil_r. auto. }
  destruct (scan_sim [] [] True (or_introl (conj eq_refl eq_refl)) (fun h => h)
              (fun _ h => h) (fun h1 h2 => conj h1 h2) F fuel a b ta ra S H) with (F' := F') (fuel' := fuel')
    as (tb & rb & Hb & (c & _ & _ & Ea & Eb) & T); try assumption.
  - unfold not_past. cbn [length]. lia.
  - exists tb, rb. rewrite !app_nil_r in *. repeat split; try assumption; try apply T. congruence.
Qed.

Definition strip (t : ftok) : Z * list Z := (f_type t, f_lit t).

Lemma tok_eq_strip : forall a b, tok_eq a b -> strip a = strip b.
Proof. intros a b (H1 & H2). unfold strip. congruence. Qed.

(** One Scan call as a function of the remaining input. *)
Definition scan1 (cur : list Z) : option ((Z * list Z) * list Z) :=
  match scan (fuel_for cur) (fuel_for cur) (init cur) with
  | Some (t, st') => Some (strip t, s_cur st')
  | None => None
  end.

(** The stripped token list as a function of the input. *)
Definition toks (src : list Z) : list (Z * list Z) := map strip (fst (fscan_all src)).

Lemma fuel_for_len : forall cur, (len (init cur) < fuel_for cur)%nat.
Proof. intro cur. unfold len, fuel_for, init. cbn [s_cur]. lia. Qed.

Lemma scan_scan1 : forall F fuel st t st', nonneg (s_cur st) ->
  scan F fuel st = Some (t, st') -> scan1 (s_cur st) = Some (strip t, s_cur st').
Proof.
  intros F fuel st t st' N H. unfold scan1.
  set (cur := s_cur st) in *. set (Fc := fuel_for cur).
  destruct (scan_total Fc Fc (init cur) (fuel_for_len cur) (fuel_for_len cur)) as (t0 & st0 & H0).
  rewrite H0.
  destruct (scan_indep F fuel st (init cur) t st' N eq_refl H (Nat.max F Fc) (Nat.max fuel Fc))
    as (tb & rb & Hb & Eb & Tb); try lia.
  destruct (scan_indep Fc Fc (init cur) (init cur) t0 st0 N eq_refl H0 (Nat.max F Fc) (Nat.max fuel Fc))
    as (tb' & rb' & Hb' & Eb' & Tb'); try lia.
  rewrite Hb in Hb'. inversion Hb'; subst tb' rb'.
  rewrite (tok_eq_strip _ _ Tb), (tok_eq_strip _ _ Tb'), Eb, Eb'. reflexivity.
Qed.

Lemma scan1_total : forall cur, exists tk cur', scan1 cur = Some (tk, cur').
Proof.
  intro cur. unfold scan1.
  destruct (scan_total _ _ (init cur) (fuel_for_len cur) (fuel_for_len cur)) as (t0 & st0 & H0).
  rewrite H0. eauto.
Qed.

(** [scan1] consumes a prefix *)
Lemma scan1_suffix : forall cur tk cur', scan1 cur = Some (tk, cur') -> exists p, cur = p ++ cur'.
Proof.
  intros cur tk cur' H. unfold scan1 in H.
  destruct (scan _ _ (init cur)) as [[t st']|] eqn:E; [|discriminate]. inversion H; subst.
  apply scan_adv in E. destruct E as (p & Hp & _). exists p. exact Hp.
Qed.

Lemma scan1_consumes : forall cur ty lit cur', nonneg cur -> scan1 cur = Some ((ty, lit), cur') ->
  cur <> [] -> (length cur' < length cur)%nat.
Proof.
  intros cur ty lit cur' N H NE. unfold scan1 in H.
  destruct (scan _ _ (init cur)) as [[t st']|] eqn:E; [|discriminate]. inversion H; subst.
  apply scan_consumes in E; [exact E | exact N |]. unfold len, init. cbn [s_cur].
  destruct cur; [contradiction | cbn; lia].
Qed.

Lemma scan_all_indep : forall F fuel a b ts ra,
  nonneg (s_cur a) -> s_cur a = s_cur b ->
  scan_all F fuel a = Some (ts, ra) ->
  forall F' fuel', (F <= F')%nat -> (fuel <= fuel')%nat ->
  exists tsb rb, scan_all F' fuel' b = Some (tsb, rb) /\ map strip ts = map strip tsb.
Proof.
  intros F. induction fuel as [|f IH]; intros a b ts ra N E H F' fuel' HF Hf; [discriminate|].
  destruct fuel' as [|f']; [lia|]. cbn [scan_all] in *.
  bind_some H r S1. destruct r as [t st1].
  destruct (scan_indep F F a b t st1 N E S1 F' F' HF HF) as (tb & rb & Hb & Eb & Tb).
  rewrite Hb. cbn [opt_bind].
  destruct Tb as (Ty & Tl). rewrite <- Ty.
  destruct (f_type t =? 0).
  - inversion H; subst. eexists; eexists. split; [reflexivity|].
    cbn [map]. unfold strip. rewrite Ty, Tl. reflexivity.
  - bind_some H r' S2. destruct r' as [ts2 st2]. inversion H; subst.
    assert (N1 : nonneg (s_cur st1)).
    { eapply adv_nonneg_of; [eapply scan_adv; exact S1 | exact N]. }
    destruct (IH st1 rb ts2 ra N1 Eb S2 F' f' HF ltac:(lia)) as (tsb & rb2 & Hb2 & Eq2).
    rewrite Hb2. cbn [opt_bind]. eexists; eexists. split; [reflexivity|].
    cbn [map]. unfold strip at 1 3. rewrite Ty, Tl, Eq2. reflexivity.
Qed.

Lemma scan_all_unfold : forall F f st,
  scan_all F (S f) st =
  do r <- scan F F st;
  let '(t, st') := r in
  if f_type t =? 0 then Some ([t], st')
  else do r' <- scan_all F f st'; let '(ts, st'') := r' in Some (t :: ts, st'').
Proof. reflexivity. Qed.

Lemma scan_nonEOF_consumes : forall F fuel st t st', scan F fuel st = Some (t, st') ->
  f_type t <> 0 -> (len st' < len st)%nat.
Proof.
  intros F fuel st t st' H N. apply scan_spec in H.
  destruct H as (st0 & ty & A0 & A1 & E & S & _). subst t. cbn [f_type mk_tok] in N.
  specialize (S N). apply adv_len in A0. lia.
Qed.

Lemma toks_step : forall cur ty lit cur', nonneg cur ->
  scan1 cur = Some ((ty, lit), cur') ->
  toks cur = (ty, lit) :: (if ty =? 0 then [] else toks cur').
Proof.
  intros cur ty lit cur' N H. unfold toks at 1.
  destruct (fscan_opt_total cur) as (ts & e & _ & HA). rewrite HA. cbn [fst].
  apply fscan_all_inv in HA. destruct HA as (stE & HA & _).
  unfold scan1 in H. remember (fuel_for cur) as Fc eqn:EF.
  unfold fuel_for in EF. rewrite EF in HA at 2. rewrite scan_all_unfold in HA.
  destruct (scan Fc Fc (init cur)) as [[t st1]|] eqn:S1; [|discriminate].
  cbn [opt_bind] in HA.
  assert (Ety : ty = f_type t) by (unfold strip in H; congruence).
  assert (Elit : lit = f_lit t) by (unfold strip in H; congruence).
  assert (Ecur : cur' = s_cur st1) by congruence.
  rewrite Ety, Elit, Ecur. clear H Ety Elit Ecur.
  destruct (f_type t =? 0) eqn:Z0.
  - assert (Ets : ts = [t]) by congruence. rewrite Ets. reflexivity.
  - bind_some HA r' S2. destruct r' as [ts2 st2].
    assert (Ets : ts = t :: ts2) by congruence. rewrite Ets. cbn [map]. f_equal.
    unfold toks.
    destruct (fscan_opt_total (s_cur st1)) as (ts' & e' & _ & HB). rewrite HB. cbn [fst].
    apply fscan_all_inv in HB. destruct HB as (stE' & HB & _).
    assert (N1 : nonneg (s_cur st1)).
    { eapply adv_nonneg_of; [eapply scan_adv; exact S1 | exact N]. }
    assert (L1 : (len st1 < len (init cur))%nat).
    { eapply scan_nonEOF_consumes; [exact S1 | apply Z.eqb_neq; exact Z0]. }
    assert (LF : (fuel_for (s_cur st1) <= S (S (length cur)))%nat).
    { unfold fuel_for, len, init in *. cbn [s_cur] in L1. lia. }
    destruct (scan_all_indep _ _ (init (s_cur st1)) st1 ts' stE' N1 eq_refl HB Fc (S (S (length cur))))
      as (tsb & rb & Hb & Eq); [rewrite EF; lia | exact LF |].
    rewrite S2 in Hb. assert (Etb : tsb = ts2) by congruence. rewrite Etb in Eq.
    symmetry. exact Eq.
Qed.

(** ** Leading layout is skipped (Theorem A) *)

Lemma skip_ws_mono : forall f f' st r, skip_ws f st = Some r -> (f <= f')%nat -> skip_ws f' st = Some r.
Proof.
  induction f as [|f IH]; intros f' st r H L; [discriminate|].
  destruct f' as [|f']; [lia|]. cbn [skip_ws] in *.
  destruct (is_blank (ch st)); [apply IH; [exact H | lia] | exact H].
Qed.

Lemma skip_ws_unfold : forall f st,
  skip_ws (S f) st = if is_blank (ch st) then skip_ws f (next st) else Some st.
Proof. reflexivity. Qed.

Lemma is_blank_lt128 : forall b, is_blank b = true -> b < 128.
Proof.
  intros b H. unfold is_blank in H.
  repeat (apply orb_true_iff in H; destruct H as [H|H]); apply Z.eqb_eq in H; lia.
Qed.

Lemma ch_lt128 : forall st b t, s_cur st = b :: t -> b < 128 -> ch st = b.
Proof. intros st b t E L. unfold ch. rewrite E, (read_lt128 b t L). reflexivity. Qed.

Lemma scan1_blank : forall b rest, is_blank b = true -> nonneg (b :: rest) ->
  scan1 (b :: rest) = scan1 rest.
Proof.
  intros b rest B N.
  pose proof (is_blank_lt128 b B) as L.
  set (a := init (b :: rest)). set (Fc := fuel_for (b :: rest)).
  assert (Ea : s_cur a = b :: rest) by reflexivity.
  destruct (scan_total Fc Fc a (fuel_for_len _) (fuel_for_len _)) as (t & st' & H).
  assert (H1 : scan1 (b :: rest) = Some (strip t, s_cur st')).
  { rewrite <- Ea. eapply scan_scan1; [rewrite Ea; exact N | exact H]. }
  assert (En : s_cur (next a) = rest) by (eapply next_ascii; [exact Ea | exact L]).
  assert (H' : scan Fc Fc (next a) = Some (t, st')).
  { unfold Fc, fuel_for in *. rewrite scan_unfold in H |- *.
    rewrite skip_ws_unfold in H. rewrite (ch_lt128 a b rest Ea L), B in H.
    bind_some H st0 W. rewrite (skip_ws_mono _ _ _ _ W) by lia.
    cbn [opt_bind]. exact H. }
  rewrite H1. rewrite <- En. symmetry. eapply scan_scan1; [|exact H'].
  rewrite En. inversion N; assumption.
Qed.

(** *** Comments *)

Lemma read_not_ascii : forall b t k, b <> k -> 0 <= k < 128 -> fst (read (b :: t)) <> k.
Proof.
  intros b t k NE K. destruct (Z_lt_le_dec b 128) as [L|L].
  - rewrite (read_lt128 b t L). cbn [fst]. exact NE.
  - pose proof (read_ge128 b t L). lia.
Qed.

Lemma hard_lt128 : forall b t, b < 128 -> hard (b :: t).
Proof. intros b t L. unfold hard, cont, in_rng. apply andb_false_iff. left. apply Z.leb_gt. lia. Qed.

(** one step inside [c ++ X] where X starts with an ASCII byte *)
Lemma next_within : forall st b c X, s_cur st = (b :: c) ++ X -> hard X ->
  exists c', s_cur (next st) = c' ++ X /\ (length c' <= length c)%nat /\
             (exists p, b :: c = p ++ c').
Proof.
  intros st b c X E HX. destruct (read_hard b c X X HX HX) as (_ & W).
  exists (skipn (snd (read (b :: c ++ X))) (b :: c)).
  rewrite next_cur, E. cbn [app]. set (w := snd (read (b :: c ++ X))) in *.
  split; [|split].
  - change (b :: c ++ X) with ((b :: c) ++ X). rewrite skipn_app.
    replace (w - length (b :: c))%nat with 0%nat by (cbn [length]; lia). reflexivity.
  - rewrite skipn_length. cbn [length].
    pose proof (read_width b (c ++ X)). fold w in H. lia.
  - exists (firstn w (b :: c)). symmetry. apply firstn_skipn.
Qed.

Lemma line_comment_run : forall fuel c rest c0 col0 st,
  s_cur st = c ++ 10 :: rest -> c <> [] -> (forall x, In x c -> x <> 10) -> nonneg (c ++ 10 :: rest) ->
  (length c < fuel)%nat ->
  exists r, line_comment fuel c0 col0 st = Some r /\ s_cur r = 10 :: rest.
Proof.
  induction fuel as [|f IH]; intros c rest c0 col0 st E NE N10 NN L; [lia|].
  destruct c as [|b c]; [contradiction|]. cbn [line_comment].
  assert (P : 0 <= ch st).
  { apply ch_nonneg_of; [rewrite E; exact NN | unfold len; rewrite E; cbn; lia]. }
  replace (ch st >=? 0) with true by (symmetry; apply Z.geb_le; lia).
  destruct (next_within st b c (10 :: rest) E (hard_lt128 10 rest ltac:(lia))) as (c' & En & Lc & (p & Hp)).
  destruct c' as [|b' c'].
  - cbn [app] in En. rewrite (ch_lt128 _ 10 rest En ltac:(lia)). cbn [Z.eqb Pos.eqb].
    eexists. split; [reflexivity|].
    assert (A := adv_line_directive c0 col0 (next st)).
    unfold line_directive.
    repeat match goal with |- context [if ?x then _ else _] => destruct x end;
    repeat match goal with |- context [match ?o with Some _ => _ | None => _ end] => destruct o end;
    exact En.
  - assert (I' : In b' (b :: c)) by (rewrite Hp; apply in_or_app; right; left; reflexivity).
    replace (ch (next st) =? 10) with false.
    2: { symmetry. apply Z.eqb_neq. unfold ch. rewrite En. cbn [app].
         apply read_not_ascii; [apply N10; exact I' | lia]. }
    apply (IH (b' :: c') rest c0 col0 (next st) En); try discriminate.
    + intros x Hx. apply N10. rewrite Hp. apply in_or_app. right. exact Hx.
    + rewrite Hp, <- app_assoc in NN. apply Forall_app in NN. tauto.
    + cbn [length] in *. lia.
Qed.

Fixpoint has_close (l : list Z) : bool :=
  match l with
  | a :: (b :: _) as t => ((a =? 42) && (b =? 47)) || has_close t
  | _ => false
  end.

Lemma has_close_app_r : forall p l, has_close (p ++ l) = false -> has_close l = false.
Proof.
  induction p as [|a p IH]; intros l H; [exact H|]. apply IH.
  cbn [app] in H. destruct (p ++ l) as [|b t] eqn:E; [reflexivity|].
  cbn [has_close] in H. apply orb_false_iff in H. tauto.
Qed.

Lemma block_comment_run : forall fuel c rest st,
  s_cur st = c ++ 42 :: 47 :: rest -> has_close c = false -> nonneg (c ++ 42 :: 47 :: rest) ->
  (S (length c) < fuel)%nat ->
  exists r, block_comment fuel st = Some r /\ s_cur r = rest.
Proof.
  induction fuel as [|f IH]; intros c rest st E HC NN L; [lia|]. cbn [block_comment].
  assert (P : 0 <= ch st).
  { apply ch_nonneg_of; [rewrite E; exact NN | unfold len; rewrite E, app_length; cbn; lia]. }
  replace (ch st >=? 0) with true by (symmetry; apply Z.geb_le; lia).
  destruct c as [|b c].
  - cbn [app] in E. rewrite (ch_lt128 st 42 _ E ltac:(lia)).
    assert (En : s_cur (next st) = 47 :: rest) by (eapply next_ascii; [exact E | lia]).
    rewrite (ch_lt128 _ 47 rest En ltac:(lia)). cbn [Z.eqb Pos.eqb andb].
    eexists. split; [reflexivity|]. eapply next_ascii; [exact En | lia].
  - destruct (next_within st b c (42 :: 47 :: rest) E (hard_lt128 42 _ ltac:(lia)))
      as (c' & En & Lc & (p & Hp)).
    assert (HC' : has_close c' = false) by (apply (has_close_app_r p); rewrite <- Hp; exact HC).
    replace ((ch st =? 42) && (ch (next st) =? 47)) with false.
    2: { symmetry. apply andb_false_iff.
         destruct (Z.eq_dec b 42) as [Eb|Nb].
         - right. apply Z.eqb_neq. subst b.
           (* the slash would close the comment inside c *)
           assert (W1 : s_cur (next st) = c ++ 42 :: 47 :: rest)
             by (eapply next_ascii; [exact E | lia]).
           unfold ch. rewrite W1. destruct c as [|b1 c1]; cbn [app].
           + rewrite read_lt128 by lia. cbn [fst]. lia.
           + apply read_not_ascii; [|lia]. intro Eb1. subst b1.
             cbn [has_close] in HC. cbn in HC. discriminate HC.
         - left. apply Z.eqb_neq. unfold ch. rewrite E. cbn [app].
           apply read_not_ascii; [exact Nb | lia]. }
    apply (IH c' rest (next st) En HC').
    + rewrite Hp, <- app_assoc in NN. apply Forall_app in NN. tauto.
    + cbn [length] in L. lia.
Qed.

Lemma scan_tok_comment : forall F rec st0, ch st0 = 47 ->
  ((ch (next st0) =? 47) || (ch (next st0) =? 42)) = true ->
  scan_tok F rec st0 = do st2 <- scan_comment F st0 (next st0); rec st2.
Proof.
  intros F rec st0 E C. unfold scan_tok. rewrite E, C.
  replace ((47 =? 33) || is_letter 47) with false by reflexivity. reflexivity.
Qed.

Lemma scan1_line_comment : forall body rest, (forall x, In x body -> x <> 10) ->
  nonneg (47 :: 47 :: body ++ 10 :: rest) ->
  scan1 (47 :: 47 :: body ++ 10 :: rest) = scan1 (10 :: rest).
Proof.
  intros body rest N10 NN.
  set (src := 47 :: 47 :: body ++ 10 :: rest) in *.
  set (a := init src). set (Fc := fuel_for src).
  assert (Ea : s_cur a = 47 :: 47 :: body ++ 10 :: rest) by reflexivity.
  destruct (scan_total Fc Fc a (fuel_for_len _) (fuel_for_len _)) as (t & st' & H).
  assert (H1 : scan1 src = Some (strip t, s_cur st')).
  { change src with (s_cur a). eapply scan_scan1; [exact NN | exact H]. }
  rewrite H1. symmetry.
  assert (Ca : ch a = 47) by (eapply ch_lt128; [exact Ea | lia]).
  assert (En : s_cur (next a) = (47 :: body) ++ 10 :: rest) by (eapply next_ascii; [exact Ea | lia]).
  assert (Cn : ch (next a) = 47) by (eapply ch_lt128; [exact En | lia]).
  unfold Fc, fuel_for in H. rewrite scan_unfold, skip_ws_unfold, Ca in H.
  replace (is_blank 47) with false in H by reflexivity. cbn [opt_bind] in H.
  rewrite scan_tok_comment in H; [|exact Ca | rewrite Cn; reflexivity].
  unfold scan_comment in H. rewrite Cn in H. replace (47 =? 47) with true in H by reflexivity.
  destruct (line_comment_run (S (S (S (length src)))) (47 :: body) rest (s_cur a) (s_col a) (next a) En)
    as (r & Hr & Er); try discriminate.
  - intros x [Hx|Hx]; [lia | apply N10; exact Hx].
  - inversion NN; subst. assumption.
  - unfold src. cbn [length]. rewrite app_length. cbn [length]. lia.
  - rewrite Hr in H. cbn [opt_bind] in H. rewrite <- Er. eapply scan_scan1; [|exact H].
    rewrite Er. inversion NN as [|? ? _ NN1]; subst. inversion NN1 as [|? ? _ NN2]; subst.
    apply Forall_app in NN2. tauto.
Qed.

Lemma scan1_block_comment : forall body rest, has_close body = false ->
  nonneg (47 :: 42 :: body ++ 42 :: 47 :: rest) ->
  scan1 (47 :: 42 :: body ++ 42 :: 47 :: rest) = scan1 rest.
Proof.
  intros body rest HC NN.
  set (src := 47 :: 42 :: body ++ 42 :: 47 :: rest) in *.
  set (a := init src). set (Fc := fuel_for src).
  assert (Ea : s_cur a = 47 :: 42 :: body ++ 42 :: 47 :: rest) by reflexivity.
  destruct (scan_total Fc Fc a (fuel_for_len _) (fuel_for_len _)) as (t & st' & H).
  assert (H1 : scan1 src = Some (strip t, s_cur st')).
  { change src with (s_cur a). eapply scan_scan1; [exact NN | exact H]. }
  rewrite H1. symmetry.
  assert (Ca : ch a = 47) by (eapply ch_lt128; [exact Ea | lia]).
  assert (En : s_cur (next a) = 42 :: body ++ 42 :: 47 :: rest) by (eapply next_ascii; [exact Ea | lia]).
  assert (Cn : ch (next a) = 42) by (eapply ch_lt128; [exact En | lia]).
  assert (En2 : s_cur (next (next a)) = body ++ 42 :: 47 :: rest) by (eapply next_ascii; [exact En | lia]).
  unfold Fc, fuel_for in H. rewrite scan_unfold, skip_ws_unfold, Ca in H.
  replace (is_blank 47) with false in H by reflexivity. cbn [opt_bind] in H.
  rewrite scan_tok_comment in H; [|exact Ca | rewrite Cn; reflexivity].
  unfold scan_comment, expect in H. rewrite Cn in H.
  replace (42 =? 47) with false in H by reflexivity. replace (42 =? 42) with true in H by reflexivity.
  destruct (block_comment_run (S (S (S (length src)))) body rest (next (next a)) En2 HC)
    as (r & Hr & Er).
  - inversion NN as [|? ? _ NN1]; subst. inversion NN1; subst. assumption.
  - unfold src. cbn [length]. rewrite app_length. cbn [length]. lia.
  - rewrite Hr in H. cbn [opt_bind] in H. rewrite <- Er. eapply scan_scan1; [|exact H].
    rewrite Er. inversion NN as [|? ? _ NN1]; subst. inversion NN1 as [|? ? _ NN2]; subst.
    apply Forall_app in NN2. destruct NN2 as (_ & NN3).
    inversion NN3 as [|? ? _ NN4]; subst. inversion NN4; subst. assumption.
Qed.

(** Layout: blanks, [// ... newline] comments (the newline included) and [/* ... */]
    comments (the body not containing the closing pair). *)
Inductive is_layout : list Z -> Prop :=
| lay_nil : is_layout []
| lay_blank : forall b l, is_blank b = true -> is_layout l -> is_layout (b :: l)
| lay_line : forall body l, (forall x, In x body -> x <> 10) -> is_layout l ->
    is_layout (47 :: 47 :: body ++ 10 :: l)
| lay_block : forall body l, has_close body = false -> is_layout l ->
    is_layout (47 :: 42 :: body ++ 42 :: 47 :: l).

Theorem scan1_layout : forall ws suf, is_layout ws -> nonneg (ws ++ suf) ->
  scan1 (ws ++ suf) = scan1 suf.
Proof.
  intros ws suf L. induction L as [|b l B L IH|body l N10 L IH|body l HC L IH]; intro NN.
  - reflexivity.
  - cbn [app] in *. rewrite scan1_blank by assumption. apply IH. inversion NN; assumption.
  - cbn [app] in *. rewrite <- app_assoc in *. cbn [app] in *.
    rewrite scan1_line_comment by assumption.
    assert (NN' : nonneg (10 :: l ++ suf)).
    { inversion NN as [|? ? _ NN1]; subst. inversion NN1 as [|? ? _ NN2]; subst.
      apply Forall_app in NN2. tauto. }
    rewrite scan1_blank; [|reflexivity | exact NN']. apply IH. inversion NN'; assumption.
  - cbn [app] in *. rewrite <- app_assoc in *. cbn [app] in *.
    rewrite scan1_block_comment by assumption. apply IH.
    inversion NN as [|? ? _ NN1]; subst. inversion NN1 as [|? ? _ NN2]; subst.
    apply Forall_app in NN2. destruct NN2 as (_ & NN3).
    inversion NN3 as [|? ? _ NN4]; subst. inversion NN4; subst. assumption.
Qed.

Lemma nonneg_app : forall a b, nonneg (a ++ b) <-> nonneg a /\ nonneg b.
Proof. intros a b. unfold nonneg. apply Forall_app. Qed.

Theorem toks_layout : forall ws suf, is_layout ws -> nonneg (ws ++ suf) ->
  toks (ws ++ suf) = toks suf.
Proof.
  intros ws suf L NN. destruct (scan1_total suf) as ([ty lit] & cur' & H).
  pose proof (scan1_layout ws suf L NN) as E. rewrite H in E.
  rewrite (toks_step _ _ _ _ NN E).
  apply nonneg_app in NN. destruct NN as (_ & NS).
  rewrite (toks_step _ _ _ _ NS H). reflexivity.
Qed.

Lemma is_layout_app : forall a b, is_layout a -> is_layout b -> is_layout (a ++ b).
Proof.
  intros a b La Lb. induction La; cbn [app].
  - exact Lb.
  - constructor; assumption.
  - rewrite <- app_assoc. cbn [app]. constructor; assumption.
  - rewrite <- app_assoc. cbn [app]. constructor; assumption.
Qed.

(** ** Scanning a prefix: [run k cur] = the first [k] tokens (none of them EOF) and the rest *)

Fixpoint run (k : nat) (cur : list Z) : option (list (Z * list Z) * list Z) :=
  match k with
  | O => Some ([], cur)
  | S k' =>
    match scan1 cur with
    | Some ((ty, lit), cur') =>
      if ty =? 0 then None
      else match run k' cur' with
           | Some (T, c) => Some ((ty, lit) :: T, c)
           | None => None
           end
    | None => None
    end
  end.

(** After some number of complete Scan calls on [pre ++ suf] the scanner is about to
    start a Scan call exactly at [suf]. *)
Definition boundary (pre suf : list Z) : Prop :=
  exists k T, run k (pre ++ suf) = Some (T, suf).

Lemma run_suffix : forall k cur T c, run k cur = Some (T, c) -> exists p, cur = p ++ c.
Proof.
  induction k as [|k IH]; intros cur T c H; cbn [run] in H.
  - inversion H; subst. exists []. reflexivity.
  - destruct (scan1 cur) as [[[ty lit] cur']|] eqn:S1; [|discriminate].
    destruct (ty =? 0); [discriminate|].
    destruct (run k cur') as [[T' c']|] eqn:R; [|discriminate]. inversion H; subst.
    destruct (IH _ _ _ R) as (p & Hp). destruct (scan1_suffix _ _ _ S1) as (q & Hq).
    exists (q ++ p). rewrite Hq, Hp, app_assoc. reflexivity.
Qed.

Lemma toks_run : forall k cur T c, nonneg cur -> run k cur = Some (T, c) -> toks cur = T ++ toks c.
Proof.
  induction k as [|k IH]; intros cur T c N H; cbn [run] in H.
  - inversion H; subst. reflexivity.
  - destruct (scan1 cur) as [[[ty lit] cur']|] eqn:S1; [|discriminate].
    destruct (ty =? 0) eqn:Z0; [discriminate|].
    destruct (run k cur') as [[T' c']|] eqn:R; [|discriminate]. inversion H; subst.
    rewrite (toks_step _ _ _ _ N S1), Z0. cbn [app]. f_equal.
    apply IH; [|exact R]. destruct (scan1_suffix _ _ _ S1) as (q & Hq).
    rewrite Hq in N. apply nonneg_app in N. tauto.
Qed.

Section Local.
Variables X Y : list Z.
Variable PS : Prop.
Hypothesis NX : X <> [].
Hypothesis NY : Y <> [].
Hypothesis HX : hard X.
Hypothesis HY : hard Y.
Hypothesis NNX : nonneg X.
Hypothesis LXY : (length X <= length Y)%nat.
Hypothesis H3 : ident_char (chX X) = false -> ident_char (chY Y) = false.
Hypothesis H4 : PS -> ((chX X =? 47) || (chX X =? 42)) = false ->
                      ((chY Y =? 47) || (chY Y =? 42)) = false.
Hypothesis H5 : (chX X =? 60) = false -> (chX X =? 61) = false ->
                (chY Y =? 60) = false /\ (chY Y =? 61) = false.

Definition okc (c : list Z) : Prop := nonneg c /\ (forall c', c = c' ++ [47] -> PS).

Lemma scan1_local : forall c tk cur', okc c ->
  scan1 (c ++ X) = Some (tk, cur') -> (length X <= length cur')%nat ->
  exists c', cur' = c' ++ X /\ scan1 (c ++ Y) = Some (tk, c' ++ Y) /\ okc c'.
Proof.
  intros c tk cur' (Nc & Pc) H L. unfold scan1 in H.
  destruct (scan _ _ (init (c ++ X))) as [[t ra]|] eqn:S1; [|discriminate].
  inversion H; subst tk cur'. clear H.
  assert (Sab : sim X Y PS (init (c ++ X)) (init (c ++ Y))).
  { exists c. repeat split; assumption. }
  destruct (scan_sim X Y PS (or_intror (conj NX (conj NY (conj HX (conj HY NNX))))) H3 H4 H5
              _ _ _ _ _ _ Sab S1 L (fuel_for (c ++ Y)) (fuel_for (c ++ Y)))
    as (tb & rb & Hb & (c' & Nc' & Pc' & Ea & Eb) & Teq).
  - unfold fuel_for. rewrite !app_length. lia.
  - unfold fuel_for. rewrite !app_length. lia.
  - exists c'. split; [exact Ea|]. split; [|split; assumption].
    unfold scan1. rewrite Hb, Eb, (tok_eq_strip _ _ Teq). reflexivity.
Qed.

Lemma run_local : forall k c T, okc c -> run k (c ++ X) = Some (T, X) -> run k (c ++ Y) = Some (T, Y).
Proof.
  induction k as [|k IH]; intros c T Oc H; cbn [run] in *.
  - inversion H as [[HT Hc]]. change X with ([] ++ X) in Hc at 2. apply app_inv_tail in Hc.
    subst c. reflexivity.
  - destruct (scan1 (c ++ X)) as [[[ty lit] cur']|] eqn:S1; [|discriminate].
    destruct (ty =? 0) eqn:Z0; [discriminate|].
    destruct (run k cur') as [[T' c1]|] eqn:R; [|discriminate]. inversion H; subst.
    destruct (run_suffix _ _ _ _ R) as (p & Hp).
    destruct (scan1_local c (ty, lit) cur' Oc S1) as (c' & Ec & S2 & Oc').
    { rewrite Hp, app_length. lia. }
    rewrite S2, Z0. rewrite Ec in R. rewrite (IH c' T' Oc' R). reflexivity.
Qed.

End Local.

(** ** The layout theorems *)

Lemma is_layout_head : forall l L, is_layout (l :: L) -> is_blank l = true \/ l = 47.
Proof. intros l L H. inversion H; subst; auto. Qed.

Lemma chX_lt128 : forall b t, b < 128 -> chX (b :: t) = b.
Proof. intros b t L. unfold chX. rewrite (read_lt128 b t L). reflexivity. Qed.

(** (B1) Inserting layout [ws] inside an existing, nonempty layout run [L1] that starts at
    a Scan entry point: no side condition at all. *)
Theorem layout_insert_in_layout : forall pre L1 ws suf,
  nonneg (pre ++ L1 ++ ws ++ suf) ->
  is_layout L1 -> L1 <> [] -> is_layout ws ->
  boundary pre (L1 ++ suf) ->
  toks (pre ++ L1 ++ ws ++ suf) = toks (pre ++ L1 ++ suf).
Proof.
  intros pre L1 ws suf NN LL1 NE Lws (k & T & R).
  destruct L1 as [|l L1']; [contradiction|].
  apply nonneg_app in NN. destruct NN as (Npre & NN).
  assert (NN' := NN). apply nonneg_app in NN'. destruct NN' as (NL1 & NN').
  apply nonneg_app in NN'. destruct NN' as (Nws & Nsuf).
  assert (Ll : l < 128).
  { destruct (is_layout_head _ _ LL1) as [B|E]; [apply is_blank_lt128; exact B | lia]. }
  set (X := (l :: L1') ++ suf) in *. set (Y := (l :: L1') ++ ws ++ suf).
  assert (RY : run k (pre ++ Y) = Some (T, Y)).
  { apply (run_local X Y True); try (unfold X, Y; cbn [app]; discriminate).
    - apply hard_lt128. exact Ll.
    - apply hard_lt128. exact Ll.
    - apply nonneg_app. split; assumption.
    - unfold X, Y. rewrite !app_length. lia.
    - unfold X, Y. cbn [app]. unfold chY. fold (chX (l :: L1' ++ ws ++ suf)).
      rewrite !chX_lt128 by exact Ll. auto.
    - unfold X, Y. cbn [app]. unfold chY. fold (chX (l :: L1' ++ ws ++ suf)).
      rewrite !chX_lt128 by exact Ll. auto.
    - unfold X, Y. cbn [app]. unfold chY. fold (chX (l :: L1' ++ ws ++ suf)).
      rewrite !chX_lt128 by exact Ll. auto.
    - split; [exact Npre | auto].
    - exact R. }
  rewrite (toks_run k (pre ++ Y) T Y); [|apply nonneg_app; split; [exact Npre | exact NN] | exact RY].
  rewrite (toks_run k (pre ++ X) T X); [| | exact R].
  2: { apply nonneg_app. split; [exact Npre|]. apply nonneg_app. split; assumption. }
  apply f_equal. unfold X, Y.
  rewrite (toks_layout (l :: L1') suf LL1) by (apply nonneg_app; split; assumption).
  rewrite app_assoc. apply toks_layout; [apply is_layout_app; assumption|].
  rewrite <- app_assoc. exact NN.
Qed.

Lemma blank_cases : forall w, is_blank w = true -> w = 32 \/ w = 9 \/ w = 10 \/ w = 13.
Proof.
  intros w B. unfold is_blank in B.
  repeat (apply orb_true_iff in B; destruct B as [B|B]); apply Z.eqb_eq in B; auto.
Qed.

Lemma layout_head_props : forall w, is_blank w = true \/ w = 47 ->
  ident_char w = false /\ (w =? 60) = false /\ (w =? 61) = false.
Proof.
  intros w [B|E].
  - destruct (blank_cases w B) as [E|[E|[E|E]]]; rewrite E; vm_compute; auto.
  - rewrite E. vm_compute. auto.
Qed.

Lemma blank_not_slash : forall w, is_blank w = true -> ((w =? 47) || (w =? 42)) = false.
Proof.
  intros w B. destruct (blank_cases w B) as [E|[E|[E|E]]]; rewrite E; reflexivity.
Qed.

Definition ends_with_slash (pre : list Z) : Prop := exists p, pre = p ++ [47].

(** (B2) Inserting layout [ws] directly at a Scan entry point [pre | suf], i.e. right after a
    token (or at the very beginning), in front of whatever follows. *)
Theorem layout_insert : forall pre ws suf,
  nonneg (pre ++ ws ++ suf) ->
  is_layout ws ->
  boundary pre suf ->
  suf <> [] -> hard suf ->
  (ends_with_slash pre -> match ws with [] => True | w :: _ => is_blank w = true end) ->
  toks (pre ++ ws ++ suf) = toks (pre ++ suf).
Proof.
  intros pre ws suf NN Lws (k & T & R) NS HS SL.
  destruct ws as [|w ws']; [reflexivity|].
  apply nonneg_app in NN. destruct NN as (Npre & NN).
  assert (NN' := NN). apply nonneg_app in NN'. destruct NN' as (Nws & Nsuf).
  assert (Lw : w < 128).
  { destruct (is_layout_head _ _ Lws) as [B|E]; [apply is_blank_lt128; exact B | lia]. }
  remember ((w :: ws') ++ suf) as Y eqn:EY.
  assert (CY : chY Y = w).
  { rewrite EY. cbn [app]. unfold chY. fold (chX (w :: ws' ++ suf)). apply chX_lt128. exact Lw. }
  assert (RY : run k (pre ++ Y) = Some (T, Y)).
  { apply (run_local suf Y (ends_with_slash pre)); try assumption.
    - rewrite EY. cbn [app]. discriminate.
    - rewrite EY. cbn [app]. apply hard_lt128. exact Lw.
    - rewrite EY, app_length. lia.
    - intros _. rewrite CY. apply (layout_head_props w (is_layout_head _ _ Lws)).
    - intros PSl _. rewrite CY. apply blank_not_slash. exact (SL PSl).
    - intros _ _. rewrite CY. apply (layout_head_props w (is_layout_head _ _ Lws)).
    - split; [exact Npre|]. intros c' Hc'. exists c'. exact Hc'. }
  rewrite (toks_run k (pre ++ Y) T Y); [|apply nonneg_app; split; [exact Npre | exact NN] | exact RY].
  rewrite (toks_run k (pre ++ suf) T suf); [| apply nonneg_app; split; assumption | exact R].
  apply f_equal. rewrite EY in *. apply toks_layout; [exact Lws | exact NN].
Qed.

(** The same statements spelled out with [fscan_all]. *)
Corollary fscan_all_layout_insert : forall pre ws suf,
  nonneg (pre ++ ws ++ suf) -> is_layout ws -> boundary pre suf -> suf <> [] -> hard suf ->
  (ends_with_slash pre -> match ws with [] => True | w :: _ => is_blank w = true end) ->
  map strip (fst (fscan_all (pre ++ ws ++ suf))) = map strip (fst (fscan_all (pre ++ suf))).
Proof. exact layout_insert. Qed.

Corollary fscan_all_layout_insert_in_layout : forall pre L1 ws suf,
  nonneg (pre ++ L1 ++ ws ++ suf) -> is_layout L1 -> L1 <> [] -> is_layout ws ->
  boundary pre (L1 ++ suf) ->
  map strip (fst (fscan_all (pre ++ L1 ++ ws ++ suf))) =
  map strip (fst (fscan_all (pre ++ L1 ++ suf))).
Proof. exact layout_insert_in_layout. Qed.

(** Leading layout of a file (a special case of [toks_layout]). *)
Corollary fscan_all_leading_layout : forall ws suf, is_layout ws -> nonneg (ws ++ suf) ->
  map strip (fst (fscan_all (ws ++ suf))) = map strip (fst (fscan_all suf)).
Proof. exact toks_layout. Qed.

(** ** Where the boundaries are: at offset 0 and at the end of every non-EOF token that
    [fscan_all] reports (so the insertion points of [layout_insert] can be read off the
    token list). *)

Lemma tok_end_po : forall st t st', tok_ok st t st' -> s_po st' = tok_end t.
Proof.
  intros st t st' (st0 & ty & A0 & (l & Hl & Pl) & E & _). subst t. unfold tok_end.
  cbn [f_off f_lit mk_tok]. rewrite (lit_between_adv st0 st' l Hl). exact Pl.
Qed.

Lemma scan_all_boundaries : forall F fuel st ts st',
  scan_all F fuel st = Some (ts, st') -> nonneg (s_cur st) ->
  forall t, In t ts -> f_type t <> 0 ->
  exists k T stt, run k (s_cur st) = Some (T, s_cur stt) /\ adv st stt /\ s_po stt = tok_end t.
Proof.
  intros F. induction fuel as [|f IH]; intros st ts st' H N t I NZ; [discriminate|].
  rewrite scan_all_unfold in H. bind_some H r S1. destruct r as [t1 st1].
  pose proof (scan_scan1 _ _ _ _ _ N S1) as S1'.
  destruct (f_type t1 =? 0) eqn:Z0.
  - assert (Ets : ts = [t1]) by congruence. subst ts. destruct I as [I|[]]. subst t1.
    apply Z.eqb_eq in Z0. contradiction.
  - bind_some H r' S2. destruct r' as [ts2 st2].
    assert (Ets : ts = t1 :: ts2) by congruence. subst ts.
    assert (N1 : nonneg (s_cur st1)).
    { eapply adv_nonneg_of; [eapply scan_adv; exact S1 | exact N]. }
    destruct I as [I|I].
    + subst t1. exists 1%nat, [strip t], st1. split; [|split].
      * cbn [run]. rewrite S1'. unfold strip at 1. cbn beta iota. rewrite Z0. reflexivity.
      * eapply scan_adv; exact S1.
      * apply (tok_end_po st). eapply scan_spec; exact S1.
    + destruct (IH st1 ts2 st2 S2 N1 t I NZ) as (k & T & stt & R & A & P).
      exists (S k), (strip t1 :: T), stt. split; [|split].
      * cbn [run]. rewrite S1'. unfold strip at 1. cbn beta iota. rewrite Z0, R. reflexivity.
      * eapply adv_trans; [eapply scan_adv; exact S1 | exact A].
      * exact P.
Qed.

Theorem boundary_start : forall src, boundary [] src.
Proof. intro src. exists 0%nat, []. reflexivity. Qed.

Theorem boundary_token_end : forall src ts e t, nonneg src ->
  fscan_all src = (ts, e) -> In t ts -> f_type t <> 0 ->
  boundary (firstn (Z.to_nat (tok_end t)) src) (skipn (Z.to_nat (tok_end t)) src).
Proof.
  intros src ts e t N H I NZ. apply fscan_all_inv in H. destruct H as (st' & H & _).
  destruct (scan_all_boundaries _ _ _ _ _ H N t I NZ) as (k & T & stt & R & (p & Hp & Pp) & P).
  cbn [init s_cur s_po] in *. rewrite <- P, Pp, Z.add_0_l, Nat2Z.id.
  rewrite Hp at 1 2. rewrite firstn_app, Nat.sub_diag, firstn_all. cbn [firstn]. rewrite app_nil_r.
  rewrite skipn_app, skipn_all, Nat.sub_diag. cbn [skipn app].
  exists k, T. rewrite <- Hp. exact R.
Qed.

(** ** Examples *)
Require Import Coq.Strings.String Coq.Strings.Ascii.

Definition B (s : string) : list Z :=
  List.map (fun a => Z.of_nat (nat_of_ascii a)) (list_ascii_of_string s).

(* A:b; -> tokens prodId ":" tokId ";" EOF *)
Example ex_toks : toks (B "A:b;") =
  [(17, B "A"); (3, B ":"); (2, B "b"); (4, B ";"); (0, [])].
Proof. vm_compute. reflexivity. Qed.

(* the words error / empty / import *)
Example ex_words : toks (B "error empty import") =
  [(2, B "error"); (2, B "empty"); (-1, B "import"); (0, [])].
Proof. vm_compute. reflexivity. Qed.

(* the hypotheses of [layout_insert] are checkable by computation *)
Example ex_layout_insert :
  toks (B "A" ++ B " /* c */ // d" ++ [10] ++ B ":b;") = toks (B "A" ++ B ":b;").
Proof.
  change (B " /* c */ // d" ++ [10] ++ B ":b;") with ((B " /* c */ // d" ++ [10]) ++ B ":b;").
  apply layout_insert.
  - vm_compute. repeat constructor; discriminate.
  - vm_compute.
    apply lay_blank; [reflexivity|].
    apply (lay_block (B " c ") (B " // d" ++ [10])); [reflexivity|].
    apply lay_blank; [reflexivity|].
    apply (lay_line (B " d") []); [|constructor].
    vm_compute. intros x [H|[H|H]]; [subst; discriminate | subst; discriminate | contradiction].
  - exists 1%nat, [(17, B "A")]. vm_compute. reflexivity.
  - discriminate.
  - reflexivity.
  - intros (p & Hp). exfalso. destruct p as [|a [|b p]]; discriminate.
Qed.

(** The exclusions are real: *)

(* a comment directly after the lone-slash token makes a line comment *)
Example not_covered_slash : toks (B "/" ++ B "/**/" ++ B "a") <> toks (B "/" ++ B "a").
Proof. vm_compute. discriminate. Qed.

(* layout after an unterminated string at end of file is swallowed by the string token *)
Example not_covered_eof_string :
  toks (B """abc" ++ B " ") <> toks (B """abc").
Proof. vm_compute. discriminate. Qed.

(* the point between a line comment and its newline is not a boundary: a block comment
   containing a newline inserted there is cut in two *)
Example not_covered_line_comment :
  toks (B "a //c" ++ [47; 42; 10; 42; 47] ++ [10] ++ B "b") <> toks (B "a //c" ++ [10] ++ B "b").
Proof. vm_compute. discriminate. Qed.

(* layout inside a token *)
Example not_covered_inside : toks (B "ab" ++ B " " ++ B "c") <> toks (B "ab" ++ B "c").
Proof. vm_compute. discriminate. Qed.

Print Assumptions fscan_opt_total.
Print Assumptions fscan_all_ends_with_eof.
Print Assumptions fscan_all_lits.
Print Assumptions tok_lit_slice.
Print Assumptions fscan_all_offsets.
Print Assumptions toks_layout.
Print Assumptions layout_insert.
Print Assumptions layout_insert_in_layout.
Print Assumptions boundary_token_end.
