(** Proofs for the token numbering model (property C10).

    For every grammar (list of productions) and every list of lexical token ids:
      - [terminals_NoDup]      : the terminal list has no duplicates;
      - numbers are positions: [type_of_id_of], [id_of_type_of], [type_of_lt], [id_of_none],
        [type_of_unknown]: Type and Id are inverse bijections between the listed names and
        0..n-1, unknown names map to 0 (= INVALID), numbers >= n map to "unknown";
      - [terminals_In]         : a string is listed iff it is not a production name and is
        INVALID, ␚, a body symbol or a lexical token id; [terminals_count]: exactly once;
      - [terminals_head] / [terminals_head_iff] : the list starts with INVALID, ␚ -- i.e.
        the generated constants token.INVALID = 0 and token.EOF = 1 denote the right
        terminals -- EXACTLY WHEN no production is named "INVALID" or "␚"
        (given "INVALID" <> "␚").  "␚" cannot be a production name in gocc's own grammar,
        but INVALID can (prod_id = upper-case letter followed by id characters):
        [ex_production_named_INVALID] shows the resulting numbering ␚ = 0, b = 1, a = 2, so
        that token.EOF (= 1) is the terminal b and token.INVALID (= 0) is ␚.
        Real gocc behaves exactly like this and the generated parser rejects every input.

    Remark on [type_of]: NewTokenMap fills IdMap with "last occurrence wins", [type_of]
    returns the first occurrence; the list has no duplicates, so they agree. *)
From Coq Require Import List Bool Arith Lia ZArith.
From Gocc Require Import Front.TokMap.
Import ListNotations.

Section Proofs.
Variable str : Type.
Variable eqb : str -> str -> bool.
Variables INVALID EOFSYM EMPTY : str.
Hypothesis eqb_eq : forall a b, eqb a b = true <-> a = b.

Notation mem := (mem str eqb).
Notation add := (add str eqb).
Notation add_all := (add_all str eqb).
Notation typemap := (typemap str eqb INVALID EOFSYM).
Notation is_terminal := (is_terminal str eqb EMPTY).
Notation terminals := (terminals str eqb INVALID EOFSYM EMPTY).
Notation type_of := (type_of str eqb).
Notation index_from := (index_from str eqb).
Notation id_of := (id_of str).

Lemma eqb_refl : forall a, eqb a a = true.
Proof. intros a. apply eqb_eq. reflexivity. Qed.

Lemma eqb_neq : forall a b, eqb a b = false <-> a <> b.
Proof.
  intros a b. split.
  - intros H E. apply eqb_eq in E. congruence.
  - intros H. destruct (eqb a b) eqn:E; [|reflexivity]. apply eqb_eq in E. contradiction.
Qed.

Definition str_eq_dec : forall a b : str, {a = b} + {a <> b}.
Proof.
  intros a b. destruct (eqb a b) eqn:E.
  - left. apply eqb_eq. exact E.
  - right. apply eqb_neq. exact E.
Defined.

Lemma mem_In : forall x l, mem x l = true <-> In x l.
Proof.
  intros x l. unfold TokMap.mem. rewrite existsb_exists. split.
  - intros [y [Hy E]]. apply eqb_eq in E. subst. exact Hy.
  - intros H. exists x. split; [exact H|apply eqb_refl].
Qed.

Lemma mem_false : forall x l, mem x l = false <-> ~ In x l.
Proof.
  intros x l. split.
  - intros H Hi. apply mem_In in Hi. congruence.
  - intros H. destruct (mem x l) eqn:E; [|reflexivity]. apply mem_In in E. contradiction.
Qed.

(* ------------------------------------------------------------------------- *)
(** * [add], [add_all] *)

Lemma add_In : forall x l y, In y (add x l) <-> In y l \/ y = x.
Proof.
  intros x l y. unfold TokMap.add. destruct (mem x l) eqn:E.
  - apply mem_In in E. split; [auto|]. intros [H|H]; [exact H|subst; exact E].
  - rewrite in_app_iff. simpl. split; intros [H|H]; auto.
    destruct H as [H|[]]. auto.
Qed.

Lemma add_NoDup : forall x l, NoDup l -> NoDup (add x l).
Proof.
  intros x l H. unfold TokMap.add. destruct (mem x l) eqn:E; [exact H|].
  apply mem_false in E.
  apply NoDup_rev in H. rewrite <- (rev_involutive (l ++ [x])). apply NoDup_rev.
  rewrite rev_app_distr. simpl. constructor; [|exact H].
  intros Hi. apply in_rev in Hi. contradiction.
Qed.

Lemma add_prefix : forall x l, exists t, add x l = l ++ t.
Proof.
  intros x l. unfold TokMap.add. destruct (mem x l).
  - exists []. rewrite app_nil_r. reflexivity.
  - exists [x]. reflexivity.
Qed.

Lemma add_all_In : forall xs l y, In y (add_all xs l) <-> In y l \/ In y xs.
Proof.
  induction xs as [|x xs IH]; intros l y; simpl.
  - tauto.
  - unfold TokMap.add_all in *. simpl. rewrite IH, add_In. intuition.
Qed.

Lemma add_all_NoDup : forall xs l, NoDup l -> NoDup (add_all xs l).
Proof.
  induction xs as [|x xs IH]; intros l H; simpl; [exact H|].
  unfold TokMap.add_all in *. simpl. apply IH. apply add_NoDup. exact H.
Qed.

Lemma add_all_prefix : forall xs l, exists t, add_all xs l = l ++ t.
Proof.
  induction xs as [|x xs IH]; intros l.
  - exists []. rewrite app_nil_r. reflexivity.
  - unfold TokMap.add_all in *. simpl.
    destruct (IH (add x l)) as [t Ht]. destruct (add_prefix x l) as [t' Ht'].
    exists (t' ++ t). rewrite Ht, Ht', app_assoc. reflexivity.
Qed.

(* ------------------------------------------------------------------------- *)
(** * The symbol list and the terminal list *)

Lemma typemap_NoDup : forall prods lex, NoDup (typemap prods lex).
Proof.
  intros. unfold TokMap.typemap. repeat apply add_all_NoDup. repeat apply add_NoDup. constructor.
Qed.

Lemma typemap_In : forall prods lex s,
  In s (typemap prods lex) <->
  s = INVALID \/ s = EOFSYM \/ In s (flat_map (prod_syms str) prods) \/ In s lex.
Proof.
  intros. unfold TokMap.typemap. rewrite !add_all_In, !add_In. simpl. tauto.
Qed.

Lemma typemap_head : forall prods lex,
  INVALID <> EOFSYM -> exists t, typemap prods lex = INVALID :: EOFSYM :: t.
Proof.
  intros prods lex Hne. unfold TokMap.typemap.
  assert (E : add EOFSYM (add INVALID []) = [INVALID; EOFSYM]).
  { unfold TokMap.add at 2. simpl. unfold TokMap.add. simpl.
    assert (eqb EOFSYM INVALID = false) as -> by (apply eqb_neq; congruence).
    reflexivity. }
  rewrite E.
  destruct (add_all_prefix (flat_map (prod_syms str) prods) [INVALID; EOFSYM]) as [t Ht].
  rewrite Ht.
  destruct (add_all_prefix lex ([INVALID; EOFSYM] ++ t)) as [t' Ht'].
  rewrite Ht'. exists (t ++ t'). simpl. reflexivity.
Qed.

Lemma is_terminal_spec : forall prods s,
  is_terminal prods s = true <-> ~ In s (map fst prods) /\ s <> EMPTY.
Proof.
  intros. unfold TokMap.is_terminal. rewrite andb_true_iff, !negb_true_iff, eqb_neq.
  split; intros [H1 H2]; (split; [|exact H2]); apply mem_false; exact H1.
Qed.

Theorem terminals_NoDup : forall prods lex, NoDup (terminals prods lex).
Proof. intros. unfold TokMap.terminals. apply NoDup_filter. apply typemap_NoDup. Qed.

Lemma in_prod_syms : forall prods s,
  In s (flat_map (prod_syms str) prods) <-> In s (map fst prods) \/ In s (flat_map snd prods).
Proof.
  induction prods as [|[n b] prods IH]; intros s; simpl.
  - tauto.
  - rewrite !in_app_iff, IH. intuition.
Qed.

(** a string is a terminal iff it is not a production name and is INVALID, ␚, a body symbol
    of some production, or a lexical token id *)
Theorem terminals_In : forall prods lex s,
  In s (terminals prods lex) <->
  ~ In s (map fst prods) /\ s <> EMPTY
  /\ (s = INVALID \/ s = EOFSYM \/ In s (flat_map snd prods) \/ In s lex).
Proof.
  intros. unfold TokMap.terminals.
  rewrite filter_In, typemap_In, is_terminal_spec, in_prod_syms. tauto.
Qed.

(** ... and then it is listed exactly once *)
Theorem terminals_count : forall prods lex s,
  In s (terminals prods lex) -> count_occ str_eq_dec (terminals prods lex) s = 1.
Proof. intros prods lex s. apply NoDup_count_occ'. apply terminals_NoDup. Qed.

Corollary body_terminal_once : forall prods lex s,
  In s (flat_map snd prods) -> ~ In s (map fst prods) -> s <> EMPTY ->
  count_occ str_eq_dec (terminals prods lex) s = 1.
Proof. intros. apply terminals_count. apply terminals_In. tauto. Qed.

Corollary lex_id_once : forall prods lex s,
  In s lex -> ~ In s (map fst prods) -> s <> EMPTY ->
  count_occ str_eq_dec (terminals prods lex) s = 1.
Proof. intros. apply terminals_count. apply terminals_In. tauto. Qed.

(** the list starts with INVALID, ␚ when neither is a production name ... *)
Theorem terminals_head : forall prods lex,
  INVALID <> EOFSYM -> INVALID <> EMPTY -> EOFSYM <> EMPTY ->
  ~ In INVALID (map fst prods) -> ~ In EOFSYM (map fst prods) ->
  exists t, terminals prods lex = INVALID :: EOFSYM :: t.
Proof.
  intros prods lex Hne He1 He2 H1 H2. unfold TokMap.terminals.
  destruct (typemap_head prods lex Hne) as [t Ht]. rewrite Ht. simpl.
  assert (T1 : is_terminal prods INVALID = true) by (apply is_terminal_spec; auto).
  assert (T2 : is_terminal prods EOFSYM = true) by (apply is_terminal_spec; auto).
  rewrite T1, T2. eexists. reflexivity.
Qed.

(** ... and only then *)
Theorem terminals_head_iff : forall prods lex,
  INVALID <> EOFSYM -> INVALID <> EMPTY -> EOFSYM <> EMPTY ->
  ((exists t, terminals prods lex = INVALID :: EOFSYM :: t) <->
   (~ In INVALID (map fst prods) /\ ~ In EOFSYM (map fst prods))).
Proof.
  intros prods lex Hne He1 He2. split.
  - intros [t Ht].
    assert (H1 : In INVALID (terminals prods lex)) by (rewrite Ht; left; reflexivity).
    assert (H2 : In EOFSYM (terminals prods lex)) by (rewrite Ht; right; left; reflexivity).
    apply terminals_In in H1. apply terminals_In in H2. tauto.
  - intros [H1 H2]. apply terminals_head; assumption.
Qed.

(* ------------------------------------------------------------------------- *)
(** * Numbers are positions: Type and Id are inverse of each other *)

Lemma index_from_in : forall l i s,
  In s l -> i <= index_from i l s /\ nth_error l (index_from i l s - i) = Some s.
Proof.
  induction l as [|x r IH]; intros i s H; [contradiction|].
  simpl. destruct (eqb s x) eqn:E.
  - apply eqb_eq in E. subst. rewrite Nat.sub_diag. split; [lia|reflexivity].
  - apply eqb_neq in E. destruct H as [H|H]; [congruence|].
    destruct (IH (S i) s H) as [H1 H2]. split; [lia|].
    replace (index_from (S i) r s - i) with (S (index_from (S i) r s - S i)) by lia.
    exact H2.
Qed.

Lemma index_from_notin : forall l i s, ~ In s l -> index_from i l s = 0.
Proof.
  induction l as [|x r IH]; intros i s H; [reflexivity|].
  simpl. destruct (eqb s x) eqn:E.
  - apply eqb_eq in E. subst. exfalso. apply H. left. reflexivity.
  - apply IH. intros Hi. apply H. right. exact Hi.
Qed.

Lemma index_from_nth : forall l i k s,
  NoDup l -> nth_error l k = Some s -> index_from i l s = i + k.
Proof.
  induction l as [|x r IH]; intros i k s ND H.
  - destruct k; discriminate.
  - inversion ND as [|? ? Hx ND']; subst. destruct k as [|k]; simpl in H |- *.
    + injection H as ->. rewrite eqb_refl. lia.
    + assert (Hs : In s r) by (eapply nth_error_In; exact H).
      assert (eqb s x = false) as ->.
      { apply eqb_neq. intros ->. contradiction. }
      rewrite (IH (S i) k s ND' H). lia.
Qed.

Theorem type_of_id_of : forall l i s,
  NoDup l -> id_of l i = Some s -> type_of l s = i.
Proof. intros l i s ND H. unfold TokMap.type_of. rewrite (index_from_nth l 0 i s ND H). lia. Qed.

Theorem id_of_type_of : forall l s, In s l -> id_of l (type_of l s) = Some s.
Proof.
  intros l s H. destruct (index_from_in l 0 s H) as [_ H2].
  rewrite Nat.sub_0_r in H2. exact H2.
Qed.

Theorem type_of_lt : forall l s, In s l -> type_of l s < length l.
Proof.
  intros l s H. apply nth_error_Some. pose proof (id_of_type_of l s H) as E.
  unfold TokMap.id_of in E. rewrite E. discriminate.
Qed.

Theorem type_of_unknown : forall l s, ~ In s l -> type_of l s = 0.
Proof. intros l s H. apply index_from_notin. exact H. Qed.

Theorem id_of_none : forall l i, id_of l i = None <-> length l <= i.
Proof. intros l i. apply nth_error_None. Qed.

Theorem id_of_some : forall l i, i < length l -> exists s, id_of l i = Some s /\ In s l.
Proof.
  intros l i H. destruct (nth_error l i) as [s|] eqn:E.
  - exists s. split; [exact E|]. eapply nth_error_In. exact E.
  - apply nth_error_None in E. lia.
Qed.

(** The bijection, for the token map of a grammar *)
Theorem tokmap_bijection : forall prods lex,
  let tm := terminals prods lex in
  (forall i, i < length tm -> exists s, id_of tm i = Some s /\ In s tm /\ type_of tm s = i)
  /\ (forall s, In s tm -> type_of tm s < length tm /\ id_of tm (type_of tm s) = Some s)
  /\ (forall s, ~ In s tm -> type_of tm s = 0)
  /\ (forall i, length tm <= i -> id_of tm i = None).
Proof.
  intros prods lex tm. split; [|split; [|split]].
  - intros i Hi. destruct (id_of_some tm i Hi) as [s [H1 H2]]. exists s.
    split; [exact H1|]. split; [exact H2|].
    apply type_of_id_of; [apply terminals_NoDup|exact H1].
  - intros s H. split; [apply type_of_lt; exact H|apply id_of_type_of; exact H].
  - intros s H. apply type_of_unknown. exact H.
  - intros i H. apply id_of_none. exact H.
Qed.

(** the generated constants INVALID = 0 and EOF = 1 are right under the side condition *)
Theorem type_of_INVALID_EOF : forall prods lex,
  INVALID <> EOFSYM -> INVALID <> EMPTY -> EOFSYM <> EMPTY ->
  ~ In INVALID (map fst prods) -> ~ In EOFSYM (map fst prods) ->
  type_of (terminals prods lex) INVALID = 0 /\ type_of (terminals prods lex) EOFSYM = 1
  /\ id_of (terminals prods lex) 0 = Some INVALID /\ id_of (terminals prods lex) 1 = Some EOFSYM.
Proof.
  intros prods lex Hne He1 He2 H1 H2.
  destruct (terminals_head prods lex Hne He1 He2 H1 H2) as [t Ht].
  pose proof (terminals_NoDup prods lex) as ND. rewrite Ht in *.
  split; [|split; [|split]]; try reflexivity.
  - apply type_of_id_of; [exact ND|reflexivity].
  - apply type_of_id_of; [exact ND|reflexivity].
Qed.

End Proofs.

(* ------------------------------------------------------------------------- *)
(** * The [list Z] instance *)

Lemma zstr_eqb_eq : forall a b, zstr_eqb a b = true <-> a = b.
Proof.
  induction a as [|x a IH]; intros [|y b]; simpl; split; intros H;
    try reflexivity; try discriminate.
  - apply andb_prop in H. destruct H as [H1 H2].
    apply Z.eqb_eq in H1. apply IH in H2. congruence.
  - injection H as -> ->. rewrite Z.eqb_refl. simpl. apply IH. reflexivity.
Qed.

Lemma INVALID_z_neq_EOF_z : INVALID_z <> EOF_z.
Proof. discriminate. Qed.

Local Open Scope Z_scope.
(** strings used below: a = [97], b = [98], x = [120], S = [83], T = [84], id = [105;100] *)

(** S : T b ;  T : a | x ;   lexical ids (sorted) a, b, id *)
Example ex_numbering :
  terminals_z [([83], [[84]; [98]]); ([84], [[97]]); ([84], [[120]])] [[97]; [98]; [105; 100]]
  = [INVALID_z; EOF_z; [98]; [97]; [120]; [105; 100]].
Proof. vm_compute. reflexivity. Qed.

Example ex_type_of :
  let tm := terminals_z [([83], [[84]; [98]]); ([84], [[97]]); ([84], [[120]])] [[97]; [98]; [105; 100]] in
  (type_of_z tm [120], type_of_z tm [83], type_of_z tm [122], id_of_z tm 2%nat, id_of_z tm 6%nat)
  = (4%nat, 0%nat, 0%nat, Some [98], None).
Proof. vm_compute. reflexivity. Qed.

(** A production named INVALID:   S : INVALID b ;  INVALID : a ;   lexical ids a, b.
    "INVALID" is a production name, hence not a terminal: ␚ gets number 0 (= the generated
    constant token.INVALID) and b gets number 1 (= token.EOF).  gocc really generates
    typeMap = {"␚", "b", "a"} for this grammar. *)
Example ex_production_named_INVALID :
  terminals_z [([83], [INVALID_z; [98]]); (INVALID_z, [[97]])] [[97]; [98]]
  = [EOF_z; [98]; [97]].
Proof. vm_compute. reflexivity. Qed.

Print Assumptions terminals_NoDup.
Print Assumptions terminals_In.
Print Assumptions terminals_count.
Print Assumptions terminals_head_iff.
Print Assumptions tokmap_bijection.
Print Assumptions type_of_INVALID_EOF.
Print Assumptions zstr_eqb_eq.
