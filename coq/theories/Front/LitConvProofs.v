(** Proofs about gocc's rune-literal decoder (Front/LitConv.v) against the Go rune-literal
    specification (Front/GoLit.v).

    Main results
      esc_loop_no_wrap     the uint32 update x = x*base + d of the digit loop never wraps
                           (i <= 8, base <= 16), so the [u32] in the model is the identity
      lit_to_rune_agrees   golit_value l = Some c -> lit_to_rune l = Some c
      spell_denotes        spell k c = Some l -> golit_value l = Some c
      spell_decodes        spell k c = Some l -> lit_to_rune l = Some c
      spell_*_defined      non-vacuity of the spellings
      decode_encode        decode_rune (encode_rune c ++ rest) = (c, length (encode_rune c))
                           for scalar values c (UTF-8 round trip for Base.Utf8)
    The converse of lit_to_rune_agrees is false: see the [finding_*] examples at the end
    (the decoder returns a value, instead of panicking, on many byte strings that are not
    valid Go rune literals).

    Everything is symbolic (lia with div/mod elimination); no enumeration of code points. *)
From Coq Require Import List ZArith Lia Bool ZifyBool.
From Gocc Require Import Base.Utf8 Front.LitConv Front.GoLit.
Import ListNotations.
Open Scope Z_scope.

Ltac Zify.zify_post_hook ::= Z.div_mod_to_equations.

Ltac kill_if :=
  repeat match goal with
  | |- context [if ?b then _ else _] =>
    lazymatch b with
    | context [if _ then _ else _] => fail
    | _ => let E := fresh "E" in destruct b eqn:E; try (exfalso; lia)
    end
  end.

Lemma is_scalar_spec : forall c,
  is_scalar c = true <-> (0 <= c <= 1114111 /\ ~ (55296 <= c <= 57343)).
Proof. intro c. unfold is_scalar. lia. Qed.

Lemma decode_encode : forall c rest, is_scalar c = true ->
  decode_rune (encode_rune c ++ rest) = (c, length (encode_rune c)).
Proof.
  intros c rest H. apply is_scalar_spec in H.
  unfold encode_rune, in_rng.
  destruct (c <? 0) eqn:E0; [lia|].
  destruct (c <? 128) eqn:E1.
  { cbn [app length]. unfold decode_rune. rewrite E1. reflexivity. }
  destruct (c <? 2048) eqn:E2.
  { cbn [app length]. unfold decode_rune, in_rng, cont, in_rng; cbv zeta.
    kill_if. f_equal. lia. }
  destruct ((55296 <=? c) && (c <=? 57343)) eqn:E3; [lia|].
  destruct (c <? 65536) eqn:E4.
  { cbn [app length]. unfold decode_rune, in_rng, cont, in_rng; cbv zeta.
    kill_if; f_equal; lia. }
  destruct (c <=? 1114111) eqn:E5; [|lia].
  cbn [app length]. unfold decode_rune, in_rng, cont, in_rng; cbv zeta.
  kill_if; f_equal; lia.
Qed.

(** ** The uint32 arithmetic of the digit loop never wraps *)

Fixpoint esc_loop_nw (lit : list Z) (len : Z) (i : nat) (base x offset : Z) : option Z :=
  match i with
  | O => Some x
  | S i' =>
    if offset <? len - 1 then
      let '(ch, size) := decode_rune (skipn (Z.to_nat offset) lit) in
      let offset' := offset + Z.of_nat size in
      let d := digit_val ch in
      if d >=? base then None
      else esc_loop_nw lit len i' base (x * base + d) offset'
    else Some x
  end.

Lemma digit_val_range : forall ch, 0 <= digit_val ch <= 16.
Proof. intro ch. unfold digit_val. kill_if; lia. Qed.

Lemma u32_small : forall x, 0 <= x < 4294967296 -> u32 x = x.
Proof. intros. unfold u32. apply Z.mod_small. assumption. Qed.

Lemma esc_loop_no_wrap_gen : forall lit len i base x off,
  (i <= 8)%nat -> 0 <= base <= 16 -> 0 <= x < 2 ^ (32 - 4 * Z.of_nat i) ->
  esc_loop lit len i base x off = esc_loop_nw lit len i base x off.
Proof.
  intros lit len i. induction i as [|i IH]; intros base x off Hi Hb Hx; [reflexivity|].
  cbn [esc_loop esc_loop_nw].
  destruct (off <? len - 1); [|reflexivity].
  destruct (decode_rune (skipn (Z.to_nat off) lit)) as [ch size].
  pose proof (digit_val_range ch) as Hd.
  rewrite (u32_small (digit_val ch)) by lia.
  destruct (digit_val ch >=? base) eqn:E; [reflexivity|].
  set (P := 2 ^ (32 - 4 * Z.of_nat (S i))) in *.
  assert (HP : 2 ^ (32 - 4 * Z.of_nat i) = 16 * P).
  { unfold P. replace (32 - 4 * Z.of_nat i) with (4 + (32 - 4 * Z.of_nat (S i))) by lia.
    rewrite Z.pow_add_r by lia. reflexivity. }
  assert (HP32 : 16 * P <= 4294967296).
  { rewrite <- HP. change 4294967296 with (2 ^ 32). apply Z.pow_le_mono_r; lia. }
  assert (Hm : 0 <= x * base <= x * 16).
  { split; [apply Z.mul_nonneg_nonneg; lia | apply Z.mul_le_mono_nonneg_l; lia]. }
  rewrite u32_small by lia.
  apply IH; [lia | lia | rewrite HP; lia].
Qed.

(** As used by escapeCharVal: i is one of 2,3,4,8, base 8 or 16, x starts at 0. *)
Theorem esc_loop_no_wrap : forall lit len i base off,
  (i <= 8)%nat -> 0 <= base <= 16 ->
  esc_loop lit len i base 0 off = esc_loop_nw lit len i base 0 off.
Proof.
  intros. apply esc_loop_no_wrap_gen; try assumption.
  split; [lia | apply Z.pow_pos_nonneg; lia].
Qed.

Lemma esc_nw_step : forall lit len i base x off d rest,
  skipn (Z.to_nat off) lit = d :: rest ->
  (off <? len - 1) = true ->
  0 <= d < 128 -> digit_val d < base ->
  esc_loop_nw lit len (S i) base x off
  = esc_loop_nw lit len i base (x * base + digit_val d) (off + 1).
Proof.
  intros lit len i base x off d rest Hs Ho Hd Hb.
  cbn [esc_loop_nw]. rewrite Ho, Hs. unfold decode_rune.
  replace (d <? 128) with true by lia.
  replace (digit_val d >=? base) with false by lia.
  reflexivity.
Qed.

(** ** Digits *)

Lemma hex_val_spec : forall b v, hex_val b = Some v ->
  0 <= b < 128 /\ digit_val b = v /\ 0 <= v < 16.
Proof.
  intros b v. unfold hex_val, digit_val.
  kill_if; intro H; inversion H; lia.
Qed.

Lemma oct_val_spec : forall b v, oct_val b = Some v ->
  48 <= b <= 55 /\ digit_val b = v /\ 0 <= v < 8.
Proof.
  intros b v. unfold oct_val, digit_val.
  kill_if; intro H; inversion H; lia.
Qed.

Lemma hex_val_hex_digit : forall v, 0 <= v < 16 -> hex_val (hex_digit v) = Some v.
Proof.
  intros v H. unfold hex_val, hex_digit. kill_if; f_equal; lia.
Qed.

Lemma oct_val_digit : forall v, 0 <= v < 8 -> oct_val (48 + v) = Some v.
Proof.
  intros v H. unfold oct_val. kill_if; f_equal; lia.
Qed.

(** ** Quotes *)

Lemma unquote_spec : forall l body, unquote l = Some body -> l = 39 :: body ++ [39].
Proof.
  intros l body. unfold unquote. destruct l as [|q rest]; [discriminate|].
  destruct (q =? 39) eqn:Q; [|discriminate]. apply Z.eqb_eq in Q. subst q.
  destruct (rev rest) as [|q' rb] eqn:R; [discriminate|].
  destruct (q' =? 39) eqn:Q'; [|discriminate]. apply Z.eqb_eq in Q'. subst q'.
  intro H. inversion H. subst body. f_equal.
  rewrite <- (rev_involutive rest), R. reflexivity.
Qed.

Lemma unquote_quote : forall body, unquote (39 :: body ++ [39]) = Some body.
Proof.
  intro body. unfold unquote. rewrite Z.eqb_refl, rev_app_distr. cbn [rev app].
  rewrite Z.eqb_refl, rev_involutive. reflexivity.
Qed.

(** ** escapeCharVal dispatch *)

Lemma byte_at_1 : forall a b t, byte_at (a :: b :: t) 1 = Some b.
Proof. reflexivity. Qed.
Lemma byte_at_2 : forall a b c t, byte_at (a :: b :: c :: t) 2 = Some c.
Proof. reflexivity. Qed.

Lemma escape_char_val_x : forall l, byte_at l 2 = Some 120 ->
  escape_char_val l = esc_number l 2 16 255 3.
Proof. intros l H. unfold escape_char_val. rewrite H. reflexivity. Qed.
Lemma escape_char_val_u : forall l, byte_at l 2 = Some 117 ->
  escape_char_val l = esc_number l 4 16 max_rune 3.
Proof. intros l H. unfold escape_char_val. rewrite H. reflexivity. Qed.
Lemma escape_char_val_U : forall l, byte_at l 2 = Some 85 ->
  escape_char_val l = esc_number l 8 16 max_rune 3.
Proof. intros l H. unfold escape_char_val. rewrite H. reflexivity. Qed.
Lemma escape_char_val_oct : forall l a, byte_at l 2 = Some a -> 48 <= a <= 55 ->
  escape_char_val l = esc_number l 3 8 255 2.
Proof. intros l a H Ha. unfold escape_char_val. rewrite H. kill_if. reflexivity. Qed.

Lemma esc_number_nw : forall l i base max off,
  (i <= 8)%nat -> 0 <= base <= 16 ->
  esc_number l i base max off =
  match esc_loop_nw l (Z.of_nat (length l)) i base 0 off with
  | None => None
  | Some x => if (x >? max) || ((55296 <=? x) && (x <? 57344)) then None else Some x
  end.
Proof. intros. unfold esc_number. rewrite esc_loop_no_wrap by assumption. reflexivity. Qed.

Ltac step :=
  erewrite esc_nw_step; [ | reflexivity | reflexivity | lia | lia ].

Lemma opt_bind_some : forall {A B} (o : option A) (f : A -> option B) c,
  opt_bind o f = Some c -> exists a, o = Some a /\ f a = Some c.
Proof. intros A B o f c H. destruct o as [a|]; [exists a; auto | discriminate H]. Qed.

Ltac bind_inv H :=
  repeat match type of H with
  | opt_bind _ _ = Some _ =>
    let v := fresh "v" in let E := fresh "Hd" in
    apply opt_bind_some in H; destruct H as (v & E & H); cbv beta in H
  end.

Lemma Some_inj : forall {A} (a b : A), Some a = Some b -> a = b.
Proof. intros A a b H. congruence. Qed.

Lemma guard_inv : forall b v c, guard b v = Some c -> b = true /\ c = v.
Proof. intros b v c. unfold guard. destruct b; intro H; inversion H; auto. Qed.

(** ** (a) Escapes *)

Ltac use_hex :=
  repeat match goal with
  | H : hex_val _ = Some _ |- _ => apply hex_val_spec in H; destruct H as (? & ? & ?)
  | H : oct_val _ = Some _ |- _ => apply oct_val_spec in H; destruct H as (? & ? & ?)
  end.

Lemma named_agrees : forall b c, named_value b = Some c ->
  lit_to_rune [39; 92; b; 39] = Some c.
Proof.
  intros b c H. unfold lit_to_rune. rewrite byte_at_1. change (92 =? 92) with true. cbv iota.
  unfold escape_char_val. rewrite byte_at_2. unfold named_value in H.
  repeat match goal with
  | |- (if ?b then _ else _) = _ => destruct b; [exact H|]
  end.
  discriminate H.
Qed.

Lemma escape_agrees : forall e c, escape_value e = Some c ->
  lit_to_rune (39 :: 92 :: e ++ [39]) = Some c.
Proof.
  intros e c H.
  destruct e as [|a0 [|a1 [|a2 [|a3 [|a4 [|a5 [|a6 [|a7 [|a8 [|a9 e]]]]]]]]]];
    try discriminate H; cbn [app].
  - (* named *) apply named_agrees. exact H.
  - (* \xhh or \ooo *)
    unfold lit_to_rune. rewrite byte_at_1. change (92 =? 92) with true. cbv iota.
    unfold escape_value in H. destruct (a0 =? 120) eqn:X.
    + apply Z.eqb_eq in X. subst a0. bind_inv H. apply Some_inj in H. subst c. use_hex.
      rewrite escape_char_val_x by reflexivity.
      rewrite esc_number_nw by lia. cbn [length Z.of_nat Pos.of_succ_nat Pos.succ].
      do 2 step. cbn [esc_loop_nw]. kill_if. f_equal. lia.
    + bind_inv H. apply guard_inv in H. destruct H as [G ->]. use_hex.
      rewrite (escape_char_val_oct _ a0) by (reflexivity || lia).
      rewrite esc_number_nw by lia. cbn [length Z.of_nat Pos.of_succ_nat Pos.succ].
      do 3 step. cbn [esc_loop_nw]. kill_if. f_equal. lia.
  - (* \uhhhh *)
    unfold lit_to_rune. rewrite byte_at_1. change (92 =? 92) with true. cbv iota.
    unfold escape_value in H. destruct (a0 =? 117) eqn:X; [|discriminate H].
    apply Z.eqb_eq in X. subst a0. bind_inv H. apply guard_inv in H. destruct H as [G ->].
    apply is_scalar_spec in G. use_hex.
    rewrite escape_char_val_u by reflexivity.
    rewrite esc_number_nw by lia. cbn [length Z.of_nat Pos.of_succ_nat Pos.succ].
    do 4 step. cbn [esc_loop_nw]. unfold max_rune. kill_if. f_equal. lia.
  - (* \Uhhhhhhhh *)
    unfold lit_to_rune. rewrite byte_at_1. change (92 =? 92) with true. cbv iota.
    unfold escape_value in H. destruct (a0 =? 85) eqn:X; [|discriminate H].
    apply Z.eqb_eq in X. subst a0. bind_inv H. apply guard_inv in H. destruct H as [G ->].
    apply is_scalar_spec in G. use_hex.
    rewrite escape_char_val_U by reflexivity.
    rewrite esc_number_nw by lia. cbn [length Z.of_nat Pos.of_succ_nat Pos.succ].
    do 8 step. cbn [esc_loop_nw]. unfold max_rune. kill_if. f_equal. lia.
Qed.

(** ** (a) Raw characters *)

Lemma raw_ok_spec : forall c, raw_ok c = true <->
  (is_scalar c = true /\ c <> 39 /\ c <> 92 /\ c <> 10).
Proof.
  intro c. unfold raw_ok. rewrite !andb_true_iff, !negb_true_iff, !Z.eqb_neq. tauto.
Qed.

Lemma raw_value_inv : forall body c, raw_value body = Some c ->
  raw_ok c = true /\ body = encode_rune c.
Proof.
  intros body c. unfold raw_value.
  destruct (raw_ok (fst (decode_rune body))) eqn:R; [|discriminate].
  destruct (list_eq_dec Z.eq_dec (encode_rune (fst (decode_rune body))) body) as [E|];
    [|discriminate].
  intro H. apply Some_inj in H. subst c. auto.
Qed.

Lemma raw_value_encode : forall c, raw_ok c = true -> raw_value (encode_rune c) = Some c.
Proof.
  intros c H. pose proof H as H'. apply raw_ok_spec in H'. destruct H' as (Hs & _).
  unfold raw_value.
  replace (decode_rune (encode_rune c)) with (c, length (encode_rune c))
    by (rewrite <- (decode_encode c [] Hs), app_nil_r; reflexivity).
  cbn [fst]. rewrite H.
  destruct (list_eq_dec Z.eq_dec (encode_rune c) (encode_rune c)); congruence.
Qed.

Lemma raw_agrees : forall c b0 e, encode_rune c = b0 :: e -> (b0 =? 92) = false ->
  is_scalar c = true ->
  lit_to_rune (39 :: encode_rune c ++ [39]) = Some c.
Proof.
  intros c b0 e E B Hs. unfold lit_to_rune.
  replace (byte_at (39 :: encode_rune c ++ [39]) 1) with (Some b0)
    by (rewrite E; reflexivity).
  rewrite B. cbn [skipn]. rewrite decode_encode by assumption.
  cbn [length]. rewrite app_length. cbn [length].
  replace (Z.of_nat (length (encode_rune c)) =?
           Z.of_nat (S (length (encode_rune c) + 1)) - 2) with true by lia.
  reflexivity.
Qed.

(** First byte of an encoding: never a backslash unless the code point is one. *)
Lemma encode_head : forall c, is_scalar c = true -> c <> 92 ->
  exists b0 e, encode_rune c = b0 :: e /\ (b0 =? 92) = false.
Proof.
  intros c Hs N. apply is_scalar_spec in Hs. unfold encode_rune, in_rng.
  kill_if; eexists; eexists; (split; [reflexivity | lia]).
Qed.

(** ** Main theorem (a): on every valid Go rune literal, gocc's decoder returns Go's value *)

Theorem lit_to_rune_agrees : forall l c, golit_value l = Some c -> lit_to_rune l = Some c.
Proof.
  intros l c H. unfold golit_value in H.
  destruct (unquote l) as [body|] eqn:U; [|discriminate H].
  apply unquote_spec in U. subst l.
  destruct body as [|b0 e]; [discriminate H|].
  destruct (b0 =? 92) eqn:B.
  - apply Z.eqb_eq in B. subst b0. apply escape_agrees. exact H.
  - apply raw_value_inv in H. destruct H as (R & E). apply raw_ok_spec in R.
    rewrite E. apply (raw_agrees c b0 e); [symmetry; exact E | exact B | tauto].
Qed.

(** ** Main theorem (b): every spelling is a valid literal denoting its code point *)

Lemma golit_escape : forall e, golit_value (39 :: (92 :: e) ++ [39]) = escape_value e.
Proof. intro e. unfold golit_value. rewrite unquote_quote. reflexivity. Qed.

Theorem spell_denotes : forall k c l, spell k c = Some l -> golit_value l = Some c.
Proof.
  intros k c l H. destruct k; unfold spell in H.
  - (* Raw *)
    destruct (raw_ok c) eqn:R; [|discriminate H]. apply Some_inj in H. subst l.
    pose proof R as R'. apply raw_ok_spec in R'. destruct R' as (Hs & _ & N & _).
    destruct (encode_head c Hs N) as (b0 & e & E & B).
    unfold golit_value. rewrite unquote_quote.
    pose proof (raw_value_encode c R) as V. rewrite E in *. rewrite B. exact V.
  - (* Hex *)
    destruct (is_byte c) eqn:R; [|discriminate H]. apply Some_inj in H. subst l.
    unfold is_byte in R.
    refine (eq_trans (golit_escape [120; hex_digit (c / 16); hex_digit (c mod 16)]) _).
    unfold escape_value. change (120 =? 120) with true. cbv iota.
    rewrite !hex_val_hex_digit by lia. cbn [opt_bind]. f_equal. lia.
  - (* Octal *)
    destruct (is_byte c) eqn:R; [|discriminate H]. apply Some_inj in H. subst l.
    unfold is_byte in R.
    refine (eq_trans (golit_escape [48 + c / 64; 48 + (c / 8) mod 8; 48 + c mod 8]) _).
    unfold escape_value. replace (48 + c / 64 =? 120) with false by lia.
    rewrite !oct_val_digit by lia. cbn [opt_bind]. unfold guard.
    replace (64 * (c / 64) + 8 * ((c / 8) mod 8) + c mod 8) with c by lia.
    replace (c <=? 255) with true by lia. reflexivity.
  - (* LittleU *)
    destruct (is_scalar c && (c <? 65536)) eqn:R; [|discriminate H].
    apply Some_inj in H. subst l.
    apply andb_true_iff in R. destruct R as [Hs R]. pose proof Hs as Hs'.
    apply is_scalar_spec in Hs'.
    refine (eq_trans (golit_escape [117; hex_digit (c / 4096); hex_digit ((c / 256) mod 16);
                           hex_digit ((c / 16) mod 16); hex_digit (c mod 16)]) _).
    unfold escape_value. change (117 =? 117) with true. cbv iota.
    rewrite !hex_val_hex_digit by lia. cbn [opt_bind].
    replace (4096 * (c / 4096) + 256 * ((c / 256) mod 16) + 16 * ((c / 16) mod 16)
             + c mod 16) with c by lia.
    rewrite Hs. reflexivity.
  - (* BigU *)
    destruct (is_scalar c) eqn:Hs; [|discriminate H].
    apply Some_inj in H. subst l. pose proof Hs as Hs'. apply is_scalar_spec in Hs'.
    refine (eq_trans (golit_escape [85;
            hex_digit (c / 268435456); hex_digit ((c / 16777216) mod 16);
            hex_digit ((c / 1048576) mod 16); hex_digit ((c / 65536) mod 16);
            hex_digit ((c / 4096) mod 16); hex_digit ((c / 256) mod 16);
            hex_digit ((c / 16) mod 16); hex_digit (c mod 16)]) _).
    unfold escape_value. change (85 =? 85) with true. cbv iota.
    rewrite !hex_val_hex_digit by lia. cbn [opt_bind].
    replace (268435456 * (c / 268435456) + 16777216 * ((c / 16777216) mod 16)
             + 1048576 * ((c / 1048576) mod 16) + 65536 * ((c / 65536) mod 16)
             + 4096 * ((c / 4096) mod 16) + 256 * ((c / 256) mod 16)
             + 16 * ((c / 16) mod 16) + c mod 16) with c by lia.
    rewrite Hs. reflexivity.
  - (* Named *)
    destruct (named_char c) as [b|] eqn:N; [|discriminate H].
    apply Some_inj in H. subst l.
    refine (eq_trans (golit_escape [b]) _). unfold escape_value.
    unfold named_char in N.
    repeat match type of N with
    | (if ?t then _ else _) = _ =>
      let E := fresh "E" in destruct t eqn:E;
      [apply Z.eqb_eq in E; apply Some_inj in N; subst; reflexivity|]
    end.
    discriminate N.
Qed.

Corollary spell_decodes : forall k c l, spell k c = Some l -> lit_to_rune l = Some c.
Proof. intros k c l H. apply lit_to_rune_agrees. eapply spell_denotes. exact H. Qed.

(** ** (c) Non-vacuity *)

Theorem spell_BigU_defined : forall c, is_scalar c = true -> spell BigU c <> None.
Proof. intros c H. unfold spell. rewrite H. discriminate. Qed.

Theorem spell_Raw_defined : forall c, is_scalar c = true ->
  c <> 39 -> c <> 92 -> c <> 10 -> spell Raw c <> None.
Proof.
  intros c H H1 H2 H3. unfold spell.
  replace (raw_ok c) with true by (symmetry; apply raw_ok_spec; auto).
  discriminate.
Qed.

Theorem spell_LittleU_defined : forall c, is_scalar c = true -> c < 65536 ->
  spell LittleU c <> None.
Proof.
  intros c H H1. unfold spell. rewrite H. replace (c <? 65536) with true by lia.
  discriminate.
Qed.

Theorem spell_Hex_Octal_defined : forall c, 0 <= c < 256 ->
  spell Hex c <> None /\ spell Octal c <> None.
Proof.
  intros c H. unfold spell, is_byte.
  replace ((0 <=? c) && (c <? 256)) with true by lia. split; discriminate.
Qed.

(** Every valid scalar value has a valid literal that gocc decodes to it. *)
Corollary every_scalar_has_literal : forall c, is_scalar c = true ->
  exists l, golit_value l = Some c /\ lit_to_rune l = Some c.
Proof.
  intros c H. destruct (spell BigU c) as [l|] eqn:E.
  - exists l. split; [eapply spell_denotes | eapply spell_decodes]; exact E.
  - exfalso. exact (spell_BigU_defined c H E).
Qed.

(** UTF-8 round trip, as used above (a fact about Base.Utf8). *)
Corollary decode_encode_exact : forall c, is_scalar c = true ->
  decode_rune (encode_rune c) = (c, length (encode_rune c)).
Proof.
  intros c H. rewrite <- (decode_encode c [] H), app_nil_r. reflexivity.
Qed.

(** ** Examples (vm_compute) *)

Definition both (l : list Z) : option Z * option Z := (golit_value l, lit_to_rune l).

(* 'a' *)
Example ex_a : both [39; 97; 39] = (Some 97, Some 97).
Proof. vm_compute. reflexivity. Qed.
(* '\n' *)
Example ex_nl : both [39; 92; 110; 39] = (Some 10, Some 10).
Proof. vm_compute. reflexivity. Qed.
(* '\'' *)
Example ex_sq : both [39; 92; 39; 39] = (Some 39, Some 39).
Proof. vm_compute. reflexivity. Qed.
(* '\x41' *)
Example ex_hex : both [39; 92; 120; 52; 49; 39] = (Some 65, Some 65).
Proof. vm_compute. reflexivity. Qed.
(* '\101' *)
Example ex_oct : both [39; 92; 49; 48; 49; 39] = (Some 65, Some 65).
Proof. vm_compute. reflexivity. Qed.
(* '\377' *)
Example ex_oct_max : both [39; 92; 51; 55; 55; 39] = (Some 255, Some 255).
Proof. vm_compute. reflexivity. Qed.
(* 'é' and 'é' *)
Example ex_u : both [39; 92; 117; 48; 48; 101; 57; 39] = (Some 233, Some 233)
            /\ both [39; 92; 117; 48; 48; 69; 57; 39] = (Some 233, Some 233).
Proof. vm_compute. split; reflexivity. Qed.
(* '\U0001F600' *)
Example ex_U : both [39; 92; 85; 48; 48; 48; 49; 70; 54; 48; 48; 39] = (Some 128512, Some 128512).
Proof. vm_compute. reflexivity. Qed.
(* '\U0010FFFF' *)
Example ex_U_max : both [39; 92; 85; 48; 48; 49; 48; 70; 70; 70; 70; 39] = (Some 1114111, Some 1114111).
Proof. vm_compute. reflexivity. Qed.
(* raw e-acute, U+00E9 = C3 A9 *)
Example ex_raw2 : both [39; 195; 169; 39] = (Some 233, Some 233).
Proof. vm_compute. reflexivity. Qed.
(* raw euro sign, U+20AC = E2 82 AC *)
Example ex_raw3 : both [39; 226; 130; 172; 39] = (Some 8364, Some 8364).
Proof. vm_compute. reflexivity. Qed.
(* raw U+1F600 = F0 9F 98 80 *)
Example ex_raw4 : both [39; 240; 159; 152; 128; 39] = (Some 128512, Some 128512).
Proof. vm_compute. reflexivity. Qed.

Example ex_spell :
  spell Raw 233 = Some [39; 195; 169; 39] /\
  spell Raw 128512 = Some [39; 240; 159; 152; 128; 39] /\
  spell Hex 65 = Some [39; 92; 120; 52; 49; 39] /\
  spell Octal 65 = Some [39; 92; 49; 48; 49; 39] /\
  spell LittleU 233 = Some [39; 92; 117; 48; 48; 101; 57; 39] /\
  spell BigU 128512 = Some [39; 92; 85; 48; 48; 48; 49; 102; 54; 48; 48; 39] /\
  spell Named 10 = Some [39; 92; 110; 39] /\
  spell Raw 39 = None /\ spell Raw 55296 = None /\ spell LittleU 65536 = None /\
  spell Hex 256 = None /\ spell Named 34 = None.
Proof. vm_compute. repeat split; reflexivity. Qed.

(** Both sides reject (Go panics) on these. *)
Example ex_reject :
  both [] = (None, None) /\ both [39] = (None, None) /\
  both [39; 39] = (None, None) /\                                 (* '' *)
  both [39; 97; 98; 39] = (None, None) /\                         (* 'ab' *)
  both [39; 92; 34; 39] = (None, None) /\                         (* backslash double-quote *)
  both [39; 92; 52; 48; 48; 39] = (None, None) /\                 (* '\400' *)
  both [39; 92; 56; 48; 48; 39] = (None, None) /\                 (* '\800' *)
  both [39; 92; 120; 103; 48; 39] = (None, None) /\               (* '\xg0' *)
  both [39; 92; 117; 68; 56; 48; 48; 39] = (None, None) /\        (* '\uD800' *)
  both [39; 92; 85; 48; 48; 49; 49; 48; 48; 48; 48; 39] = (None, None) /\  (* '\U00110000' *)
  both [39; 92; 85; 70; 70; 70; 70; 70; 70; 70; 70; 39] = (None, None) /\  (* '\UFFFFFFFF' *)
  both [39; 226; 130; 39] = (None, None) /\                       (* truncated 3-byte UTF-8 *)
  both [39; 195; 169; 169; 39] = (None, None).                    (* e-acute plus stray continuation byte *)
Proof. vm_compute. repeat split; reflexivity. Qed.

(** ** Findings: the converse of (a) is FALSE.
    Inputs that are NOT valid Go rune literals but on which LitToRune returns a value
    instead of panicking (first component None = invalid in Go, second = gocc's result). *)

(* F1: too few digits: loop stops early at the closing quote without complaint *)
Example finding_short_escapes :
  both [39; 92; 120; 52; 39] = (None, Some 4) /\                  (* '\x4'  -> 4 *)
  both [39; 92; 120; 39] = (None, Some 0) /\                      (* '\x'   -> 0 *)
  both [39; 92; 117; 52; 49; 39] = (None, Some 65) /\             (* '\u41' -> 65 *)
  both [39; 92; 85; 52; 49; 39] = (None, Some 65) /\              (* '\U41' -> 65 *)
  both [39; 92; 55; 39] = (None, Some 7) /\                       (* '\7'   -> 7 *)
  both [39; 92; 49; 50; 39] = (None, Some 10).                    (* '\12'  -> 10 *)
Proof. vm_compute. repeat split; reflexivity. Qed.

(* F2: trailing bytes after a complete escape are ignored *)
Example finding_trailing_garbage :
  both [39; 92; 110; 97; 98; 99; 39] = (None, Some 10) /\         (* '\nabc' -> 10 *)
  both [39; 92; 120; 52; 49; 122; 122; 39] = (None, Some 65) /\   (* '\x41zz' -> 65 *)
  both [39; 92; 49; 48; 49; 57; 39] = (None, Some 65).            (* '\1019' -> 65 *)
Proof. vm_compute. repeat split; reflexivity. Qed.

(* F3: the quotes are never inspected *)
Example finding_quotes_unchecked :
  both [120; 97; 121] = (None, Some 97) /\                        (* xay -> 97 *)
  both [39; 92; 110] = (None, Some 10) /\                         (* '\n (unterminated) -> 10 *)
  both [39; 92; 39] = (None, Some 39) /\                          (* '\' -> 39 *)
  both [39; 92; 120; 52; 49] = (None, Some 4).                    (* '\x41 unterminated: last byte taken for the quote -> 4 *)
Proof. vm_compute. repeat split; reflexivity. Qed.

(* F4: raw characters that Go forbids are accepted; ill-formed UTF-8 of length 1 yields U+FFFD *)
Example finding_raw :
  both [39; 39; 39] = (None, Some 39) /\                          (* ''' -> 39 *)
  both [39; 10; 39] = (None, Some 10) /\                          (* raw newline -> 10 *)
  both [39; 255; 39] = (None, Some 65533) /\                      (* byte FF -> U+FFFD *)
  both [39; 128; 39] = (None, Some 65533) /\                      (* lone continuation byte -> U+FFFD *)
  both [39; 195; 39] = (None, Some 65533).                        (* truncated 2-byte sequence -> U+FFFD *)
Proof. vm_compute. repeat split; reflexivity. Qed.

Print Assumptions esc_loop_no_wrap.
Print Assumptions lit_to_rune_agrees.
Print Assumptions spell_denotes.
Print Assumptions spell_decodes.
Print Assumptions spell_BigU_defined.
Print Assumptions spell_Raw_defined.
Print Assumptions every_scalar_has_literal.
