(** Specification and proofs for the markdown pre-processor model [Md.load_md].

    Main results
      - [load_md_pointwise] (unconditional): every rune is kept or replaced by a space, and a
        newline is never replaced.  Corollaries [load_md_length], [load_md_newlines],
        [load_md_newline_map]: lengths and the positions of newlines are preserved, hence
        every rune keeps its offset, line and column.
      - [load_md_spec]: on a document [doc p0 blocks] whose pieces satisfy [pieces_ok], the
        result is [expected p0 blocks]: prose blanked, fences replaced by three spaces, code
        kept.
      - [load_md_spec_open]: same with an unterminated last code block.
      - [load_md_code_kept]: index-wise reading of [load_md_spec].

    THE HYPOTHESIS [pieces_ok] (and why it has this shape).
    The Go loop tests for a fence at every position EXCEPT the position just after a fence
    (the quirk).  Let x be a piece (prose or code).  Write [closed_ok y] for
    "y ++ [`;`] contains no three consecutive backticks", i.e. y contains no ``` and does not
    end with a backtick; this is exactly "scanning y ++ ``` ++ anything, testing every
    position, finds the first fence at offset |y|" (windows starting inside y reach at most
    two runes into the closing fence).
      - p0 followed by a fence:            [closed_ok p0]        (p0 may be empty)
      - a piece between two fences:        [x <> [] /\ closed_ok (tl x)]     ([inner_ok])
          * x must be NON-EMPTY: its first rune is consumed untested, so for an empty piece
            the first backtick of the closing fence would be swallowed ("``````" is NOT an
            empty code block: load_md gives "   ```").
          * the first rune of x is unconstrained (it may be a backtick; x may even start
            with ``` as in "``````a```" = fence, code "```a", fence).
      - the last piece, followed by end of input: [no_fence (tl x)]  ([last_ok]; may be empty,
        may end with backticks); for [doc p0 []] simply [no_fence p0].
    So the condition is weaker than "no piece contains ```, none begins or ends with a
    backtick": beginning with a backtick is harmless, only ENDING with one (before a fence) is
    not, and emptiness between fences is forbidden.
    Necessity: for code pieces the condition is necessary (an early fence turns three kept
    backticks into spaces; see the examples at the end).  For prose pieces it is necessary for
    the fences to be found where the decomposition says; the output can coincide by accident
    when the code found inside the "prose" is itself blank (then another decomposition of the
    same document satisfies [pieces_ok] and yields the same [expected]). *)
From Coq Require Import List ZArith Bool Arith Lia.
From Gocc Require Import Front.Md.
Import ListNotations.
Local Open Scope Z_scope.

(* ------------------------------------------------------------------------- *)
(** * Vocabulary of the specification *)

Definition blank (p : list Z) : list Z := map (fun c => if c =? 10 then 10 else 32) p.
Definition fence : list Z := [96; 96; 96].
Definition spaces3 : list Z := [32; 32; 32].
Arguments fence : simpl never.
Arguments spaces3 : simpl never.

Fixpoint doc_tail (blocks : list (list Z * list Z)) : list Z :=
  match blocks with
  | [] => []
  | (c, p) :: bs => fence ++ c ++ fence ++ p ++ doc_tail bs
  end.
(** [doc p0 [(c1,p1);(c2,p2);...] = p0 ++ fence ++ c1 ++ fence ++ p1 ++ fence ++ c2 ++ ...] *)
Definition doc (p0 : list Z) (blocks : list (list Z * list Z)) : list Z :=
  p0 ++ doc_tail blocks.

Fixpoint expected_tail (blocks : list (list Z * list Z)) : list Z :=
  match blocks with
  | [] => []
  | (c, p) :: bs => spaces3 ++ c ++ spaces3 ++ blank p ++ expected_tail bs
  end.
Definition expected (p0 : list Z) (blocks : list (list Z * list Z)) : list Z :=
  blank p0 ++ expected_tail blocks.

(** no three consecutive backticks anywhere in [l] *)
Fixpoint no_fence (l : list Z) : Prop :=
  match l with
  | [] => True
  | _ :: t => starts_fence l = false /\ no_fence t
  end.

(** [x] followed by a fence, every position of [x] tested: first fence found at |x| *)
Definition closed_ok (x : list Z) : Prop := no_fence (x ++ [96; 96]).
(** a piece between two fences (its first rune is consumed untested) *)
Definition inner_ok (x : list Z) : Prop := x <> [] /\ closed_ok (tl x).
(** a piece after a fence that runs to the end of the input *)
Definition last_ok (x : list Z) : Prop := no_fence (tl x).

Fixpoint blocks_ok (blocks : list (list Z * list Z)) : Prop :=
  match blocks with
  | [] => True
  | (c, p) :: bs =>
    match bs with
    | [] => inner_ok c /\ last_ok p
    | _ :: _ => inner_ok c /\ inner_ok p /\ blocks_ok bs
    end
  end.

Definition pieces_ok (p0 : list Z) (blocks : list (list Z * list Z)) : Prop :=
  match blocks with
  | [] => no_fence p0
  | _ :: _ => closed_ok p0 /\ blocks_ok blocks
  end.

(** hypothesis for a document ending in an unterminated code block [c] *)
Definition pieces_ok_open (p0 : list Z) (blocks : list (list Z * list Z)) (c : list Z) : Prop :=
  closed_ok p0 /\ Forall (fun cp => inner_ok (fst cp) /\ inner_ok (snd cp)) blocks /\ last_ok c.

(* ------------------------------------------------------------------------- *)
(** * Unfolding lemmas for [load_from] *)

(** what the loop does right after a fence: one rune untested, then the normal loop *)
Definition after (text : bool) (l : list Z) : list Z :=
  match l with
  | [] => []
  | d :: r => step text d :: load_from text r
  end.

Lemma load_from_fence : forall text d r,
  load_from text (96 :: 96 :: 96 :: d :: r)
  = 32 :: 32 :: 32 :: step (negb text) d :: load_from (negb text) r.
Proof. reflexivity. Qed.

Lemma load_from_fence_end : forall text, load_from text [96; 96; 96] = [32; 32; 32].
Proof. reflexivity. Qed.

Lemma load_from_fence_app : forall text rest,
  load_from text (fence ++ rest) = spaces3 ++ after (negb text) rest.
Proof. intros text [|d r]; reflexivity. Qed.

Lemma load_from_nofence : forall text a l,
  starts_fence (a :: l) = false ->
  load_from text (a :: l) = step text a :: load_from text l.
Proof.
  intros text a l H. destruct l as [|b [|c r]]; try reflexivity.
  unfold starts_fence in H.
  change (load_from text (a :: b :: c :: r))
    with (if (a =? 96) && (b =? 96) && (c =? 96)
          then 32 :: 32 :: 32 ::
               match r with
               | [] => []
               | d :: r' => step (negb text) d :: load_from (negb text) r'
               end
          else step text a :: load_from text (b :: c :: r)).
  rewrite H. reflexivity.
Qed.

Lemma starts_fence_true : forall l,
  starts_fence l = true -> exists r, l = 96 :: 96 :: 96 :: r.
Proof.
  intros [|a [|b [|c r]]]; simpl; try discriminate.
  intros H. apply andb_prop in H. destruct H as [H H3].
  apply andb_prop in H. destruct H as [H1 H2].
  apply Z.eqb_eq in H1. apply Z.eqb_eq in H2. apply Z.eqb_eq in H3.
  subst. exists r. reflexivity.
Qed.

Lemma map_step_false : forall x, map (step false) x = x.
Proof. induction x as [|a x IH]; simpl; [|rewrite IH]; reflexivity. Qed.

Lemma map_step_true : forall x, map (step true) x = blank x.
Proof. reflexivity. Qed.

(* ------------------------------------------------------------------------- *)
(** * Unconditional properties *)

(** relation between an input rune [a] and the output rune [b] at the same index *)
Definition kept_or_blanked (a b : Z) : Prop := b = a \/ (b = 32 /\ a <> 10).

Lemma step_kept_or_blanked : forall text a, kept_or_blanked a (step text a).
Proof.
  intros [|] a; unfold step, blank_rune, kept_or_blanked.
  - destruct (a =? 10) eqn:E.
    + apply Z.eqb_eq in E. left. congruence.
    + apply Z.eqb_neq in E. right. split; [reflexivity|exact E].
  - left. reflexivity.
Qed.

Lemma backtick_blanked : kept_or_blanked 96 32.
Proof. right. split; [reflexivity|lia]. Qed.

Lemma load_from_pointwise_fuel : forall n l text,
  (length l <= n)%nat -> Forall2 kept_or_blanked l (load_from text l).
Proof.
  induction n as [|n IH]; intros l text Hn.
  - destruct l; [constructor|simpl in Hn; lia].
  - destruct l as [|a l]; [constructor|].
    destruct (starts_fence (a :: l)) eqn:E.
    + apply starts_fence_true in E. destruct E as [r E]. rewrite E.
      assert (Hr : (length r <= n)%nat).
      { apply (f_equal (@length Z)) in E. simpl in E, Hn. lia. }
      destruct r as [|d r].
      * rewrite load_from_fence_end.
        repeat (constructor; try apply backtick_blanked).
      * rewrite load_from_fence.
        constructor; [apply backtick_blanked|].
        constructor; [apply backtick_blanked|].
        constructor; [apply backtick_blanked|].
        constructor; [apply step_kept_or_blanked|].
        apply IH. simpl in Hr. lia.
    + rewrite load_from_nofence by exact E.
      constructor; [apply step_kept_or_blanked|].
      apply IH. simpl in Hn. lia.
Qed.

Lemma load_from_pointwise : forall text l, Forall2 kept_or_blanked l (load_from text l).
Proof. intros text l. apply (load_from_pointwise_fuel (length l)). lia. Qed.

(** Every rune is kept or replaced by a space; newlines are never replaced. *)
Theorem load_md_pointwise : forall l, Forall2 kept_or_blanked l (load_md l).
Proof. intros l. apply load_from_pointwise. Qed.

Lemma Forall2_len : forall (A B : Type) (R : A -> B -> Prop) l l',
  Forall2 R l l' -> length l' = length l.
Proof. induction 1; simpl; congruence. Qed.

Lemma Forall2_nth : forall (A B : Type) (R : A -> B -> Prop) l l',
  Forall2 R l l' ->
  forall i d d', (i < length l)%nat -> R (nth i l d) (nth i l' d').
Proof.
  induction 1 as [|a b l l' Hab H IH]; intros i d d' Hi; simpl in Hi.
  - lia.
  - destruct i as [|i]; simpl; [exact Hab|]. apply IH. lia.
Qed.

(** (b) *)
Theorem load_md_length : forall l, length (load_md l) = length l.
Proof. intros l. exact (Forall2_len _ _ _ _ _ (load_md_pointwise l)). Qed.

Lemma kept_or_blanked_newline : forall a b, kept_or_blanked a b -> (b = 10 <-> a = 10).
Proof. intros a b [H|[H1 H2]]; subst; split; intros; try lia; congruence. Qed.

(** (c), unconditional: the newlines of the output are exactly the newlines of the input. *)
Theorem load_md_newlines : forall l i, nth i (load_md l) 0 = 10 <-> nth i l 0 = 10.
Proof.
  intros l i. destruct (Nat.lt_ge_cases i (length l)) as [Hi|Hi].
  - apply kept_or_blanked_newline.
    apply (Forall2_nth _ _ _ _ _ (load_md_pointwise l)). exact Hi.
  - rewrite (nth_overflow (load_md l)) by (rewrite load_md_length; exact Hi).
    rewrite (nth_overflow l) by exact Hi. tauto.
Qed.

(** List form of (c): the line structure is untouched, so the line and column of every
    offset (functions of the newline flags of the preceding runes) are unchanged. *)
Theorem load_md_newline_map : forall l,
  map (fun c => c =? 10) (load_md l) = map (fun c => c =? 10) l.
Proof.
  intros l. generalize (load_md_pointwise l). generalize (load_md l).
  intros l' H. induction H as [|a b l l' Hab H IH]; [reflexivity|].
  simpl. rewrite IH. f_equal.
  apply kept_or_blanked_newline in Hab.
  destruct (b =? 10) eqn:Eb; destruct (a =? 10) eqn:Ea; try reflexivity.
  - apply Z.eqb_eq in Eb. apply Z.eqb_neq in Ea. tauto.
  - apply Z.eqb_neq in Eb. apply Z.eqb_eq in Ea. tauto.
Qed.

(* ------------------------------------------------------------------------- *)
(** * Scanning one piece *)

Lemma starts_fence_closed : forall a x rest,
  starts_fence (a :: x ++ [96; 96]) = false ->
  starts_fence (a :: x ++ fence ++ rest) = false.
Proof. intros a [|b [|c x]] rest H; exact H. Qed.

(** a piece all of whose positions are tested, followed by a fence *)
Lemma scan_closed : forall x text rest,
  closed_ok x ->
  load_from text (x ++ fence ++ rest)
  = map (step text) x ++ spaces3 ++ after (negb text) rest.
Proof.
  induction x as [|a x IH]; intros text rest H.
  - apply load_from_fence_app.
  - destruct H as [H1 H2].
    rewrite <- app_comm_cons.
    rewrite load_from_nofence by (apply starts_fence_closed; exact H1).
    rewrite IH by exact H2. reflexivity.
Qed.

(** a piece all of whose positions are tested, followed by the end of the input *)
Lemma scan_last : forall x text,
  no_fence x -> load_from text x = map (step text) x.
Proof.
  induction x as [|a x IH]; intros text H; [reflexivity|].
  destruct H as [H1 H2].
  rewrite load_from_nofence by exact H1.
  rewrite IH by exact H2. reflexivity.
Qed.

Lemma after_inner : forall x text rest,
  inner_ok x ->
  after text (x ++ fence ++ rest)
  = map (step text) x ++ spaces3 ++ after (negb text) rest.
Proof.
  intros x text rest [Hne Hc]. destruct x as [|d x]; [congruence|].
  simpl tl in Hc. rewrite <- app_comm_cons. unfold after at 1.
  rewrite scan_closed by exact Hc. reflexivity.
Qed.

Lemma after_last : forall x text, last_ok x -> after text x = map (step text) x.
Proof.
  intros [|d x] text H; [reflexivity|].
  unfold last_ok in H. simpl tl in H. unfold after.
  rewrite scan_last by exact H. reflexivity.
Qed.

(* ------------------------------------------------------------------------- *)
(** * Generic alternating sequence of pieces (mode-parametric) *)

Fixpoint join_tail (xs : list (list Z)) : list Z :=
  match xs with
  | [] => []
  | x :: r => fence ++ x ++ join_tail r
  end.

Fixpoint render_tail (text : bool) (xs : list (list Z)) : list Z :=
  match xs with
  | [] => []
  | x :: r => spaces3 ++ map (step text) x ++ render_tail (negb text) r
  end.

Fixpoint tail_ok (xs : list (list Z)) : Prop :=
  match xs with
  | [] => True
  | x :: r =>
    match r with
    | [] => last_ok x
    | _ :: _ => inner_ok x /\ tail_ok r
    end
  end.

Definition head_ok (x0 : list Z) (xs : list (list Z)) : Prop :=
  match xs with
  | [] => no_fence x0
  | _ :: _ => closed_ok x0 /\ tail_ok xs
  end.

Lemma after_join : forall xs x text,
  tail_ok (x :: xs) ->
  after text (x ++ join_tail xs) = map (step text) x ++ render_tail (negb text) xs.
Proof.
  induction xs as [|y r IH]; intros x text H.
  - cbn [join_tail render_tail]. rewrite !app_nil_r. apply after_last. exact H.
  - change (inner_ok x /\ tail_ok (y :: r)) in H. destruct H as [Hx Hr].
    cbn [join_tail render_tail].
    rewrite after_inner by exact Hx.
    rewrite IH by exact Hr. reflexivity.
Qed.

Theorem load_from_join : forall x0 xs text,
  head_ok x0 xs ->
  load_from text (x0 ++ join_tail xs) = map (step text) x0 ++ render_tail (negb text) xs.
Proof.
  intros x0 [|y r] text H.
  - cbn [join_tail render_tail]. rewrite !app_nil_r. apply scan_last. exact H.
  - destruct H as [H0 Ht].
    cbn [join_tail render_tail].
    rewrite scan_closed by exact H0.
    rewrite after_join by exact Ht. reflexivity.
Qed.

(* ------------------------------------------------------------------------- *)
(** * From blocks to alternating pieces *)

Fixpoint flat (blocks : list (list Z * list Z)) : list (list Z) :=
  match blocks with
  | [] => []
  | (c, p) :: bs => c :: p :: flat bs
  end.

Lemma join_tail_flat : forall bs xs,
  join_tail (flat bs ++ xs) = doc_tail bs ++ join_tail xs.
Proof.
  induction bs as [|[c p] bs IH]; intros xs; [reflexivity|].
  cbn [flat app join_tail doc_tail]. rewrite IH.
  rewrite <- !app_assoc. reflexivity.
Qed.

Lemma render_tail_flat : forall bs xs,
  render_tail false (flat bs ++ xs) = expected_tail bs ++ render_tail false xs.
Proof.
  induction bs as [|[c p] bs IH]; intros xs; [reflexivity|].
  cbn [flat app render_tail expected_tail negb]. rewrite IH.
  rewrite map_step_false, map_step_true.
  rewrite <- !app_assoc. reflexivity.
Qed.

Lemma join_tail_flat0 : forall bs, join_tail (flat bs) = doc_tail bs.
Proof.
  intros bs. pose proof (join_tail_flat bs []) as H.
  rewrite (app_nil_r (flat bs)) in H. rewrite H. apply app_nil_r.
Qed.

Lemma render_tail_flat0 : forall bs, render_tail false (flat bs) = expected_tail bs.
Proof.
  intros bs. pose proof (render_tail_flat bs []) as H.
  rewrite (app_nil_r (flat bs)) in H. rewrite H. apply app_nil_r.
Qed.

Lemma join_tail_flat1 : forall bs c,
  join_tail (flat bs ++ [c]) = doc_tail bs ++ fence ++ c.
Proof.
  intros bs c. rewrite join_tail_flat. cbn [join_tail].
  rewrite (app_nil_r c). reflexivity.
Qed.

Lemma render_tail_flat1 : forall bs c,
  render_tail false (flat bs ++ [c]) = expected_tail bs ++ spaces3 ++ c.
Proof.
  intros bs c. rewrite render_tail_flat. cbn [render_tail].
  rewrite map_step_false, (app_nil_r c). reflexivity.
Qed.

Lemma tail_ok_flat : forall bs, blocks_ok bs -> tail_ok (flat bs).
Proof.
  induction bs as [|[c p] bs IH]; intros H; [exact I|].
  destruct bs as [|[c' p'] bs'].
  - exact H.
  - change (inner_ok c /\ inner_ok p /\ blocks_ok ((c', p') :: bs')) in H.
    destruct H as [Hc [Hp Hb]].
    change (inner_ok c /\ inner_ok p /\ tail_ok (flat ((c', p') :: bs'))).
    auto.
Qed.

Lemma tail_ok_flat_open : forall bs c,
  Forall (fun cp => inner_ok (fst cp) /\ inner_ok (snd cp)) bs ->
  last_ok c ->
  tail_ok (flat bs ++ [c]).
Proof.
  induction bs as [|[c1 p1] bs IH]; intros c HF Hc.
  - exact Hc.
  - inversion HF as [|? ? [H1 H2] HF']; subst. simpl in H1, H2.
    specialize (IH c HF' Hc).
    cbn [flat app].
    destruct (flat bs ++ [c]) as [|y r] eqn:E.
    + destruct (flat bs); discriminate.
    + change (inner_ok c1 /\ inner_ok p1 /\ tail_ok (y :: r)). auto.
Qed.

(* ------------------------------------------------------------------------- *)
(** * (a) and (e): the specification *)

Theorem load_md_spec : forall p0 blocks,
  pieces_ok p0 blocks -> load_md (doc p0 blocks) = expected p0 blocks.
Proof.
  intros p0 blocks H. unfold load_md, doc, expected.
  rewrite <- join_tail_flat0, <- render_tail_flat0.
  rewrite load_from_join; [reflexivity|].
  destruct blocks as [|[c p] bs].
  - exact H.
  - destruct H as [H0 Hb]. split; [exact H0|].
    apply (tail_ok_flat ((c, p) :: bs)). exact Hb.
Qed.

(** Unterminated last fence: everything after it is kept as code. *)
Theorem load_md_spec_open : forall p0 blocks c,
  pieces_ok_open p0 blocks c ->
  load_md (doc p0 blocks ++ fence ++ c) = expected p0 blocks ++ spaces3 ++ c.
Proof.
  intros p0 blocks c [H0 [HF Hc]]. unfold load_md, doc, expected.
  rewrite <- !app_assoc.
  rewrite <- (join_tail_flat1 blocks c), <- (render_tail_flat1 blocks c).
  rewrite load_from_join; [reflexivity|].
  pose proof (tail_ok_flat_open blocks c HF Hc) as Ht.
  unfold head_ok. destruct (flat blocks ++ [c]) as [|y r] eqn:E.
  - destruct (flat blocks); discriminate.
  - split; assumption.
Qed.

(* ------------------------------------------------------------------------- *)
(** * (d) index-wise reading: code kept in place, the rest blanked *)

(** [true] exactly at the indices of [doc p0 blocks] that belong to a code piece *)
Fixpoint code_mask_tail (blocks : list (list Z * list Z)) : list bool :=
  match blocks with
  | [] => []
  | (c, p) :: bs =>
    repeat false 3 ++ repeat true (length c) ++ repeat false 3
    ++ repeat false (length p) ++ code_mask_tail bs
  end.
Definition code_mask (p0 : list Z) (blocks : list (list Z * list Z)) : list bool :=
  repeat false (length p0) ++ code_mask_tail blocks.

Fixpoint apply_mask (m : list bool) (l : list Z) : list Z :=
  match m, l with
  | b :: m', c :: l' => (if b then c else blank_rune c) :: apply_mask m' l'
  | _, _ => l
  end.

Lemma apply_mask_app : forall m1 l1 m2 l2,
  length m1 = length l1 ->
  apply_mask (m1 ++ m2) (l1 ++ l2) = apply_mask m1 l1 ++ apply_mask m2 l2.
Proof.
  induction m1 as [|b m1 IH]; intros [|c l1] m2 l2 H; simpl in H; try discriminate.
  - reflexivity.
  - simpl. rewrite IH by congruence. reflexivity.
Qed.

Lemma apply_mask_false : forall l, apply_mask (repeat false (length l)) l = blank l.
Proof. induction l as [|c l IH]; simpl; [|rewrite IH]; reflexivity. Qed.

Lemma apply_mask_true : forall l, apply_mask (repeat true (length l)) l = l.
Proof. induction l as [|c l IH]; simpl; [|rewrite IH]; reflexivity. Qed.

Lemma apply_mask_fence : apply_mask (repeat false 3) fence = spaces3.
Proof. reflexivity. Qed.

Lemma nth_apply_mask : forall m l i,
  length m = length l -> (i < length l)%nat ->
  nth i (apply_mask m l) 0
  = if nth i m false then nth i l 0 else blank_rune (nth i l 0).
Proof.
  induction m as [|b m IH]; intros [|c l] i H Hi; simpl in H, Hi; try discriminate; try lia.
  destruct i as [|i]; simpl; [reflexivity|]. apply IH; [congruence|lia].
Qed.

Lemma expected_tail_mask : forall bs,
  expected_tail bs = apply_mask (code_mask_tail bs) (doc_tail bs).
Proof.
  induction bs as [|[c p] bs IH]; [reflexivity|].
  cbn [expected_tail code_mask_tail doc_tail].
  rewrite apply_mask_app by reflexivity.
  rewrite apply_mask_app by apply repeat_length.
  rewrite apply_mask_app by reflexivity.
  rewrite apply_mask_app by apply repeat_length.
  rewrite apply_mask_fence, apply_mask_true, apply_mask_false, <- IH. reflexivity.
Qed.

(** mask form of the specification *)
Lemma expected_mask : forall p0 bs,
  expected p0 bs = apply_mask (code_mask p0 bs) (doc p0 bs).
Proof.
  intros p0 bs. unfold expected, code_mask, doc.
  rewrite apply_mask_app by apply repeat_length.
  rewrite apply_mask_false, <- expected_tail_mask. reflexivity.
Qed.

Lemma doc_tail_app : forall a b, doc_tail (a ++ b) = doc_tail a ++ doc_tail b.
Proof.
  induction a as [|[c p] a IH]; intros b; [reflexivity|].
  cbn [app doc_tail]. rewrite IH. rewrite <- !app_assoc. reflexivity.
Qed.

Lemma code_mask_tail_app : forall a b,
  code_mask_tail (a ++ b) = code_mask_tail a ++ code_mask_tail b.
Proof.
  induction a as [|[c p] a IH]; intros b; [reflexivity|].
  cbn [app code_mask_tail]. rewrite IH. rewrite <- !app_assoc. reflexivity.
Qed.

Lemma code_mask_tail_length : forall bs, length (code_mask_tail bs) = length (doc_tail bs).
Proof.
  induction bs as [|[c p] bs IH]; [reflexivity|].
  cbn [code_mask_tail doc_tail]. rewrite !app_length, !repeat_length, IH. reflexivity.
Qed.

Lemma code_mask_length : forall p0 bs, length (code_mask p0 bs) = length (doc p0 bs).
Proof.
  intros. unfold code_mask, doc.
  rewrite !app_length, repeat_length, code_mask_tail_length. reflexivity.
Qed.

Lemma nth_app_mid : forall (A : Type) (a f b c : list A) j d,
  (j < length b)%nat ->
  nth (length a + length f + j) (a ++ f ++ b ++ c) d = nth j b d.
Proof.
  intros A a f b c j d Hj.
  rewrite app_nth2 by lia.
  replace (length a + length f + j - length a)%nat with (length f + j)%nat by lia.
  rewrite app_nth2 by lia.
  replace (length f + j - length f)%nat with j by lia.
  apply app_nth1. exact Hj.
Qed.

Lemma nth_repeat_true : forall n j, (j < n)%nat -> nth j (repeat true n) false = true.
Proof.
  induction n as [|n IH]; intros j Hj; [lia|].
  destruct j as [|j]; simpl; [reflexivity|]. apply IH. lia.
Qed.

(** (d) Under [pieces_ok]:
    1. the [j]-th rune of the code piece [c] of any block sits at index
       [off + j] of the document, where [off] is the length of everything before it
       (= |doc p0 pre| + 3 for the opening fence); the mask is [true] there; and the output
       has the very same rune at the very same index;
    2. at every index where the mask is [false] (prose and fences) the output is a newline if
       the input rune was a newline and a space otherwise. *)
Theorem load_md_code_kept : forall p0 blocks,
  pieces_ok p0 blocks ->
  (forall pre c p post j,
     blocks = pre ++ (c, p) :: post ->
     (j < length c)%nat ->
     let off := (length (doc p0 pre) + 3)%nat in
     nth (off + j) (doc p0 blocks) 0 = nth j c 0 /\
     nth (off + j) (code_mask p0 blocks) false = true /\
     nth (off + j) (load_md (doc p0 blocks)) 0 = nth j c 0)
  /\
  (forall i,
     (i < length (doc p0 blocks))%nat ->
     nth i (code_mask p0 blocks) false = false ->
     nth i (load_md (doc p0 blocks)) 0
     = if nth i (doc p0 blocks) 0 =? 10 then 10 else 32).
Proof.
  intros p0 blocks H. pose proof (load_md_spec p0 blocks H) as S.
  assert (M : forall i, (i < length (doc p0 blocks))%nat ->
     nth i (load_md (doc p0 blocks)) 0
     = if nth i (code_mask p0 blocks) false
       then nth i (doc p0 blocks) 0 else blank_rune (nth i (doc p0 blocks) 0)).
  { intros i Hi. rewrite S, expected_mask.
    apply nth_apply_mask; [apply code_mask_length|exact Hi]. }
  split.
  - intros pre c p post j Hb Hj off.
    assert (D : nth (off + j) (doc p0 blocks) 0 = nth j c 0).
    { subst blocks off. unfold doc. rewrite doc_tail_app. cbn [doc_tail].
      rewrite app_assoc. change 3%nat with (length fence).
      apply nth_app_mid. exact Hj. }
    assert (K : nth (off + j) (code_mask p0 blocks) false = true).
    { subst blocks off. unfold code_mask. rewrite code_mask_tail_app. cbn [code_mask_tail].
      rewrite app_assoc.
      replace (length (doc p0 pre)) with (length (repeat false (length p0) ++ code_mask_tail pre))
        by apply (code_mask_length p0 pre).
      change 3%nat with (length (repeat false 3)).
      rewrite nth_app_mid by (rewrite repeat_length; exact Hj).
      apply nth_repeat_true. exact Hj. }
    split; [exact D|]. split; [exact K|].
    rewrite M.
    + rewrite K. exact D.
    + subst blocks off. unfold doc. rewrite doc_tail_app. cbn [doc_tail].
      rewrite !app_length. change (length fence) with 3%nat. lia.
  - intros i Hi Hm. rewrite (M i Hi), Hm. reflexivity.
Qed.

(* ------------------------------------------------------------------------- *)
(** * (f) Examples *)

(** "ab\n```\nx`y\n```\ncd\n```z```\n": two blocks, newlines everywhere *)
Example ex_two_blocks :
  load_md (doc [97; 98; 10] [([10; 120; 96; 121; 10], [10; 99; 100; 10]); ([122], [10])])
  = [32; 32; 10] ++ spaces3 ++ [10; 120; 96; 121; 10] ++ spaces3 ++ [10; 32; 32; 10]
    ++ spaces3 ++ [122] ++ spaces3 ++ [10].
Proof. vm_compute. reflexivity. Qed.

Example ex_two_blocks_expected :
  expected [97; 98; 10] [([10; 120; 96; 121; 10], [10; 99; 100; 10]); ([122], [10])]
  = load_md (doc [97; 98; 10] [([10; 120; 96; 121; 10], [10; 99; 100; 10]); ([122], [10])]).
Proof. vm_compute. reflexivity. Qed.

(** the quirk: six backticks are NOT an empty code block; the 4th backtick is consumed
    untested as code, the remaining two do not make a fence, and the rest of the document
    stays in code mode: "``````ab" -> "   ```ab" *)
Example ex_quirk_six_backticks :
  load_md [96; 96; 96; 96; 96; 96; 97; 98] = [32; 32; 32; 96; 96; 96; 97; 98].
Proof. vm_compute. reflexivity. Qed.

(** whereas the decomposition "empty code block" would predict all blanks *)
Example ex_quirk_six_backticks_expected :
  expected [] [([], [97; 98])] = [32; 32; 32; 32; 32; 32; 32; 32].
Proof. vm_compute. reflexivity. Qed.

(** seven backticks: fence, untested backtick kept as code, fence: "```````a" -> "   `    " *)
Example ex_quirk_seven_backticks :
  load_md [96; 96; 96; 96; 96; 96; 96; 97] = [32; 32; 32; 96; 32; 32; 32; 32].
Proof. vm_compute. reflexivity. Qed.

(** a code piece may begin with backticks, even with a full ```:
    "```" ++ "```a" ++ "```" ++ "b" -> "   ```a    " *)
Example ex_code_starting_with_fence :
  load_md (doc [] [([96; 96; 96; 97], [98])]) = spaces3 ++ [96; 96; 96; 97] ++ spaces3 ++ [32].
Proof. vm_compute. reflexivity. Qed.

(** a code piece ending with a backtick breaks the spec (so [closed_ok (tl c)] is needed):
    "```" ++ "a`" ++ "```" ++ "b\n" -> "   a     \n": the fence is found one rune early, the
    backtick of the code is lost (the scan resynchronises because the last backtick of the
    real fence is then consumed untested, as prose) *)
Example ex_code_ending_with_backtick :
  load_md (doc [] [([97; 96], [98; 10])]) = [32; 32; 32; 97; 32; 32; 32; 32; 32; 10].
Proof. vm_compute. reflexivity. Qed.

Example ex_code_ending_with_backtick_expected :
  expected [] [([97; 96], [98; 10])] = [32; 32; 32; 97; 96; 32; 32; 32; 32; 10].
Proof. vm_compute. reflexivity. Qed.

(** a prose piece ending with a backtick: "a`" ++ "```" ++ "x" -> "a   `x" read as
    " " ++ 3 spaces ++ code "`x": the code block starts one rune early and the last backtick
    of the fence survives in the output *)
Example ex_prose_ending_with_backtick :
  load_md ([97; 96] ++ fence ++ [120]) = [32; 32; 32; 32; 96; 120].
Proof. vm_compute. reflexivity. Qed.

(** unterminated fence: "x```c\n``" -> "    c\n``" *)
Example ex_open :
  load_md ([120] ++ fence ++ [99; 10; 96; 96]) = [32] ++ spaces3 ++ [99; 10; 96; 96].
Proof. vm_compute. reflexivity. Qed.

Print Assumptions load_md_spec.
Print Assumptions load_md_spec_open.
Print Assumptions load_md_pointwise.
Print Assumptions load_md_length.
Print Assumptions load_md_newlines.
Print Assumptions load_md_newline_map.
Print Assumptions load_md_code_kept.
