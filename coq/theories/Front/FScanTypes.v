(** The token TYPES the front-end scanner model produces, and the source-level form of the front-end theorems.

    (1) [fscan_all_types]: every token [FScan.fscan_all] returns has a type in  -1 .. [max_ftype]  (= 21, the largest
        number of token.FRONTENDTokens; -1 is ILLEGAL).
    (2) [strip_eof_no_eof]: [Sem.strip_eof] leaves no token of type 0 (EOF).
    (3) [front_accepts_src_sound]: [SemTop.front_accepts_sound] for the token list the scanner model produces from the
        source bytes; its two hypotheses on the token list (no EOF token; every terminal number below [nterms tb]) are
        discharged by (1) and (2), leaving the single numeric condition  max_ftype + 1 < nterms tb.
    (4) [front_accepts_ext]: [Sem.front_accepts] (and [SemRange.front_accepts_r]) read only the types and the literals of
        the tokens — not their positions — hence [front_accepts_src_layout] (and variants): inserting or deleting layout
        at the places covered by FScanProofs.layout_insert / layout_insert_in_layout / toks_layout does not change the
        verdict of the whole front-end model. *)
From Coq Require Import List Arith ZArith Lia Bool.
From Gocc Require Import LR.Parse LR.Validate LR.Trees LR.Sound LR.SoundGated LR.Complete
  Front.FScan Front.FScanProofs Front.Sem Front.SemProofs Front.SemTop Front.SemRange.
Import ListNotations.
Local Open Scope Z_scope.

(** * (1) the types of the scanner's tokens *)

(** the largest type number the scanner can produce: string_lit, the last entry of token.FRONTENDTokens *)
Definition max_ftype : Z := 21.

Lemma max_ftype_eq : max_ftype = 21.
Proof. reflexivity. Qed.

(** it is the numbering the semantic model ships with, and it is attained (the source  ""  is one string_lit) *)
Lemma max_ftype_shipped : max_ftype = ft_string_lit shipped_ftypes.
Proof. vm_compute. reflexivity. Qed.

Example max_ftype_attained : map f_type (fst (fscan_all [34; 34])) = [max_ftype; 0].
Proof. vm_compute. reflexivity. Qed.

Definition ftype_ok (t : ftok) : Prop := -1 <= f_type t <= max_ftype.

Lemma ident_type_range : forall l c, -1 <= ident_type l c <= max_ftype.
Proof.
  intros l c. unfold ident_type, max_ftype.
  repeat match goal with |- context [if ?b then _ else _] => destruct b end; lia.
Qed.

Lemma punct_type_range : forall c ty, punct_type c = Some ty -> -1 <= ty <= max_ftype.
Proof.
  intros c ty. unfold punct_type, max_ftype.
  repeat match goal with |- (if ?b then _ else _) = _ -> _ => destruct b end;
    intro H; inversion H; lia.
Qed.

Lemma scan_type : forall F fuel st t st', scan F fuel st = Some (t, st') -> ftype_ok t.
Proof.
  intros F. induction fuel as [|f IH]; intros st t st' H; [discriminate|].
  cbn [scan] in H. bind_some H st0 W.
  assert (K : forall ty a b, -1 <= ty <= max_ftype -> ftype_ok (mk_tok ty a b)).
  { intros ty a b R. exact R. }
  assert (C : forall ty : Z, (ty = 0 \/ ty = 21 \/ ty = 9 \/ ty = -1 \/ ty = 18) -> -1 <= ty <= max_ftype).
  { intros ty D. unfold max_ftype. lia. }
  destruct ((ch st0 =? 33) || is_letter (ch st0)).
  { bind_some H st1 L. inversion H; subst; clear H. apply K, ident_type_range. }
  destruct (ch st0 =? -1).
  { inversion H; subst; clear H. apply K, C. auto. }
  destruct (ch st0 =? 34).
  { bind_some H st2 S2. inversion H; subst; clear H. apply K, C. auto. }
  destruct (ch st0 =? 39).
  { bind_some H st2 S2. inversion H; subst; clear H. apply K, C. auto. }
  destruct (ch st0 =? 96).
  { bind_some H st2 S2. inversion H; subst; clear H. apply K, C. auto. }
  destruct (ch st0 =? 47).
  { destruct ((ch (next st0) =? 47) || (ch (next st0) =? 42)).
    - bind_some H st2 S2. eapply IH; exact H.
    - inversion H; subst; clear H. apply K, C. auto. }
  destruct (ch st0 =? 60).
  { destruct (ch (next st0) =? 60).
    - bind_some H st2 S2. inversion H; subst; clear H. apply K, C. auto 6.
    - destruct (ch (next st0) =? 61); inversion H; subst; clear H; apply K, C; auto. }
  destruct (punct_type (ch st0)) as [ty|] eqn:P; inversion H; subst; clear H.
  - apply K. eapply punct_type_range; exact P.
  - apply K, C. auto.
Qed.

Lemma scan_all_types : forall F fuel st ts st', scan_all F fuel st = Some (ts, st') -> Forall ftype_ok ts.
Proof.
  intros F. induction fuel as [|f IH]; intros st ts st' H; [discriminate|].
  cbn [scan_all] in H. bind_some H r S1. destruct r as [t st1]. apply scan_type in S1.
  destruct (f_type t =? 0).
  - inversion H; subst; clear H. constructor; [exact S1 | constructor].
  - bind_some H r' S2. destruct r' as [ts2 st2]. inversion H; subst; clear H.
    constructor; [exact S1 | eapply IH; exact S2].
Qed.

Theorem fscan_all_types : forall src ts e, fscan_all src = (ts, e) ->
  Forall (fun t => -1 <= f_type t <= max_ftype) ts.
Proof.
  intros src ts e H. apply fscan_all_inv in H. destruct H as (st' & H & _).
  exact (scan_all_types _ _ _ _ _ H).
Qed.

(** the same with the number written out *)
Corollary fscan_all_types_21 : forall src ts e, fscan_all src = (ts, e) ->
  Forall (fun t => -1 <= f_type t <= 21) ts.
Proof. exact fscan_all_types. Qed.

(** * (2) [strip_eof] *)

Lemma strip_eof_no_eof : forall ts, Forall (fun t => f_type t <> 0) (strip_eof ts).
Proof.
  intro ts. apply Forall_forall. intros t I. unfold strip_eof in I. apply filter_In in I.
  destruct I as [_ I]. apply negb_true_iff, Z.eqb_neq in I. exact I.
Qed.

Lemma strip_eof_Forall : forall (P : ftok -> Prop) ts, Forall P ts -> Forall P (strip_eof ts).
Proof.
  intros P ts H. rewrite Forall_forall in *. intros t I. unfold strip_eof in I. apply filter_In in I.
  apply H. tauto.
Qed.

(** the token list handed to the parser and to the semantic checks *)
Theorem src_toks_types : forall src,
  Forall (fun t => 1 <= f_type t <= max_ftype \/ f_type t = -1) (strip_eof (fst (fscan_all src))).
Proof.
  intro src. destruct (fscan_all src) as [ts e] eqn:E. cbn [fst].
  pose proof (strip_eof_Forall _ _ (fscan_all_types _ _ _ E)) as H1. pose proof (strip_eof_no_eof ts) as H2.
  rewrite Forall_forall in *. intros t I. specialize (H1 t I). specialize (H2 t I). cbv beta in H1. lia.
Qed.

(** in the parser model's numbering (type + 1; ILLEGAL = -1 is terminal 0 = INVALID) *)
Theorem src_toks_terminals : forall src n, (Z.to_nat (max_ftype + 1) < n)%nat ->
  Forall (fun t => (Z.to_nat (f_type t + 1) < n)%nat) (strip_eof (fst (fscan_all src))).
Proof.
  intros src n Hn. eapply Forall_impl; [|apply src_toks_types]. intros t H. cbv beta in H.
  unfold max_ftype in *. lia.
Qed.

(** * (3) the front-end theorem from the source bytes *)

Theorem front_accepts_src_sound : forall ft g tb an sf src fuel,
  valid_backward g tb an = true ->
  t_gate tb = true -> forallb (fun r => negb (s_recover r)) (t_states tb) = true ->
  (0 <= ft_colon ft)%Z -> (0 <= ft_semi ft)%Z ->
  cut_ok g (Z.to_nat (ft_colon ft + 1)) (Z.to_nat (ft_semi ft + 1)) sf = true ->
  (Z.to_nat (max_ftype + 1) < nterms tb)%nat ->
  front_accepts_src ft tb fuel src = true ->
  let toks := strip_eof (fst (fscan_all src)) in
  sem_wf ft toks /\
  exists t pr0 X0, nth_error g 0 = Some pr0 /\ rhs pr0 = [X0] /\ wt g X0 t (to_ptoks 0 toks) /\
    defs_tree g (Z.to_nat (ft_colon ft + 1)) t = map (pmap mk) (tagged_defs ft toks) /\
    defs ft toks = map (pmap snd) (tagged_defs ft toks).
Proof.
  intros ft g tb an sf src fuel HV HG HN Hc Hs CO HT H toks.
  apply (front_accepts_sound ft g tb an sf toks fuel HV HG HN Hc Hs CO).
  - apply strip_eof_no_eof.
  - apply src_toks_terminals. exact HT.
  - exact H.
Qed.

(** ... and of the parser alone *)
Theorem front_cut_faithful_src : forall ft g tb an sf src fuel,
  valid_backward g tb an = true ->
  t_gate tb = true -> forallb (fun r => negb (s_recover r)) (t_states tb) = true ->
  (0 <= ft_colon ft)%Z -> (0 <= ft_semi ft)%Z ->
  cut_ok g (Z.to_nat (ft_colon ft + 1)) (Z.to_nat (ft_semi ft + 1)) sf = true ->
  (Z.to_nat (max_ftype + 1) < nterms tb)%nat ->
  let toks := strip_eof (fst (fscan_all src)) in
  parse_ok tb fuel toks = true ->
  exists t pr0 X0, nth_error g 0 = Some pr0 /\ rhs pr0 = [X0] /\ wt g X0 t (to_ptoks 0 toks) /\
    defs_tree g (Z.to_nat (ft_colon ft + 1)) t = map (pmap mk) (tagged_defs ft toks) /\
    defs ft toks = map (pmap snd) (tagged_defs ft toks).
Proof.
  intros ft g tb an sf src fuel HV HG HN Hc Hs CO HT toks H.
  apply (front_cut_faithful ft g tb an sf toks fuel HV HG HN Hc Hs CO).
  - apply strip_eof_no_eof.
  - apply src_toks_terminals. exact HT.
  - exact H.
Qed.

(** * (4) the front-end model reads types and literals only *)

(** a token with its position erased *)
Definition norm (t : ftok) : ftok :=
  {| f_type := f_type t; f_lit := f_lit t; f_off := 0; f_line := 0; f_col := 0 |}.

Definition of_strip (p : Z * list Z) : ftok :=
  {| f_type := fst p; f_lit := snd p; f_off := 0; f_line := 0; f_col := 0 |}.

Lemma norm_of_strip : forall l, map norm l = map of_strip (map FScanProofs.strip l).
Proof. intro l. rewrite map_map. reflexivity. Qed.

Lemma strip_eq_norm_eq : forall a b,
  map FScanProofs.strip a = map FScanProofs.strip b -> map norm a = map norm b.
Proof. intros a b H. rewrite !norm_of_strip, H. reflexivity. Qed.

Lemma to_ptoks_norm : forall toks i, to_ptoks i (map norm toks) = to_ptoks i toks.
Proof. induction toks as [|t r IH]; intro i; cbn [map to_ptoks]; [reflexivity|]. rewrite IH. reflexivity. Qed.

Lemma parse_ok_norm : forall tb fuel toks, parse_ok tb fuel (map norm toks) = parse_ok tb fuel toks.
Proof. intros. unfold parse_ok. rewrite to_ptoks_norm. reflexivity. Qed.

Section Ext.
Variable ft : ftypes.

Lemma defs_norm : forall toks, defs ft (map norm toks) = map (pmap norm) (defs ft toks).
Proof. intro toks. unfold defs. rewrite defs_gen_map. reflexivity. Qed.

Lemma filter_is_ty_norm : forall ty l, map f_lit (filter (is_ty ty) (map norm l)) = map f_lit (filter (is_ty ty) l).
Proof.
  intros ty l. induction l as [|t r IH]; [reflexivity|]. cbn [map filter].
  change (is_ty ty (norm t)) with (is_ty ty t). destruct (is_ty ty t); cbn [map]; rewrite IH; reflexivity.
Qed.

Lemma refs_of_norm : forall body, refs_of ft (map norm body) = refs_of ft body.
Proof. intro body. apply filter_is_ty_norm. Qed.

Lemma lex_defs_of_norm : forall ds, lex_defs_of ft (map (pmap norm) ds) = lex_defs_of ft ds.
Proof.
  induction ds as [|[h body] t IH]; [reflexivity|]. cbn [map]. unfold pmap at 1. cbn [fst snd lex_defs_of].
  change (lex_kind ft (norm h)) with (lex_kind ft h). rewrite IH, refs_of_norm. reflexivity.
Qed.

Lemma lex_defs_norm : forall toks, lex_defs ft (map norm toks) = lex_defs ft toks.
Proof. intro toks. unfold lex_defs. rewrite defs_norm. apply lex_defs_of_norm. Qed.

Lemma syn_defs_of_norm : forall ds, syn_defs_of ft (map (pmap norm) ds) = map (pmap norm) (syn_defs_of ft ds).
Proof.
  induction ds as [|[h body] t IH]; [reflexivity|]. cbn [map]. unfold pmap at 1. cbn [fst snd syn_defs_of].
  change (is_ty (ft_prodId ft) (norm h)) with (is_ty (ft_prodId ft) h).
  destruct (is_ty (ft_prodId ft) h); cbn [map]; rewrite IH; reflexivity.
Qed.

Lemma symbols_of_norm : forall a, symbols_of ft (map norm a) = symbols_of ft a.
Proof.
  induction a as [|t r IH]; [reflexivity|]. cbn [map symbols_of].
  change (sym_of_tok ft (norm t)) with (sym_of_tok ft t). rewrite IH. reflexivity.
Qed.

Lemma split_at_norm : forall ty l,
  split_at (is_ty ty) (map norm l) = map (map norm) (split_at (is_ty ty) l).
Proof.
  intros ty l. induction l as [|x t IH]; [reflexivity|]. cbn [map split_at].
  change (is_ty ty (norm x)) with (is_ty ty x). rewrite IH. destruct (is_ty ty x); [reflexivity|].
  destruct (split_at (is_ty ty) t); reflexivity.
Qed.

Lemma alts_of_def_norm : forall d, alts_of_def ft (pmap norm d) = alts_of_def ft d.
Proof.
  intros [h body]. unfold alts_of_def, pmap. cbn [fst snd]. rewrite split_at_norm, map_map.
  apply map_ext. intro a. rewrite symbols_of_norm. reflexivity.
Qed.

Lemma prod_alts_norm : forall toks, prod_alts ft (map norm toks) = prod_alts ft toks.
Proof.
  intro toks. unfold prod_alts. rewrite defs_norm, syn_defs_of_norm.
  induction (syn_defs_of ft (defs ft toks)) as [|d l IH]; [reflexivity|].
  cbn [map flat_map]. rewrite alts_of_def_norm, IH. reflexivity.
Qed.

Lemma sem_check_norm : forall toks, sem_check ft (map norm toks) = sem_check ft toks.
Proof.
  intro toks. unfold sem_check, check_consistent, tok_defs, reg_defs, lex_ids, str_uses, prod_uses, prod_heads, aug_alts.
  rewrite !lex_defs_norm, !prod_alts_norm. reflexivity.
Qed.

Lemma sem_verdict_norm : forall toks, sem_verdict ft (map norm toks) = sem_verdict ft toks.
Proof. intro toks. unfold sem_verdict. rewrite sem_check_norm. reflexivity. Qed.

Lemma front_accepts_norm : forall tb fuel toks, front_accepts ft tb fuel (map norm toks) = front_accepts ft tb fuel toks.
Proof. intros. unfold front_accepts. rewrite parse_ok_norm, sem_verdict_norm. reflexivity. Qed.

(** the verdict of the semantic checks, and the whole front-end model, depend only on (type, literal) of the tokens *)
Theorem sem_verdict_ext : forall a b,
  map (fun t => (f_type t, f_lit t)) a = map (fun t => (f_type t, f_lit t)) b ->
  sem_verdict ft a = sem_verdict ft b.
Proof.
  intros a b H. rewrite <- (sem_verdict_norm a), <- (sem_verdict_norm b), (strip_eq_norm_eq a b H). reflexivity.
Qed.

Theorem front_accepts_ext : forall tb fuel a b,
  map (fun t => (f_type t, f_lit t)) a = map (fun t => (f_type t, f_lit t)) b ->
  front_accepts ft tb fuel a = front_accepts ft tb fuel b.
Proof.
  intros tb fuel a b H.
  rewrite <- (front_accepts_norm tb fuel a), <- (front_accepts_norm tb fuel b), (strip_eq_norm_eq a b H). reflexivity.
Qed.

End Ext.

Lemma ranges_ok_norm : forall cl mn toks, ranges_ok cl mn (map norm toks) = ranges_ok cl mn toks.
Proof.
  intros cl mn. induction toks as [|a r IH]; [reflexivity|].
  destruct r as [|b [|c r']]; [reflexivity | reflexivity |].
  change (map norm (a :: b :: c :: r')) with (norm a :: norm b :: norm c :: map norm r').
  change (norm b :: norm c :: map norm r') with (map norm (b :: c :: r')) in *.
  cbn [ranges_ok]. cbn [ranges_ok] in IH.
  change (map norm (b :: c :: r')) with (norm b :: norm c :: map norm r') at 1.
  cbv iota.
  change (is_t cl (norm a)) with (is_t cl a). change (is_t mn (norm b)) with (is_t mn b).
  change (is_t cl (norm c)) with (is_t cl c). change (empty_range (norm a) (norm c)) with (empty_range a c).
  destruct (is_t cl a && is_t mn b && is_t cl c && empty_range a c); [reflexivity|].
  exact IH.
Qed.

Theorem front_accepts_r_ext : forall ft cl mn tb fuel a b,
  map (fun t => (f_type t, f_lit t)) a = map (fun t => (f_type t, f_lit t)) b ->
  front_accepts_r ft cl mn tb fuel a = front_accepts_r ft cl mn tb fuel b.
Proof.
  intros ft cl mn tb fuel a b H. unfold front_accepts_r. rewrite (front_accepts_ext ft tb fuel a b H).
  rewrite <- (ranges_ok_norm cl mn a), <- (ranges_ok_norm cl mn b), (strip_eq_norm_eq a b H). reflexivity.
Qed.

(** [strip_eof] on the (type, literal) view *)
Lemma strip_eof_strip : forall ts,
  map FScanProofs.strip (strip_eof ts) = filter (fun p => negb (fst p =? 0)) (map FScanProofs.strip ts).
Proof.
  induction ts as [|t r IH]; [reflexivity|]. unfold strip_eof in *. cbn [map filter].
  change (fst (FScanProofs.strip t)) with (f_type t). destruct (negb (f_type t =? 0)); cbn [map]; rewrite IH; reflexivity.
Qed.

(** two sources with the same (type, literal) token sequence get the same verdict *)
Theorem front_accepts_src_ext : forall ft tb fuel s1 s2,
  map FScanProofs.strip (fst (fscan_all s1)) = map FScanProofs.strip (fst (fscan_all s2)) ->
  front_accepts_src ft tb fuel s1 = front_accepts_src ft tb fuel s2.
Proof.
  intros ft tb fuel s1 s2 H. unfold front_accepts_src. apply front_accepts_ext.
  change (fun t => (f_type t, f_lit t)) with FScanProofs.strip. rewrite !strip_eof_strip, H. reflexivity.
Qed.

(** ** layout does not change the verdict *)

(** layout inserted (read right to left: deleted) at a Scan entry point  pre | suf  — right after a token, or at the
    very beginning — in front of a nonempty rest that does not start with a UTF-8 continuation byte; if [pre] ends with
    a slash the layout must start with a blank (FScanProofs.layout_insert) *)
Theorem front_accepts_src_layout : forall ft tb fuel pre ws suf,
  nonneg (pre ++ ws ++ suf) -> is_layout ws -> boundary pre suf -> suf <> [] -> hard suf ->
  (ends_with_slash pre -> match ws with [] => True | w :: _ => is_blank w = true end) ->
  front_accepts_src ft tb fuel (pre ++ ws ++ suf) = front_accepts_src ft tb fuel (pre ++ suf).
Proof.
  intros ft tb fuel pre ws suf NN L B NS HS SL. apply front_accepts_src_ext.
  apply fscan_all_layout_insert; assumption.
Qed.

(** layout inserted inside an existing nonempty layout run (no other condition; [suf] may be empty) *)
Theorem front_accepts_src_layout_in_layout : forall ft tb fuel pre L1 ws suf,
  nonneg (pre ++ L1 ++ ws ++ suf) -> is_layout L1 -> L1 <> [] -> is_layout ws -> boundary pre (L1 ++ suf) ->
  front_accepts_src ft tb fuel (pre ++ L1 ++ ws ++ suf) = front_accepts_src ft tb fuel (pre ++ L1 ++ suf).
Proof.
  intros ft tb fuel pre L1 ws suf NN LL1 NE L B. apply front_accepts_src_ext.
  apply fscan_all_layout_insert_in_layout; assumption.
Qed.

(** leading layout of the file *)
Theorem front_accepts_src_leading_layout : forall ft tb fuel ws suf,
  is_layout ws -> nonneg (ws ++ suf) ->
  front_accepts_src ft tb fuel (ws ++ suf) = front_accepts_src ft tb fuel suf.
Proof.
  intros ft tb fuel ws suf L NN. apply front_accepts_src_ext. apply fscan_all_leading_layout; assumption.
Qed.

(** the same for the model with the character-range check (what the harness evaluates) *)
Theorem front_accepts_r_src_layout : forall ft cl mn tb fuel pre ws suf,
  nonneg (pre ++ ws ++ suf) -> is_layout ws -> boundary pre suf -> suf <> [] -> hard suf ->
  (ends_with_slash pre -> match ws with [] => True | w :: _ => is_blank w = true end) ->
  front_accepts_r ft cl mn tb fuel (strip_eof (fst (fscan_all (pre ++ ws ++ suf)))) =
  front_accepts_r ft cl mn tb fuel (strip_eof (fst (fscan_all (pre ++ suf)))).
Proof.
  intros ft cl mn tb fuel pre ws suf NN L B NS HS SL. apply front_accepts_r_ext.
  change (fun t => (f_type t, f_lit t)) with FScanProofs.strip. rewrite !strip_eof_strip.
  rewrite (fscan_all_layout_insert pre ws suf NN L B NS HS SL). reflexivity.
Qed.

Print Assumptions fscan_all_types.
Print Assumptions strip_eof_no_eof.
Print Assumptions src_toks_types.
Print Assumptions front_accepts_src_sound.
Print Assumptions front_cut_faithful_src.
Print Assumptions front_accepts_ext.
Print Assumptions front_accepts_r_ext.
Print Assumptions front_accepts_src_ext.
Print Assumptions front_accepts_src_layout.
Print Assumptions front_accepts_src_layout_in_layout.
Print Assumptions front_accepts_src_leading_layout.
Print Assumptions front_accepts_r_src_layout.
