(** Model of gocc's hand-written FRONT-END scanner
      /repo/internal/frontend/scanner/scanner.go   (Init, next, Scan, scanComment,
         scanIdentifier, scanChar, scanString, scanRawString, scanSDTLit, scanEscape,
         digitVal, skipWhitespace, expect, error)
      /repo/internal/frontend/token/{token.go,tokens.go}   (TokenMap, FRONTENDTokens)
    as used by main.go: a fresh Scanner, Init(src, token.FRONTENDTokens), then Scan
    until the EOF token.  The model does what the code DOES, quirks included.

    TOKEN TYPE NUMBERS (token.FRONTENDTokens = NewMapFromStrings; index in the list + 1,
    the EOF marker is added first by NewMap):
       -1 ILLEGAL (TokenMap.Type of any string not in the map)
        0 EOF      1 id        2 tokId       3 ":"         4 ";"        5 regDefId
        6 ignoredTokId         7 "|"         8 "."         9 char_lit  10 "-"
       11 "["     12 "]"      13 "{"        14 "}"        15 "("       16 ")"
       17 prodId  18 g_sdt_lit 19 error     20 empty      21 string_lit
    The scanner asks the map for "import", ",", "/", "<", "<=" too; none of them is in
    FRONTENDTokens, so all of those come out as ILLEGAL (-1).  Types 1 (id), 19 (error)
    and 20 (empty) are NEVER produced by the scanner: the words error and empty are
    scanned by scanIdentifier and classified tokId (2).

    STATE.  Go keeps src, pos{Offset,Line,Column}, offset, ch, ErrorCount.  After every
    call of next() the pair (ch, offset) is a function of src[pos.Offset:]:
    ch and the width w = offset - pos.Offset are what next() decoded at pos.Offset (or
    ch = -1, w = 0 when pos.Offset = len(src)).  The model therefore keeps only
      s_cur  = src[pos.Offset:]     (the not yet consumed bytes, starting with the
                                     bytes of the look-ahead character ch)
      s_po   = pos.Offset   s_line = pos.Line   s_col = pos.Column   s_err = ErrorCount
    and recomputes ch = fst (read s_cur), w = snd (read s_cur).  [read] is the decoding
    step of next(), including the odd test [r >= 80] (decimal, not 0x80: bytes 80..127 go
    through utf8.DecodeRune, which returns them unchanged with width 1).
    Scanner.ch is not initialised by Init; for the fresh Scanner of main.go it is 0, so
    the first next() of Init does not see a newline.

    LOOPS take fuel; [None] means out of fuel and nothing else.  With the fuel used by
    [fscan_all] it cannot happen (FScanProofs.fscan_opt_total).  [F] below is the fuel
    handed to every inner loop.

    Token literal: Go returns src[pos.Offset : S.pos.Offset]; the model takes the first
    (length consumed) bytes of s_cur at the token start, which is the same thing
    (FScanProofs: tok_lit_slice).

    Not modelled: overflow of Go ints (positions, ErrorCount); findNewline, scanNumber,
    isReservedWord, switch2/3/4 (dead code).

    Definitions only; proofs are in FScanProofs.v. *)
From Coq Require Import List ZArith Bool.
From Gocc Require Import Base.Utf8 Front.FUnicode.
Import ListNotations.
Open Scope Z_scope.

Record ftok := { f_type : Z; f_lit : list Z; f_off : Z; f_line : Z; f_col : Z }.

Record state := { s_cur : list Z; s_po : Z; s_line : Z; s_col : Z; s_err : Z }.

(** The character next() loads when S.offset points at [cur], and its width. *)
Definition read (cur : list Z) : Z * nat :=
  match cur with
  | [] => (-1, 0%nat)
  | b :: _ =>
    if b =? 0 then (0, 1%nat)
    else if b >=? 80 then decode_rune cur
    else (b, 1%nat)
  end.

(** Number of S.error calls made by next() while loading that character. *)
Definition read_err (cur : list Z) : Z :=
  match cur with
  | [] => 0
  | b :: _ =>
    if b =? 0 then 1                                  (* illegal character NUL *)
    else if b >=? 80 then
      let '(r, w) := decode_rune cur in
      if (r =? 65533) && Nat.eqb w 1 then 1 else 0    (* illegal UTF-8 encoding *)
    else 0
  end.

Definition ch (st : state) : Z := fst (read (s_cur st)).

Definition add_err (st : state) : state :=
  {| s_cur := s_cur st; s_po := s_po st; s_line := s_line st; s_col := s_col st;
     s_err := s_err st + 1 |}.

(** Go: func (S *Scanner) next() *)
Definition next (st : state) : state :=
  let w := snd (read (s_cur st)) in
  match skipn w (s_cur st) with
  | [] =>          (* S.offset >= len(S.src): pos.Offset = len(src); ch = -1 *)
    {| s_cur := []; s_po := s_po st + Z.of_nat w; s_line := s_line st; s_col := s_col st;
       s_err := s_err st |}
  | cur' =>
    let nl := ch st =? 10 in
    {| s_cur := cur'; s_po := s_po st + Z.of_nat w;
       s_line := if nl then s_line st + 1 else s_line st;
       s_col := if nl then 1 else s_col st + 1;
       s_err := s_err st + read_err cur' |}
  end.

(** Go: Init = reset fields; S.next()  (with S.ch = 0 before) *)
Definition init (src : list Z) : state :=
  {| s_cur := src; s_po := 0; s_line := 1;
     s_col := match src with [] => 0 | _ => 1 end;
     s_err := read_err src |}.

Definition opt_bind {A B} (o : option A) (f : A -> option B) : option B :=
  match o with Some a => f a | None => None end.
Notation "'do' x <- o ; k" := (opt_bind o (fun x => k))
  (at level 200, x name, o at level 100, k at level 200).

(** ** Character classes *)

Definition is_letter (c : Z) : bool :=
  ((97 <=? c) && (c <=? 122)) || ((65 <=? c) && (c <=? 90))
  || ((c >=? 128) && uni_letter c) || (c =? 95).

Definition is_digit (c : Z) : bool :=
  ((48 <=? c) && (c <=? 57)) || ((c >=? 128) && uni_digit c).

(** unicode.IsUpper *)
Definition is_upper (c : Z) : bool :=
  if c <? 128 then (65 <=? c) && (c <=? 90) else uni_upper c.

Definition is_blank (c : Z) : bool := (c =? 32) || (c =? 9) || (c =? 10) || (c =? 13).

Definition ident_char (c : Z) : bool := is_letter c || is_digit c || (c =? 33).

(** Go: func digitVal(ch rune) int   (ch = -1 at end of file gives 16) *)
Definition fdigit_val (c : Z) : Z :=
  if (48 <=? c) && (c <=? 57) then c - 48
  else if (97 <=? c) && (c <=? 102) then c - 97 + 10
  else if (65 <=? c) && (c <=? 70) then c - 65 + 10
  else 16.

Definition fu32 (x : Z) : Z := x mod 4294967296.

(** ** //line directive of scanComment

    strconv.Atoi restricted to what the caller uses (result > 0): optional sign, at
    least one digit, digits only, value at most 2^63-1; a leading '-' can never give a
    positive number. *)
Fixpoint all_digits_val (acc : Z) (l : list Z) : option Z :=
  match l with
  | [] => Some acc
  | d :: t => if (48 <=? d) && (d <=? 57) then all_digits_val (acc * 10 + (d - 48)) t else None
  end.

Definition atoi_pos (l : list Z) : option Z :=
  let digits := match l with
                | s :: t => if s =? 43 then Some t else if s =? 45 then None else Some l
                | [] => None
                end in
  match digits with
  | None => None
  | Some [] => None
  | Some ds =>
    match all_digits_val 0 ds with
    | Some v => if (0 <? v) && (v <=? 9223372036854775807) then Some v else None
    | None => None
    end
  end.

Fixpoint has_prefix (p l : list Z) : bool :=
  match p, l with
  | [], _ => true
  | a :: p', b :: l' => (a =? b) && has_prefix p' l'
  | _ :: _, [] => false
  end.

(** bytes after the first ':' (bytes.Index(text, ":") then text[i+1:]) *)
Fixpoint after_colon (l : list Z) : option (list Z) :=
  match l with
  | [] => None
  | b :: t => if b =? 58 then Some t else after_colon t
  end.

(** [c0] = src[pos.Offset:] and [col0] = pos.Column for the comment's first '/';
    [st] is the state with S.ch = newline.  text = src[pos.Offset+2 : S.pos.Offset]. *)
Definition line_directive (c0 : list Z) (col0 : Z) (st : state) : state :=
  if col0 =? 1 then
    let text := firstn (length c0 - length (s_cur st) - 2) (skipn 2 c0) in
    if has_prefix [108; 105; 110; 101; 32] text then       (* "line " *)
      match after_colon text with
      | Some num =>
        match atoi_pos num with
        | Some line =>
          {| s_cur := s_cur st; s_po := s_po st; s_line := line - 1; s_col := s_col st;
             s_err := s_err st |}
        | None => st
        end
      | None => st
      end
    else st
  else st.

Section Loops.
(** fuel for the inner loops *)
Variable F : nat.

(** Go: skipWhitespace *)
Fixpoint skip_ws (fuel : nat) (st : state) : option state :=
  match fuel with
  | O => None
  | S f => if is_blank (ch st) then skip_ws f (next st) else Some st
  end.

(** Go: scanComment, //-style branch:
      for S.ch >= 0 { S.next(); if S.ch == '\n' { ...directive...; return } }
      S.error(pos, "comment not terminated") *)
Fixpoint line_comment (fuel : nat) (c0 : list Z) (col0 : Z) (st : state) : option state :=
  match fuel with
  | O => None
  | S f =>
    if ch st >=? 0 then
      let st1 := next st in
      if ch st1 =? 10 then Some (line_directive c0 col0 st1)
      else line_comment f c0 col0 st1
    else Some (add_err st)
  end.

(** Go: scanComment, /*-style branch after S.expect('*'):
      for S.ch >= 0 { ch := S.ch; S.next(); if ch == '*' && S.ch == '/' { S.next(); return } }
      S.error(pos, "comment not terminated") *)
Fixpoint block_comment (fuel : nat) (st : state) : option state :=
  match fuel with
  | O => None
  | S f =>
    if ch st >=? 0 then
      let c := ch st in
      let st1 := next st in
      if (c =? 42) && (ch st1 =? 47) then Some (next st1)
      else block_comment f st1
    else Some (add_err st)
  end.

(** Go: expect(ch) *)
Definition expect (c : Z) (st : state) : state :=
  next (if ch st =? c then st else add_err st).

(** Go: scanComment(pos); [st0] is the state at the first '/', [st] after it. *)
Definition scan_comment (st0 st : state) : option state :=
  if ch st =? 47 then line_comment F (s_cur st0) (s_col st0) st
  else block_comment F (expect 42 st).

(** Go: the digit loop of scanEscape
      for ; i > 0; i-- { d := uint32(digitVal(S.ch)); if d > base { error; return }
                         x = x*base + d; S.next() }
    Result: state and Some x, or None after the early return.  NOTE [d > base], not
    [d >= base]: the digit 8 is accepted in octal escapes, and 16 (any non-digit, also
    end of file) in hex escapes.  x is a uint32 and CAN wrap here (8 hex "digits" of
    value 16 reach 16^8 and more), so [fu32] matters. *)
Fixpoint esc_digits (i : nat) (base x : Z) (st : state) : state * option Z :=
  match i with
  | O => (st, Some x)
  | S i' =>
    let d := fdigit_val (ch st) in
    if d >? base then (add_err st, None)
    else esc_digits i' base (fu32 (x * base + d)) (next st)
  end.

Definition esc_number (i : nat) (base max : Z) (st : state) : state :=
  match esc_digits i base 0 st with
  | (st', None) => st'
  | (st', Some x) =>
    if (x >? max) || ((55296 <=? x) && (x <? 57344)) then add_err st' else st'
  end.

(** Go: scanEscape(quote) *)
Definition scan_escape (quote : Z) (st : state) : state :=
  let c := ch st in
  if (c =? 97) || (c =? 98) || (c =? 102) || (c =? 110) || (c =? 114) || (c =? 116)
     || (c =? 118) || (c =? 92) || (c =? quote) then next st
  else if (48 <=? c) && (c <=? 55) then esc_number 3 8 255 st
  else if c =? 120 then esc_number 2 16 255 (next st)
  else if c =? 117 then esc_number 4 16 1114111 (next st)
  else if c =? 85 then esc_number 8 16 1114111 (next st)
  else add_err (next st).                              (* unknown escape sequence *)

(** Go: scanString; opening quote already consumed.  NOTE: on an unterminated string
    the loop breaks after consuming the newline and the final S.next() swallows one
    more character. *)
Fixpoint scan_string (fuel : nat) (st : state) : option state :=
  match fuel with
  | O => None
  | S f =>
    if ch st =? 34 then Some (next st)
    else
      let c := ch st in
      let st1 := next st in
      if (c =? 10) || (c <? 0) then Some (next (add_err st1))
      else if c =? 92 then scan_string f (scan_escape 34 st1)
      else scan_string f st1
  end.

(** Go: scanChar; [n] counts the characters of the literal. *)
Definition char_finish (n : Z) (st : state) : state :=
  if n =? 1 then st else add_err st.                   (* illegal character literal *)

Fixpoint scan_char (fuel : nat) (n : Z) (st : state) : option state :=
  match fuel with
  | O => None
  | S f =>
    if ch st =? 39 then Some (char_finish n (next st))
    else
      let c := ch st in
      let st1 := next st in
      if (c =? 10) || (c <? 0) then Some (char_finish 1 (next (add_err st1)))
      else if c =? 92 then scan_char f (n + 1) (scan_escape 39 st1)
      else scan_char f (n + 1) st1
  end.

(** Go: scanRawString *)
Fixpoint scan_raw (fuel : nat) (st : state) : option state :=
  match fuel with
  | O => None
  | S f =>
    if ch st =? 96 then Some (next st)
    else
      let c := ch st in
      let st1 := next st in
      if c <? 0 then Some (next (add_err st1))
      else scan_raw f st1
  end.

(** Go: the loop of scanSDTLit and the final S.next()
      for { if S.ch < 0 { error; break }
            if S.ch == '>' { S.next(); if S.ch == '>' { break } }
            S.next() }
      S.next() *)
Fixpoint sdt_loop (fuel : nat) (st : state) : option state :=
  match fuel with
  | O => None
  | S f =>
    if ch st <? 0 then Some (next (add_err st))
    else if ch st =? 62 then
      let st1 := next st in
      if ch st1 =? 62 then Some (next st1) else sdt_loop f (next st1)
    else sdt_loop f (next st)
  end.

(** Go: scanSDTLit; first '<' consumed, S.ch is the second one *)
Definition scan_sdt (st : state) : option state := sdt_loop F (next st).

(** Go: the loop of scanIdentifier *)
Fixpoint ident_loop (fuel : nat) (st : state) : option state :=
  match fuel with
  | O => None
  | S f => if ident_char (ch st) then ident_loop f (next st) else Some st
  end.

Definition lit_between (st0 st1 : state) : list Z :=
  firstn (length (s_cur st0) - length (s_cur st1)) (s_cur st0).

Definition mk_tok (ty : Z) (st0 st1 : state) : ftok :=
  {| f_type := ty; f_lit := lit_between st0 st1;
     f_off := s_po st0; f_line := s_line st0; f_col := s_col st0 |}.

Definition import_word : list Z := [105; 109; 112; 111; 114; 116].

(** the switch at the end of scanIdentifier; [c0] = first character *)
Definition ident_type (lit : list Z) (c0 : Z) : Z :=
  if list_eq_dec Z.eq_dec lit import_word then -1        (* Type("import"): not in the map *)
  else if c0 =? 33 then 6                                 (* ignoredTokId *)
  else if c0 =? 95 then 5                                 (* regDefId *)
  else if is_upper c0 then 17                             (* prodId *)
  else 2.                                                 (* tokId *)

(** single-character tokens of Scan's inner switch that need no further scanning;
    None = not one of them *)
Definition punct_type (c : Z) : option Z :=
  if c =? 45 then Some 10            (* - *)
  else if c =? 123 then Some 13      (* { *)
  else if c =? 125 then Some 14      (* } *)
  else if c =? 58 then Some 3        (* : *)
  else if c =? 59 then Some 4        (* ; *)
  else if c =? 44 then Some (-1)     (* , : Type(",") is not in the map *)
  else if c =? 91 then Some 11       (* [ *)
  else if c =? 93 then Some 12       (* ] *)
  else if c =? 40 then Some 15       (* ( *)
  else if c =? 41 then Some 16       (* ) *)
  else if c =? 124 then Some 7       (* | *)
  else if c =? 46 then Some 8        (* . *)
  else None.

(** Go: Scan.  The recursion is the [goto scanAgain] after a comment. *)
Fixpoint scan (fuel : nat) (st : state) : option (ftok * state) :=
  match fuel with
  | O => None
  | S f =>
    do st0 <- skip_ws F st;
    let c := ch st0 in
    if (c =? 33) || is_letter c then
      do st1 <- ident_loop F st0;
      Some (mk_tok (ident_type (lit_between st0 st1) c) st0 st1, st1)
    else
      let st1 := next st0 in                             (* always make progress *)
      if c =? -1 then Some (mk_tok 0 st0 st1, st1)       (* EOF *)
      else if c =? 34 then
        do st2 <- scan_string F st1; Some (mk_tok 21 st0 st2, st2)
      else if c =? 39 then
        do st2 <- scan_char F 0 st1; Some (mk_tok 9 st0 st2, st2)
      else if c =? 96 then
        do st2 <- scan_raw F st1; Some (mk_tok 21 st0 st2, st2)
      else if c =? 47 then
        if (ch st1 =? 47) || (ch st1 =? 42) then
          do st2 <- scan_comment st0 st1; scan f st2     (* goto scanAgain *)
        else Some (mk_tok (-1) st0 st1, st1)             (* Type("/") *)
      else if c =? 60 then
        if ch st1 =? 60 then
          do st2 <- scan_sdt st1; Some (mk_tok 18 st0 st2, st2)
        else if ch st1 =? 61 then
          let st2 := next st1 in Some (mk_tok (-1) st0 st2, st2)    (* Type("<=") *)
        else Some (mk_tok (-1) st0 st1, st1)             (* Type("<") *)
      else
        match punct_type c with
        | Some ty => Some (mk_tok ty st0 st1, st1)
        | None => let st2 := add_err st1 in              (* illegal character *)
                  Some (mk_tok (-1) st0 st2, st2)
        end
  end.

(** Scan until the EOF token (inclusive). *)
Fixpoint scan_all (fuel : nat) (st : state) : option (list ftok * state) :=
  match fuel with
  | O => None
  | S f =>
    do r <- scan F st;
    let '(t, st') := r in
    if f_type t =? 0 then Some ([t], st')
    else do r' <- scan_all f st'; let '(ts, st'') := r' in Some (t :: ts, st'')
  end.

End Loops.

Definition fuel_for (src : list Z) : nat := S (S (S (length src))).

Definition fscan_opt (src : list Z) : option (list ftok * Z) :=
  let F := fuel_for src in
  match scan_all F F (init src) with
  | Some (ts, st) => Some (ts, s_err st)
  | None => None
  end.

(** All tokens up to and including the first EOF token, and the final ErrorCount.
    The [None] branch is unreachable (FScanProofs.fscan_opt_total). *)
Definition fscan_all (src : list Z) : list ftok * Z :=
  match fscan_opt src with
  | Some r => r
  | None => ([], -1)
  end.
