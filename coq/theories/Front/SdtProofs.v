(** The rewriting touches only the three $ forms and maps them as stated (C03). *)
From Coq Require Import List ZArith Bool Lia.
From Gocc Require Import Front.Sdt.
Import ListNotations.
Open Scope Z_scope.

Lemma span_digits_app l : let '(d, r) := span_digits l in l = d ++ r /\ Forall (fun b => is_digit b = true) d /\
  match r with b :: _ => is_digit b = false | [] => True end.
Proof.
  induction l as [|b t IH]; simpl; [repeat split; constructor|].
  destruct (is_digit b) eqn:E.
  - destruct (span_digits t) as [d r]. destruct IH as (-> & Hd & Hr). repeat split; auto.
  - repeat split; auto.
Qed.

Lemma span_digits_length l : (length (snd (span_digits l)) <= length l)%nat.
Proof.
  pose proof (span_digits_app l) as H. destruct (span_digits l) as [d r]. destruct H as (-> & _). simpl.
  rewrite app_length. lia.
Qed.

Lemma strip_prefix_length p l r : strip_prefix p l = Some r -> (length r <= length l)%nat.
Proof.
  revert l. induction p as [|a p IH]; intros l H; simpl in H.
  - inversion H; lia.
  - destruct l as [|b l]; [discriminate|]. destruct (a =? b); [|discriminate]. apply IH in H. simpl. lia.
Qed.

Lemma match_ref_shrinks t rep r : match_ref t = Some (rep, r) -> (length r <= length t)%nat.
Proof.
  unfold match_ref. pose proof (span_digits_length t) as H1.
  destruct (span_digits t) as [[|d ds] r0] eqn:E; simpl in H1.
  - destruct t as [|b t']; [simpl; intros H; inversion H; simpl; lia|].
    destruct (b =? 84) eqn:Eb.
    + apply Z.eqb_eq in Eb. subst b. pose proof (span_digits_length t') as H2.
      destruct (span_digits t') as [[|d ds] r1]; [discriminate|]. intros H; inversion H; subst. simpl in *. lia.
    + assert (Hb : b <> 84) by (apply Z.eqb_neq; exact Eb).
      destruct b as [|p|p]; try (destruct (strip_prefix s_context _) eqn:Es; [|discriminate];
        intros H; inversion H; subst; eapply strip_prefix_length; eauto).
      repeat (destruct p as [p|p|]; try (destruct (strip_prefix s_context _) eqn:Es; [|discriminate];
        intros H; inversion H; subst; eapply strip_prefix_length; eauto)); try congruence.
  - intros H; inversion H; subst. exact H1.
Qed.

(** enough fuel: the length of the text *)
Lemma rewrite_fuel : forall f1 f2 l, (length l <= f1)%nat -> (length l <= f2)%nat -> rewrite f1 l = rewrite f2 l.
Proof.
  induction f1 as [|f1 IH]; intros f2 l H1 H2.
  - destruct l; [|simpl in H1; lia]. destruct f2; reflexivity.
  - destruct f2 as [|f2]; [destruct l; [reflexivity|simpl in H2; lia]|].
    destruct l as [|b t]; [reflexivity|]. simpl in H1, H2. cbn [rewrite].
    assert (Hgen : forall x, (length x <= length t)%nat -> rewrite f1 x = rewrite f2 x) by (intros; apply IH; lia).
    destruct (b =? 36) eqn:Eb.
    + apply Z.eqb_eq in Eb. subst b. destruct (match_ref t) as [[rep r]|] eqn:Em.
      * rewrite (Hgen r (match_ref_shrinks _ _ _ Em)). reflexivity.
      * rewrite (Hgen t (Nat.le_refl _)). reflexivity.
    + assert (Hb : b <> 36) by (apply Z.eqb_neq; exact Eb).
      rewrite (Hgen t (Nat.le_refl _)).
      destruct b as [|p|p]; try reflexivity.
      repeat (destruct p as [p|p|]; try reflexivity). congruence.
Qed.

Definition rw (l : list Z) : list Z := rewrite (length l) l.

Lemma rw_cons_other b t : b <> 36 -> rw (b :: t) = b :: rw t.
Proof.
  intros Hb. unfold rw. cbn [length rewrite].
  destruct b as [|p|p]; try reflexivity.
  repeat (destruct p as [p|p|]; try reflexivity). congruence.
Qed.

(** text without '$' is left alone *)
Theorem rw_no_dollar l : ~ In 36 l -> rw l = l.
Proof.
  induction l as [|b t IH]; intros H; [reflexivity|].
  rewrite rw_cons_other by (intros ->; apply H; left; reflexivity).
  rewrite IH; [reflexivity|]. intros Hin; apply H; right; exact Hin.
Qed.

Lemma rw_dollar t : rw (36 :: t) =
  match match_ref t with Some (rep, r) => rep ++ rw r | None => 36 :: rw t end.
Proof.
  unfold rw. cbn [length rewrite]. destruct (match_ref t) as [[rep r]|] eqn:E.
  - f_equal. apply rewrite_fuel; [apply (match_ref_shrinks _ _ _ E)|lia].
  - reflexivity.
Qed.

Lemma span_digits_exact d rest : Forall (fun b => is_digit b = true) d ->
  match rest with b :: _ => is_digit b = false | [] => True end -> span_digits (d ++ rest) = (d, rest).
Proof.
  intros Hd Hr. induction Hd as [|b d Hb Hd IH]; simpl.
  - destruct rest as [|b t]; [reflexivity|]. simpl. rewrite Hr. reflexivity.
  - rewrite Hb, IH. reflexivity.
Qed.

(** $i -> X[i]  (i = a maximal non-empty digit string) *)
Theorem rw_attr d ds rest : Forall (fun b => is_digit b = true) (d :: ds) ->
  match rest with b :: _ => is_digit b = false | [] => True end ->
  rw (36 :: (d :: ds) ++ rest) = s_x_open ++ (d :: ds) ++ s_close ++ rw rest.
Proof.
  intros Hd Hr. rewrite rw_dollar. unfold match_ref. rewrite (span_digits_exact (d :: ds) rest Hd Hr).
  rewrite <- ?app_assoc. reflexivity.
Qed.

(** $Ti -> X[i].( *token.Token) *)
Theorem rw_token d ds rest : Forall (fun b => is_digit b = true) (d :: ds) ->
  match rest with b :: _ => is_digit b = false | [] => True end ->
  rw (36 :: 84 :: (d :: ds) ++ rest) = s_x_open ++ (d :: ds) ++ s_tok ++ rw rest.
Proof.
  intros Hd Hr. rewrite rw_dollar. unfold match_ref.
  assert (H84 : forall x, span_digits (84 :: x) = ([], 84 :: x)) by (intros; reflexivity).
  rewrite H84. rewrite (span_digits_exact (d :: ds) rest Hd Hr). rewrite <- ?app_assoc. reflexivity.
Qed.

(** $Context -> C *)
Theorem rw_context rest : rw (36 :: s_context ++ rest) = 67 :: rw rest.
Proof. rewrite rw_dollar. reflexivity. Qed.

Example sdt_example :
  sdt_val [60;60;32;102;40;36;48;44;32;36;84;49;50;44;32;36;67;111;110;116;101;120;116;41;32;62;62]
  = [102;40;88;91;48;93;44;32;88;91;49;50;93;46;40;42;116;111;107;101;110;46;84;111;107;101;110;41;44;32;67;41].
Proof. vm_compute. reflexivity. Qed.
