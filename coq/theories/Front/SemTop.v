(** The semantic front-end model tied to the parser model: when the front-end parser (Parse.parse on tables validated
    against the grammar [g]) accepts a token list, there is a parse tree of the WHOLE list whose definition nodes
    (productions  X : h ":" B ";") are exactly, in order, the definitions [Sem.defs] cuts out of the token list: same head
    token, and the body is the yield of B.  Nothing of the file lies outside the definitions the semantic checks see, and
    the checks see nothing that is not a definition of the tree.  Together with [SemProofs.sem_verdict_ok_iff]:
    [front_accepts] = true  iff  the token list is a sentence and its definitions satisfy [sem_wf]. *)
From Coq Require Import List Arith ZArith Lia Bool.
From Gocc Require Import LR.Parse LR.Validate LR.Trees LR.Sound LR.SoundGated LR.Complete Front.FScan Front.Sem Front.SemProofs.
Import ListNotations.
Local Open Scope nat_scope.

(** tokens tagged with their index in the file's token list *)
Fixpoint tagged (i : nat) (toks : list ftok) : list (nat * ftok) :=
  match toks with [] => [] | t :: r => (i, t) :: tagged (S i) r end.

Definition mk (x : nat * ftok) : token := {| ttype := Z.to_nat (f_type (snd x) + 1); tid := fst x |}.

Lemma to_ptoks_tagged toks : forall i, to_ptoks i toks = map mk (tagged i toks).
Proof. induction toks as [|t r IH]; intro i; simpl; [reflexivity|]. rewrite IH. reflexivity. Qed.

Lemma tagged_snd toks : forall i, map snd (tagged i toks) = toks.
Proof. induction toks as [|t r IH]; intro i; simpl; [reflexivity|]. rewrite IH. reflexivity. Qed.

Lemma tagged_nth toks : forall i k x, In (k, x) (tagged i toks) -> i <= k /\ nth_error toks (k - i) = Some x.
Proof.
  induction toks as [|t r IH]; intros i k x; simpl; [tauto|]. intros [E|H].
  - inversion E; subst. rewrite Nat.sub_diag. auto.
  - destruct (IH _ _ _ H) as [H1 H2]. split; [lia|]. replace (k - i) with (S (k - S i)) by lia. exact H2.
Qed.

Section Top.
Variable ft : ftypes.

(** the definitions of the file, every token with its index *)
Definition tagged_defs (toks : list ftok) : list ((nat * ftok) * list (nat * ftok)) :=
  defs_gen (fun x => is_ty (ft_colon ft) (snd x)) (fun x => is_ty (ft_semi ft) (snd x)) (tagged 0 toks).

(** ... read on the file side: [Sem.defs] *)
Lemma defs_tagged toks : defs ft toks = map (pmap snd) (tagged_defs toks).
Proof.
  unfold defs, tagged_defs. rewrite <- (tagged_snd toks 0) at 1. apply defs_gen_map.
Qed.

Lemma tagged_defs_in toks h b :
  In (h, b) (tagged_defs toks) -> nth_error toks (fst h) = Some (snd h).
Proof.
  intro H. apply defs_gen_head_in in H. destruct h as [k x]. apply tagged_nth in H. simpl.
  rewrite Nat.sub_0_r in H. tauto.
Qed.

Lemma type_eqb f c : (0 <= c)%Z -> Nat.eqb (Z.to_nat (f + 1)) (Z.to_nat (c + 1)) = (f =? c)%Z.
Proof.
  intro H. destruct (Z.eqb_spec f c) as [->|N]; [apply Nat.eqb_refl|]. apply Nat.eqb_neq. lia.
Qed.

(** ... read on the parser side *)
Lemma defs_ptoks toks : (0 <= ft_colon ft)%Z -> (0 <= ft_semi ft)%Z ->
  defs_gen (isc (Z.to_nat (ft_colon ft + 1))) (iss (Z.to_nat (ft_semi ft + 1))) (to_ptoks 0 toks)
  = map (pmap mk) (tagged_defs toks).
Proof.
  intros Hc Hs. rewrite to_ptoks_tagged, defs_gen_map. f_equal. apply defs_gen_ext; intros [k x]; unfold isc, iss, mk, is_ty; simpl;
    apply type_eqb; assumption.
Qed.

Theorem front_cut_faithful : forall g tb an sf toks fuel,
  valid_backward g tb an = true ->
  t_gate tb = true -> forallb (fun r => negb (s_recover r)) (t_states tb) = true ->
  (0 <= ft_colon ft)%Z -> (0 <= ft_semi ft)%Z ->
  cut_ok g (Z.to_nat (ft_colon ft + 1)) (Z.to_nat (ft_semi ft + 1)) sf = true ->
  Forall (fun t => f_type t <> 0%Z) toks -> Forall (fun t => Z.to_nat (f_type t + 1) < nterms tb) toks ->
  parse_ok tb fuel toks = true ->
  exists t pr0 X0, nth_error g 0 = Some pr0 /\ rhs pr0 = [X0] /\ wt g X0 t (to_ptoks 0 toks) /\
    defs_tree g (Z.to_nat (ft_colon ft + 1)) t = map (pmap mk) (tagged_defs toks) /\
    defs ft toks = map (pmap snd) (tagged_defs toks).
Proof.
  intros g tb an sf toks fuel HV HG HN Hc Hs CO HI HR Hok. unfold parse_ok in Hok.
  destruct (r_out (parse tb (sem_node None) (to_ptoks 0 toks) fuel)) as [v| | |] eqn:E; try discriminate.
  assert (HI' : Forall (fun t => ttype t <> EOFT) (to_ptoks 0 toks)).
  { rewrite to_ptoks_tagged. apply Forall_forall. intros x Hx. apply in_map_iff in Hx. destruct Hx as ([k y] & <- & Hy).
    apply tagged_nth in Hy. destruct Hy as [_ Hy]. apply nth_error_In in Hy. rewrite Forall_forall in HI. specialize (HI y Hy).
    unfold mk, EOFT. simpl. lia. }
  assert (HR' : Forall (fun t => ttype t < nterms tb) (to_ptoks 0 toks)).
  { rewrite to_ptoks_tagged. apply Forall_forall. intros x Hx. apply in_map_iff in Hx. destruct Hx as ([k y] & <- & Hy).
    apply tagged_nth in Hy. destruct Hy as [_ Hy]. apply nth_error_In in Hy. rewrite Forall_forall in HR. exact (HR y Hy). }
  destruct (parse_sound_gated g tb an (sem_node None) (to_ptoks 0 toks) HG HN fuel v HV HI' HR' E)
    as (t & pr0 & X0 & c & H0 & H1 & H2 & _).
  exists t, pr0, X0. split; [exact H0|]. split; [exact H1|]. split; [exact H2|]. split; [|apply defs_tagged].
  assert (NX : is_colon_sym (Z.to_nat (ft_colon ft + 1)) X0 = false).
  { pose proof CO as CO'. unfold cut_ok in CO'. rewrite !andb_true_iff in CO'. destruct CO' as (_ & CO').
    rewrite forallb_forall in CO'. specialize (CO' pr0 (nth_error_In _ _ H0)). rewrite H1 in CO'.
    apply orb_true_iff in CO'. destruct CO' as [X|X]; [|destruct X0; discriminate].
    simpl in X. rewrite andb_true_r in X. apply negb_true_iff in X. exact X. }
  destruct (cut_is_definition_nodes g _ _ sf CO t X0 _ H2 NX) as (D & _ & _).
  rewrite <- D. apply defs_ptoks; assumption.
Qed.

(** the whole front-end model: accepted  =>  sentence of [g] (all of the token list) whose definitions are [sem_wf] *)
Theorem front_accepts_sound : forall g tb an sf toks fuel,
  valid_backward g tb an = true ->
  t_gate tb = true -> forallb (fun r => negb (s_recover r)) (t_states tb) = true ->
  (0 <= ft_colon ft)%Z -> (0 <= ft_semi ft)%Z ->
  cut_ok g (Z.to_nat (ft_colon ft + 1)) (Z.to_nat (ft_semi ft + 1)) sf = true ->
  Forall (fun t => f_type t <> 0%Z) toks -> Forall (fun t => Z.to_nat (f_type t + 1) < nterms tb) toks ->
  front_accepts ft tb fuel toks = true ->
  sem_wf ft toks /\
  exists t pr0 X0, nth_error g 0 = Some pr0 /\ rhs pr0 = [X0] /\ wt g X0 t (to_ptoks 0 toks) /\
    defs_tree g (Z.to_nat (ft_colon ft + 1)) t = map (pmap mk) (tagged_defs toks) /\
    defs ft toks = map (pmap snd) (tagged_defs toks).
Proof.
  intros g tb an sf toks fuel HV HG HN Hc Hs CO HI HR H. unfold front_accepts in H. apply andb_true_iff in H.
  destruct H as [H1 H2]. split.
  - apply sem_verdict_ok_iff. destruct (sem_verdict ft toks); [reflexivity|discriminate].
  - eapply front_cut_faithful; eauto.
Qed.

(** ... and conversely: a sentence whose definitions are [sem_wf] is accepted (given fuel for the tree) *)
Theorem front_accepts_complete : forall g tb an toks,
  valid_forward g tb an = true ->
  forall pr0 X0 t, nth_error g 0 = Some pr0 -> rhs pr0 = [X0] -> wt g X0 t (to_ptoks 0 toks) ->
  sem_wf ft toks ->
  forall fuel, size t + 1 <= fuel -> front_accepts ft tb fuel toks = true.
Proof.
  intros g tb an toks HV pr0 X0 t H0 H1 H2 W fuel Hf. unfold front_accepts, parse_ok.
  assert (Hs : forall i p kids, sem_node None i p kids <> None) by (intros; discriminate).
  destruct (lr_complete g tb an (sem_node None) (to_ptoks 0 toks) HV Hs pr0 X0 t H0 H1 H2 fuel Hf) as [v E].
  rewrite E. apply sem_verdict_ok_iff in W. rewrite W. reflexivity.
Qed.

End Top.
Print Assumptions front_cut_faithful.
Print Assumptions front_accepts_sound.
Print Assumptions front_accepts_complete.
