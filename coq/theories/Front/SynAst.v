(** From the BYTES of a grammar file to the numeric input of the LR(1) generator model (LR/Gen.v).

    Go sources modelled (on top of Front/FScan.v = the front-end scanner and Front/Sem.v = how the token list is cut into
    productions / alternatives / symbols):
      - internal/ast/syntaxpart.go   augment: production  S' : <head of the first production>  is put in front      [Sem.aug_alts]
      - internal/parser/symbols/symbols.go
          NewSymbols: Add("INVALID"); Add("␚"); for every alternative p in order: ntTypeMap gets p.Id if new (the NONTERMINAL
                      numbers: order of first occurrence as a head, S' = 0); Add(p.Id); Add(SymbolString) of every body symbol
          List()          = typeMap, order of insertion                                                        [si_typemap]
          ListTerminals() = typeMap without production names and without "empty" (the TERMINAL numbers)        [si_terms]
      - main.go: gSymbols.Add(g.LexPart.TokenIds()...) BEFORE ListTerminals/List are read; TokenIds() = the ids of the token
          definitions of the lexical part, sort.Strings (bytewise)                                              [lex_ids_sorted]
      - internal/parser/lr1/items/itemset.go first1: sort.Strings on terminal names                            [si_la]
      - internal/ast/syntaxbody.go: Body.SDT = SDTVal of the g_sdt_lit token of the alternative; action <=> non-empty  [prod_acts]
    The SymbolString of a symbol is its name: identifier, or the text between the quotes of a string literal (Sem.sym_of_tok);
    the words error and empty reach the syntax part as tokId tokens (Sem.v), i.e. as symbols named "error" / "empty".
    An alternative whose FIRST symbol is named "empty" is the empty alternative (rhs = []): this is how internal/verifdump/lr.go
    prints it (len 0) and how the generator treats it.

    TokMap.v is reused (instantiated at byte strings) for typeMap / ListTerminals.

    Definitions only, executable; proofs in SynAstProofs.v. *)
From Coq Require Import List ZArith Bool Arith.
From Gocc Require Import LR.Parse LR.Gen Front.FScan Front.Sem Front.TokMap Front.Sdt.
Import ListNotations.
Local Open Scope nat_scope.

(** ** bytewise order of names (Go: string comparison, sort.Strings) *)
Fixpoint name_leb (a b : name) : bool :=
  match a, b with
  | [], _ => true
  | _ :: _, [] => false
  | x :: a', y :: b' => if (x <? y)%Z then true else if (y <? x)%Z then false else name_leb a' b'
  end.

(** ** insertion sort *)
Section ISort.
Context {A : Type}.
Variable le : A -> A -> bool.

Fixpoint insert (x : A) (l : list A) : list A :=
  match l with
  | [] => [x]
  | y :: t => if le x y then x :: l else y :: insert x t
  end.

Fixpoint isort (l : list A) : list A :=
  match l with
  | [] => []
  | x :: t => insert x (isort t)
  end.
End ISort.

Definition sort_names (l : list name) : list name := isort name_leb l.

(** position of the first occurrence *)
Fixpoint index_of (s : name) (l : list name) : option nat :=
  match l with
  | [] => None
  | x :: r => if name_eqb s x then Some 0 else option_map S (index_of s r)
  end.

Fixpoint number_from {A} (i : nat) (l : list A) : list (nat * A) :=
  match l with
  | [] => []
  | x :: r => (i, x) :: number_from (S i) r
  end.

(** the indices of [names], sorted by name *)
Definition la_of (names : list name) : list nat :=
  map fst (isort (fun a b : nat * name => name_leb (snd a) (snd b)) (number_from 0 names)).

Fixpoint filter_some {A B} (f : A -> option B) (l : list A) : list B :=
  match l with
  | [] => []
  | x :: r => match f x with Some y => y :: filter_some f r | None => filter_some f r end
  end.

Record gen_input := {
  gi_g : grammar;            (* production 0 = S' -> S; an empty alternative has rhs [] *)
  gi_nn : nat;
  gi_ntm : nat;
  gi_symbols : list sym;     (* Symbols.List() (without the pseudo symbol "empty") *)
  gi_la : list nat;          (* terminal numbers sorted by the bytes of their names *)
  gi_pacts : list bool;      (* per production: the alternative carries << ... >> *)
  gi_terr : nat;             (* number of the terminal "error", 0 if there is none *)
  gi_tnames : list name;     (* terminal names in number order *)
  gi_nnames : list name      (* nonterminal names in number order *)
}.

(** ** symbol tables *)
Definition snames (a : alt) : name * list name := (fst a, map snd (snd a)).

Definition tm_typemap := TokMap.typemap name name_eqb n_INVALID n_EOF.
Definition tm_terminals := TokMap.terminals name name_eqb n_INVALID n_EOF n_empty.

(** Symbols.ntTypeMap *)
Definition nts_of (prods : list (name * list name)) : list name :=
  TokMap.add_all name name_eqb (map fst prods) [].

Definition resolve (nts terms : list name) (s : name) : option sym :=
  match index_of s nts with
  | Some i => Some (NT i)
  | None => match index_of s terms with Some i => Some (T i) | None => None end
  end.

Definition body_of (nts terms : list name) (b : list name) : option (list sym) :=
  match b with
  | [] => Some []
  | s :: _ => if name_eqb s n_empty then Some [] else all_some (map (resolve nts terms) b)
  end.

Definition prod_of (nts terms : list name) (p : name * list name) : option prod :=
  match index_of (fst p) nts, body_of nts terms (snd p) with
  | Some l, Some b => Some {| lhs := l; rhs := b |}
  | _, _ => None
  end.

Section SynAst.
Variable ft : ftypes.
Variable sdt_ty : Z.           (* type number of g_sdt_lit *)

(** TokenIds() *)
Definition lex_ids_sorted (toks : list ftok) : list name := sort_names (tok_defs ft toks).

(** per alternative (Sem.prod_alts order): does it have an action.  gocc (parser/gen/golang/productionstable.go) tests
    len(prod.Body.SDT) > 0, where Body.SDT = Token.SDTVal() of the action literal (Sdt.sdt_val: delimiters stripped, trimmed):
    an alternative written with an EMPTY action  << >>  counts as one without action. *)
Definition has_sdt (t : ftok) : bool :=
  is_ty sdt_ty t && match sdt_val (f_lit t) with [] => false | _ => true end.

Definition acts_of_def (d : ftok * list ftok) : list bool :=
  map (existsb has_sdt) (split_at (is_ty (ft_bar ft)) (snd d)).

Definition prod_acts (toks : list ftok) : list bool := flat_map acts_of_def (syn_defs_of ft (defs ft toks)).

Definition gen_input_of_tokens_ft (toks : list ftok) : option gen_input :=
  match aug_alts ft toks with
  | [] => None                                                   (* no syntax part *)
  | aug =>
    let prods := map snames aug in
    let lex := lex_ids_sorted toks in
    let nts := nts_of prods in
    let terms := tm_terminals prods lex in
    match all_some (map (prod_of nts terms) prods) with
    | None => None
    | Some g =>
      Some {| gi_g := g;
              gi_nn := length nts;
              gi_ntm := length terms;
              gi_symbols := filter_some (resolve nts terms) (tm_typemap prods lex);
              gi_la := la_of terms;
              gi_pacts := false :: prod_acts toks;
              gi_terr := match index_of n_error terms with Some i => i | None => 0 end;
              gi_tnames := terms;
              gi_nnames := nts |}
    end
  end.

End SynAst.

(** token.FRONTENDTokens as shipped: g_sdt_lit = 18 *)
Definition shipped_sdt : Z := 18%Z.

Definition gen_input_of_tokens (toks : list ftok) : option gen_input :=
  gen_input_of_tokens_ft shipped_ftypes shipped_sdt toks.

Definition gen_input_of_source (src : list Z) : option gen_input :=
  gen_input_of_tokens (strip_eof (fst (fscan_all src))).
