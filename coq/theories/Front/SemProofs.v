(** Proofs about the semantic front-end model Front/Sem.v.

    PART A.  [sem_verdict ft toks = SemOk <-> sem_wf ft toks], where [sem_wf] states declaratively (no reference to the
    checking code) what a grammar file must satisfy for gocc, as the code stands, to get past its semantic checks;
    corollaries in the shape asked for by property C14 ([sem_ok_facts]).

    PART B.  "followed by ':'" is the right notion of definition head: for every grammar [g] satisfying the boolean side
    condition [colon_ok g colon = true] (evaluated by the kernel on the spec grammar, see Properties-style obligation emitted
    by the harness and the instance at the end of this file), in EVERY parse tree of [g] the tokens of the yield that are
    immediately followed by a ':' token are exactly, in order, the first children of the definition nodes
    (nodes of productions  X : h ":" ...). *)
From Coq Require Import List ZArith Bool Lia Arith Relations.
From Gocc Require Import Base.Utf8 LR.Parse LR.Trees Front.FUnicode Front.FScan Front.Sem.
Import ListNotations.
Local Open Scope nat_scope.

(** * Part A *)

(** ** basic reflection lemmas *)

Lemma name_eqb_eq a b : name_eqb a b = true <-> a = b.
Proof.
  revert b. induction a as [|x a IH]; destruct b as [|y b]; simpl; split; intro H; try discriminate; try reflexivity.
  - apply andb_true_iff in H. destruct H as [H1 H2]. apply Z.eqb_eq in H1. apply IH in H2. congruence.
  - inversion H; subst. rewrite Z.eqb_refl. simpl. apply IH. reflexivity.
Qed.

Lemma name_eqb_refl a : name_eqb a a = true.
Proof. apply name_eqb_eq. reflexivity. Qed.

Lemma name_eqb_neq a b : name_eqb a b = false <-> a <> b.
Proof.
  split.
  - intros H E. apply name_eqb_eq in E. congruence.
  - intros H. destruct (name_eqb a b) eqn:E; [|reflexivity]. apply name_eqb_eq in E. contradiction.
Qed.

Lemma mem_In n l : mem n l = true <-> In n l.
Proof.
  induction l as [|m t IH]; simpl.
  - split; [discriminate|tauto].
  - rewrite orb_true_iff, IH, name_eqb_eq. split; intros [H|H]; auto.
Qed.

Lemma mem_false n l : mem n l = false <-> ~ In n l.
Proof.
  rewrite <- mem_In. destruct (mem n l); split; intro H; try reflexivity; try discriminate.
  exfalso. apply H. reflexivity.
Qed.

Lemma first_some_none {A B} (f : A -> option B) l :
  first_some f l = None <-> forall x, In x l -> f x = None.
Proof.
  induction l as [|x t IH]; simpl.
  - split; [intros _ y []|reflexivity].
  - destruct (f x) eqn:E.
    + split; [discriminate|]. intros H. specialize (H x (or_introl eq_refl)). congruence.
    + rewrite IH. split.
      * intros H y [<-|Hy]; auto.
      * intros H y Hy. apply H. right. exact Hy.
Qed.

Lemma find_none_iff {A} (f : A -> bool) l : find f l = None <-> forall x, In x l -> f x = false.
Proof.
  induction l as [|x t IH]; simpl.
  - split; [intros _ y []|reflexivity].
  - destruct (f x) eqn:E.
    + split; [discriminate|]. intros H. specialize (H x (or_introl eq_refl)). congruence.
    + rewrite IH. split.
      * intros H y [<-|Hy]; auto.
      * intros H y Hy. apply H. right. exact Hy.
Qed.

Lemma NoDup_map_filter {A B} (f : A -> B) (p : A -> bool) l : NoDup (map f l) -> NoDup (map f (filter p l)).
Proof.
  induction l as [|x t IH]; simpl; intro H; [constructor|].
  inversion H as [|? ? Hn Hd]; subst. destruct (p x); simpl; [|auto].
  constructor; [|auto]. intro Hin. apply Hn. apply in_map_iff in Hin. destruct Hin as (y & Hy & Hin).
  apply filter_In in Hin. apply in_map_iff. exists y. tauto.
Qed.

(** ** 1. duplicates *)

Lemma first_dup_none seen l :
  first_dup seen l = None <-> NoDup (map ld_id l) /\ forall x, In x (map ld_id l) -> ~ In x seen.
Proof.
  revert seen. induction l as [|d t IH]; intro seen; simpl.
  - split; [intros _; split; [constructor|intros x []]|reflexivity].
  - destruct (mem (ld_id d) seen) eqn:E.
    + split; [discriminate|]. intros [_ H]. apply mem_In in E. exfalso. exact (H _ (or_introl eq_refl) E).
    + apply mem_false in E. rewrite IH. split.
      * intros [Hnd H]. split.
        -- constructor; [|exact Hnd]. intro Hin. apply (H _ Hin). left. reflexivity.
        -- intros x [<-|Hx]; [exact E|]. intro Hs. apply (H _ Hx). right. exact Hs.
      * intros [Hnd H]. inversion Hnd as [|? ? Hn Hd]; subst. split; [exact Hd|].
        intros x Hx [<-|Hs]; [contradiction|]. apply (H x (or_intror Hx) Hs).
Qed.

(** ** 2. consistent *)

(** the name starts with an upper-case letter in the sense of the scanner (unicode.IsUpper of the first rune) *)
Definition UpperInitial (n : name) : Prop := uni_upper (fst (decode_rune n)) = true.

Lemma upper_initial_iff n : upper_initial n = true <-> UpperInitial n.
Proof. unfold upper_initial, UpperInitial. tauto. Qed.

(** one alternative passes the per-alternative tests of [consistent] *)
Definition alt_ok (a : alt) : Prop :=
  snd a <> [] /\ fst a <> n_INVALID /\ forall s, In s (snd a) -> snd s <> n_INVALID /\ snd s <> n_EOF.

Lemma reserved_false n : reserved n = false <-> n <> n_INVALID /\ n <> n_EOF.
Proof. unfold reserved. rewrite orb_false_iff, !name_eqb_neq. tauto. Qed.

Lemma check_alt_none a : check_alt a = None <-> alt_ok a.
Proof.
  unfold check_alt, alt_ok. destruct (snd a) as [|s0 ss] eqn:Es.
  - split; [discriminate|]. intros [H _]. congruence.
  - destruct (name_eqb (fst a) n_INVALID) eqn:E.
    + split; [discriminate|]. intros (_ & H & _). apply name_eqb_eq in E. contradiction.
    + apply name_eqb_neq in E.
      destruct (find (fun s => reserved (snd s)) (s0 :: ss)) as [s|] eqn:F.
      * split; [discriminate|]. intros (_ & _ & H). apply find_some in F. destruct F as [F1 F2].
        apply H in F1. apply reserved_false in F1. congruence.
      * rewrite find_none_iff in F. split; [|reflexivity]. intros _. split; [discriminate|]. split; [exact E|].
        intros s Hs. apply reserved_false. apply F. exact Hs.
Qed.

Lemma undefined_error_false defined n :
  undefined_error defined n = false <-> (UpperInitial n -> In n defined).
Proof.
  unfold undefined_error. rewrite <- upper_initial_iff. destruct (mem n defined) eqn:M; simpl.
  - apply mem_In in M. tauto.
  - apply mem_false in M. destruct (upper_initial n) eqn:U.
    + assert (E1 : name_eqb n n_empty = false).
      { apply name_eqb_neq. intro; subst. discriminate. }
      assert (E2 : name_eqb n n_error = false).
      { apply name_eqb_neq. intro; subst. discriminate. }
      rewrite E1, E2. simpl. split; [discriminate|]. intro H. exfalso. apply M, H. reflexivity.
    + rewrite andb_false_r. split; [discriminate|reflexivity] || (split; [intros _ H; discriminate|reflexivity]).
Qed.

Section A.
Variable ft : ftypes.
Variable toks : list ftok.

Definition consistent_ok : Prop :=
  (forall a, In a (aug_alts ft toks) -> alt_ok a) /\
  (forall p, UpperInitial p -> In p (prod_uses ft toks) -> In p (tok_defs ft toks ++ prod_heads ft toks)).

Lemma check_consistent_none : check_consistent ft toks = None <-> consistent_ok.
Proof.
  unfold check_consistent, consistent_ok.
  destruct (first_some check_alt (aug_alts ft toks)) as [r|] eqn:F.
  - split; [discriminate|]. intros [H _].
    assert (first_some check_alt (aug_alts ft toks) = None).
    { apply first_some_none. intros a Ha. apply check_alt_none. auto. }
    congruence.
  - rewrite first_some_none in F.
    destruct (find _ (prod_uses ft toks)) as [n|] eqn:U.
    + split; [discriminate|]. intros [_ H]. apply find_some in U. destruct U as [U1 U2].
      assert (undefined_error (tok_defs ft toks ++ prod_heads ft toks) n = false).
      { apply undefined_error_false. intro Hu. apply H; assumption. }
      congruence.
    + rewrite find_none_iff in U. split; [|reflexivity]. intros _. split.
      * intros a Ha. apply check_alt_none. auto.
      * intros p Hu Hp. apply U in Hp. apply undefined_error_false in Hp; auto.
Qed.

(** ** 3. undefined regular definitions *)

Lemma check_regdef_refs_none regs :
  first_some (check_regdef_refs regs) (lex_defs ft toks) = None <-> forall r, In r (reg_uses ft toks) -> In r regs.
Proof.
  rewrite first_some_none. unfold reg_uses. split.
  - intros H r Hr. apply in_flat_map in Hr. destruct Hr as (d & Hd & Hr). specialize (H d Hd).
    unfold check_regdef_refs in H. destruct (find _ (ld_refs d)) eqn:F; [discriminate|].
    rewrite find_none_iff in F. specialize (F r Hr). apply negb_false_iff in F. apply mem_In. exact F.
  - intros H d Hd. unfold check_regdef_refs.
    destruct (find _ (ld_refs d)) as [r|] eqn:F; [|reflexivity].
    apply find_some in F. destruct F as [F1 F2]. apply negb_true_iff in F2. apply mem_false in F2.
    exfalso. apply F2, H. apply in_flat_map. exists d. auto.
Qed.

End A.

(** ** 4. string literal vs production name (order dependent) *)

(** no string literal of an alternative is the id of that alternative's production or of an earlier one *)
Definition strlit_prod_ok (seen : list name) (l : list alt) : Prop :=
  forall l1 a l2 s, l = l1 ++ a :: l2 -> In (KStr, s) (snd a) -> ~ In s (map fst (l1 ++ [a])) /\ ~ In s seen.

Lemma is_str_iff (s : ssym) : is_str s = true <-> s = (KStr, snd s).
Proof. destruct s as [[| |] n]; simpl; split; intro H; try discriminate; try reflexivity. Qed.

Lemma check_strlit_prod_none seen l : check_strlit_prod seen l = None <-> strlit_prod_ok seen l.
Proof.
  revert seen. induction l as [|a t IH]; intro seen; simpl.
  - split; [|reflexivity]. intros _ l1 a l2 s H. destruct l1; discriminate.
  - destruct (find _ (snd a)) as [s|] eqn:F.
    + split; [discriminate|]. intro H. exfalso. apply find_some in F. destruct F as [F1 F2].
      apply andb_true_iff in F2. destruct F2 as [F2 F3]. apply is_str_iff in F2. apply (proj1 (mem_In (snd s) (fst a :: seen))) in F3.
      destruct (H [] a t (snd s) eq_refl) as [H1 H2]; [rewrite <- F2; exact F1|].
      simpl in *. destruct F3 as [F3|F3]; [apply H1; left; exact F3|apply H2; exact F3].
    + rewrite find_none_iff in F. rewrite IH. split.
      * intros H l1 b l2 s E Hs. destruct l1 as [|a' l1]; simpl in E; inversion E; subst.
        -- specialize (F _ Hs). assert (F' : mem s (fst b :: seen) = false) by exact F.
           apply mem_false in F'. simpl in *. split; intro X; apply F'; tauto.
        -- destruct (H l1 b l2 s eq_refl Hs) as [H1 H2]. simpl. split.
           ++ intros [X|X]; [apply H2; left; exact X|apply H1; exact X].
           ++ intro X. apply H2. right. exact X.
      * intros H l1 b l2 s E Hs. subst t. destruct (H (a :: l1) b l2 s eq_refl Hs) as [H1 H2]. simpl in H1. split.
        -- intro X. apply H1. right. exact X.
        -- intros [X|X]; [apply H1; left; exact X|apply H2; exact X].
Qed.

(** ** 5. string literal vs lexical ids *)

Lemma check_strlit_tok_none lexids s : check_strlit_tok lexids s = None <-> s <> [] /\ ~ In s lexids.
Proof.
  unfold check_strlit_tok. destruct s as [|c r].
  - split; [discriminate|]. intros [H _]. congruence.
  - destruct (mem (c :: r) lexids) eqn:M.
    + apply mem_In in M. split; [discriminate|]. intros [_ H]. contradiction.
    + apply mem_false in M. split; [|reflexivity]. intros _. split; [discriminate|exact M].
Qed.

(** ** 6. recursive regular definitions *)

Section Cyc.
Variable env : list (name * list name).

Definition edge (r r' : name) : Prop := exists refs, lookup env r = Some refs /\ In r' refs.

Inductive expands : name -> Prop :=
| ex_undef r : lookup env r = None -> expands r
| ex_def r refs : lookup env r = Some refs -> (forall r', In r' refs -> expands r') -> expands r.

Lemma cyc_false_expands fuel : forall path r, cyc fuel env path r = false -> expands r.
Proof.
  induction fuel as [|f IH]; intros path r H; simpl in H.
  - destruct (lookup env r) eqn:L; [|apply ex_undef; exact L]. destruct (mem r path); discriminate.
  - destruct (lookup env r) as [refs|] eqn:L; [|apply ex_undef; exact L]. destruct (mem r path); [discriminate|].
    apply (ex_def r refs L). intros r' Hr. apply (IH (r :: path)).
    destruct (cyc f env (r :: path) r') eqn:C; [|reflexivity].
    assert (existsb (cyc f env (r :: path)) refs = true) by (apply existsb_exists; exists r'; auto). congruence.
Qed.

Lemma tc_snoc a b c : clos_trans_1n _ edge a b -> edge b c -> clos_trans_1n _ edge a c.
Proof.
  induction 1 as [a b H|a x b H H' IH]; intro E.
  - eapply Relation_Operators.t1n_trans; [exact H|]. apply t1n_step. exact E.
  - eapply Relation_Operators.t1n_trans; [exact H|]. apply IH. exact E.
Qed.

Lemma expands_irrefl r : expands r -> ~ clos_trans_1n _ edge r r.
Proof.
  induction 1 as [r L|r refs L Hx IH]; intro C.
  - inversion C as [y (refs & L' & _)|y z (refs & L' & _) _]; subst; congruence.
  - inversion C as [y (refs' & L' & Hy)|y z (refs' & L' & Hy) C']; subst.
    + rewrite L in L'. inversion L'; subst refs'. apply (IH r Hy). exact C.
    + rewrite L in L'. inversion L'; subst refs'. apply (IH y Hy).
      apply (tc_snoc y r y C'). exists refs. auto.
Qed.

Lemma expands_closed r x : expands r -> clos_refl_trans_1n _ edge r x -> expands x.
Proof.
  intros H C. induction C as [r|r y x (refs & L & Hy) C IH]; [exact H|].
  apply IH. inversion H as [r' L'|r' refs' L' Hx]; subst; [congruence|].
  rewrite L in L'. inversion L'; subst. auto.
Qed.

Lemma lookup_some_in r refs : lookup env r = Some refs -> In r (map fst env).
Proof.
  induction env as [|[n rf] t IH]; simpl; [discriminate|].
  destruct (name_eqb r n) eqn:E; [apply name_eqb_eq in E; auto|]. intro H. right. apply IH. exact H.
Qed.

(** the fuel [length env] is never exhausted, and an acyclic reachable part makes [cyc] answer false *)
Lemma acyclic_cyc_false fuel : forall path r,
  NoDup path -> (forall p, In p path -> lookup env p <> None) -> length env <= length path + fuel ->
  (forall p, In p path -> clos_trans_1n _ edge p r) ->
  (forall x, clos_refl_trans_1n _ edge r x -> ~ clos_trans_1n _ edge x x) ->
  cyc fuel env path r = false.
Proof.
  induction fuel as [|f IH]; intros path r Hnd Hdef Hlen Hpath Hac.
  - simpl. destruct (lookup env r) as [refs|] eqn:L; [|reflexivity].
    destruct (mem r path) eqn:M.
    + apply mem_In in M. exfalso. apply (Hac r (rt1n_refl _ _ r)). apply Hpath. exact M.
    + apply mem_false in M. exfalso.
      assert (Hi : incl (r :: path) (map fst env)).
      { intros p [<-|Hp]; [eapply lookup_some_in; eauto|].
        destruct (lookup env p) eqn:Lp; [eapply lookup_some_in; eauto|]. exfalso. exact (Hdef p Hp Lp). }
      pose proof (NoDup_incl_length (NoDup_cons r M Hnd) Hi) as Hl. rewrite map_length in Hl. simpl in Hl. lia.
  - simpl. destruct (lookup env r) as [refs|] eqn:L; [|reflexivity].
    destruct (mem r path) eqn:M.
    + apply mem_In in M. exfalso. apply (Hac r (rt1n_refl _ _ r)). apply Hpath. exact M.
    + apply mem_false in M.
      destruct (existsb (cyc f env (r :: path)) refs) eqn:X; [|reflexivity].
      apply existsb_exists in X. destruct X as (r' & Hr' & C).
      assert (E : edge r r') by (exists refs; auto).
      rewrite IH in C; [discriminate| | | | |].
      * constructor; assumption.
      * intros p [<-|Hp]; [congruence|auto].
      * simpl. lia.
      * intros p [<-|Hp]; [apply t1n_step; exact E|]. apply (tc_snoc p r r'); auto.
      * intros x Cx. apply Hac. eapply Relation_Operators.rt1n_trans; eauto.
Qed.

Lemma cyc_fuel_enough r :
  cyc (length env) env [] r = false <-> (forall x, clos_refl_trans_1n _ edge r x -> ~ clos_trans_1n _ edge x x).
Proof.
  split.
  - intros H x C. apply expands_irrefl. eapply expands_closed; [|exact C]. eapply cyc_false_expands. exact H.
  - intros H. apply acyclic_cyc_false; [constructor | intros p [] | simpl; lia | intros p [] | exact H].
Qed.

End Cyc.

(** the declarative reading of the graph of regular definitions: [In]-based *)
Section Graph.
Variable lds : list lexdef.

Definition regdef_edge (r r' : name) : Prop :=
  exists d, In d lds /\ ld_kind d = LReg /\ ld_id d = r /\ In r' (ld_refs d).

(** [r] is referred to by a token or ignored-token definition, directly or through regular definitions *)
Definition reg_reachable (r : name) : Prop :=
  exists d r0, In d lds /\ ld_kind d <> LReg /\ In r0 (ld_refs d) /\ clos_refl_trans_1n _ regdef_edge r0 r.

Definition regdefs_acyclic : Prop := forall r, reg_reachable r -> ~ clos_trans_1n _ regdef_edge r r.

Lemma lkind_eqb_eq a b : lkind_eqb a b = true <-> a = b.
Proof. destruct a, b; simpl; split; intro; try discriminate; reflexivity. Qed.

Lemma lookup_reg_env_in r refs :
  lookup (reg_env lds) r = Some refs -> exists d, In d lds /\ ld_kind d = LReg /\ ld_id d = r /\ ld_refs d = refs.
Proof.
  unfold reg_env. induction lds as [|d t IH]; simpl; [discriminate|].
  destruct (lkind_eqb (ld_kind d) LReg) eqn:K; simpl.
  - destruct (name_eqb r (ld_id d)) eqn:E.
    + intro H. inversion H; subst. apply name_eqb_eq in E. apply lkind_eqb_eq in K. exists d. auto.
    + intro H. destruct (IH H) as (d' & ? & ?). exists d'. auto.
  - intro H. destruct (IH H) as (d' & ? & ?). exists d'. auto.
Qed.

Lemma in_lookup_reg_env d :
  NoDup (map ld_id lds) -> In d lds -> ld_kind d = LReg -> lookup (reg_env lds) (ld_id d) = Some (ld_refs d).
Proof.
  unfold reg_env. induction lds as [|d0 t IH]; simpl; intros Hnd Hin K; [contradiction|].
  destruct Hin as [<-|Hin].
  - rewrite K. simpl. rewrite name_eqb_refl. reflexivity.
  - inversion Hnd as [|? ? Hn Hd]; subst. destruct (lkind_eqb (ld_kind d0) LReg); simpl; [|auto].
    destruct (name_eqb (ld_id d) (ld_id d0)) eqn:E; [|auto].
    apply name_eqb_eq in E. exfalso. apply Hn. rewrite <- E. apply in_map. exact Hin.
Qed.

Lemma edge_iff : NoDup (map ld_id lds) -> forall r r', edge (reg_env lds) r r' <-> regdef_edge r r'.
Proof.
  intros Hnd r r'. unfold edge, regdef_edge. split.
  - intros (refs & L & Hr). destruct (lookup_reg_env_in _ _ L) as (d & H1 & H2 & H3 & H4). exists d. subst. auto.
  - intros (d & H1 & H2 & H3 & H4). exists (ld_refs d). subst r. split; [apply in_lookup_reg_env; auto|exact H4].
Qed.

End Graph.

Lemma tc_mono {A} (R S : A -> A -> Prop) : (forall a b, R a b -> S a b) -> forall a b, clos_trans_1n _ R a b -> clos_trans_1n _ S a b.
Proof. intros H a b C. induction C; [apply t1n_step; auto|eapply Relation_Operators.t1n_trans; eauto]. Qed.

Lemma rtc_mono {A} (R S : A -> A -> Prop) : (forall a b, R a b -> S a b) -> forall a b, clos_refl_trans_1n _ R a b -> clos_refl_trans_1n _ S a b.
Proof. intros H a b C. induction C; [apply rt1n_refl|eapply Relation_Operators.rt1n_trans; eauto]. Qed.

Lemma check_recursive_none lds :
  NoDup (map ld_id lds) ->
  (first_some (check_recursive (reg_env lds)) lds = None <-> regdefs_acyclic lds).
Proof.
  intro Hnd. pose proof (edge_iff lds Hnd) as EI.
  rewrite first_some_none. unfold regdefs_acyclic, reg_reachable. split.
  - intros H r (d & r0 & Hd & Hk & Hr0 & C) T.
    specialize (H d Hd). unfold check_recursive in H.
    destruct (ld_kind d) eqn:K; try congruence;
      (destruct (existsb _ (ld_refs d)) eqn:X; [discriminate|]);
      (assert (C0 : cyc (length (reg_env lds)) (reg_env lds) [] r0 = false);
       [destruct (cyc (length (reg_env lds)) (reg_env lds) [] r0) eqn:C0; [|reflexivity];
        assert (existsb (cyc (length (reg_env lds)) (reg_env lds) []) (ld_refs d) = true)
          by (apply existsb_exists; exists r0; auto); congruence|]);
      rewrite cyc_fuel_enough in C0;
      apply (C0 r);
      [eapply rtc_mono; [|exact C]; intros; apply EI; assumption | eapply tc_mono; [|exact T]; intros; apply EI; assumption
      |eapply rtc_mono; [|exact C]; intros; apply EI; assumption | eapply tc_mono; [|exact T]; intros; apply EI; assumption].
  - intros H d Hd. unfold check_recursive.
    destruct (ld_kind d) eqn:K; [|reflexivity|];
      (destruct (existsb _ (ld_refs d)) eqn:X; [|reflexivity]);
      apply existsb_exists in X; destruct X as (r0 & Hr0 & C); exfalso;
      (assert (C0 : cyc (length (reg_env lds)) (reg_env lds) [] r0 = false); [|congruence]);
      apply cyc_fuel_enough; intros x Cx T;
      apply (H x);
      try (exists d, r0; repeat split; [exact Hd|congruence|exact Hr0|eapply rtc_mono; [|exact Cx]; intros; apply EI; assumption]);
      try (eapply tc_mono; [|exact T]; intros; apply EI; assumption).
Qed.

(** ** The declarative well-formedness predicate and the main equivalence *)

Section Main.
Variable ft : ftypes.
Variable toks : list ftok.

Definition sem_wf : Prop :=
  (* no lexical production id is defined twice (tokens, regular definitions, ignored tokens: one name space) *)
  NoDup (lex_ids ft toks) /\
  (* syntax part (aug_alts = [] when there is none): every alternative has a symbol, no production is called INVALID,
     no symbol is INVALID or the end-of-file mark; every used symbol with an upper-case initial is defined *)
  consistent_ok ft toks /\
  (* every reference to a regular definition, wherever it occurs, has a definition *)
  (forall r, In r (reg_uses ft toks) -> In r (reg_defs ft toks)) /\
  (* no string literal spells the id of its own or an earlier production (S' included) *)
  strlit_prod_ok [] (aug_alts ft toks) /\
  (* no string literal is empty or spells the id of a lexical production *)
  (forall s, In s (str_uses ft toks) -> s <> [] /\ ~ In s (lex_ids ft toks)) /\
  (* no regular definition that a token or ignored token reaches refers to itself, directly or indirectly *)
  regdefs_acyclic (lex_defs ft toks).

Theorem sem_check_none_iff : sem_check ft toks = None <-> sem_wf.
Proof.
  unfold sem_check, sem_wf.
  destruct (first_dup [] (lex_defs ft toks)) as [r|] eqn:D.
  { split; [discriminate|]. intros (H & _).
    assert (first_dup [] (lex_defs ft toks) = None) by (apply first_dup_none; split; [exact H|intros x _ []]). congruence. }
  apply first_dup_none in D. destruct D as [D _].
  destruct (check_consistent ft toks) as [r|] eqn:C.
  { split; [discriminate|]. intros (_ & H & _). apply check_consistent_none in H. congruence. }
  apply check_consistent_none in C.
  destruct (first_some (check_regdef_refs (reg_defs ft toks)) (lex_defs ft toks)) as [r|] eqn:U.
  { split; [discriminate|]. intros (_ & _ & H & _). pose proof (proj2 (check_regdef_refs_none ft toks _) H). congruence. }
  pose proof (proj1 (check_regdef_refs_none ft toks _) U) as U'.
  destruct (check_strlit_prod [] (aug_alts ft toks)) as [r|] eqn:P.
  { split; [discriminate|]. intros (_ & _ & _ & H & _). apply check_strlit_prod_none in H. congruence. }
  apply check_strlit_prod_none in P.
  destruct (first_some (check_strlit_tok (lex_ids ft toks)) (str_uses ft toks)) as [r|] eqn:S.
  { split; [discriminate|]. intros (_ & _ & _ & _ & H & _).
    assert (first_some (check_strlit_tok (lex_ids ft toks)) (str_uses ft toks) = None).
    { apply first_some_none. intros s Hs. apply check_strlit_tok_none. auto. }
    congruence. }
  rewrite first_some_none in S.
  rewrite (check_recursive_none _ D). split.
  - intros H. split; [exact D|]. split; [exact C|]. split; [exact U'|]. split; [exact P|]. split; [|exact H].
    intros s Hs. apply check_strlit_tok_none. apply S. exact Hs.
  - intros (_ & _ & _ & _ & _ & H). exact H.
Qed.

Theorem sem_verdict_ok_iff : sem_verdict ft toks = SemOk <-> sem_wf.
Proof.
  unfold sem_verdict. rewrite <- sem_check_none_iff. destruct (sem_check ft toks); split; intro H; try discriminate; reflexivity.
Qed.

End Main.
Print Assumptions sem_verdict_ok_iff.

(** ** The facts property C14 speaks about, as consequences of a passing verdict *)

Lemma defs_gen_head_in {A} (isc iss : A -> bool) l h b : In (h, b) (defs_gen isc iss l) -> In h l.
Proof.
  induction l as [|x rest IH]; simpl; [tauto|].
  destruct rest as [|c rest']; [simpl; tauto|].
  destruct (isc c).
  - intros [E|H]; [inversion E; subst; left; reflexivity|right; apply IH; exact H].
  - intro H. right. apply IH. exact H.
Qed.

Section Facts.
Variable ft : ftypes.
Variable toks : list ftok.

Lemma lex_defs_of_in d ds :
  In d (lex_defs_of ft ds) -> exists h body, In (h, body) ds /\ lex_kind ft h = Some (ld_kind d) /\ ld_id d = f_lit h.
Proof.
  induction ds as [|[h body] t IH]; simpl; [tauto|].
  destruct (lex_kind ft h) as [k|] eqn:K.
  - intros [<-|H].
    + exists h, body. simpl. auto.
    + destruct (IH H) as (h' & b' & ? & ?). exists h', b'. auto.
  - intro H. destruct (IH H) as (h' & b' & ? & ?). exists h', b'. auto.
Qed.

(** a token id is the literal of a tokId token of the file *)
Lemma tok_defs_are_tokIds n : In n (tok_defs ft toks) -> exists t, In t toks /\ f_type t = ft_tokId ft /\ f_lit t = n.
Proof.
  unfold tok_defs, ids_of_kind. intro H. apply in_map_iff in H. destruct H as (d & <- & H).
  apply filter_In in H. destruct H as [H K]. apply lkind_eqb_eq in K.
  apply lex_defs_of_in in H. destruct H as (h & body & Hin & Hk & Hid).
  exists h. split; [eapply defs_gen_head_in; exact Hin|]. split; [|auto].
  rewrite K in Hk. unfold lex_kind, is_ty in Hk.
  destruct (f_type h =? ft_tokId ft)%Z eqn:E; [apply Z.eqb_eq in E; exact E|].
  destruct (f_type h =? ft_regDefId ft)%Z; [discriminate|].
  destruct (f_type h =? ft_ignoredTokId ft)%Z; discriminate.
Qed.

Theorem sem_ok_facts : sem_verdict ft toks = SemOk ->
  NoDup (tok_defs ft toks) /\ NoDup (reg_defs ft toks) /\ NoDup (ign_defs ft toks) /\
  (forall r, In r (reg_uses ft toks) -> In r (reg_defs ft toks)) /\
  regdefs_acyclic (lex_defs ft toks) /\
  (forall p, UpperInitial p -> In p (prod_uses ft toks) -> In p (tok_defs ft toks ++ prod_heads ft toks)) /\
  (forall a, In a (aug_alts ft toks) -> snd a <> [] /\ fst a <> n_INVALID /\
             forall s, In s (snd a) -> snd s <> n_INVALID /\ snd s <> n_EOF).
Proof.
  intro H. apply sem_verdict_ok_iff in H. destruct H as (D & [C1 C2] & U & _ & _ & R).
  unfold tok_defs, reg_defs, ign_defs, ids_of_kind.
  repeat (split; [apply NoDup_map_filter; exact D|]).
  split; [exact U|]. split; [exact R|]. split; [exact C2|]. exact C1.
Qed.

(** with the scanner's classification (a tokId never starts with an upper-case letter: FScan.ident_type), an undefined symbol with an
    upper-case initial is an undefined syntax PRODUCTION *)
Corollary sem_ok_productions_defined : sem_verdict ft toks = SemOk ->
  (forall t, In t toks -> f_type t = ft_tokId ft -> ~ UpperInitial (f_lit t)) ->
  forall p, UpperInitial p -> In p (prod_uses ft toks) -> In p (prod_heads ft toks).
Proof.
  intros H Hs p Hu Hp. destruct (sem_ok_facts H) as (_ & _ & _ & _ & _ & F & _).
  specialize (F p Hu Hp). apply in_app_or in F. destruct F as [F|F]; [|exact F].
  exfalso. apply tok_defs_are_tokIds in F. destruct F as (t & Ht & Hty & <-). exact (Hs t Ht Hty Hu).
Qed.

End Facts.
Print Assumptions sem_ok_facts.
Print Assumptions sem_ok_productions_defined.

(** * Part B: the cut of the token list is faithful to the grammar *)

Lemma tree_ind' (P : tree -> Prop) :
  (forall t, P (Leaf t)) -> (forall p kids, Forall P kids -> P (Node p kids)) -> forall t, P t.
Proof.
  intros HL HN. fix IH 1. intros [t|p kids].
  - apply HL.
  - apply HN. induction kids as [|k r IHr]; constructor; [apply IH|exact IHr].
Qed.

(** ** generic facts about [heads_of], [until], [defs_gen] *)
Section Cut.
Context {A : Type}.
Variables isc iss : A -> bool.

Definition nostart (p : A -> bool) (w : list A) : Prop := match w with [] => True | x :: _ => p x = false end.

Lemma heads_of_cons2 h c r :
  heads_of isc (h :: c :: r) = if isc c then h :: heads_of isc (c :: r) else heads_of isc (c :: r).
Proof. reflexivity. Qed.

Lemma defs_gen_cons2 h c r :
  defs_gen isc iss (h :: c :: r) =
  if isc c then (h, until iss r) :: defs_gen isc iss (c :: r) else defs_gen isc iss (c :: r).
Proof. reflexivity. Qed.

Lemma heads_of_app u v : nostart isc v -> heads_of isc (u ++ v) = heads_of isc u ++ heads_of isc v.
Proof.
  intro Hv. induction u as [|h rest IH]; [reflexivity|].
  destruct rest as [|c rest'].
  - destruct v as [|x v']; [reflexivity|]. simpl in Hv. change ([h] ++ x :: v') with (h :: x :: v').
    rewrite heads_of_cons2, Hv. reflexivity.
  - change ((h :: c :: rest') ++ v) with (h :: c :: (rest' ++ v)). rewrite !heads_of_cons2.
    change (c :: rest' ++ v) with ((c :: rest') ++ v). rewrite IH. destruct (isc c); reflexivity.
Qed.

Lemma nostart_app p u v : nostart p u -> nostart p v -> nostart p (u ++ v).
Proof. destruct u; simpl; auto. Qed.

Lemma defs_gen_heads l : map fst (defs_gen isc iss l) = heads_of isc l.
Proof.
  induction l as [|h rest IH]; [reflexivity|].
  destruct rest as [|c rest']; [reflexivity|].
  rewrite defs_gen_cons2, heads_of_cons2. destruct (isc c); cbn [map fst]; rewrite IH; reflexivity.
Qed.

Lemma until_app u s v : forallb (fun x => negb (iss x)) u = true -> iss s = true -> until iss (u ++ s :: v) = u.
Proof.
  intros Hu Hs. induction u as [|x u IH]; simpl.
  - rewrite Hs. reflexivity.
  - simpl in Hu. apply andb_true_iff in Hu. destruct Hu as [H1 H2]. apply negb_true_iff in H1. rewrite H1, IH; auto.
Qed.

End Cut.

Lemma heads_of_map {A B} (f : A -> B) (isc : B -> bool) l :
  heads_of isc (map f l) = map f (heads_of (fun a => isc (f a)) l).
Proof.
  induction l as [|h rest IH]; [reflexivity|].
  destruct rest as [|c rest']; [reflexivity|].
  change (map f (h :: c :: rest')) with (f h :: f c :: map f rest'). rewrite !heads_of_cons2.
  change (f c :: map f rest') with (map f (c :: rest')). rewrite IH. destruct (isc (f c)); reflexivity.
Qed.

Lemma heads_of_ext {A} (p q : A -> bool) l : (forall a, p a = q a) -> heads_of p l = heads_of q l.
Proof.
  intro H. induction l as [|h rest IH]; [reflexivity|].
  destruct rest as [|c rest']; [reflexivity|]. rewrite !heads_of_cons2, H, IH. reflexivity.
Qed.

Section B.
Variable g : grammar.
Variable colon : nat.              (* the terminal ":" in the parser model's numbering (front-end type + 1) *)

Definition isc (t : token) : bool := Nat.eqb (ttype t) colon.
Definition is_colon_sym (s : sym) : bool := match s with T n => Nat.eqb n colon | NT _ => false end.
Definition is_term (s : sym) : bool := match s with T _ => true | NT _ => false end.
Definition colon_free (ss : list sym) : bool := forallb (fun s => negb (is_colon_sym s)) ss.

(** a right-hand side either has no ":" at all, or is  h ":" rest  with [h] a terminal other than ":" and no ":" in rest *)
Definition rhs_ok (r : list sym) : bool :=
  colon_free r ||
  match r with
  | s0 :: s1 :: r2 => is_term s0 && negb (is_colon_sym s0) && is_colon_sym s1 && colon_free r2
  | _ => false
  end.

(** the side condition on the grammar; evaluated by the kernel on the spec grammar (SemSpec.v and, on every run, harness_sem.py) *)
Definition colon_ok : bool := forallb (fun p => rhs_ok (rhs p)) g.

(** the productions of definitions:  X : h ":" ... *)
Definition def_prod (pr : prod) : bool := match rhs pr with _ :: s1 :: _ => is_colon_sym s1 | _ => false end.

(** the first children of the definition nodes of a tree, left to right *)
Fixpoint heads_tree (t : tree) : list token :=
  match t with
  | Leaf _ => []
  | Node p kids =>
    (match nth_error g p with
     | Some pr => if def_prod pr then match kids with Leaf h :: _ => [h] | _ => [] end else []
     | None => []
     end) ++ flat_map heads_tree kids
  end.

Lemma colon_free_not_def pr : colon_free (rhs pr) = true -> def_prod pr = false.
Proof.
  unfold def_prod, colon_free. destruct (rhs pr) as [|s0 [|s1 r2]]; try reflexivity. simpl.
  rewrite !andb_true_iff. intros (_ & H & _). apply negb_true_iff in H. exact H.
Qed.

Definition heads_P (t : tree) : Prop :=
  forall s w, wt g s t w -> is_colon_sym s = false -> heads_of isc w = heads_tree t /\ nostart isc w.

Lemma wts_colon_free ts : forall ss w, wts g ss ts w -> Forall heads_P ts -> colon_free ss = true ->
  heads_of isc w = flat_map heads_tree ts /\ nostart isc w.
Proof.
  induction ts as [|t ts IH]; intros ss w H F C; inversion H; subst.
  - simpl. auto.
  - inversion F as [|? ? Pt Fts]; subst. simpl in C. apply andb_true_iff in C. destruct C as [C1 C2].
    apply negb_true_iff in C1.
    match goal with Hw : wt g _ t _ |- _ => destruct (Pt _ _ Hw C1) as [E1 N1] end.
    match goal with Hw : wts g _ ts _ |- _ => destruct (IH _ _ Hw Fts C2) as [E2 N2] end.
    split; [|apply nostart_app; assumption].
    rewrite heads_of_app by exact N2. simpl. rewrite E1, E2. reflexivity.
Qed.

Theorem heads_are_definition_heads : colon_ok = true ->
  forall t s w, wt g s t w -> is_colon_sym s = false -> heads_of isc w = heads_tree t /\ nostart isc w.
Proof.
  intro CO. induction t as [tk|p kids F] using tree_ind'; intros s w H Hs.
  - inversion H; subst. simpl. split; [reflexivity|]. exact Hs.
  - inversion H as [|p' pr kids' w' Hp Hw]; subst.
    assert (RO : rhs_ok (rhs pr) = true).
    { unfold colon_ok in CO. rewrite forallb_forall in CO. apply CO. eapply nth_error_In; eauto. }
    simpl heads_tree. rewrite Hp. unfold rhs_ok in RO. apply orb_true_iff in RO. destruct RO as [RO|RO].
    + rewrite (colon_free_not_def _ RO). simpl. eapply wts_colon_free; eauto.
    + destruct (rhs pr) as [|s0 [|s1 r2]] eqn:ER; try discriminate.
      rewrite !andb_true_iff in RO. destruct RO as (((T0 & N0) & C1) & F2).
      assert (DP : def_prod pr = true) by (unfold def_prod; rewrite ER; exact C1).
      rewrite DP. apply negb_true_iff in N0.
      destruct s0 as [a|]; [|discriminate]. destruct s1 as [b|]; [|discriminate]. simpl in C1, N0.
      inversion Hw as [|? ? t0 ts0 w0 w0' H0 Hw1]; subst.
      inversion Hw1 as [|? ? t1 ts1 w1 w1' H1 Hw2]; subst.
      inversion H0; subst. inversion H1; subst.
      inversion F as [|? ? _ F1]; subst. inversion F1 as [|? ? _ F2']; subst.
      destruct (wts_colon_free _ _ _ Hw2 F2' F2) as [E2 N2].
      match goal with |- heads_of isc ([?h] ++ [?c] ++ ?w2) = _ /\ _ =>
        assert (Hc : isc c = true) by exact C1; assert (Hh : isc h = false) by exact N0 end.
      simpl. rewrite Hc. split; [|exact Hh]. f_equal.
      destruct w1' as [|x w2']; [simpl in *; exact E2|]. simpl in N2. rewrite N2. exact E2.
Qed.

End B.
Print Assumptions heads_are_definition_heads.

(** ** heads AND bodies: the whole cut [defs_gen] is the list of definition nodes with the yields of their bodies *)

Section CutMore.
Context {A : Type}.
Variables isc iss : A -> bool.

(** every ':' has a ';' somewhere after it *)
Fixpoint bal (w : list A) : Prop :=
  match w with
  | [] => True
  | x :: r => (isc x = true -> existsb iss r = true) /\ bal r
  end.

Lemma bal_app u v : bal u -> bal v -> bal (u ++ v).
Proof.
  induction u as [|x u IH]; simpl; [auto|]. intros [H1 H2] Hv. split; [|auto].
  intro Hx. rewrite existsb_app, (H1 Hx). reflexivity.
Qed.

Lemma until_app_in u v : existsb iss u = true -> until iss (u ++ v) = until iss u.
Proof.
  induction u as [|x u IH]; simpl; [discriminate|]. destruct (iss x); [reflexivity|]. simpl. intro H. rewrite IH; auto.
Qed.

Lemma defs_gen_app u v : nostart isc v -> bal u -> defs_gen isc iss (u ++ v) = defs_gen isc iss u ++ defs_gen isc iss v.
Proof.
  intros Hv. induction u as [|h rest IH]; intro Hb; [reflexivity|].
  destruct rest as [|c rest'].
  - destruct v as [|x v']; [reflexivity|]. simpl in Hv. change ([h] ++ x :: v') with (h :: x :: v').
    rewrite defs_gen_cons2, Hv. reflexivity.
  - change ((h :: c :: rest') ++ v) with (h :: c :: (rest' ++ v)). rewrite !defs_gen_cons2.
    change (c :: rest' ++ v) with ((c :: rest') ++ v). destruct Hb as [_ Hb]. rewrite (IH Hb).
    destruct (isc c) eqn:Ec; [|reflexivity]. destruct Hb as [Hc _]. rewrite (until_app_in _ _ (Hc Ec)). reflexivity.
Qed.

Lemma defs_gen_nocolon l : forallb (fun x => negb (isc x)) l = true -> forall x, defs_gen isc iss (x :: l) = [].
Proof.
  induction l as [|c r IH]; intros H x; [reflexivity|]. simpl in H. apply andb_true_iff in H. destruct H as [H1 H2].
  apply negb_true_iff in H1. rewrite defs_gen_cons2, H1. apply IH. exact H2.
Qed.

Lemma defs_gen_nocolon' l : forallb (fun x => negb (isc x)) l = true -> defs_gen isc iss l = [].
Proof.
  destruct l as [|x l]; [reflexivity|]. simpl. rewrite andb_true_iff. intros [_ H]. apply defs_gen_nocolon. exact H.
Qed.

Lemma bal_nocolon l : forallb (fun x => negb (isc x)) l = true -> bal l.
Proof.
  induction l as [|c r IH]; simpl; [auto|]. rewrite andb_true_iff. intros [H1 H2]. apply negb_true_iff in H1.
  split; [rewrite H1; discriminate|auto].
Qed.

End CutMore.

Lemma until_map {A B} (f : A -> B) (p : B -> bool) l : until p (map f l) = map f (until (fun a => p (f a)) l).
Proof. induction l as [|x l IH]; simpl; [reflexivity|]. destruct (p (f x)); [reflexivity|]. simpl. rewrite IH. reflexivity. Qed.

Lemma until_ext {A} (p q : A -> bool) l : (forall a, p a = q a) -> until p l = until q l.
Proof. intro H. induction l as [|x l IH]; simpl; [reflexivity|]. rewrite H, IH. reflexivity. Qed.

Definition pmap {A B} (f : A -> B) (d : A * list A) : B * list B := (f (fst d), map f (snd d)).

Lemma defs_gen_map {A B} (f : A -> B) (isc iss : B -> bool) l :
  defs_gen isc iss (map f l) = map (pmap f) (defs_gen (fun a => isc (f a)) (fun a => iss (f a)) l).
Proof.
  induction l as [|h rest IH]; [reflexivity|].
  destruct rest as [|c rest']; [reflexivity|].
  change (map f (h :: c :: rest')) with (f h :: f c :: map f rest'). rewrite !defs_gen_cons2.
  change (f c :: map f rest') with (map f (c :: rest')). rewrite IH. destruct (isc (f c)); [|reflexivity].
  simpl map. unfold pmap at 1. simpl. rewrite until_map. reflexivity.
Qed.

Lemma defs_gen_ext {A} (p q p' q' : A -> bool) l :
  (forall a, p a = q a) -> (forall a, p' a = q' a) -> defs_gen p p' l = defs_gen q q' l.
Proof.
  intros H H'. induction l as [|h rest IH]; [reflexivity|].
  destruct rest as [|c rest']; [reflexivity|]. rewrite !defs_gen_cons2, H, IH, (until_ext p' q' _ H'). reflexivity.
Qed.

Section B2.
Variable g : grammar.
Variables colon semi : nat.        (* the terminals ":" and ";" in the parser model's numbering *)
Variable sf : list nat.            (* nonterminals claimed to derive neither ":" nor ";" (checked by [plain_ok]) *)

Let isc := isc colon.
Definition iss (t : token) : bool := Nat.eqb (ttype t) semi.
Definition in_sf (n : nat) : bool := existsb (Nat.eqb n) sf.

Definition plain_sym (s : sym) : bool :=
  match s with T n => negb (Nat.eqb n colon) && negb (Nat.eqb n semi) | NT m => in_sf m end.

(** [sf] is closed: the productions of its members mention only plain symbols *)
Definition plain_ok : bool := forallb (fun p => if in_sf (lhs p) then forallb plain_sym (rhs p) else true) g.

(** h ":" B ";"  with h a terminal other than ":" and B in [sf] *)
Definition def_shape (r : list sym) : bool :=
  match r with
  | [T a; T c; NT b; T s] => negb (Nat.eqb a colon) && Nat.eqb c colon && in_sf b && Nat.eqb s semi
  | _ => false
  end.

(** the side condition: evaluated by the kernel on the spec grammar *)
Definition cut_ok : bool :=
  negb (Nat.eqb colon semi) && plain_ok && forallb (fun p => colon_free colon (rhs p) || def_shape (rhs p)) g.

Fixpoint yield (t : tree) : list token :=
  match t with Leaf x => [x] | Node _ kids => flat_map yield kids end.

(** (first child, yield of the third child) of the definition nodes, left to right *)
Fixpoint defs_tree (t : tree) : list (token * list token) :=
  match t with
  | Leaf _ => []
  | Node p kids =>
    (match nth_error g p with
     | Some pr => if def_prod colon pr then match kids with Leaf h :: _ :: b :: _ => [(h, yield b)] | _ => [] end else []
     | None => []
     end) ++ flat_map defs_tree kids
  end.

Lemma wt_yield : forall t s w, wt g s t w -> yield t = w.
Proof.
  induction t as [tk|p kids F] using tree_ind'; intros s w H.
  - inversion H; subst. reflexivity.
  - inversion H as [|p' pr kids' w' Hp Hw]; subst. simpl. clear H Hp.
    revert w Hw F. generalize (rhs pr) as ss. induction kids as [|k kids IH]; intros ss w Hw F; inversion Hw; subst.
    + reflexivity.
    + inversion F as [|? ? Fk Fks]; subst. simpl. f_equal; [eapply Fk; eauto|eapply IH; eauto].
Qed.

Definition plainw (w : list token) : bool := forallb (fun x => negb (isc x) && negb (iss x)) w.

Lemma plainw_app u v : plainw (u ++ v) = plainw u && plainw v.
Proof. apply forallb_app. Qed.

Lemma plain_yields : plain_ok = true -> forall t s w, wt g s t w -> plain_sym s = true -> plainw w = true.
Proof.
  intro PO. induction t as [tk|p kids F] using tree_ind'; intros s w H Hs.
  - inversion H; subst. simpl in *. unfold isc, SemProofs.isc, iss. rewrite Hs. reflexivity.
  - inversion H as [|p' pr kids' w' Hp Hw]; subst. simpl in Hs.
    assert (R : forallb plain_sym (rhs pr) = true).
    { unfold plain_ok in PO. rewrite forallb_forall in PO. specialize (PO pr (nth_error_In _ _ Hp)). rewrite Hs in PO. exact PO. }
    clear H Hp Hs. revert w Hw F R. generalize (rhs pr) as ss.
    induction kids as [|k kids IH]; intros ss w Hw F R; inversion Hw; subst.
    + reflexivity.
    + inversion F as [|? ? Fk Fks]; subst. simpl in R. apply andb_true_iff in R. destruct R as [R1 R2].
      rewrite plainw_app. apply andb_true_iff. split; [eapply Fk; eauto|eapply IH; eauto].
Qed.

Lemma plainw_nocolon w : plainw w = true -> forallb (fun x => negb (isc x)) w = true.
Proof.
  unfold plainw. rewrite !forallb_forall. intros H x Hx. specialize (H x Hx). apply andb_true_iff in H. tauto.
Qed.

Lemma plainw_nosemi w : plainw w = true -> forallb (fun x => negb (iss x)) w = true.
Proof.
  unfold plainw. rewrite !forallb_forall. intros H x Hx. specialize (H x Hx). apply andb_true_iff in H. tauto.
Qed.

Definition defs_P (t : tree) : Prop :=
  forall s w, wt g s t w -> is_colon_sym colon s = false ->
    defs_gen isc iss w = defs_tree t /\ nostart isc w /\ bal isc iss w.

Lemma wts_defs_colon_free ts : forall ss w, wts g ss ts w -> Forall defs_P ts -> colon_free colon ss = true ->
  defs_gen isc iss w = flat_map defs_tree ts /\ nostart isc w /\ bal isc iss w.
Proof.
  induction ts as [|t ts IH]; intros ss w H F C; inversion H; subst.
  - simpl. auto.
  - inversion F as [|? ? Pt Fts]; subst. simpl in C. apply andb_true_iff in C. destruct C as [C1 C2].
    apply negb_true_iff in C1.
    match goal with Hw : wt g _ t _ |- _ => destruct (Pt _ _ Hw C1) as (E1 & N1 & B1) end.
    match goal with Hw : wts g _ ts _ |- _ => destruct (IH _ _ Hw Fts C2) as (E2 & N2 & B2) end.
    split; [|split; [apply nostart_app; assumption|apply bal_app; assumption]].
    rewrite defs_gen_app by assumption. simpl. rewrite E1, E2. reflexivity.
Qed.

Theorem cut_is_definition_nodes : cut_ok = true ->
  forall t s w, wt g s t w -> is_colon_sym colon s = false ->
    defs_gen isc iss w = defs_tree t /\ nostart isc w /\ bal isc iss w.
Proof.
  intro CO. unfold cut_ok in CO. rewrite !andb_true_iff in CO. destruct CO as ((NE & PO) & CO).
  apply negb_true_iff in NE.
  induction t as [tk|p kids F] using tree_ind'; intros s w H Hs.
  - inversion H; subst. simpl. split; [reflexivity|]. split; [exact Hs|]. split; [|exact I].
    intro Hc. unfold isc, SemProofs.isc in Hc. simpl in Hs. congruence.
  - inversion H as [|p' pr kids' w' Hp Hw]; subst.
    assert (RO : colon_free colon (rhs pr) || def_shape (rhs pr) = true).
    { rewrite forallb_forall in CO. apply CO. eapply nth_error_In; eauto. }
    simpl defs_tree. rewrite Hp. apply orb_true_iff in RO. destruct RO as [RO|RO].
    + rewrite (colon_free_not_def _ _ RO). simpl. eapply wts_defs_colon_free; eauto.
    + unfold def_shape in RO.
      destruct (rhs pr) as [|[a|] [|[c|] [|[|b] [|[sm|] [|]]]]] eqn:ER; try discriminate.
      rewrite !andb_true_iff in RO. destruct RO as (((Na & Ec) & Sb) & Es).
      apply negb_true_iff in Na.
      assert (DP : def_prod colon pr = true) by (unfold def_prod; rewrite ER; exact Ec).
      rewrite DP.
      inversion Hw as [|? ? t0 ts0 w0 w0' H0 Hw1]; subst.
      inversion Hw1 as [|? ? t1 ts1 w1 w1' H1 Hw2]; subst.
      inversion Hw2 as [|? ? t2 ts2 w2 w2' H2 Hw3]; subst.
      inversion Hw3 as [|? ? t3 ts3 w3 w3' H3 Hw4]; subst.
      inversion Hw4; subst.
      inversion H0; subst. inversion H1; subst. inversion H3; subst.
      inversion F as [|? ? _ F1]; subst. inversion F1 as [|? ? _ F2]; subst. inversion F2 as [|? ? Pb _]; subst.
      match goal with |- defs_gen isc iss ([?h] ++ [?c] ++ ?wb ++ [?s] ++ []) = _ /\ _ =>
        assert (Hc : isc c = true) by exact Ec; assert (Hh : isc h = false) by exact Na;
        assert (Hsm : iss s = true) by exact Es;
        assert (Hsc : isc s = false)
          by (unfold isc, SemProofs.isc; apply Nat.eqb_eq in Es; rewrite Es; rewrite Nat.eqb_sym; exact NE);
        assert (NCgen : forallb (fun x => negb (isc x)) wb = true -> forallb (fun x => negb (isc x)) (wb ++ [s]) = true)
          by (intro X; rewrite forallb_app, X; simpl; rewrite Hsc; reflexivity)
      end.
      assert (PW : plainw w2 = true) by (eapply plain_yields; [exact PO|exact H2|exact Sb]).
      pose proof (plainw_nocolon _ PW) as NC. pose proof (plainw_nosemi _ PW) as NS.
      destruct (Pb _ _ H2 eq_refl) as (Eb & _ & _).
      rewrite (defs_gen_nocolon' _ _ _ NC) in Eb.
      rewrite (wt_yield _ _ _ H2). rewrite app_nil_r.
      pose proof (NCgen NC) as NC'.
      cbn [app]. rewrite defs_gen_cons2, Hc. rewrite (until_app _ _ _ _ NS Hsm).
      rewrite (defs_gen_nocolon _ _ _ NC'). cbn [flat_map defs_tree app]. rewrite <- Eb. cbn [app].
      split; [reflexivity|]. split; [exact Hh|]. cbn [bal]. split; [intro X; congruence|]. split.
      * intros _. rewrite existsb_app. simpl. rewrite Hsm. rewrite orb_true_r. reflexivity.
      * apply bal_nocolon. exact NC'.
Qed.

End B2.
Print Assumptions cut_is_definition_nodes.
