(** From the BYTES of a grammar file to the lexical-part AST [Pattern.lexgrammar] (property C01, first link of the tie).

    Go sources
      - spec/gocc2.ebnf (the grammar the front-end parser was generated from):
            LexProduction : tokId ":" LexPattern ";" | regDefId ":" LexPattern ";" | ignoredTokId ":" LexPattern ";"
            LexPattern    : LexAlt | LexPattern "|" LexAlt                                  (NewLexPattern / AppendLexAlt)
            LexAlt        : LexTerm | LexAlt LexTerm                                        (NewLexAlt / AppendLexTerm)
            LexTerm       : "." | char_lit | char_lit "-" char_lit | regDefId
                          | "[" LexPattern "]" | "{" LexPattern "}" | "(" LexPattern ")"
      - internal/ast/lexcharlit.go   (Val = util.LitToRune(lit): [LitConv.lit_to_rune]; a Go panic is [None])
      - internal/ast/lexcharrange.go (From.Val > To.Val: "empty character range", the parse fails: [None])
      - internal/ast/lexpart.go      NewLexPart: ProdList.Productions = the lexical productions in FILE order;
                                     UpdateStringLitTokens: one LexTokDef per distinct string literal of the syntax part, in
                                     order of first occurrence (symbols.ListStringLitSymbols), APPENDED to ProdList.Productions;
                                     TokenIds: the ids of the explicit token definitions, sort.Strings
      - internal/ast/lextokdef.go    NewLexStringLitTokDef: one alternative, one LexCharLit per rune of bytes.Runes(text)
                                     (text = "": index panic: [None])
      - internal/parser/symbols, internal/token/tokenmap.go: the numbering ([TokMap.terminals], property C10)
      - internal/verifdump/lexdump.go: what is PRINTED: the regular definitions in file order (index = position among the
        regular definitions), then the token and ignored-token definitions in ProdList order:
        "T <tokenMap.IdMap[id]> <1 when implicit> pattern" / "I pattern".

    The token list is cut into definitions by [Sem.defs]; the tokens of one definition's body are read by [parse_tokens]:
    a STRUCTURALLY RECURSIVE (one pass, left to right, no fuel) recogniser of LexPattern with an explicit stack of the open
    brackets.  State: the stack of frames (bracket kind, finished alternatives and current alternative of the ENCLOSING
    level), the finished alternatives of the current level (reversed), the terms of the current alternative (reversed).
        "."          push Dot                     char_lit   push Chr (lit_to_rune)           regDefId   push Ref (index)
        "-"          the current alternative must end in a Chr (then the previous token was a char_lit: nothing else leaves
                     a Chr on top) and the next token must be a char_lit: the two become a Rng (refused when hi < lo)
        "|"          the current alternative must be non-empty (LexAlt = LexTerm+); it is finished
        "[" "{" "("  a frame is pushed, the level starts empty
        "]" "}" ")"  the top frame must have the same kind and the current alternative must be non-empty: the level becomes
                     one Opt / Rep / Grp term of the enclosing alternative
        end          no frame open, current alternative non-empty
    Anything else is [None].  The parser works on CLASSIFIED tokens ([lclass], literal bytes); [classify] maps the front-end
    token types (numbers of token.FRONTENDTokens, passed in [Sem.ftypes] and [ltypes]) to classes.

    Definitions only, executable; proofs in LexAstProofs.v. *)
From Coq Require Import List ZArith Bool.
From Gocc Require Import Base.Utf8 Lex.Pattern Front.LitConv Front.TokMap Front.Perm Front.FScan Front.Sem.
Import ListNotations.
Local Open Scope Z_scope.

(** type numbers of token.FRONTENDTokens the lexical patterns need, besides those of [Sem.ftypes] *)
Record ltypes := {
  lt_dot : Z; lt_char_lit : Z; lt_minus : Z;
  lt_lbrack : Z; lt_rbrack : Z; lt_lbrace : Z; lt_rbrace : Z; lt_lparen : Z; lt_rparen : Z }.

Definition shipped_ltypes : ltypes :=
  {| lt_dot := 8; lt_char_lit := 9; lt_minus := 10; lt_lbrack := 11; lt_rbrack := 12; lt_lbrace := 13; lt_rbrace := 14;
     lt_lparen := 15; lt_rparen := 16 |}.

Inductive bkind := BOpt | BRep | BGrp.

Definition bkind_eqb (a b : bkind) : bool :=
  match a, b with BOpt, BOpt | BRep, BRep | BGrp, BGrp => true | _, _ => false end.

Definition mk_group (k : bkind) (p : pattern) : term :=
  match k with BOpt => Opt p | BRep => Rep p | BGrp => Grp p end.

(** token classes of a lexical pattern *)
Inductive lclass := CDot | CChar | CMinus | CBar | CRef | COpen (k : bkind) | CClose (k : bkind) | COther.

Definition ltok := (lclass * list Z)%type.           (* class, literal bytes *)

(** position of the FIRST definition called [n] (lexdump.go: regIdx; a repeated name is refused by gocc before) *)
Fixpoint index_of (n : name) (l : list name) : option nat :=
  match l with
  | [] => None
  | m :: t => if name_eqb n m then Some O else option_map S (index_of n t)
  end.

Definition frame := (bkind * list Pattern.alt * list term)%type.

(** alternatives [alts] (reversed) and current alternative [cur] (reversed), closed *)
Definition close_level (alts : list Pattern.alt) (cur : list term) : pattern := rev (rev cur :: alts).

Fixpoint parse_tokens (regs : list name) (stk : list frame) (alts : list Pattern.alt) (cur : list term)
                      (ts : list ltok) {struct ts} : option pattern :=
  match ts with
  | [] =>
    match stk, cur with
    | [], _ :: _ => Some (close_level alts cur)
    | _, _ => None
    end
  | (c, lit) :: r =>
    match c with
    | CDot => parse_tokens regs stk alts (Dot :: cur) r
    | CChar =>
      match lit_to_rune lit with
      | Some v => parse_tokens regs stk alts (Chr v :: cur) r
      | None => None
      end
    | CMinus =>
      match cur, r with
      | Chr lo :: cur', (CChar, lit2) :: r' =>
        match lit_to_rune lit2 with
        | Some hi => if hi <? lo then None else parse_tokens regs stk alts (Rng lo hi :: cur') r'
        | None => None
        end
      | _, _ => None
      end
    | CBar =>
      match cur with
      | [] => None
      | _ :: _ => parse_tokens regs stk (rev cur :: alts) [] r
      end
    | CRef =>
      match index_of lit regs with
      | Some n => parse_tokens regs stk alts (Ref n :: cur) r
      | None => None                                  (* undefined regular definition: gocc exits with an error *)
      end
    | COpen k => parse_tokens regs ((k, alts, cur) :: stk) [] [] r
    | CClose k =>
      match stk, cur with
      | (k', alts', cur') :: stk', _ :: _ =>
        if bkind_eqb k k' then parse_tokens regs stk' alts' (mk_group k (close_level alts cur) :: cur') r else None
      | _, _ => None
      end
    | COther => None
    end
  end.

Definition parse_classes (regs : list name) (ts : list ltok) : option pattern := parse_tokens regs [] [] [] ts.

Section LexAst.
Variable ft : ftypes.
Variable lt : ltypes.

Definition classify (t : ftok) : lclass :=
  let ty := f_type t in
  if ty =? lt_dot lt then CDot
  else if ty =? lt_char_lit lt then CChar
  else if ty =? lt_minus lt then CMinus
  else if ty =? ft_bar ft then CBar
  else if ty =? ft_regDefId ft then CRef
  else if ty =? lt_lbrack lt then COpen BOpt
  else if ty =? lt_rbrack lt then CClose BOpt
  else if ty =? lt_lbrace lt then COpen BRep
  else if ty =? lt_rbrace lt then CClose BRep
  else if ty =? lt_lparen lt then COpen BGrp
  else if ty =? lt_rparen lt then CClose BGrp
  else COther.

Definition ltok_of (t : ftok) : ltok := (classify t, f_lit t).

(** (a) the body tokens of one lexical definition -> its pattern; [regs] = the names of the regular definitions in file order *)
Definition parse_pattern (regs : list name) (body : list ftok) : option pattern :=
  parse_classes regs (map ltok_of body).

(** *** the token numbers (main.go / lexdump.go: NewSymbols(g); Add(TokenIds()...); NewTokenMap(ListTerminals())) *)
Definition sym_prods (toks : list ftok) : list (name * list name) :=
  map (fun a => (fst a, map snd (snd a))) (aug_alts ft toks).

Definition terminals_of (toks : list ftok) : list name :=
  terminals name name_eqb n_INVALID n_EOF n_empty (sym_prods toks) (token_ids_z (tok_defs ft toks)).

(** tokenMap.IdMap[id]; a Go map read of an absent key (only "empty") gives 0 *)
Definition token_type (terms : list name) (id : name) : Z := Z.of_nat (type_of name name_eqb terms id).

(** *** the implicit tokens *)
(** bytes.Runes *)
Fixpoint runes_of (fuel : nat) (bs : list Z) : list Z :=
  match fuel, bs with
  | O, _ => []
  | _, [] => []
  | S f, _ :: _ => let '(r, sz) := decode_rune bs in r :: runes_of f (skipn (Nat.max 1 sz) bs)
  end.

Definition strlit_pattern (text : name) : option pattern :=
  match text with
  | [] => None                                           (* runes[0]: index out of range *)
  | _ :: _ => Some [map Chr (runes_of (length text) text)]
  end.

(** symbols.ListStringLitSymbols: distinct texts in order of first occurrence *)
Definition strlit_ids (toks : list ftok) : list name := add_all name name_eqb (str_uses ft toks) [].

(** *** the definitions of the lexical part *)
Fixpoint lex_entries (regs terms : list name) (ds : list (ftok * list ftok)) : option (list (tkind * pattern)) :=
  match ds with
  | [] => Some []
  | (h, body) :: t =>
    match lex_kind ft h with
    | Some LTok =>
      match parse_pattern regs body, lex_entries regs terms t with
      | Some p, Some l => Some ((Tok (token_type terms (f_lit h)) false, p) :: l)
      | _, _ => None
      end
    | Some LIgn =>
      match parse_pattern regs body, lex_entries regs terms t with
      | Some p, Some l => Some ((Ign, p) :: l)
      | _, _ => None
      end
    | _ => lex_entries regs terms t
    end
  end.

Fixpoint reg_entries (regs : list name) (ds : list (ftok * list ftok)) : option (list pattern) :=
  match ds with
  | [] => Some []
  | (h, body) :: t =>
    match lex_kind ft h with
    | Some LReg =>
      match parse_pattern regs body, reg_entries regs t with
      | Some p, Some l => Some (p :: l)
      | _, _ => None
      end
    | _ => reg_entries regs t
    end
  end.

Definition strlit_entries (terms : list name) (ids : list name) : option (list (tkind * pattern)) :=
  mapM (fun s => option_map (fun p => (Tok (token_type terms s) true, p)) (strlit_pattern s)) ids.

(** (b) the token list of a whole file (EOF token removed) -> what [verifdump lexdump] prints *)
Definition lexgrammar_of_tokens (toks : list ftok) : option lexgrammar :=
  let ds := defs ft toks in
  let regs := reg_defs ft toks in
  let terms := terminals_of toks in
  match reg_entries regs ds, lex_entries regs terms ds, strlit_entries terms (strlit_ids toks) with
  | Some rs, Some es, Some ss => Some {| regdefs := rs; Pattern.toks := es ++ ss |}
  | _, _, _ => None
  end.

End LexAst.

(** (c) from the source bytes, with the numbering of token.FRONTENDTokens as shipped *)
Definition lexgrammar_of_source (src : list Z) : option lexgrammar :=
  lexgrammar_of_tokens shipped_ftypes shipped_ltypes (strip_eof (fst (fscan_all src))).
