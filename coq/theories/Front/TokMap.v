(** Model of gocc's token numbering (property C10).

    Go sources
      - internal/parser/symbols/symbols.go, [NewSymbols]: Add("INVALID"); Add("␚"); then for
        every production p in grammar order: Add(p.Id), then Add(sym.SymbolString()) for every
        body symbol in order.  [Add] appends to typeMap only if the symbol is absent.
        [IsTerminal sym] = sym is not the name of a production (ntIdMap holds ALL production
        names once the loop is finished; ListTerminals is called afterwards).
        [ListTerminals] = typeMap filtered by IsTerminal and by sym != "empty" (the keyword of an empty
        alternative gets no token number: repair of defect D18), order preserved.
      - main.go: [gSymbols.Add(g.LexPart.TokenIds()...)] (the token ids of the lexical part,
        sorted -- see Perm.v) and then [tokenMap = NewTokenMap(gSymbols.ListTerminals())].
      - internal/token/tokenmap.go, [NewTokenMap]: TypeMap[i] = sym, IdMap[sym] = i.  This
        single object is handed to the token, lexer and parser generators.
      - internal/token/gen/golang/token.go (template): the generated
          [Id(tok)]   = typeMap[tok] if int(tok) < len(typeMap), else the string "unknown"
                        (a negative tok is not guarded: index panic; [nat] excludes it here);
          [Type(name)] = idMap[name] if present, else INVALID (= 0);
        and the generated constants [INVALID Type = 0], [EOF Type = 1] are emitted
        UNCONDITIONALLY, whatever typeMap[0] and typeMap[1] are.

    Not modelled: NewSymbols panics when a string-literal body symbol equals the name of a
    production that has ALREADY been seen (an order-dependent check); the model describes the
    runs without panic.

    Strings are an abstract type [str] with a boolean equality; [INVALID] and [EOFSYM] are
    the two strings "INVALID" and "␚".  A production is (name, body symbols).
    Definitions only, executable; proofs are in TokMapProofs.v. *)
From Coq Require Import List Bool Arith.
Import ListNotations.

Section TokMap.
Variable str : Type.
Variable eqb : str -> str -> bool.
Variables INVALID EOFSYM : str.
Variable EMPTY : str.      (* the keyword "empty" of an empty alternative: a body symbol, never a terminal (repair of defect D18) *)

Definition mem (x : str) (l : list str) : bool := existsb (eqb x) l.

(** Symbols.Add for one symbol *)
Definition add (x : str) (l : list str) : list str := if mem x l then l else l ++ [x].

(** Symbols.Add(xs...) *)
Definition add_all (xs : list str) (l : list str) : list str :=
  fold_left (fun acc x => add x acc) xs l.

Definition prod_syms (p : str * list str) : list str := fst p :: snd p.

(** Symbols.typeMap after NewSymbols and the Add of the lexical token ids *)
Definition typemap (prods : list (str * list str)) (lex_ids : list str) : list str :=
  add_all lex_ids
    (add_all (flat_map prod_syms prods) (add EOFSYM (add INVALID []))).

Definition is_terminal (prods : list (str * list str)) (s : str) : bool :=
  negb (mem s (map fst prods)) && negb (eqb s EMPTY).

(** Symbols.ListTerminals = TokenMap.TypeMap *)
Definition terminals (prods : list (str * list str)) (lex_ids : list str) : list str :=
  filter (is_terminal prods) (typemap prods lex_ids).

(** index of the first occurrence of [s], counted from [i]; 0 when absent *)
Fixpoint index_from (i : nat) (l : list str) (s : str) : nat :=
  match l with
  | [] => 0
  | x :: r => if eqb s x then i else index_from (S i) r s
  end.

(** generated [TokMap.Type(name)]: the number of [name], INVALID = 0 when unknown *)
Definition type_of (tm : list str) (s : str) : nat := index_from 0 tm s.

(** generated [TokMap.Id(tok)]: [None] stands for the string "unknown" *)
Definition id_of (tm : list str) (i : nat) : option str := nth_error tm i.

End TokMap.

(** * Instance used for extraction and examples: strings are lists of code points *)
From Coq Require Import ZArith.

Fixpoint zstr_eqb (a b : list Z) : bool :=
  match a, b with
  | [], [] => true
  | x :: a', y :: b' => Z.eqb x y && zstr_eqb a' b'
  | _, _ => false
  end.

Definition INVALID_z : list Z := [73; 78; 86; 65; 76; 73; 68]%Z.   (* "INVALID" *)
Definition EOF_z : list Z := [9242]%Z.                              (* "␚" = U+241A *)
Definition EMPTY_z : list Z := [101; 109; 112; 116; 121]%Z.         (* "empty" *)

Definition terminals_z := terminals (list Z) zstr_eqb INVALID_z EOF_z EMPTY_z.
Definition type_of_z := type_of (list Z) zstr_eqb.
Definition id_of_z := id_of (list Z).
