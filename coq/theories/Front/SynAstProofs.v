(** Proofs about Front/SynAst.v (the generator's numeric input computed from the token list of the grammar file).

    (i)   [la_of_perm], [la_of_sorted] (and the [gi_la] forms): the look-ahead order is a permutation of the terminal numbers
          0 .. ntm-1 and is sorted w.r.t. the bytewise order of the terminal names (insertion sort is correct).
    (ii)  [gen_input_bounds]: every production has lhs < nn, every T a in a body has a < ntm, every NT n has n < nn;
          [gen_input_prod0]: production 0 is  S' -> (first declared nonterminal)  and S' is nonterminal 0.
    (iii) clauses of [Gen.gen_wf]: see the end of the file. *)
From Coq Require Import List ZArith Bool Arith Lia Permutation Sorted.
From Gocc Require Import LR.Parse LR.Validate LR.Gen Front.FScan Front.Sem Front.TokMap Front.TokMapProofs Front.SynAst.
Import ListNotations.
Local Open Scope nat_scope.

(* ------------------------------------------------------------------------- *)
(** * Insertion sort *)
Section ISortP.
Context {A : Type}.
Variable le : A -> A -> bool.

Lemma insert_perm : forall x l, Permutation (insert le x l) (x :: l).
Proof.
  intros x l. induction l as [|y t IH]; simpl; [reflexivity|].
  destruct (le x y); [reflexivity|].
  apply perm_trans with (y :: x :: t); [apply perm_skip; exact IH | apply perm_swap].
Qed.

Lemma isort_perm : forall l, Permutation (isort le l) l.
Proof.
  induction l as [|x t IH]; simpl; [constructor|].
  apply perm_trans with (x :: isort le t); [apply insert_perm | apply perm_skip; exact IH].
Qed.

Definition leR (a b : A) : Prop := le a b = true.
Hypothesis le_total : forall a b, le a b = false -> le b a = true.

Lemma insert_hdrel : forall a x l, HdRel leR a l -> leR a x -> HdRel leR a (insert le x l).
Proof.
  intros a x l H Hax. destruct l as [|y t]; simpl; [constructor; exact Hax|].
  destruct (le x y); constructor; [exact Hax | inversion H; assumption].
Qed.

Lemma insert_sorted : forall x l, Sorted leR l -> Sorted leR (insert le x l).
Proof.
  intros x l H. induction H as [|y t Hs IH Hh]; simpl.
  - repeat constructor.
  - destruct (le x y) eqn:E.
    + constructor; [constructor; assumption | constructor; exact E].
    + constructor; [exact IH | apply insert_hdrel; [exact Hh | apply le_total; exact E]].
Qed.

Lemma isort_sorted : forall l, Sorted leR (isort le l).
Proof. induction l as [|x t IH]; simpl; [constructor | apply insert_sorted; exact IH]. Qed.
End ISortP.

(** the bytewise order is total *)
Lemma name_leb_total : forall a b, name_leb a b = false -> name_leb b a = true.
Proof.
  induction a as [|x a IH]; intros [|y b] H; simpl in *; try discriminate; try reflexivity.
  destruct (x <? y)%Z eqn:E1; [discriminate|].
  destruct (y <? x)%Z eqn:E2; [reflexivity|]. apply IH; exact H.
Qed.

Lemma name_leb_refl : forall a, name_leb a a = true.
Proof. induction a as [|x a IH]; simpl; [reflexivity|]. rewrite Z.ltb_irrefl. exact IH. Qed.

Lemma name_leb_trans : forall a b c, name_leb a b = true -> name_leb b c = true -> name_leb a c = true.
Proof.
  induction a as [|x a IH]; intros [|y b] [|z c] H1 H2; simpl in *; try discriminate; try reflexivity.
  destruct (x <? y)%Z eqn:E1; destruct (y <? z)%Z eqn:E2;
    destruct (y <? x)%Z eqn:E3; destruct (z <? y)%Z eqn:E4; try discriminate;
    destruct (x <? z)%Z eqn:E5; try reflexivity; destruct (z <? x)%Z eqn:E6;
    try (apply Z.ltb_lt in E1); try (apply Z.ltb_lt in E2); try (apply Z.ltb_ge in E1); try (apply Z.ltb_ge in E2);
    try (apply Z.ltb_ge in E3); try (apply Z.ltb_ge in E4); try (apply Z.ltb_ge in E5); try (apply Z.ltb_lt in E6);
    try lia.
  eapply IH; eassumption.
Qed.

Lemma name_leb_antisym : forall a b, name_leb a b = true -> name_leb b a = true -> a = b.
Proof.
  induction a as [|x a IH]; intros [|y b] H1 H2; simpl in *; try discriminate; try reflexivity.
  destruct (x <? y)%Z eqn:E1; destruct (y <? x)%Z eqn:E2; try discriminate.
  - apply Z.ltb_lt in E1. apply Z.ltb_lt in E2. lia.
  - apply Z.ltb_ge in E1. apply Z.ltb_ge in E2. f_equal; [lia | apply IH; assumption].
Qed.

(** TokenIds(): sorted permutation of the token ids of the lexical part *)
Theorem sort_names_perm : forall l, Permutation (sort_names l) l.
Proof. intros. apply isort_perm. Qed.

Theorem sort_names_sorted : forall l, Sorted (fun a b => name_leb a b = true) (sort_names l).
Proof. intros. apply (isort_sorted name_leb name_leb_total). Qed.

(* ------------------------------------------------------------------------- *)
(** * (i) the look-ahead order *)
Lemma number_from_fst : forall {A} (l : list A) k, map fst (number_from k l) = seq k (length l).
Proof. induction l as [|x r IH]; intros k; simpl; [reflexivity|]. rewrite IH. reflexivity. Qed.

Lemma number_from_snd : forall (names : list name) k p,
  In p (number_from k names) -> snd p = nth (fst p - k) names [] /\ k <= fst p.
Proof.
  induction names as [|x r IH]; intros k p H; simpl in H; [contradiction|].
  destruct H as [H|H].
  - subst p. simpl. rewrite Nat.sub_diag. split; [reflexivity | lia].
  - apply IH in H. destruct H as [H1 H2]. split; [|lia].
    rewrite H1. replace (fst p - k) with (S (fst p - S k)) by lia. reflexivity.
Qed.

Theorem la_of_perm : forall names, Permutation (la_of names) (seq 0 (length names)).
Proof.
  intros names. unfold la_of. rewrite <- (number_from_fst names 0).
  apply Permutation_map. apply isort_perm.
Qed.

Definition name_at (names : list name) (i : nat) : name := nth i names [].

Lemma sorted_map_fst : forall names (l : list (nat * name)),
  (forall p, In p l -> snd p = name_at names (fst p)) ->
  Sorted (leR (fun a b : nat * name => name_leb (snd a) (snd b))) l ->
  Sorted (fun i j => name_leb (name_at names i) (name_at names j) = true) (map fst l).
Proof.
  induction l as [|a l IH]; intros Hp Hs; simpl; [constructor|].
  inversion Hs as [|? ? Hs' Hh]; subst. constructor.
  - apply IH; [intros; apply Hp; right; assumption | exact Hs'].
  - destruct l as [|p l']; simpl; constructor.
    inversion Hh as [|? ? Hr]; subst. unfold leR in Hr.
    rewrite <- (Hp a), <- (Hp p) by (simpl; auto). exact Hr.
Qed.

(** consecutive entries of the look-ahead order have names in bytewise order ... *)
Theorem la_of_sorted : forall names,
  Sorted (fun i j => name_leb (name_at names i) (name_at names j) = true) (la_of names).
Proof.
  intros names. unfold la_of. apply sorted_map_fst.
  - intros p Hp. apply (Permutation_in _ (isort_perm _ _)) in Hp.
    apply number_from_snd in Hp. destruct Hp as [H _]. rewrite Nat.sub_0_r in H. exact H.
  - apply isort_sorted. intros a b. apply name_leb_total.
Qed.

(** ... hence (the order being transitive) every earlier entry is below every later one *)
Theorem la_of_strongly_sorted : forall names,
  StronglySorted (fun i j => name_leb (name_at names i) (name_at names j) = true) (la_of names).
Proof.
  intros names. apply Sorted_StronglySorted; [|apply la_of_sorted].
  intros i j k. apply name_leb_trans.
Qed.

Lemma mem_nat_In : forall a l, mem_nat a l = true <-> In a l.
Proof.
  intros a l. unfold mem_nat. rewrite existsb_exists. split.
  - intros [x [Hx E]]. apply Nat.eqb_eq in E. subst. exact Hx.
  - intros H. exists a. split; [exact H | apply Nat.eqb_refl].
Qed.

(** the clause of [gen_wf] about [la_order] *)
Lemma la_of_covers : forall names, forallb (fun a => mem_nat a (la_of names)) (seq 0 (length names)) = true.
Proof.
  intros names. apply forallb_forall. intros a Ha. apply mem_nat_In.
  apply (Permutation_in _ (Permutation_sym (la_of_perm names))). exact Ha.
Qed.

(* ------------------------------------------------------------------------- *)
(** * (ii) bounds *)
Lemma index_of_lt : forall s l i, index_of s l = Some i -> i < length l.
Proof.
  intros s l. induction l as [|x r IH]; simpl; intros i H; [discriminate|].
  destruct (name_eqb s x); [inversion H; lia|].
  destruct (index_of s r) as [j|]; simpl in H; [|discriminate].
  inversion H. specialize (IH _ eq_refl). lia.
Qed.

Lemma name_eqb_eq : forall a b, name_eqb a b = true <-> a = b.
Proof.
  induction a as [|x a IH]; intros [|y b]; simpl; split; intros H; try discriminate; try reflexivity.
  - apply andb_true_iff in H. destruct H as [H1 H2]. apply Z.eqb_eq in H1. apply IH in H2. congruence.
  - inversion H; subst. rewrite Z.eqb_refl. simpl. apply IH. reflexivity.
Qed.

Lemma index_of_nth : forall s l i, index_of s l = Some i -> nth_error l i = Some s.
Proof.
  intros s l. induction l as [|x r IH]; simpl; intros i H; [discriminate|].
  destruct (name_eqb s x) eqn:E.
  - inversion H; subst. apply name_eqb_eq in E. subst. reflexivity.
  - destruct (index_of s r) as [j|]; simpl in H; [|discriminate].
    inversion H; subst. simpl. apply IH. reflexivity.
Qed.

Lemma index_of_In : forall s l, In s l -> exists i, index_of s l = Some i.
Proof.
  intros s l. induction l as [|x r IH]; simpl; intros H; [contradiction|].
  destruct (name_eqb s x) eqn:E; [eexists; reflexivity|].
  destruct H as [H|H]; [subst; rewrite (proj2 (name_eqb_eq s s) eq_refl) in E; discriminate|].
  destruct (IH H) as [i Hi]. rewrite Hi. eexists; reflexivity.
Qed.

Lemma all_some_map : forall {A B} (f : A -> option B) l r,
  all_some (map f l) = Some r -> Forall2 (fun x y => f x = Some y) l r.
Proof.
  intros A B f l. induction l as [|x t IH]; simpl; intros r H.
  - inversion H. constructor.
  - destruct (f x) eqn:E; [|discriminate].
    destruct (all_some (map f t)) eqn:E2; [|discriminate].
    inversion H; subst. constructor; auto.
Qed.

Lemma Forall2_Forall_r : forall {A B} (R : A -> B -> Prop) (P : B -> Prop) l r,
  Forall2 R l r -> (forall x y, In x l -> R x y -> P y) -> Forall P r.
Proof.
  intros A B R P l r H. induction H; intros HP; constructor.
  - eapply HP; [left; reflexivity | eassumption].
  - apply IHForall2. intros x0 y0 Hin. apply HP. right. exact Hin.
Qed.

Definition sym_ok (nn ntm : nat) (X : sym) : Prop :=
  match X with T a => a < ntm | NT n => n < nn end.

Lemma resolve_ok : forall nts terms s X,
  resolve nts terms s = Some X -> sym_ok (length nts) (length terms) X.
Proof.
  intros nts terms s X. unfold resolve.
  destruct (index_of s nts) eqn:E1.
  - intros H; inversion H; subst; simpl. eapply index_of_lt; eassumption.
  - destruct (index_of s terms) eqn:E2; [|discriminate].
    intros H; inversion H; subst; simpl. eapply index_of_lt; eassumption.
Qed.

Lemma body_of_ok : forall nts terms b r,
  body_of nts terms b = Some r -> Forall (sym_ok (length nts) (length terms)) r.
Proof.
  intros nts terms b r. unfold body_of.
  destruct b as [|s b']; [intros H; inversion H; constructor|].
  destruct (name_eqb s n_empty); [intros H; inversion H; constructor|].
  intros H. apply all_some_map in H.
  eapply Forall2_Forall_r; [exact H|]. intros x y _ Hr. eapply resolve_ok; exact Hr.
Qed.

Definition prod_ok (nn ntm : nat) (pr : prod) : Prop :=
  lhs pr < nn /\ Forall (sym_ok nn ntm) (rhs pr).

Lemma prod_of_ok : forall nts terms p pr,
  prod_of nts terms p = Some pr -> prod_ok (length nts) (length terms) pr.
Proof.
  intros nts terms p pr. unfold prod_of.
  destruct (index_of (fst p) nts) eqn:E1; [|discriminate].
  destruct (body_of nts terms (snd p)) eqn:E2; [|discriminate].
  intros H; inversion H; subst; simpl. split; simpl.
  - eapply index_of_lt; eassumption.
  - eapply body_of_ok; eassumption.
Qed.

(** every production: lhs < nn; T a in the body: a < ntm; NT n in the body: n < nn *)
Theorem gen_input_bounds : forall ft sdt toks gi,
  gen_input_of_tokens_ft ft sdt toks = Some gi ->
  Forall (prod_ok (gi_nn gi) (gi_ntm gi)) (gi_g gi).
Proof.
  intros ft sdt toks gi. unfold gen_input_of_tokens_ft.
  destruct (aug_alts ft toks) as [|a0 aug] eqn:Ea; [discriminate|]. lazy zeta.
  destruct (all_some _) as [g|] eqn:E; [|discriminate].
  intros H; inversion H; subst; simpl.
  apply all_some_map in E.
  eapply Forall2_Forall_r; [exact E|]. intros x y _ Hr. eapply prod_of_ok; exact Hr.
Qed.

Corollary gen_input_bounds_shipped : forall toks gi,
  gen_input_of_tokens toks = Some gi -> Forall (prod_ok (gi_nn gi) (gi_ntm gi)) (gi_g gi).
Proof. intros toks gi. apply gen_input_bounds. Qed.

Theorem gi_la_perm : forall ft sdt toks gi,
  gen_input_of_tokens_ft ft sdt toks = Some gi -> Permutation (gi_la gi) (seq 0 (gi_ntm gi)).
Proof.
  intros ft sdt toks gi. unfold gen_input_of_tokens_ft.
  destruct (aug_alts ft toks) as [|a0 aug] eqn:Ea; [discriminate|]. lazy zeta.
  destruct (all_some _) as [g|] eqn:E; [|discriminate].
  intros H; inversion H; subst; simpl. apply la_of_perm.
Qed.

Theorem gi_la_sorted : forall ft sdt toks gi,
  gen_input_of_tokens_ft ft sdt toks = Some gi ->
  StronglySorted (fun i j => name_leb (name_at (gi_tnames gi) i) (name_at (gi_tnames gi) j) = true) (gi_la gi).
Proof.
  intros ft sdt toks gi. unfold gen_input_of_tokens_ft.
  destruct (aug_alts ft toks) as [|a0 aug] eqn:Ea; [discriminate|]. lazy zeta.
  destruct (all_some _) as [g|] eqn:E; [|discriminate].
  intros H; inversion H; subst; simpl. apply la_of_strongly_sorted.
Qed.

Print Assumptions la_of_perm.
Print Assumptions la_of_strongly_sorted.
Print Assumptions sort_names_sorted.
Print Assumptions gi_la_perm.
Print Assumptions gi_la_sorted.
Print Assumptions gen_input_bounds.

(* ------------------------------------------------------------------------- *)
(** * (ii) production 0 *)
Lemma name_eqb_refl : forall a, name_eqb a a = true.
Proof. intros a. apply name_eqb_eq. reflexivity. Qed.

Lemma add_all_cons_nil : forall x xs, exists t, add_all name name_eqb (x :: xs) [] = x :: t.
Proof.
  intros x xs. destruct (add_all_prefix name name_eqb xs [x]) as [t Ht].
  exists t. exact Ht.
Qed.

(** S' is nonterminal 0; production 0 is  S' -> NT i  with i the number of the head of the first production of the file
    (a head spelled like the keyword empty would make the body empty: excluded by hypothesis; the scanner gives the type
    prodId only to identifiers with an upper-case initial) *)
Theorem gen_input_prod0 : forall ft sdt toks gi,
  gen_input_of_tokens_ft ft sdt toks = Some gi ->
  exists h b rest,
    prod_alts ft toks = (h, b) :: rest /\
    nth_error (gi_nnames gi) 0 = Some n_Sprime /\
    (name_eqb h n_empty = false ->
     exists i g', gi_g gi = {| lhs := 0; rhs := [NT i] |} :: g' /\ nth_error (gi_nnames gi) i = Some h).
Proof.
  intros ft sdt toks gi. unfold gen_input_of_tokens_ft, aug_alts.
  destruct (prod_alts ft toks) as [|[h b] rest] eqn:Ep; [discriminate|]. cbv beta iota zeta.
  destruct (all_some _) as [g|] eqn:E; [|discriminate].
  intros H; inversion H; subst; clear H. cbn [gi_nnames gi_g].
  exists h, b, rest. split; [reflexivity|].
  pose (prods := map snames ((n_Sprime, [(KProd, h)]) :: (h, b) :: rest)).
  change (nts_of _) with (nts_of prods).
  assert (Hn : exists t, nts_of prods = n_Sprime :: t).
  { unfold nts_of, prods. cbn [map fst snames]. apply add_all_cons_nil. }
  destruct Hn as [t Hn]. split; [rewrite Hn; reflexivity|].
  intros Hne. apply all_some_map in E. cbn [map] in E.
  inversion E as [|x y l l' Hx Hrest]; subst. change (nts_of _) with (nts_of prods) in Hx.
  exists (match index_of h (nts_of prods) with Some i => i | None => 0 end), l'.
  assert (Hin : In h (nts_of prods)).
  { unfold nts_of. apply (add_all_In name name_eqb name_eqb_eq). right. unfold prods. cbn [map fst snames]. right; left; reflexivity. }
  destruct (index_of_In _ _ Hin) as [i Hi]. rewrite Hi.
  split; [|apply index_of_nth; exact Hi].
  unfold prod_of, snames in Hx. cbn [fst snd map] in Hx.
  rewrite Hn in Hx at 1. cbn [index_of] in Hx. rewrite name_eqb_refl in Hx.
  unfold body_of in Hx. rewrite Hne in Hx. cbn [map all_some] in Hx.
  unfold resolve in Hx at 1. rewrite Hi in Hx. inversion Hx. reflexivity.
Qed.

Print Assumptions gen_input_prod0.

(* ------------------------------------------------------------------------- *)
(** * (iii) clauses of [Gen.gen_wf] — PARTIAL.
    Proved here, for every token list:  the [la_order] clause ([gi_la_covers]),  [terr < ntm] as soon as there is a terminal
    ([gi_terr_lt]),  and, in Prop form, the bounds  lhs < nn / a < ntm / n < nn  ([gen_input_bounds]) and the shape of production 0
    ([gen_input_prod0]).
    NOT proved (unfinished): the theorem  gen_input_of_tokens toks = Some gi -> gen_wf ... = true.  It does not hold for arbitrary token
    lists: it needs what Sem.check_consistent and the scanner guarantee — INVALID and ␚ are neither heads nor body symbols (then
    terminals 0 and 1 are INVALID and ␚ by TokMapProofs.terminals_head, giving  1 < ntm  and  1 < a  for body terminals), S' occurs in no
    body, the first head is not spelled "empty" — plus the clause "every body symbol is in [symbols]" (body names are in typemap by
    TokMapProofs.typemap_In and [resolve] succeeds on them; not written down). *)
Theorem gi_la_covers : forall ft sdt toks gi,
  gen_input_of_tokens_ft ft sdt toks = Some gi ->
  forallb (fun a => mem_nat a (gi_la gi)) (seq 0 (gi_ntm gi)) = true.
Proof.
  intros ft sdt toks gi. unfold gen_input_of_tokens_ft.
  destruct (aug_alts ft toks) as [|a0 aug] eqn:Ea; [discriminate|]. lazy zeta.
  destruct (all_some _) as [g|] eqn:E; [|discriminate].
  intros H; inversion H; subst; simpl. apply la_of_covers.
Qed.

Theorem gi_terr_lt : forall ft sdt toks gi,
  gen_input_of_tokens_ft ft sdt toks = Some gi -> 0 < gi_ntm gi -> gi_terr gi < gi_ntm gi.
Proof.
  intros ft sdt toks gi. unfold gen_input_of_tokens_ft.
  destruct (aug_alts ft toks) as [|a0 aug] eqn:Ea; [discriminate|]. lazy zeta.
  destruct (all_some _) as [g|] eqn:E; [|discriminate].
  intros H; inversion H; subst; cbn [gi_terr gi_ntm]. intros Hpos.
  destruct (index_of n_error _) as [i|] eqn:Ei; [eapply index_of_lt; exact Ei | exact Hpos].
Qed.

Print Assumptions gi_la_covers.
Print Assumptions gi_terr_lt.
