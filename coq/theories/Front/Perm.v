(** Models for property C11 "generation is deterministic independently of Go map iteration
    order".  Every [for k := range someMap] of the generator is modelled as an iteration over
    an ARBITRARY permutation of the key list; the permutation is an explicit parameter
    (an "oracle") of the model.  PermProofs.v shows that the outputs do not depend on it.

    (1) internal/ast/lexpart.go [TokenIds]: keys collected in map order, then sort.Strings.
        sort.Strings is any function returning a sorted permutation of its argument;
        [isort] is an executable one.
    (2) internal/parser/first/{first.go,symbolset.go}: FIRST sets are map[string]bool.
        [SymbolSet.AddSet], [FirstS], [FirstSets.AddToken/AddSet], the round over the
        productions of [GetFirstSets] and its iteration (with fuel; the Go loop runs until a
        round changes nothing).  A set is a duplicate-free list; the oracle
        [ord r k i : list str -> list str] gives the iteration order of the map ranged over
        in round [r], production [k], call number [i] (so different calls may use different
        orders, even on the same set).  [first1] (lr1/items/itemset.go) collects the keys
        of FirstS(...) in map order and sorts them.
    (3) internal/parser/lr1/items/itemset.go [ItemSet.Action]: the conflict list is
        returned in conflictMap order.

    Definitions only. *)
From Coq Require Import List Bool Arith.
From Gocc Require Import LR.Parse LR.Resolve Front.TokMap.
Import ListNotations.

(* ------------------------------------------------------------------------- *)
(** * (1) sorting *)
Section Sort.
Variable A : Type.
Variable leb : A -> A -> bool.

Fixpoint insert (x : A) (l : list A) : list A :=
  match l with
  | [] => [x]
  | y :: r => if leb x y then x :: l else y :: insert x r
  end.

Fixpoint isort (l : list A) : list A :=
  match l with
  | [] => []
  | x :: r => insert x (isort r)
  end.

(** LexPart.TokenIds: [order] is the order in which the map yields its keys *)
Definition token_ids (order : list A) : list A := isort order.
End Sort.

(* ------------------------------------------------------------------------- *)
(** * (2) FIRST sets *)
Section First.
Variable str : Type.
Variable eqb : str -> str -> bool.
Variable EMPTY : str.                       (* the string "empty" *)
Variable is_term : str -> bool.             (* symbols.IsTerminal *)

Notation mem := (mem str eqb).
Notation add_all := (add_all str eqb).

(** firstSets.firstSets : map[string]SymbolSet; a missing entry reads as the nil set *)
Definition env := str -> list str.
Definition upd (fs : env) (n : str) (s : list str) : env :=
  fun m => if eqb m n then s else fs m.

(** SymbolSet.AddSet: [this] receives every element of [that], ranged over in order [o] *)
Definition union_iter (o : list str) (this : list str) : list str := add_all o this.

(** delete(set, x) *)
Definition rem (x : str) (l : list str) : list str := filter (fun y => negb (eqb x y)) l.

(** SymbolSet.Equal (the early return makes no observable difference) *)
Definition set_eqb (a b : list str) : bool :=
  (length a =? length b) && forallb (fun x => mem x b) a.

(** first.First *)
Definition first_of (fs : env) (sym : str) : list str :=
  if is_term sym then [sym] else fs sym.

(** the loop of first.FirstS; [i] = index of the current symbol = number of the AddSet call;
    the boolean is the final value of containEmpty *)
Fixpoint firstS_loop (ordk : nat -> list str -> list str) (fs : env) (i : nat)
         (acc : list str) (syms : list str) : list str * bool :=
  match syms with
  | [] => (acc, true)
  | x :: r =>
    let f := first_of fs x in
    let acc' := union_iter (ordk i f) acc in
    if mem EMPTY f then firstS_loop ordk fs (S i) acc' r else (acc', false)
  end.

Definition firstS (ordk : nat -> list str -> list str) (fs : env) (syms : list str) : list str :=
  let r := firstS_loop ordk fs 0 [] syms in
  if snd r then fst r else rem EMPTY (fst r).

(** FirstSets.AddToken *)
Definition add_token (fs : env) (id t : str) : env * bool :=
  if mem t (fs id) then (fs, false) else (upd fs id (fs id ++ [t]), true).

(** FirstSets.AddSet: [o] = the order in which the map [terminals] is ranged over *)
Definition add_set_env (o : list str) (fs : env) (id : str) : env * bool :=
  fold_left (fun st t => let r := add_token (fst st) id t in (fst r, snd st || snd r))
            o (fs, false).

(** body of the inner loop of GetFirstSets for one production (name, body) *)
Definition prod_step (ordk : nat -> list str -> list str) (fs : env) (p : str * list str)
  : env * bool :=
  match snd p with
  | [] => add_token fs (fst p) EMPTY
  | x :: _ =>
    if is_term x then add_token fs (fst p) x
    else
      let first := firstS ordk fs (snd p) in
      if set_eqb first (fs (fst p)) then (fs, false)
      else add_set_env (ordk (length (snd p)) first) fs (fst p)
  end.

(** one round over all productions; the boolean is [again] *)
Fixpoint round_from (ordr : nat -> nat -> list str -> list str) (k : nat)
         (st : env * bool) (prods : list (str * list str)) : env * bool :=
  match prods with
  | [] => st
  | p :: ps =>
    let r := prod_step (ordr k) (fst st) p in
    round_from ordr (S k) (fst r, snd st || snd r) ps
  end.

Definition round (ordr : nat -> nat -> list str -> list str) (fs : env)
           (prods : list (str * list str)) : env * bool :=
  round_from ordr 0 (fs, false) prods.

(** [for again := true; again; { ... }] with fuel; the boolean tells that fuel ran out
    before a round without change *)
Fixpoint iterate (ord : nat -> nat -> nat -> list str -> list str) (fuel r : nat) (fs : env)
         (prods : list (str * list str)) : env * bool :=
  match fuel with
  | 0 => (fs, true)
  | S f =>
    let st := round (ord r) fs prods in
    if snd st then iterate ord f (S r) (fst st) prods else (fst st, false)
  end.

Definition first_sets (ord : nat -> nat -> nat -> list str -> list str) (fuel : nat)
           (prods : list (str * list str)) : env * bool :=
  iterate ord fuel 0 (fun _ => []) prods.

(** items.first1: keys of FirstS(symbols ++ [following]) in map order [o], then sorted *)
Definition first1 (leb : str -> str -> bool) (ordk : nat -> list str -> list str)
           (o : list str -> list str) (fs : env) (syms : list str) (following : str)
  : list str :=
  isort str leb (o (firstS ordk fs (syms ++ [following]))).

End First.

(* ------------------------------------------------------------------------- *)
(** * (3) ItemSet.Action: the conflicts come out in conflictMap order [pm] *)
Definition action_go (pm : list act -> list act) (cs : list (option act))
  : option (option act * list act) :=
  match row_action cs with
  | None => None
  | Some (w, cf) => Some (w, pm cf)
  end.

(* ------------------------------------------------------------------------- *)
(** * Instance: byte-wise lexicographic order on strings (what sort.Strings uses; on UTF-8
      it coincides with the lexicographic order on code points) *)
From Coq Require Import ZArith.
Fixpoint lex_leb (a b : list Z) : bool :=
  match a, b with
  | [], _ => true
  | _ :: _, [] => false
  | x :: a', y :: b' => if Z.ltb x y then true else if Z.eqb x y then lex_leb a' b' else false
  end.
Definition token_ids_z (order : list (list Z)) : list (list Z) := token_ids (list Z) lex_leb order.
