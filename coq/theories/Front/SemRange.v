(** The one semantic check that runs DURING parsing (ast.NewLexCharRange, since the repair of defect D17): a character
    range whose upper bound lies below its lower bound is refused.  In the spec '-' occurs only in
    LexTerm : char_lit '-' char_lit, so in a sentence every '-' stands between the two bounds of a range.
    The bounds are decoded by [LitConv.lit_to_rune] (the model of util.LitToRune, C20); a literal it does not decode
    makes Go panic earlier (character level, outside the model): such a range is not judged here. *)
From Coq Require Import List ZArith Bool Lia.
From Gocc Require Import LR.Parse Front.FScan Front.LitConv Front.Sem.
Import ListNotations.
Open Scope Z_scope.

Section Range.
Variable cl : Z.   (* token type of char_lit *)
Variable mn : Z.   (* token type of '-' *)

Definition is_t (ty : Z) (t : ftok) : bool := f_type t =? ty.

(** lower and upper bound decode and lower > upper *)
Definition empty_range (a c : ftok) : bool :=
  match lit_to_rune (f_lit a), lit_to_rune (f_lit c) with
  | Some x, Some y => y <? x
  | _, _ => false
  end.

Fixpoint ranges_ok (toks : list ftok) : bool :=
  match toks with
  | a :: r =>
    match r with
    | b :: c :: _ => if is_t cl a && is_t mn b && is_t cl c && empty_range a c then false else ranges_ok r
    | _ => true
    end
  | [] => true
  end.

(** declaratively: no three consecutive tokens  char_lit '-' char_lit  with decoded bounds lo > hi *)
Definition no_empty_range (toks : list ftok) : Prop :=
  forall pre a b c post, toks = pre ++ a :: b :: c :: post ->
    is_t cl a = true -> is_t mn b = true -> is_t cl c = true -> empty_range a c = false.

Lemma ranges_ok_iff toks : ranges_ok toks = true <-> no_empty_range toks.
Proof.
  induction toks as [|a r IH].
  - split; [|reflexivity]. intros _ pre a b c post H. destruct pre; discriminate.
  - cbn [ranges_ok]. destruct r as [|b [|c r']].
    + split; [|reflexivity]. intros _ pre x y z post H. destruct pre as [|? [|? [|? ?]]]; discriminate.
    + split; [|reflexivity]. intros _ pre x y z post H. destruct pre as [|? [|? [|? ?]]]; discriminate.
    + destruct (is_t cl a && is_t mn b && is_t cl c && empty_range a c) eqn:E.
      * split; [discriminate|]. intros H. exfalso.
        rewrite !andb_true_iff in E. destruct E as (((E1 & E2) & E3) & E4).
        rewrite (H [] a b c r' eq_refl E1 E2 E3) in E4. discriminate.
      * rewrite IH. split.
        -- intros H pre x y z post Hq Hx Hy Hz. destruct pre as [|p pre].
           ++ simpl in Hq. inversion Hq; subst. rewrite Hx, Hy, Hz in E. simpl in E. exact E.
           ++ simpl in Hq. inversion Hq; subst. eapply H; eauto.
        -- intros H pre x y z post Hq. apply (H (a :: pre) x y z post). simpl. now rewrite Hq.
Qed.

End Range.

(** the whole front-end model with the range check: what [modelrun frontsem] evaluates *)
Definition front_accepts_r (ft : ftypes) (cl mn : Z) (tb : tables) (fuel : nat) (toks : list ftok) : bool :=
  front_accepts ft tb fuel toks && ranges_ok cl mn toks.

Lemma front_accepts_r_iff ft cl mn tb fuel toks :
  front_accepts_r ft cl mn tb fuel toks = true <->
  front_accepts ft tb fuel toks = true /\ no_empty_range cl mn toks.
Proof. unfold front_accepts_r. rewrite andb_true_iff, ranges_ok_iff. tauto. Qed.

Example empty_range_refused :
  ranges_ok 9 10 [ {| f_type := 9; f_lit := [39; 122; 39]; f_off := 0; f_line := 1; f_col := 1 |};
                   {| f_type := 10; f_lit := [45]; f_off := 3; f_line := 1; f_col := 4 |};
                   {| f_type := 9; f_lit := [39; 97; 39]; f_off := 4; f_line := 1; f_col := 5 |} ] = false.
Proof. vm_compute. reflexivity. Qed.
