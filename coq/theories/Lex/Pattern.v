(** Lexical patterns of a gocc grammar (property C01): abstract syntax, macro expansion of
    regular definitions, and the textbook denotational semantics of dot-free patterns.

    A pattern is a list of alternatives, an alternative is a list of terms:
      term = char literal | range | '.' | regDefId | [pattern] | {pattern} | (pattern).

    Definitions only (extracted to OCaml); proofs are in DerivProofs.v. *)
From Coq Require Import List ZArith Bool.
Import ListNotations.
Open Scope Z_scope.

Inductive term :=
| Chr (c : Z)
| Rng (lo hi : Z)
| Dot
| Ref (n : nat)                       (* index into [regdefs] *)
| Opt (p : list (list term))
| Rep (p : list (list term))
| Grp (p : list (list term)).

Definition alt := list term.
Definition pattern := list alt.

(** kind of a token definition: [Tok ty strlit] is a token of type [ty] (>= 2), [strlit] when it
    is the implicit token of a string literal of the syntax part; [Ign] an ignored token. *)
Inductive tkind := Tok (ty : Z) (strlit : bool) | Ign.

Record lexgrammar := {
  regdefs : list pattern;              (* indexed by [Ref] *)
  toks : list (tkind * pattern)        (* in DECLARATION order *)
}.

(** ** Size measure and induction principle for the nested inductive *)
Definition list_sum (l : list nat) : nat := fold_right Nat.add 0%nat l.

Fixpoint tsize (t : term) : nat :=
  match t with
  | Chr _ | Rng _ _ | Dot | Ref _ => 1%nat
  | Opt p | Rep p | Grp p => S (list_sum (map (fun a => S (list_sum (map tsize a))) p))
  end.
Definition asize (a : alt) : nat := S (list_sum (map tsize a)).
Definition psize (p : pattern) : nat := list_sum (map asize p).

Section TermInd.
  Variable P : term -> Prop.
  Hypothesis HChr : forall c, P (Chr c).
  Hypothesis HRng : forall lo hi, P (Rng lo hi).
  Hypothesis HDot : P Dot.
  Hypothesis HRef : forall n, P (Ref n).
  Hypothesis HOpt : forall p, Forall (Forall P) p -> P (Opt p).
  Hypothesis HRep : forall p, Forall (Forall P) p -> P (Rep p).
  Hypothesis HGrp : forall p, Forall (Forall P) p -> P (Grp p).

  Fixpoint term_ind' (t : term) : P t :=
    let fa := fix fa (a : list term) : Forall P a :=
      match a with
      | [] => Forall_nil P
      | t :: a' => Forall_cons t (term_ind' t) (fa a')
      end in
    let fp := fix fp (p : list (list term)) : Forall (Forall P) p :=
      match p with
      | [] => Forall_nil (Forall P)
      | a :: p' => Forall_cons a (fa a) (fp p')
      end in
    match t with
    | Chr c => HChr c
    | Rng lo hi => HRng lo hi
    | Dot => HDot
    | Ref n => HRef n
    | Opt p => HOpt p (fp p)
    | Rep p => HRep p (fp p)
    | Grp p => HGrp p (fp p)
    end.
End TermInd.

(** ** Syntactic classes *)
Fixpoint dotfree_t (t : term) : bool :=
  match t with
  | Dot => false
  | Chr _ | Rng _ _ | Ref _ => true
  | Opt p | Rep p | Grp p => forallb (forallb dotfree_t) p
  end.
Definition dotfree (p : pattern) : bool := forallb (forallb dotfree_t) p.

Fixpoint reffree_t (t : term) : bool :=
  match t with
  | Ref _ => false
  | Chr _ | Rng _ _ | Dot => true
  | Opt p | Rep p | Grp p => forallb (forallb reffree_t) p
  end.
Definition reffree (p : pattern) : bool := forallb (forallb reffree_t) p.

(** ** Macro expansion of regular definitions *)
Section MapM.
  Variables (A B : Type) (f : A -> option B).
  Fixpoint mapM (l : list A) : option (list B) :=
    match l with
    | [] => Some []
    | x :: t =>
      match f x with
      | None => None
      | Some y => match mapM t with None => None | Some ys => Some (y :: ys) end
      end
    end.
End MapM.
Arguments mapM {A B} f l.

(** [expand_pat fuel defs p]: every [Ref n] is replaced by the (expanded) body of definition [n]
    in parentheses.  [fuel] bounds the nesting depth of definitions inside definitions; a
    definition that (directly or indirectly) uses itself exhausts any fuel: [None].  A [Ref]
    out of range is [None] too. *)
Fixpoint expand_pat (fuel : nat) (defs : list pattern) (p : pattern) {struct fuel} : option pattern :=
  match fuel with
  | O => None
  | S f =>
    let ex_term := fix ex_term (t : term) : option term :=
      match t with
      | Chr c => Some (Chr c)
      | Rng lo hi => Some (Rng lo hi)
      | Dot => Some Dot
      | Ref n =>
        match nth_error defs n with
        | None => None
        | Some d => option_map Grp (expand_pat f defs d)
        end
      | Opt q => option_map Opt (mapM (mapM ex_term) q)
      | Rep q => option_map Rep (mapM (mapM ex_term) q)
      | Grp q => option_map Grp (mapM (mapM ex_term) q)
      end in
    mapM (mapM ex_term) p
  end.

(** enough fuel for every non-recursive set of definitions *)
Definition expand_fuel (g : lexgrammar) : nat := S (S (length (regdefs g))).

Definition expand (g : lexgrammar) : option (list (tkind * pattern)) :=
  mapM (fun kp => option_map (fun p => (fst kp, p)) (expand_pat (expand_fuel g) (regdefs g) (snd kp)))
       (toks g).

(** ** Denotational semantics of dot-free, definition-free patterns
    (no rule for [Dot] and [Ref]: they match nothing here) *)
Inductive matches : pattern -> list Z -> Prop :=
| m_pat p a w : In a p -> matches_alt a w -> matches p w
with matches_alt : alt -> list Z -> Prop :=
| ma_nil : matches_alt [] []
| ma_cons t a w1 w2 : matches_term t w1 -> matches_alt a w2 -> matches_alt (t :: a) (w1 ++ w2)
with matches_term : term -> list Z -> Prop :=
| mt_chr c : matches_term (Chr c) [c]
| mt_rng lo hi c : lo <= c <= hi -> matches_term (Rng lo hi) [c]
| mt_opt0 p : matches_term (Opt p) []
| mt_opt1 p w : matches p w -> matches_term (Opt p) w
| mt_rep0 p : matches_term (Rep p) []
| mt_rep1 p w1 w2 : matches p w1 -> matches_term (Rep p) w2 -> matches_term (Rep p) (w1 ++ w2)
| mt_grp p w : matches p w -> matches_term (Grp p) w.

Scheme matches_mind := Minimality for matches Sort Prop
  with matches_alt_mind := Minimality for matches_alt Sort Prop
  with matches_term_mind := Minimality for matches_term Sort Prop.
Combined Scheme matches_mutind from matches_mind, matches_alt_mind, matches_term_mind.
