(** An EXECUTABLE model of gocc's lexer generator (internal/lexer/items: item sets of the
    "generalised subset algorithm"), for every lexical grammar.  Definitions only
    (proofs: LexGenProofs.v).

    Go sources modelled:
      - internal/ast/lexinline.go       InlineRegDefs                      -> [Pattern.expand]
      - internal/lexer/items/item.go    basic items, Emoves, Move/MoveDot  -> [firstpos], [build] (follow sets)
      - internal/lexer/items/itemset.go getSymbolClasses, Next, NextDot,
                                        Action                             -> [ops], [Ranges.classes], [move_cls],
                                                                              [move_dot], [accept_code]
      - internal/lexer/items/itemsets.go GetItemSets, Add, Closure         -> [add_state], [do_classes], [do_dot], [loop]
      - internal/lexer/gen/golang/transtab.go, acttab.go                   -> the [trow]s and accept codes

    THE ITEMS.  After the regular definitions have been inlined, a BASIC item of gocc (an item on
    which no e-move is possible) is either "T : x . c y" with c a character literal, a range or the
    dot -- its position stack is the path from the root of T's pattern to that LEAF -- or the
    reduce item "T : x ." (one per production).  An item set is a duplicate-free list of such
    items; two sets are the same state when they are equal AS SETS (ItemList.Equal).  So the model
    numbers the leaves of all token patterns (a POSITION; the reduce item of token [i] is one more
    position with the pseudo leaf [LEnd i]) and a state is the SORTED duplicate-free list of its
    positions.  [Emoves] after a move over a leaf yields the leaves that can come next (and the
    reduce item when the rest is nullable): the FOLLOW set of the position (Glushkov / Berry-Sethi),
    computed once, by structural recursion with the first-set of the continuation as a parameter
    ([build]); gocc recomputes it at every move, with a visited set because of nullable bodies.

    ORDERS.  gocc's output depends on
      - the numbering of the states: set 0; then for each set in creation order its successors on
        its symbol classes in class order, then its dot successor (reproduced by [loop]);
      - the order of the classes of a state: DisjunctRangeSet keeps them sorted, and the final
        partition does not depend on the order of the AddRange calls (reproduced with
        [Ranges.classes], the verified model of AddRange, applied in position order);
      - the order of the items inside a set: NOT reproduced (a set is sorted here); it is
        invisible in the tables, except in Action() when two STRING-LITERAL tokens reduce in the
        same set (impossible: two different literals; the model takes the first in declaration
        order, as the specification [Deriv.verdict]).

    Deliberate differences with the Go code:
      - an item matches a class when the class is inside its range ([l <= lo <= h /\ hi <= h], the
        test of Item.match for a range); for a character literal Go tests [lo = c = hi]: the
        same thing for the classes of the set, which are non-empty and inside or outside every
        expected range;
      - EMPTY ranges ('z'-'a') and patterns without alternative are REJECTED ([None]): gocc keeps
        the dead items in its sets (see the report);
      - the worklist runs on explicit fuel ([None] = out of fuel, impossible with [lex_fuel]). *)
From Coq Require Import List ZArith Bool Arith.
From Gocc Require Import Base.Ranges Lex.Scan Lex.Pattern Lex.Deriv.
Import ListNotations.

(** * Patterns as plain regular expressions (no normalisation: the leaves and their order are kept) *)
Fixpoint ralts (l : list re) : re :=
  match l with
  | [] => Emp
  | a :: l' => match l' with [] => a | _ => Alt a (ralts l') end
  end.
Definition rseqs (l : list re) : re := fold_right Seq Eps l.

Fixpoint raw_t (t : term) : re :=
  match t with
  | Chr c => Sym c c
  | Rng lo hi => Sym lo hi
  | Dot => Any
  | Ref _ => Emp
  | Opt p => Alt Eps (ralts (map (fun a => rseqs (map raw_t a)) p))
  | Rep p => Star (ralts (map (fun a => rseqs (map raw_t a)) p))
  | Grp p => ralts (map (fun a => rseqs (map raw_t a)) p)
  end.
Definition raw_a (a : alt) : re := rseqs (map raw_t a).
Definition raw_p (p : pattern) : re := ralts (map raw_a p).

(** well-formed: no [Emp] (no pattern without alternative, no [Ref]) and no empty range *)
Fixpoint nzb (r : re) : bool :=
  match r with
  | Emp => false
  | Eps => true
  | Sym lo hi => (lo <=? hi)%Z
  | Any => true
  | Alt a b | Seq a b => nzb a && nzb b
  | Star a => nzb a
  end.

(** the same thing on the pattern: every (sub)pattern has an alternative, no range is empty, no
    regular definition is left ([nzb (raw_p p) = wf_p p], LexGenProofs.nzb_raw_p) *)
Definition nonnil {A} (l : list A) : bool := match l with [] => false | _ => true end.
Fixpoint wf_t (t : term) : bool :=
  match t with
  | Chr _ | Dot => true
  | Rng lo hi => (lo <=? hi)%Z
  | Ref _ => false
  | Opt p | Rep p | Grp p => nonnil p && forallb (forallb wf_t) p
  end.
Definition wf_p (p : pattern) : bool := nonnil p && forallb (forallb wf_t) p.

(** * Positions, first sets, follow sets *)
Inductive leaf := LSym (lo hi : Z) | LAny | LEnd (i : nat).
Definition entry := (leaf * list nat)%type.       (* the leaf of a position and its follow set *)
Definition ptable := list entry.                  (* indexed by position *)

Fixpoint nleaves (r : re) : nat :=
  match r with
  | Sym _ _ | Any => 1
  | Alt a b | Seq a b => nleaves a + nleaves b
  | Star a => nleaves a
  | _ => 0
  end.

(** the positions of [r] (numbered from [n], left to right) that can read the first character *)
Fixpoint firstpos (r : re) (n : nat) : list nat :=
  match r with
  | Sym _ _ | Any => [n]
  | Alt a b => firstpos a n ++ firstpos b (n + nleaves a)
  | Seq a b => firstpos a n ++ (if nullable a then firstpos b (n + nleaves a) else [])
  | Star a => firstpos a n
  | _ => []
  end.

(** the table entries of the leaves of [r]; [K] = the positions that can come after [r] *)
Fixpoint build (r : re) (n : nat) (K : list nat) : list entry :=
  match r with
  | Sym lo hi => [(LSym lo hi, K)]
  | Any => [(LAny, K)]
  | Alt a b => build a n K ++ build b (n + nleaves a) K
  | Seq a b =>
    let nb := (n + nleaves a)%nat in
    build a n (firstpos b nb ++ (if nullable b then K else [])) ++ build b nb K
  | Star a => build a n (firstpos a n ++ K)
  | _ => []
  end.

(** token [i], whose leaves start at [off]: its leaves, then its reduce item *)
Fixpoint blocks (rs : list re) (i off : nat) : ptable :=
  match rs with
  | [] => []
  | r :: rs' =>
    let e := (off + nleaves r)%nat in
    build r off [e] ++ (LEnd i, []) :: blocks rs' (S i) (S e)
  end.

(** ItemsSet0: the basic items of T : .x for every token *)
Fixpoint inits (rs : list re) (off : nat) : list nat :=
  match rs with
  | [] => []
  | r :: rs' =>
    let e := (off + nleaves r)%nat in
    firstpos r off ++ (if nullable r then [e] else []) ++ inits rs' (S e)
  end.

(** * States: sorted duplicate-free lists of positions *)
Fixpoint ins (x : nat) (l : list nat) : list nat :=
  match l with
  | [] => [x]
  | y :: l' =>
    match Nat.compare x y with
    | Lt => x :: l
    | Eq => l
    | Gt => y :: ins x l'
    end
  end.
Definition norm (l : list nat) : list nat := fold_right ins [] l.

Definition state := list nat.

Fixpoint state_eqb (a b : state) : bool :=
  match a, b with
  | [], [] => true
  | x :: a', y :: b' => Nat.eqb x y && state_eqb a' b'
  | _, _ => false
  end.

Section Sets.
Variable T : ptable.

(** the expected ranges of the shift items, in item order (the AddRange calls of getSymbolClasses) *)
Definition ops (P : state) : list rng :=
  flat_map (fun p => match nth_error T p with Some (LSym l h, _) => [(l, h)] | _ => [] end) P.

(** SymbolClasses.MatchAny *)
Definition hasdot (P : state) : bool :=
  existsb (fun p => match nth_error T p with Some (LAny, _) => true | _ => false end) P.

(** ItemSet.Next(rng), before normalisation *)
Definition move_cls (P : state) (c : rng) : list nat :=
  flat_map (fun p => match nth_error T p with
                     | Some (LSym l h, fol) =>
                       if ((l <=? fst c) && (fst c <=? h) && (snd c <=? h))%Z then fol else []
                     | _ => []
                     end) P.

(** ItemSet.NextDot() *)
Definition move_dot (P : state) : list nat :=
  flat_map (fun p => match nth_error T p with Some (LAny, fol) => fol | _ => [] end) P.

(** does the set contain the reduce item of token [i] *)
Definition has_end (i : nat) (P : state) : bool :=
  existsb (fun p => match nth_error T p with Some (LEnd j, _) => Nat.eqb i j | _ => false end) P.

(** ItemSet.Action + acttab.go: token type, -1 for an ignored token, 0 for none.  The priority rule
    is the one of the specification, applied to "token [i] reduces in the set". *)
Definition accept_code (ks : list tkind) (P : state) : Z :=
  verdict ks (map (fun i => if has_end i P then Eps else Emp) (seq 0 (length ks))).

(** ItemSets.Contain / Add *)
Fixpoint find_idx (P : state) (sts : list state) (i : nat) : option nat :=
  match sts with
  | [] => None
  | Q :: r => if state_eqb Q P then Some i else find_idx P r (S i)
  end.

Definition add_state (sts : list state) (P : state) : list state * nat :=
  match find_idx P sts 0 with
  | Some i => (sts, i)
  | None => (sts ++ [P], length sts)
  end.

(** a successor: -1 when the item list is empty (Go: the transition keeps its initial -1) *)
Definition add_succ (sts : list state) (Q : state) : list state * Z :=
  match Q with
  | [] => (sts, (-1)%Z)
  | _ => let '(sts', j) := add_state sts Q in (sts', Z.of_nat j)
  end.

(** the loop over the symbol classes of one set *)
Fixpoint do_classes (P : state) (cls : list rng) (sts : list state) : list state * list (Z * Z * Z) :=
  match cls with
  | [] => (sts, [])
  | c :: cls' =>
    let '(sts1, t) := add_succ sts (norm (move_cls P c)) in
    let '(sts2, cs) := do_classes P cls' sts1 in
    (sts2, (fst c, snd c, t) :: cs)
  end.

Definition do_dot (P : state) (sts : list state) : list state * Z :=
  if hasdot P then add_succ sts (norm (move_dot P)) else (sts, (-1)%Z).

(** ItemSets.Closure: the sets are processed in creation order; [rows] = rows of the processed sets *)
Fixpoint loop (fuel : nat) (sts : list state) (rows : list trow) : option (list state * list trow) :=
  match fuel with
  | O => None
  | S f =>
    match nth_error sts (length rows) with
    | None => Some (sts, rows)
    | Some P =>
      let '(sts1, cs) := do_classes P (classes (ops P)) sts in
      let '(sts2, d) := do_dot P sts1 in
      loop f sts2 (rows ++ [{| cases := cs; dflt := d |}])
    end
  end.
End Sets.

(** * The generator *)
(** kinds and raw patterns of the tokens; [None] = undefined / recursive regular definition *)
Definition lex_raws (g : lexgrammar) : option (list tkind * list re) :=
  match expand g with
  | None => None
  | Some kps => Some (map fst kps, map (fun kp => raw_p (snd kp)) kps)
  end.

Definition lex_table (rs : list re) : ptable := blocks rs 0 0.
Definition lex_state0 (rs : list re) : state := norm (inits rs 0).

(** states (item sets as position lists), transition rows, accept codes *)
Definition lexgen_full (g : lexgrammar) (fuel : nat) : option (list state * list trow * list Z) :=
  match lex_raws g with
  | None => None
  | Some (ks, rs) =>
    if forallb nzb rs then
      let T := lex_table rs in
      match loop T fuel [lex_state0 rs] [] with
      | None => None
      | Some (sts, rows) => Some (sts, rows, map (accept_code T ks) sts)
      end
    else None
  end.

Definition lexgen (g : lexgrammar) (fuel : nat) : option (list trow * list Z) :=
  match lexgen_full g fuel with
  | None => None
  | Some (_, rows, acts) => Some (rows, acts)
  end.

(** well-formed lexical grammars: what [lexgen] accepts (given enough fuel) *)
Definition lex_wf (g : lexgrammar) : bool :=
  match lex_raws g with
  | None => false
  | Some (_, rs) => forallb nzb rs
  end.

(** enough fuel: one more than the number of sets of positions *)
Definition lex_fuel (g : lexgrammar) : nat :=
  match lex_raws g with
  | None => 1
  | Some (_, rs) => S (2 ^ length (lex_table rs))
  end.
