(** Checker: the transition table / action table emitted by gocc is bisimilar to the derivative
    automaton of the grammar (the definitional tokenizer of Deriv.v).

    It explores pairs (gocc state number, derivative state) from (0, S0).  For a pair it tries ONE
    representative rune per cell of the partition of [0, 0x10FFFF] induced by the case ranges of the
    gocc row and by the [Sym] leaves in first position of the derivative state: the representatives
    are 0 and, for every such range lo..hi, the runes lo and hi+1 (those that are in [0, 0x10FFFF]);
    every rune c has the same membership in all these ranges as the largest representative <= c.
    For each representative both sides must be dead, or both live with the same accept code; the
    successor pair is then explored too.

    Definitions only (extracted to OCaml); soundness is in BisimProofs.v. *)
From Coq Require Import List ZArith Bool.
From Gocc Require Import Base.Utf8 Lex.Scan Lex.Pattern Lex.Deriv.
Import ListNotations.
Open Scope Z_scope.

Definition MAXRUNE : Z := 1114111.   (* 0x10FFFF *)
Definition in_unicode (c : Z) : bool := (0 <=? c) && (c <=? MAXRUNE).

Definition pair := (Z * dstate)%type.

Fixpoint dstate_eqb (a b : dstate) : bool :=
  match a, b with
  | [], [] => true
  | x :: a', y :: b' => if re_eqb x y then dstate_eqb a' b' else false
  | _, _ => false
  end.
Definition pair_eqb (p q : pair) : bool :=
  if fst p =? fst q then dstate_eqb (snd p) (snd q) else false.
Definition mem (p : pair) (l : list pair) : bool := existsb (pair_eqb p) l.

Definition row_cases (rows : list trow) (q : Z) : list (Z * Z * Z) :=
  match nth_error rows (Z.to_nat q) with Some rw => cases rw | None => [] end.

Fixpoint dedup (l : list Z) : list Z :=
  match l with
  | [] => []
  | x :: t => if existsb (Z.eqb x) t then dedup t else x :: dedup t
  end.

(** all ranges tested by either side in the pair (row cases, derivative state) *)
Definition ranges (cs : list (Z * Z * Z)) (S : dstate) : list (Z * Z) :=
  map fst cs ++ flat_map firstsyms S.

Definition bounds (cs : list (Z * Z * Z)) (S : dstate) : list Z :=
  0 :: flat_map (fun lh => [fst lh; snd lh + 1]) (ranges cs S).

Definition reps (cs : list (Z * Z * Z)) (S : dstate) : list Z :=
  dedup (filter in_unicode (bounds cs S)).

Section Explore.
Variable d : dfa.
Variable ks : list tkind.

(** one representative rune: agreement of the two sides; the successor pair if both are live *)
Inductive outcome := Bad | BothDead | BothLive (p : pair).

Definition try_rune (q : Z) (S : dstate) (b : Z) : outcome :=
  let n := trans d q b in
  let S' := dstep S b in
  if n =? -1 then (if live S' then Bad else BothDead)
  else if live S' then (if accept d n =? verdict ks S' then BothLive (n, S') else Bad)
  else Bad.

Fixpoint check_reps (q : Z) (S : dstate) (rs : list Z) (acc : list pair) : option (list pair) :=
  match rs with
  | [] => Some acc
  | b :: rs' =>
    match try_rune q S b with
    | Bad => None
    | BothDead => check_reps q S rs' acc
    | BothLive p => check_reps q S rs' (if mem p acc then acc else p :: acc)
    end
  end.

Definition succs (rows : list trow) (p : pair) : option (list pair) :=
  check_reps (fst p) (snd p) (reps (row_cases rows (fst p)) (snd p)) [].

(** worklist exploration; [fuel] bounds the number of DISTINCT pairs expanded;
    [Some seen] = closed, [None] = a disagreement was found or the fuel ran out *)
Fixpoint explore (rows : list trow) (fuel : nat) {struct fuel} : list pair -> list pair -> option (list pair) :=
  fix go (todo seen : list pair) {struct todo} : option (list pair) :=
    match todo with
    | [] => Some seen
    | p :: todo' =>
      if mem p seen then go todo' seen
      else
        match fuel with
        | O => None
        | S f =>
          match succs rows p with
          | None => None
          | Some ps => explore rows f (ps ++ todo') (p :: seen)
          end
        end
    end.
End Explore.

Definition bisim_check (rows : list trow) (acts : list Z) (g : lexgrammar) (fuel : nat) : bool :=
  match dinit g with
  | None => false
  | Some (ks, S0) =>
    match explore (table_dfa rows acts) ks rows fuel [(0, S0)] [] with
    | Some _ => true
    | None => false
    end
  end.

(** ** Diagnostic twin of the checker (not used by the soundness theorem): the same exploration,
    carrying for each pair the word of representative runes that reaches it (last rune first),
    and reporting the first disagreement. *)
Inductive report :=
| Closed (npairs : nat)
| NoFuel (npairs : nat)
| BadGrammar                                             (* recursive / undefined regular definition *)
| AcceptMismatch (path : list Z) (gocc_state gocc_accept model_accept : Z)
| LiveMismatch (path : list Z) (gocc_state gocc_next : Z) (model_live : bool).

Section Diag.
Variable d : dfa.
Variable ks : list tkind.

Fixpoint diag_reps (path : list Z) (q : Z) (S : dstate) (rs : list Z) (acc : list (list Z * pair))
  : report + list (list Z * pair) :=
  match rs with
  | [] => inr acc
  | b :: rs' =>
    let n := trans d q b in
    let S' := dstep S b in
    if n =? -1 then
      if live S' then inl (LiveMismatch (b :: path) q n true) else diag_reps path q S rs' acc
    else if live S' then
      if accept d n =? verdict ks S' then
        diag_reps path q S rs' (if existsb (fun e => pair_eqb (n, S') (snd e)) acc then acc
                                else (b :: path, (n, S')) :: acc)
      else inl (AcceptMismatch (b :: path) n (accept d n) (verdict ks S'))
    else inl (LiveMismatch (b :: path) q n false)
  end.

Fixpoint diag_explore (rows : list trow) (fuel : nat) {struct fuel}
  : list (list Z * pair) -> list pair -> report :=
  fix go (todo : list (list Z * pair)) (seen : list pair) {struct todo} : report :=
    match todo with
    | [] => Closed (length seen)
    | (path, p) :: todo' =>
      if mem p seen then go todo' seen
      else
        match fuel with
        | O => NoFuel (length seen)
        | S f =>
          match diag_reps path (fst p) (snd p) (reps (row_cases rows (fst p)) (snd p)) [] with
          | inl r => r
          | inr ps => diag_explore rows f (ps ++ todo') (p :: seen)
          end
        end
    end.
End Diag.

Definition bisim_diag (rows : list trow) (acts : list Z) (g : lexgrammar) (fuel : nat) : report :=
  match dinit g with
  | None => BadGrammar
  | Some (ks, S0) => diag_explore (table_dfa rows acts) ks rows fuel [([], (0, S0))] []
  end.
