(** Proofs about the Scan model: positions, tiling, termination (C08), history independence
    of Reset (C16, lexer half).  For every DFA, every decoder making progress, every source. *)
From Coq Require Import List ZArith Lia Bool.
From Gocc Require Import Lex.Scan.
Import ListNotations.
Open Scope Z_scope.

(** ** Definitional position functions of the property *)

(** number of newlines among the runes before a position *)
Fixpoint count_nl (rs : list Z) : Z :=
  match rs with [] => 0 | r :: t => (if r =? 10 then 1 else 0) + count_nl t end.

(** advance of one character: four per tab, one per other character *)
Definition width (r : Z) : Z := if r =? 9 then 4 else 1.
Fixpoint widths (rs : list Z) : Z := match rs with [] => 0 | r :: t => width r + widths t end.
Definition is_break (r : Z) : bool := (r =? 10) || (r =? 13).

(** the runes after the last carriage return or newline *)
Fixpoint since_break (rs : list Z) : list Z :=
  match rs with
  | [] => []
  | r :: t => if existsb is_break t then since_break t
              else if is_break r then t else r :: t
  end.

Definition line_of (rs : list Z) : Z := 1 + count_nl rs.
Definition col_of (rs : list Z) : Z := 1 + widths (since_break rs).

(** The fold the implementation performs agrees with the definitional functions. *)
Lemma count_nl_app a b : count_nl (a ++ b) = count_nl a + count_nl b.
Proof. induction a as [|x a IH]; cbn [count_nl app]; [reflexivity|]. rewrite IH. lia. Qed.

Lemma widths_app a b : widths (a ++ b) = widths a + widths b.
Proof. induction a as [|x a IH]; cbn [widths app]; [reflexivity|]. rewrite IH. lia. Qed.

Lemma line_of_snoc rs r : line_of (rs ++ [r]) = adv_line r (line_of rs).
Proof.
  unfold line_of, adv_line. rewrite count_nl_app. cbn [count_nl]. destruct (r =? 10); lia.
Qed.

Lemma since_break_snoc rs r :
  since_break (rs ++ [r]) = if is_break r then [] else since_break rs ++ [r].
Proof.
  induction rs as [|x rs IH]; simpl.
  - destruct (is_break r); reflexivity.
  - rewrite existsb_app. simpl. rewrite orb_false_r.
    destruct (is_break r) eqn:Er.
    + rewrite orb_true_r. exact IH.
    + rewrite orb_false_r. destruct (existsb is_break rs) eqn:Eb.
      * exact IH.
      * destruct (is_break x); reflexivity.
Qed.

Lemma col_of_snoc rs r : col_of (rs ++ [r]) = adv_col r (col_of rs).
Proof.
  unfold col_of, adv_col. rewrite since_break_snoc. unfold is_break.
  destruct (r =? 10) eqn:E1; [reflexivity|].
  destruct (r =? 13) eqn:E2; [reflexivity|]. cbn [orb].
  rewrite widths_app. cbn [widths]. unfold width. destruct (r =? 9); lia.
Qed.

Section ScanProofs.
Variable decode : list Z -> Z * nat.
Variable d : dfa.

(** the only thing assumed of the decoder: it makes progress inside the input *)
Hypothesis decode_progress : forall bs r sz, bs <> [] -> decode bs = (r, sz) ->
  (1 <= sz <= length bs)%nat.

(** [Boundary src pre rs]: [pre] is a prefix of [src] ending at a character boundary of the
    iterated decoding of [src] from its start, and [rs] are the characters decoded in it. *)
Inductive Boundary (src : list Z) : list Z -> list Z -> Prop :=
| B0 : Boundary src [] []
| BS pre rs rst r sz : Boundary src pre rs -> src = pre ++ rst -> rst <> [] -> decode rst = (r, sz) ->
    Boundary src (pre ++ firstn sz rst) (rs ++ [r]).

(** a lexer state is consistent with [src] *)
Definition Good (src : list Z) (l : lst) : Prop :=
  exists pre rs, Boundary src pre rs /\ src = pre ++ rest l /\ off l = Z.of_nat (length pre) /\
                 line l = line_of rs /\ col l = col_of rs.

Lemma Good_init src : Good src (init src).
Proof. exists [], []. repeat split; try constructor. Qed.

Lemma firstn_length_le' {A} (l : list A) n : (n <= length l)%nat -> length (firstn n l) = n.
Proof. apply firstn_length_le. Qed.

Lemma consume_Good src l r sz :
  Good src l -> rest l <> [] -> decode (rest l) = (r, sz) -> Good src (consume r sz l).
Proof.
  intros (pre & rs & HB & Hsrc & Hoff & Hl & Hc) Hne Hd.
  pose proof (decode_progress _ _ _ Hne Hd) as Hsz.
  exists (pre ++ firstn sz (rest l)), (rs ++ [r]). unfold consume; simpl. repeat split.
  - econstructor; eauto.
  - rewrite <- app_assoc, firstn_skipn. exact Hsrc.
  - rewrite app_length, firstn_length_le by lia. lia.
  - rewrite line_of_snoc, Hl. reflexivity.
  - rewrite col_of_snoc, Hc. reflexivity.
Qed.

Lemma consume_rest l r sz : rest (consume r sz l) = skipn sz (rest l).
Proof. reflexivity. Qed.

(** a token is positioned exactly *)
Definition TokPos (src : list Z) (t : tok) : Prop :=
  exists pre rs post, Boundary src pre rs /\ src = pre ++ lit t ++ post /\
    toff t = Z.of_nat (length pre) /\ tline t = line_of rs /\ tcol t = col_of rs.

(** ** The loop *)
Lemma loop_spec src : forall fuel state cur start acc ttype skip l0 t l',
  Good src cur -> Good src start ->
  rest start = acc ++ rest cur ->
  rest l0 = skip ++ rest start ->
  off start = off l0 + Z.of_nat (length skip) ->
  loop decode d fuel state cur start acc ttype skip = Some (t, l') ->
  Good src l' /\ TokPos src t /\ rest l0 = skipped t ++ lit t ++ rest l' /\
  toff t = off l0 + Z.of_nat (length (skipped t)).
Proof.
  induction fuel as [|fuel IH]; intros state cur start acc ttype skip l0 t l' Hcur Hstart Hacc Hskip Hoff Hrun;
    [discriminate|].
  cbn [loop] in Hrun.
  assert (Htok : forall ty' lit' rest',
            rest start = lit' ++ rest' ->
            TokPos src {| ty := ty'; lit := lit'; toff := off start; tline := line start; tcol := col start;
                          skipped := skip |}).
  { intros ty' lit' rest' Hr. destruct Hstart as (pre & rs & HB & Hsrc & Ho & Hl & Hc).
    exists pre, rs, rest'. simpl. repeat split; auto. rewrite Hsrc, Hr. reflexivity. }
  destruct (rest cur) as [|b bs] eqn:Hrest.
  - (* input exhausted *)
    inversion Hrun; subst t l'; clear Hrun. simpl. repeat split; auto.
    + apply (Htok _ _ []). rewrite Hacc. reflexivity.
    + rewrite Hskip, Hacc, Hrest. reflexivity.
  - rewrite <- Hrest in *.
    assert (Hne : rest cur <> []) by (rewrite Hrest; discriminate).
    destruct (decode (rest cur)) as [r sz] eqn:Hd.
    pose proof (decode_progress _ _ _ Hne Hd) as Hsz.
    pose proof (consume_Good src cur r sz Hcur Hne Hd) as Hcur'.
    destruct (trans d state r =? -1) eqn:Hdead.
    + destruct (ttype =? INVALID) eqn:Hty.
      * inversion Hrun; subst t l'; clear Hrun. simpl. repeat split; auto.
        -- apply (Htok _ _ (skipn sz (rest cur))). rewrite Hacc, <- app_assoc, firstn_skipn. reflexivity.
        -- rewrite Hskip, Hacc, <- app_assoc, firstn_skipn. reflexivity.
      * inversion Hrun; subst t l'; clear Hrun. simpl. repeat split; auto.
        -- apply (Htok _ _ (rest cur)). exact Hacc.
        -- rewrite Hskip, Hacc. reflexivity.
    + destruct (negb (accept d (trans d state r) =? -1)) eqn:Hacc'.
      * eapply IH; [exact Hcur'|exact Hstart| |exact Hskip|exact Hoff|exact Hrun].
        rewrite consume_rest, Hacc, <- app_assoc, firstn_skipn. reflexivity.
      * eapply IH; [exact Hcur'|exact Hcur'| | | |exact Hrun].
        -- reflexivity.
        -- rewrite consume_rest, Hskip, Hacc, <- !app_assoc, firstn_skipn. reflexivity.
        -- (* offsets *)
           assert (Hlen : off cur = off start + Z.of_nat (length acc)).
           { destruct Hcur as (p1 & r1 & _ & Hs1 & Ho1 & _). destruct Hstart as (p2 & r2 & _ & Hs2 & Ho2 & _).
             rewrite Hacc in Hs2. rewrite Hs1, app_assoc in Hs2. apply app_inv_tail in Hs2. subst p1.
             rewrite Ho1, Ho2, app_length. lia. }
           unfold consume; simpl. rewrite !app_length, firstn_length_le by lia. lia.
Qed.

Lemma loop_fuel : forall fuel state cur start acc ttype skip,
  (length (rest cur) < fuel)%nat ->
  loop decode d fuel state cur start acc ttype skip <> None.
Proof.
  induction fuel as [|fuel IH]; intros state cur start acc ttype skip Hlen; [lia|].
  cbn [loop]. destruct (rest cur) as [|b bs] eqn:Hrest; [discriminate|].
  rewrite <- Hrest in *. assert (Hne : rest cur <> []) by (rewrite Hrest; discriminate).
  destruct (decode (rest cur)) as [r sz] eqn:Hd.
  pose proof (decode_progress _ _ _ Hne Hd) as Hsz.
  destruct (trans d state r =? -1); [destruct (ttype =? INVALID); discriminate|].
  assert (Hl : (length (rest (consume r sz cur)) < fuel)%nat).
  { rewrite consume_rest, skipn_length. lia. }
  destruct (negb (accept d (trans d state r) =? -1)); apply IH; exact Hl.
Qed.

(** ** One call of Scan *)
Theorem scan_total l : scan decode d l <> None.
Proof.
  unfold scan. destruct (rest l) eqn:E; [discriminate|]. rewrite <- E. apply loop_fuel. lia.
Qed.

Theorem scan_spec src l t l' :
  Good src l -> scan decode d l = Some (t, l') ->
  Good src l' /\ TokPos src t /\ rest l = skipped t ++ lit t ++ rest l' /\
  toff t = off l + Z.of_nat (length (skipped t)).
Proof.
  intros HG Hs. unfold scan in Hs. destruct (rest l) as [|b bs] eqn:E.
  - inversion Hs; subst t l'; clear Hs. simpl. split; [exact HG|]. split; [|split; [symmetry; exact E|lia]].
    destruct HG as (pre & rs & HB & Hsrc & Ho & Hl & Hc). exists pre, rs, []. simpl.
    repeat split; auto. rewrite Hsrc, E. reflexivity.
  - rewrite <- E in *. eapply (loop_spec src); try exact Hs; auto; simpl; try reflexivity. lia.
Qed.

(** once the input is exhausted the state no longer changes and the token is EOF at the same place *)
Theorem scan_eof_sticky l : rest l = [] ->
  scan decode d l = Some ({| ty := EOF; lit := []; toff := off l; tline := line l; tcol := col l; skipped := [] |}, l).
Proof. intros H. unfold scan. rewrite H. reflexivity. Qed.

(** a token of type EOF is only produced at the end of the input (when no state accepts with that type) *)
Lemma loop_eof_at_end : (forall s, accept d s <> EOF) ->
  forall fuel state cur start acc ttype skip t l',
  (ttype = EOF -> rest cur = []) ->
  loop decode d fuel state cur start acc ttype skip = Some (t, l') -> ty t = EOF -> rest l' = [].
Proof.
  intros Hnoeof. induction fuel as [|fuel IH]; intros state cur start acc ttype skip t l' Hty Hrun Ht; [discriminate|].
  cbn [loop] in Hrun. destruct (rest cur) as [|b bs] eqn:Hrest.
  - inversion Hrun; subst; simpl in *. exact Hrest.
  - rewrite <- Hrest in *. destruct (decode (rest cur)) as [r sz] eqn:Hd.
    destruct (trans d state r =? -1).
    + destruct (ttype =? INVALID) eqn:E; inversion Hrun; subst; simpl in *; [discriminate|].
      specialize (Hty Ht). rewrite Hty in Hrest. discriminate.
    + destruct (negb (accept d (trans d state r) =? -1)).
      * eapply IH; [|exact Hrun|exact Ht]. intros He. exfalso. exact (Hnoeof _ He).
      * eapply IH; [|exact Hrun|exact Ht]. destruct (rest (consume r sz cur)); [reflexivity|discriminate].
Qed.

Theorem scan_eof_only_at_end l t l' : (forall s, accept d s <> EOF) ->
  scan decode d l = Some (t, l') -> ty t = EOF -> rest l' = [] /\ lit t = [].
Proof.
  intros Hno Hs Ht. unfold scan in Hs. destruct (rest l) as [|b bs] eqn:E.
  - inversion Hs; subst; simpl. auto.
  - rewrite <- E in *. split.
    + eapply loop_eof_at_end; eauto. discriminate.
    + (* literal empty: only the restart-at-end path yields EOF *)
      clear E. revert Hs Ht. generalize (S (length (rest l))) as fuel.
      assert (forall fuel state cur start acc ttype skip t l',
                (ttype = EOF -> acc = []) ->
                loop decode d fuel state cur start acc ttype skip = Some (t, l') -> ty t = EOF -> lit t = []) as Hgen.
      { induction fuel as [|fuel IH]; intros state cur start acc ttype skip t0 l0 Hty Hrun Ht0; [discriminate|].
        cbn [loop] in Hrun. destruct (rest cur) as [|b' bs'] eqn:Hrest.
        - inversion Hrun; subst; simpl in *. auto.
        - rewrite <- Hrest in *. destruct (decode (rest cur)) as [r sz] eqn:Hd.
          destruct (trans d state r =? -1).
          + destruct (ttype =? INVALID) eqn:E; inversion Hrun; subst; simpl in *; [discriminate|auto].
          + destruct (negb (accept d (trans d state r) =? -1)).
            * eapply IH; [|exact Hrun|exact Ht0]. intros He. exfalso. exact (Hno _ He).
            * eapply IH; [|exact Hrun|exact Ht0]. reflexivity. }
      intros fuel Hs Ht. eapply Hgen; [|exact Hs|exact Ht]. reflexivity.
Qed.

(** ** Every prefix of the token stream *)

(** offsets chain: each literal starts where the previous lexeme ended plus the ignored text *)
Fixpoint tiles (o : Z) (ts : list tok) : Prop :=
  match ts with
  | [] => True
  | t :: ts' => toff t = o + Z.of_nat (length (skipped t)) /\ tiles (toff t + Z.of_nat (length (lit t))) ts'
  end.

Definition pieces (ts : list tok) : list Z := concat (map (fun t => skipped t ++ lit t) ts).

Theorem scan_n_total k l : scan_n decode d k l <> None.
Proof.
  revert l. induction k as [|k IH]; intros l; simpl; [discriminate|].
  destruct (scan decode d l) as [[t l']|] eqn:E; [|exfalso; exact (scan_total l E)].
  destruct (scan_n decode d k l') as [[ts l'']|] eqn:E2; [discriminate|exfalso; exact (IH l' E2)].
Qed.

Theorem scan_n_spec src : forall k l ts l',
  Good src l -> scan_n decode d k l = Some (ts, l') ->
  Good src l' /\ Forall (TokPos src) ts /\ rest l = pieces ts ++ rest l' /\ tiles (off l) ts /\
  off l' = off l + Z.of_nat (length (pieces ts)).
Proof.
  induction k as [|k IH]; intros l ts l' HG Hrun; simpl in Hrun.
  - inversion Hrun; subst. simpl. repeat split; auto. lia.
  - destruct (scan decode d l) as [[t l1]|] eqn:E; [|discriminate].
    destruct (scan_n decode d k l1) as [[ts1 l2]|] eqn:E2; [|discriminate].
    inversion Hrun; subst ts l'; clear Hrun.
    destruct (scan_spec src l t l1 HG E) as (HG1 & HT & Hrest & Hoff).
    destruct (IH l1 ts1 l2 HG1 E2) as (HG2 & HF & Hrest2 & Htiles & Hoff2).
    assert (Hoff1 : off l1 = toff t + Z.of_nat (length (lit t))).
    { destruct HG as (p & r & _ & Hs & Ho & _). destruct HG1 as (p1 & r1 & _ & Hs1 & Ho1 & _).
      rewrite Hrest in Hs. rewrite Hs, !app_assoc in Hs1. apply app_inv_tail in Hs1. subst p1.
      rewrite Ho1, Hoff, Ho, !app_length. lia. }
    repeat split; auto.
    + unfold pieces in *. simpl. rewrite Hrest, Hrest2, <- !app_assoc. reflexivity.
    + rewrite <- Hoff1. exact Htiles.
    + unfold pieces in *. simpl. rewrite !app_length. rewrite Hoff2, Hoff1, Hoff. lia.
Qed.

End ScanProofs.

(** ** The concrete decoder makes progress *)
From Gocc Require Import Base.Utf8.

Lemma decode_rune_progress : forall bs r sz, bs <> [] -> decode_rune bs = (r, sz) ->
  (1 <= sz <= length bs)%nat.
Proof.
  intros bs r sz Hne H. destruct bs as [|b0 t]; [congruence|]. unfold decode_rune in H.
  repeat match type of H with
  | (if ?c then _ else _) = _ => destruct c
  | match ?l with [] => _ | _ :: _ => _ end = _ => destruct l
  | (_, _) = (_, _) => inversion H; subst; clear H
  end; simpl; lia.
Qed.

Lemma decode_rune_nonneg : forall bs, (forall b, In b bs -> 0 <= b <= 255) -> 0 <= fst (decode_rune bs).
Proof.
  intros bs Hb. destruct bs as [|b0 t]; [simpl; unfold rune_error; lia|].
  pose proof (Hb b0 (or_introl eq_refl)) as H0.
  unfold decode_rune, in_rng, cont.
  repeat match goal with
  | |- context [if ?c then _ else _] => let E := fresh "E" in destruct c eqn:E
  | |- context [match ?l with [] => _ | _ :: _ => _ end] => destruct l
  end; simpl; unfold rune_error; try lia; unfold in_rng, cont in *;
  repeat match goal with
  | H : _ && _ = true |- _ => apply andb_prop in H; destruct H
  | H : (_ <=? _) = true |- _ => apply Z.leb_le in H
  | H : (_ <? _) = true |- _ => apply Z.ltb_lt in H
  | H : (_ <? _) = false |- _ => apply Z.ltb_ge in H
  end; try lia.
Qed.
