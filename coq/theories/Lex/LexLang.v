(** Languages of residuals over LETTERS (rune, dot-flag): the semantic domain in which the
    position automaton of LexGen.v and the derivative automaton of Deriv.v are compared.

    A letter [(c, d)] is the rune [c] read in a state where the contextual dot may move iff [d].
    [Sym lo hi] matches [(c, d)] iff [lo <= c <= hi]; [Any] matches [(c, d)] iff [d = true].
    With this reading [Deriv.deriv dot r c] is exactly the Brzozowski derivative by [(c, dot)]
    ([deriv_lang2], no side condition), which generalises [DerivProofs.deriv_lang]. *)
From Coq Require Import List ZArith Lia Bool Setoid.
From Gocc Require Import Base.Utf8 Lex.Scan Lex.Pattern Lex.Deriv Lex.DerivProofs.
Import ListNotations.
Open Scope Z_scope.

Definition letter := (Z * bool)%type.

Inductive lang2 : re -> list letter -> Prop :=
| l2_eps : lang2 Eps []
| l2_sym lo hi c d : lo <= c <= hi -> lang2 (Sym lo hi) [(c, d)]
| l2_any c : lang2 Any [(c, true)]
| l2_altl a b w : lang2 a w -> lang2 (Alt a b) w
| l2_altr a b w : lang2 b w -> lang2 (Alt a b) w
| l2_seq a b w1 w2 : lang2 a w1 -> lang2 b w2 -> lang2 (Seq a b) (w1 ++ w2)
| l2_star0 a : lang2 (Star a) []
| l2_star1 a w1 w2 : lang2 a w1 -> lang2 (Star a) w2 -> lang2 (Star a) (w1 ++ w2).

Definition seqL2 (a b : re) (w : list letter) : Prop :=
  exists w1 w2, w = w1 ++ w2 /\ lang2 a w1 /\ lang2 b w2.

Lemma lang2_Emp w : lang2 Emp w <-> False.
Proof. split; [intros H; inversion H|tauto]. Qed.
Lemma lang2_Eps w : lang2 Eps w <-> w = [].
Proof. split; [intros H; inversion H; reflexivity|intros ->; constructor]. Qed.
Lemma lang2_Sym lo hi w : lang2 (Sym lo hi) w <-> exists c d, w = [(c, d)] /\ lo <= c <= hi.
Proof.
  split; [intros H; inversion H; subst; eauto|intros (c & d & -> & H); constructor; exact H].
Qed.
Lemma lang2_Any w : lang2 Any w <-> exists c, w = [(c, true)].
Proof. split; [intros H; inversion H; subst; eauto|intros (c & ->); constructor]. Qed.
Lemma lang2_Alt a b w : lang2 (Alt a b) w <-> lang2 a w \/ lang2 b w.
Proof. split; [intros H; inversion H; auto|intros [H|H]; [apply l2_altl|apply l2_altr]; exact H]. Qed.
Lemma lang2_Seq a b w : lang2 (Seq a b) w <-> seqL2 a b w.
Proof.
  split; [intros H; inversion H; subst; exists w1, w2; auto|intros (w1 & w2 & -> & H1 & H2); constructor; auto].
Qed.

Lemma star2_app a w1 w2 : lang2 (Star a) w1 -> lang2 (Star a) w2 -> lang2 (Star a) (w1 ++ w2).
Proof.
  intros H1 H2. remember (Star a) as r eqn:Er. induction H1; inversion Er; subst; simpl; auto.
  rewrite <- app_assoc. apply l2_star1; auto.
Qed.

Lemma star2_nil_only a w : (forall v, lang2 a v -> v = []) -> lang2 (Star a) w -> w = [].
Proof.
  intros Ha H. remember (Star a) as r eqn:Er. induction H; inversion Er; subst; auto.
  rewrite (Ha _ H), IHlang2_2; auto.
Qed.

Lemma star2_star a w : lang2 (Star (Star a)) w -> lang2 (Star a) w.
Proof.
  intros H. remember (Star (Star a)) as r eqn:Er. induction H; inversion Er; subst.
  - constructor.
  - apply star2_app; auto.
Qed.

Lemma star2_cons a c w : lang2 (Star a) (c :: w) <->
  exists w1 w2, w = w1 ++ w2 /\ lang2 a (c :: w1) /\ lang2 (Star a) w2.
Proof.
  split.
  - intros H. remember (Star a) as r eqn:Er. remember (c :: w) as u eqn:Eu.
    revert w Eu. induction H; intros w' Eu; inversion Er; subst; try discriminate.
    destruct w1 as [|x w1]; simpl in Eu.
    + apply IHlang2_2; auto.
    + inversion Eu; subst. exists w1, w2. auto.
  - intros (w1 & w2 & -> & H1 & H2). change (c :: w1 ++ w2) with ((c :: w1) ++ w2). apply l2_star1; auto.
Qed.

Lemma seq2_cons a b c w : lang2 (Seq a b) (c :: w) <->
  (exists w1 w2, w = w1 ++ w2 /\ lang2 a (c :: w1) /\ lang2 b w2) \/ (lang2 a [] /\ lang2 b (c :: w)).
Proof.
  rewrite lang2_Seq. split.
  - intros (u1 & u2 & E & H1 & H2). destruct u1 as [|x u1]; simpl in E.
    + right. subst. auto.
    + inversion E; subst. left. exists u1, u2. auto.
  - intros [(w1 & w2 & -> & H1 & H2)|[H1 H2]].
    + exists (c :: w1), w2. auto.
    + exists [], (c :: w). auto.
Qed.

(** ** The smart constructors preserve the language *)
Lemma alt_insert_lang2 x : forall b w, lang2 (alt_insert x b) w <-> lang2 x w \/ lang2 b w.
Proof.
  induction b; intros w; simpl;
    try (destruct (re_cmp x _) eqn:E; [apply re_cmp_eq in E; subst| |]; rewrite ?lang2_Alt; tauto).
  - rewrite lang2_Emp. tauto.
  - destruct (re_cmp x b1) eqn:E.
    + apply re_cmp_eq in E. subst. rewrite lang2_Alt. tauto.
    + rewrite !lang2_Alt. tauto.
    + rewrite !lang2_Alt, IHb2. tauto.
Qed.

Lemma mkAlt_lang2 : forall a b w, lang2 (mkAlt a b) w <-> lang2 a w \/ lang2 b w.
Proof.
  induction a; intros b w; simpl; try apply alt_insert_lang2.
  - rewrite lang2_Emp. tauto.
  - rewrite alt_insert_lang2, IHa2, lang2_Alt. tauto.
Qed.

Lemma mkSeq_lang2 a b w : lang2 (mkSeq a b) w <-> seqL2 a b w.
Proof.
  assert (HEl : forall b, seqL2 Emp b w <-> False).
  { intros b'. split; [intros (w1 & w2 & _ & H & _); inversion H|tauto]. }
  assert (HEr : forall a, seqL2 a Emp w <-> False).
  { intros a'. split; [intros (w1 & w2 & _ & _ & H); inversion H|tauto]. }
  assert (H1l : forall b, seqL2 Eps b w <-> lang2 b w).
  { intros b'. split.
    - intros (w1 & w2 & -> & H1 & H2). inversion H1; subst. exact H2.
    - intros H. exists [], w. repeat split; auto. constructor. }
  assert (H1r : forall a, seqL2 a Eps w <-> lang2 a w).
  { intros a'. split.
    - intros (w1 & w2 & -> & H1 & H2). inversion H2; subst. rewrite app_nil_r. exact H1.
    - intros H. exists w, []. rewrite app_nil_r. repeat split; auto. constructor. }
  destruct a, b; simpl;
    first [ rewrite HEl, lang2_Emp; reflexivity
          | rewrite HEr, lang2_Emp; reflexivity
          | rewrite H1l; reflexivity
          | rewrite H1r; reflexivity
          | apply lang2_Seq ].
Qed.

Lemma seqL2_alt a1 a2 b w : seqL2 (Alt a1 a2) b w <-> seqL2 a1 b w \/ seqL2 a2 b w.
Proof.
  unfold seqL2. split.
  - intros (w1 & w2 & E & H1 & H2). apply lang2_Alt in H1. destruct H1; [left|right]; eauto.
  - intros [(w1 & w2 & E & H1 & H2)|(w1 & w2 & E & H1 & H2)]; exists w1, w2; rewrite lang2_Alt; auto.
Qed.

Lemma seqL2_assoc a1 a2 b w : seqL2 (Seq a1 a2) b w <-> exists w1 w2, w = w1 ++ w2 /\ lang2 a1 w1 /\ seqL2 a2 b w2.
Proof.
  split.
  - intros (u & w3 & -> & H1 & H3). apply lang2_Seq in H1. destruct H1 as (w1 & w2 & -> & H1 & H2).
    exists w1, (w2 ++ w3). rewrite app_assoc. repeat split; auto. exists w2, w3. auto.
  - intros (w1 & u & -> & H1 & (w2 & w3 & -> & H2 & H3)). exists (w1 ++ w2), w3.
    rewrite app_assoc. repeat split; auto. apply lang2_Seq. exists w1, w2. auto.
Qed.

Lemma cat_lang2 : forall a b w, lang2 (cat a b) w <-> seqL2 a b w.
Proof.
  induction a; intros b w; cbn [cat]; try apply mkSeq_lang2.
  - rewrite lang2_Emp. split; [tauto|intros (w1 & w2 & _ & H & _); inversion H].
  - split.
    + intros H. exists [], w. repeat split; auto. constructor.
    + intros (w1 & w2 & -> & H1 & H2). inversion H1; subst. exact H2.
  - rewrite mkAlt_lang2, IHa1, IHa2, seqL2_alt. reflexivity.
  - rewrite mkSeq_lang2, seqL2_assoc. split.
    + intros (w1 & w2 & -> & H1 & H2). exists w1, w2. rewrite <- IHa2. auto.
    + intros (w1 & w2 & -> & H1 & H2). exists w1, w2. rewrite IHa2. auto.
Qed.

Lemma mkStar_lang2 a w : lang2 (mkStar a) w <-> lang2 (Star a) w.
Proof.
  destruct a; simpl; try reflexivity.
  - rewrite lang2_Eps. split; [intros ->; constructor|].
    apply star2_nil_only. intros v H. inversion H.
  - rewrite lang2_Eps. split; [intros ->; constructor|].
    apply star2_nil_only. intros v H. inversion H. reflexivity.
  - split; [|apply star2_star]. intros H. rewrite <- (app_nil_r w). apply l2_star1; [exact H|constructor].
Qed.

Lemma mkSym_lang2 lo hi w : lang2 (mkSym lo hi) w <-> lang2 (Sym lo hi) w.
Proof.
  unfold mkSym. destruct (hi <? lo) eqn:E; [|reflexivity].
  apply Z.ltb_lt in E. rewrite lang2_Emp, lang2_Sym. split; [tauto|intros (c & d & _ & H); lia].
Qed.

(** ** Nullability and derivative *)
Lemma nullable_lang2 : forall r, nullable r = true <-> lang2 r [].
Proof.
  induction r; simpl.
  - rewrite lang2_Emp. split; [discriminate|tauto].
  - rewrite lang2_Eps. tauto.
  - rewrite lang2_Sym. split; [discriminate|intros (c & d & H & _); discriminate].
  - rewrite lang2_Any. split; [discriminate|intros (c & H); discriminate].
  - rewrite orb_true_iff, lang2_Alt, IHr1, IHr2. tauto.
  - rewrite andb_true_iff, lang2_Seq, IHr1, IHr2. split.
    + intros [H1 H2]. exists [], []. auto.
    + intros (w1 & w2 & E & H1 & H2). symmetry in E. apply app_eq_nil in E. destruct E; subst. auto.
  - split; [intros _; constructor|reflexivity].
Qed.

Theorem deriv_lang2 dot c : forall r w, lang2 (deriv dot r c) w <-> lang2 r ((c, dot) :: w).
Proof.
  induction r; intros w; simpl in *.
  - rewrite !lang2_Emp. tauto.
  - rewrite lang2_Emp, lang2_Eps. split; [tauto|discriminate].
  - rewrite lang2_Sym. unfold in_rng. destruct ((lo <=? c) && (c <=? hi)) eqn:E.
    + apply andb_prop in E. destruct E as [E1 E2]. apply Z.leb_le in E1, E2.
      rewrite lang2_Eps. split.
      * intros ->. exists c, dot. split; [reflexivity|lia].
      * intros (c' & d' & E & _). inversion E. reflexivity.
    + rewrite lang2_Emp. split; [tauto|]. intros (c' & d' & E' & H). inversion E'; subst.
      apply andb_false_iff in E. destruct E as [E|E]; apply Z.leb_gt in E; lia.
  - rewrite lang2_Any. destruct dot.
    + rewrite lang2_Eps. split; [intros ->; exists c; reflexivity|intros (c' & E); inversion E; reflexivity].
    + rewrite lang2_Emp. split; [tauto|intros (c' & E); inversion E].
  - rewrite mkAlt_lang2, lang2_Alt, IHr1, IHr2; tauto.
  - rewrite seq2_cons. destruct (nullable r1) eqn:En.
    + rewrite mkAlt_lang2, cat_lang2, IHr2. apply nullable_lang2 in En.
      split.
      * intros [(w1 & w2 & -> & Ha & Hb)|H]; [left; exists w1, w2; rewrite <- IHr1; auto|right; auto].
      * intros [(w1 & w2 & -> & Ha & Hb)|[_ H]]; [left; exists w1, w2; rewrite IHr1; auto|right; auto].
    + rewrite cat_lang2. split.
      * intros (w1 & w2 & -> & Ha & Hb). left. exists w1, w2. rewrite <- IHr1; auto.
      * intros [(w1 & w2 & -> & Ha & Hb)|[H _]]; [exists w1, w2; rewrite IHr1; auto|].
        apply nullable_lang2 in H. congruence.
  - rewrite cat_lang2, star2_cons. split.
    + intros (w1 & w2 & -> & Ha & Hb). exists w1, w2. rewrite <- IHr; auto.
    + intros (w1 & w2 & -> & Ha & Hb). exists w1, w2. rewrite IHr; auto.
Qed.

(** ** Normal residuals are inhabited; [Emp] is not *)
Lemma nz_inhabited2 : forall r, nz true r -> exists w, lang2 r w.
Proof.
  induction r; simpl; intros H.
  - contradiction.
  - exists []. constructor.
  - exists [(lo, false)]. constructor. lia.
  - exists [(0, true)]. constructor.
  - destruct H as [H1 _]. destruct (IHr1 H1) as [w Hw]. exists w. apply l2_altl. exact Hw.
  - destruct H as [H1 H2]. destruct (IHr1 H1) as [w1 Hw1]. destruct (IHr2 H2) as [w2 Hw2].
    exists (w1 ++ w2). constructor; auto.
  - exists []. constructor.
Qed.

Lemma live_iff_inhabited2 r : wfz true r -> (is_emp r = false <-> exists w, lang2 r w).
Proof.
  intros [->|H].
  - simpl. split; [discriminate|intros [w Hw]; inversion Hw].
  - split; [intros _; apply nz_inhabited2; exact H|]. intros _. destruct r; simpl in *; auto. contradiction.
Qed.

(** ** Congruences *)
Lemma star2_congr a b : (forall w, lang2 a w <-> lang2 b w) -> forall w, lang2 (Star a) w -> lang2 (Star b) w.
Proof.
  intros Hab w H. remember (Star a) as r eqn:Er. induction H; inversion Er; subst.
  - constructor.
  - constructor; [apply Hab; exact H|auto].
Qed.

Lemma star2_ext a b : (forall w, lang2 a w <-> lang2 b w) -> forall w, lang2 (Star a) w <-> lang2 (Star b) w.
Proof. intros H w. split; apply star2_congr; [exact H|intros v; symmetry; apply H]. Qed.

(** a non-empty word of a star starts with a non-empty word of the body *)
Lemma star2_nonempty a w : lang2 (Star a) w -> w <> [] ->
  exists w1 w2, w = w1 ++ w2 /\ w1 <> [] /\ lang2 a w1 /\ lang2 (Star a) w2.
Proof.
  intros H. remember (Star a) as r eqn:Er. induction H; inversion Er; subst; intros Hne.
  - congruence.
  - destruct w1 as [|x w1].
    + simpl in *. apply IHlang2_2; auto.
    + exists (x :: w1), w2. repeat split; auto. discriminate.
Qed.

Print Assumptions deriv_lang2.
