(** Property C01, part (iii): what one call of Scan returns, for ANY automaton.

    - [gloop]/[gscan]/[gscan_n] over the state numbers of a [dfa] ARE [Scan.loop]/[scan]/[scan_n];
    - the inductive specification [ScanSpec] ("reads while the state stays live ...") holds of
      every result of [gscan] (hence of [Scan.scan] on gocc's tables and of the definitional
      tokenizer), and is deterministic;
    - the state reached is the iterated step function applied to the characters read. *)
From Coq Require Import List ZArith Lia Bool.
From Gocc Require Import Base.Utf8 Lex.Scan Lex.ScanProofs Lex.Pattern Lex.Deriv.
Import ListNotations.
Open Scope Z_scope.

(** ** The generalised loop instantiated with state numbers is the loop of Scan.v *)
Section Instance.
Variable decode : list Z -> Z * nat.
Variable d : dfa.

Lemma gloop_dfa : forall fuel s cur start acc ttype skip,
  gloop decode (dfa_machine d) fuel s cur start acc ttype skip
  = loop decode d fuel s cur start acc ttype skip.
Proof.
  induction fuel as [|fuel IH]; intros; [reflexivity|].
  cbn [gloop loop]. destruct (rest cur) as [|b bs] eqn:Hr; [reflexivity|].
  destruct (decode (b :: bs)) as [r sz]. cbn [dfa_machine m_step m_acc m_start].
  destruct (trans d s r =? -1) eqn:E; [reflexivity|].
  destruct (negb (accept d (trans d s r) =? -1)); apply IH.
Qed.

Theorem gscan_dfa l : gscan decode (dfa_machine d) l = scan decode d l.
Proof. unfold gscan, scan. destruct (rest l); [reflexivity|]. apply gloop_dfa. Qed.

Theorem gscan_n_dfa : forall k l, gscan_n decode (dfa_machine d) k l = scan_n decode d k l.
Proof.
  induction k as [|k IH]; intros l; [reflexivity|]. cbn [gscan_n scan_n]. rewrite gscan_dfa.
  destruct (scan decode d l) as [[t l']|]; [|reflexivity]. rewrite IH. reflexivity.
Qed.
End Instance.

(** ** The specification of one call *)
Section Spec.
Variable St : Type.
Variable decode : list Z -> Z * nat.
Variable M : machine St.

Definition mk (ty : Z) (lit : list Z) (start : lst) (skip : list Z) : tok :=
  {| ty := ty; lit := lit; toff := off start; tline := line start; tcol := col start; skipped := skip |}.

(** [Reads s l ty bs s' l' ty']: from automaton state [s] and input position [l] the bytes [bs] are
    read, character by character, each character has a transition into a state that is not an
    ignored-token state; [s'], [l'] are the state and position reached and [ty'] the accept code of
    [s'] -- or the initial [ty] when nothing was read. *)
Inductive Reads : St -> lst -> Z -> list Z -> St -> lst -> Z -> Prop :=
| R_nil s l ty : Reads s l ty [] s l ty
| R_cons s l ty r sz s1 bs s2 l2 ty2 :
    rest l <> [] -> decode (rest l) = (r, sz) -> m_step M s r = Some s1 -> m_acc M s1 <> -1 ->
    Reads s1 (consume r sz l) (m_acc M s1) bs s2 l2 ty2 ->
    Reads s l ty (firstn sz (rest l) ++ bs) s2 l2 ty2.

(** [Lexeme start skip t l']: the token [t] is what Scan returns when the lexeme starts at [start]
    after the ignored text [skip]; [l'] is the position after the call. *)
Inductive Lexeme : lst -> list Z -> tok -> lst -> Prop :=
| L_eof start skip :
    (* input exhausted: the end-of-input token, for ever *)
    rest start = [] -> Lexeme start skip (mk EOF [] start skip) start
| L_end start skip bs s cur ty :
    (* the input ends while the state is live: the token the text read matches (INVALID = 0 if none) *)
    rest start <> [] -> Reads (m_start M) start INVALID bs s cur ty -> rest cur = [] ->
    Lexeme start skip (mk ty bs start skip) cur
| L_tok start skip bs s cur ty r sz :
    (* the next character has no transition and the text read matches a token: that token, exactly that text *)
    rest start <> [] -> Reads (m_start M) start INVALID bs s cur ty -> rest cur <> [] ->
    decode (rest cur) = (r, sz) -> m_step M s r = None -> ty <> INVALID ->
    Lexeme start skip (mk ty bs start skip) cur
| L_invalid start skip bs s cur ty r sz :
    (* ... and the text read matches nothing: INVALID, which also consumes the killing character *)
    rest start <> [] -> Reads (m_start M) start INVALID bs s cur ty -> rest cur <> [] ->
    decode (rest cur) = (r, sz) -> m_step M s r = None -> ty = INVALID ->
    Lexeme start skip (mk INVALID (bs ++ firstn sz (rest cur)) start skip) (consume r sz cur)
| L_skip start skip bs s cur ty r sz s1 t l' :
    (* an ignored-token state is entered: the text is skipped at once and scanning restarts *)
    rest start <> [] -> Reads (m_start M) start INVALID bs s cur ty -> rest cur <> [] ->
    decode (rest cur) = (r, sz) -> m_step M s r = Some s1 -> m_acc M s1 = -1 ->
    Lexeme (consume r sz cur) (skip ++ bs ++ firstn sz (rest cur)) t l' ->
    Lexeme start skip t l'.

Definition ScanSpec (l : lst) (t : tok) (l' : lst) : Prop := Lexeme l [] t l'.

Lemma Reads_snoc : forall s l ty bs s1 l1 ty1, Reads s l ty bs s1 l1 ty1 ->
  forall r sz s2, rest l1 <> [] -> decode (rest l1) = (r, sz) -> m_step M s1 r = Some s2 -> m_acc M s2 <> -1 ->
  Reads s l ty (bs ++ firstn sz (rest l1)) s2 (consume r sz l1) (m_acc M s2).
Proof.
  induction 1; intros r' sz' s' Hne Hd Hs Ha.
  - rewrite <- (app_nil_r (firstn sz' (rest l))). simpl. econstructor; eauto. constructor.
  - rewrite <- app_assoc. econstructor; eauto.
Qed.

(** the loop invariant *)
Lemma gloop_Lexeme : forall fuel s cur start acc ttype skip t l',
  gloop decode M fuel s cur start acc ttype skip = Some (t, l') ->
  (rest start <> [] /\ Reads (m_start M) start INVALID acc s cur ttype) \/
  (rest start = [] /\ cur = start /\ acc = [] /\ ttype = EOF) ->
  Lexeme start skip t l'.
Proof.
  induction fuel as [|fuel IH]; intros s cur start acc ttype skip t l' Hrun Hinv; [discriminate|].
  cbn [gloop] in Hrun. destruct (rest cur) as [|b bs'] eqn:Hrest.
  - inversion Hrun; subst t l'; clear Hrun. destruct Hinv as [[Hne HR]|(He & -> & -> & ->)].
    + eapply L_end; eauto.
    + apply L_eof. exact He.
  - destruct Hinv as [[Hne HR]|(He & -> & _)]; [|congruence].
    rewrite <- Hrest in *. assert (Hcne : rest cur <> []) by (rewrite Hrest; discriminate).
    destruct (decode (rest cur)) as [r sz] eqn:Hd.
    destruct (m_step M s r) as [ns|] eqn:Hs.
    + destruct (negb (m_acc M ns =? -1)) eqn:Ha.
      * eapply IH; [exact Hrun|]. left. split; [exact Hne|].
        eapply Reads_snoc; eauto. apply negb_true_iff, Z.eqb_neq in Ha. exact Ha.
      * apply negb_false_iff, Z.eqb_eq in Ha.
        eapply L_skip; eauto. eapply IH; [exact Hrun|].
        destruct (rest (consume r sz cur)) eqn:E.
        -- right. auto.
        -- left. split; [discriminate|constructor].
    + destruct (ttype =? INVALID) eqn:Hty; inversion Hrun; subst t l'; clear Hrun.
      * apply Z.eqb_eq in Hty. eapply L_invalid; eauto.
      * apply Z.eqb_neq in Hty. eapply L_tok; eauto.
Qed.

(** every result of Scan satisfies the specification *)
Theorem gscan_ScanSpec l t l' : gscan decode M l = Some (t, l') -> ScanSpec l t l'.
Proof.
  unfold gscan, ScanSpec. destruct (rest l) as [|b bs] eqn:E; intros H.
  - injection H as <- <-. apply (L_eof l []). exact E.
  - eapply gloop_Lexeme; [exact H|]. left. split; [rewrite E; discriminate|constructor].
Qed.

(** *** Determinism *)
(** reading cannot go on from ([s], [l]) *)
Definition Stuck (s : St) (l : lst) : Prop :=
  rest l = [] \/
  exists r sz, decode (rest l) = (r, sz) /\
    (m_step M s r = None \/ exists s1, m_step M s r = Some s1 /\ m_acc M s1 = -1).

Lemma Reads_det : forall s l ty bs1 s1 l1 ty1, Reads s l ty bs1 s1 l1 ty1 ->
  forall bs2 s2 l2 ty2, Reads s l ty bs2 s2 l2 ty2 -> Stuck s1 l1 -> Stuck s2 l2 ->
  bs1 = bs2 /\ l1 = l2 /\ ty1 = ty2 /\
  (forall r, m_step M s1 r = m_step M s2 r).
Proof.
  assert (Hstuck : forall s l r sz s1, Stuck s l -> rest l <> [] -> decode (rest l) = (r, sz) ->
            m_step M s r = Some s1 -> m_acc M s1 <> -1 -> False).
  { intros s l r sz s1 [He|(r' & sz' & Hd & [Hn|(s' & Hs & Ha)])] Hne Hd' Hs' Ha'; try congruence;
      rewrite Hd in Hd'; inversion Hd'; subst; try congruence;
      rewrite Hs in Hs'; inversion Hs'; subst; congruence. }
  induction 1 as [s l ty|s l ty r sz s1 bs s2 l2 ty2 Hne Hd Hs Ha HR IH];
    intros bs2' s2' l2' ty2' HR2 Hst1 Hst2.
  - inversion HR2; subst.
    + repeat split; intros; auto.
    + exfalso. eapply Hstuck; [exact Hst1|..]; eauto.
  - inversion HR2; subst.
    + exfalso. eapply Hstuck; [exact Hst2|..]; eauto.
    + match goal with H1 : decode (rest l) = _, H2 : decode (rest l) = _ |- _ =>
        rewrite H1 in H2; inversion H2; subst end.
      match goal with H1 : m_step M s _ = _, H2 : m_step M s _ = _ |- _ =>
        rewrite H1 in H2; inversion H2; subst end.
      match goal with H : Reads _ (consume _ _ l) _ _ s2' l2' ty2' |- _ =>
        destruct (IH _ _ _ _ H Hst1 Hst2) as (-> & -> & -> & Hstep) end.
      repeat split; intros; auto.
Qed.

(** [Reads] does not give the state itself uniquely as a Leibniz-equal value only because [St] is
    abstract; it does for the observable behaviour.  With decidable/Leibniz states: *)
Lemma Reads_det_state : forall s l ty bs1 s1 l1 ty1, Reads s l ty bs1 s1 l1 ty1 ->
  forall bs2 s2 l2 ty2, Reads s l ty bs2 s2 l2 ty2 -> Stuck s1 l1 -> Stuck s2 l2 -> s1 = s2.
Proof.
  assert (Hstuck : forall s l r sz s1, Stuck s l -> rest l <> [] -> decode (rest l) = (r, sz) ->
            m_step M s r = Some s1 -> m_acc M s1 <> -1 -> False).
  { intros s l r sz s1 [He|(r' & sz' & Hd & [Hn|(s' & Hs & Ha)])] Hne Hd' Hs' Ha'; try congruence;
      rewrite Hd in Hd'; inversion Hd'; subst; try congruence;
      rewrite Hs in Hs'; inversion Hs'; subst; congruence. }
  induction 1 as [s l ty|s l ty r sz s1 bs s2 l2 ty2 Hne Hd Hs Ha HR IH];
    intros bs2' s2' l2' ty2' HR2 Hst1 Hst2.
  - inversion HR2; subst; [reflexivity|]. exfalso. eapply Hstuck; [exact Hst1|..]; eauto.
  - inversion HR2; subst.
    + exfalso. eapply Hstuck; [exact Hst2|..]; eauto.
    + match goal with H1 : decode (rest l) = _, H2 : decode (rest l) = _ |- _ =>
        rewrite H1 in H2; inversion H2; subst end.
      match goal with H1 : m_step M s _ = _, H2 : m_step M s _ = _ |- _ =>
        rewrite H1 in H2; inversion H2; subst end.
      eapply IH; eauto.
Qed.

Lemma stuck_end s l : rest l = [] -> Stuck s l.
Proof. intros H. left. exact H. Qed.
Lemma stuck_dead s l r sz : decode (rest l) = (r, sz) -> m_step M s r = None -> Stuck s l.
Proof. intros Hd Hs. right. exists r, sz. auto. Qed.
Lemma stuck_ign s l r sz s1 : decode (rest l) = (r, sz) -> m_step M s r = Some s1 -> m_acc M s1 = -1 -> Stuck s l.
Proof. intros Hd Hs Ha. right. exists r, sz. split; [exact Hd|]. right. exists s1. auto. Qed.

Ltac unify_reads HR St1 :=
  match goal with H : Reads _ _ _ _ ?s' ?c' _ |- _ =>
    tryif constr_eq H HR then fail else idtac;
    let St2 := fresh "St2" in
    assert (St2 : Stuck s' c') by (eauto using stuck_end, stuck_dead, stuck_ign);
    destruct (Reads_det _ _ _ _ _ _ _ HR _ _ _ _ H St1 St2) as (?E1 & ?E2 & ?E3 & Hstep);
    try subst
  end; try congruence; auto.
Ltac same_rune Hd :=
  match goal with H : decode (rest _) = (_, _) |- _ => rewrite Hd in H; inversion H; subst end.

Theorem Lexeme_det : forall start skip t1 l1, Lexeme start skip t1 l1 ->
  forall t2 l2, Lexeme start skip t2 l2 -> t1 = t2 /\ l1 = l2.
Proof.
  induction 1 as [start skip He
                 |start skip bs s cur ty Hne HR He
                 |start skip bs s cur ty r sz Hne HR Hc Hd Hs Hty
                 |start skip bs s cur ty r sz Hne HR Hc Hd Hs Hty
                 |start skip bs s cur ty r sz s1 t l' Hne HR Hc Hd Hs Ha HL IH];
    intros t2 l2 H2.
  - inversion H2; subst; try congruence. auto.
  - pose proof (stuck_end s cur He) as St1. inversion H2; subst; try congruence; unify_reads HR St1.
  - pose proof (stuck_dead s cur r sz Hd Hs) as St1. inversion H2; subst; try congruence; unify_reads HR St1;
      same_rune Hd; rewrite ?Hstep in *; try congruence; auto.
  - pose proof (stuck_dead s cur r sz Hd Hs) as St1. inversion H2; subst; try congruence; unify_reads HR St1;
      same_rune Hd; rewrite ?Hstep in *; try congruence; auto.
  - pose proof (stuck_ign s cur r sz s1 Hd Hs Ha) as St1. inversion H2; subst; try congruence; unify_reads HR St1;
      same_rune Hd; rewrite ?Hstep in *; try congruence; auto.
Qed.

Theorem ScanSpec_det l t1 l1 t2 l2 : ScanSpec l t1 l1 -> ScanSpec l t2 l2 -> t1 = t2 /\ l1 = l2.
Proof. intros H1 H2. eapply Lexeme_det; eauto. Qed.

(** hence the specification characterises Scan: anything satisfying it is what Scan returns *)
Theorem ScanSpec_complete l t l' :
  (forall bs r sz, bs <> [] -> decode bs = (r, sz) -> (1 <= sz <= length bs)%nat) ->
  ScanSpec l t l' -> gscan decode M l = Some (t, l').
Proof.
  intros Hprog Hspec.
  destruct (gscan decode M l) as [[t0 l0]|] eqn:E.
  - destruct (ScanSpec_det _ _ _ _ _ (gscan_ScanSpec _ _ _ E) Hspec) as [-> ->]. reflexivity.
  - exfalso. revert E. unfold gscan. destruct (rest l) eqn:Er; [discriminate|]. rewrite <- Er.
    assert (Hfuel : forall fuel s cur start acc ttype skip, (length (rest cur) < fuel)%nat ->
              gloop decode M fuel s cur start acc ttype skip <> None).
    { induction fuel as [|fuel IH]; intros s cur start acc ttype skip Hlen; [lia|].
      cbn [gloop]. destruct (rest cur) as [|b bs] eqn:Hrest; [discriminate|].
      rewrite <- Hrest in *. assert (Hne : rest cur <> []) by (rewrite Hrest; discriminate).
      destruct (decode (rest cur)) as [r sz] eqn:Hd.
      pose proof (Hprog _ _ _ Hne Hd) as Hsz.
      destruct (m_step M s r); [|destruct (ttype =? INVALID); discriminate].
      assert (Hl : (length (rest (consume r sz cur)) < fuel)%nat).
      { rewrite consume_rest, skipn_length. lia. }
      destruct (negb (m_acc M s0 =? -1)); apply IH; exact Hl. }
    apply Hfuel. lia.
Qed.

(** *** The characters read and the state reached *)
Fixpoint msteps (s : St) (rs : list Z) : option St :=
  match rs with
  | [] => Some s
  | r :: rs' => match m_step M s r with None => None | Some s1 => msteps s1 rs' end
  end.

(** [Decodes l bs rs l']: the bytes [bs] at position [l] are the characters [rs], ending at [l'] *)
Inductive Decodes : lst -> list Z -> list Z -> lst -> Prop :=
| D_nil l : Decodes l [] [] l
| D_cons l r sz bs rs l' : rest l <> [] -> decode (rest l) = (r, sz) ->
    Decodes (consume r sz l) bs rs l' -> Decodes l (firstn sz (rest l) ++ bs) (r :: rs) l'.

Lemma Reads_runes : forall s l ty bs s' l' ty', Reads s l ty bs s' l' ty' ->
  exists rs, Decodes l bs rs l' /\ msteps s rs = Some s' /\
             (rs = [] -> ty' = ty) /\ (rs <> [] -> ty' = m_acc M s').
Proof.
  induction 1 as [s l ty|s l ty r sz s1 bs s2 l2 ty2 Hne Hd Hs Ha HR IH].
  - exists []. repeat split; auto; [constructor|congruence].
  - destruct IH as (rs & HD & Hm & H0 & H1). exists (r :: rs). repeat split.
    + econstructor; eauto.
    + cbn [msteps]. rewrite Hs. exact Hm.
    + discriminate.
    + intros _. destruct rs as [|x rs]; [|apply H1; discriminate].
      rewrite (H0 eq_refl). simpl in Hm. inversion Hm; subst. reflexivity.
Qed.

End Spec.

(** ** Instances *)
(** the Scan of Scan.v on any DFA (in particular on the emitted tables) *)
Theorem scan_ScanSpec decode d l t l' :
  scan decode d l = Some (t, l') -> ScanSpec Z decode (dfa_machine d) l t l'.
Proof. rewrite <- gscan_dfa. apply gscan_ScanSpec. Qed.

(** the states of the derivative automaton are the iterated derivatives *)
Lemma msteps_dmachine ks S0 : forall rs S S', msteps dstate (dmachine ks S0) S rs = Some S' -> S' = dsteps S rs.
Proof.
  induction rs as [|r rs IH]; intros S S' H; simpl in *.
  - inversion H; reflexivity.
  - destruct (live (dstep S r)); [|discriminate]. apply IH. exact H.
Qed.

Print Assumptions gscan_n_dfa.
Print Assumptions gscan_ScanSpec.
Print Assumptions ScanSpec_det.
Print Assumptions ScanSpec_complete.
Print Assumptions scan_ScanSpec.
Print Assumptions Reads_runes.
