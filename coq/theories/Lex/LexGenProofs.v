(** Property C01(b) for EVERY lexical grammar, at model level: the DFA built by the model generator
    [LexGen.lexgen] (gocc's item-set construction) and the definitional tokenizer of the grammar
    ([Deriv.dscan_n], derivatives with the contextual dot and the priority rule) return the same
    tokens on all inputs.

    Route: the states of the model are sets of POSITIONS (Glushkov); the position automaton of a
    token pattern accepts, over letters (rune, dot-flag), the language [lang2] of its residual
    ([build_spec]); a derivative state and a position set are related when they denote the same
    languages component by component ([Sem]); this relation is a bisimulation between the emitted
    table and the derivative automaton ([row_step], [sem_step]), and bisimilar automata scan alike
    ([BisimProofs.gscan_n_bisim]). *)
From Coq Require Import List ZArith Lia Bool Arith Setoid.
From Gocc Require Import Base.Utf8 Base.Ranges Base.RangesProofs Lex.Scan Lex.ScanProofs Lex.Pattern Lex.Deriv
  Lex.GScanProofs Lex.DerivProofs Lex.Bisim Lex.BisimProofs Lex.LexGen Lex.LexLang.
Import ListNotations.
Open Scope Z_scope.

(** * 1. The raw translation of a pattern denotes the language of its residual *)
Inductive catL : list re -> list letter -> Prop :=
| c_nil : catL [] []
| c_cons r l w1 w2 : lang2 r w1 -> catL l w2 -> catL (r :: l) (w1 ++ w2).

Lemma rseqs_lang2 : forall l w, lang2 (rseqs l) w <-> catL l w.
Proof.
  induction l as [|r l IH]; intros w; simpl.
  - rewrite lang2_Eps. split; [intros ->; constructor|intros H; inversion H; reflexivity].
  - rewrite lang2_Seq. split.
    + intros (w1 & w2 & -> & H1 & H2). constructor; [exact H1|apply IH; exact H2].
    + intros H. inversion H; subst. exists w1, w2. repeat split; auto. apply IH. assumption.
Qed.

Lemma seqs_lang2 : forall l w, lang2 (seqs l) w <-> catL l w.
Proof.
  induction l as [|r l IH]; intros w; simpl.
  - rewrite lang2_Eps. split; [intros ->; constructor|intros H; inversion H; reflexivity].
  - rewrite mkSeq_lang2. split.
    + intros (w1 & w2 & -> & H1 & H2). constructor; [exact H1|apply IH; exact H2].
    + intros H. inversion H; subst. exists w1, w2. repeat split; auto. apply IH. assumption.
Qed.

Lemma ralts_lang2 : forall l w, lang2 (ralts l) w <-> exists r, In r l /\ lang2 r w.
Proof.
  induction l as [|a l IH]; intros w.
  - simpl. rewrite lang2_Emp. split; [tauto|intros (r & [] & _)].
  - destruct l as [|b l].
    + simpl. split; [intros H; exists a; auto|intros (r & [<-|[]] & H); exact H].
    + change (ralts (a :: b :: l)) with (Alt a (ralts (b :: l))). rewrite lang2_Alt, IH. split.
      * intros [H|(r & Hr & H)]; [exists a; split; [left; reflexivity|exact H]|exists r; split; [right; exact Hr|exact H]].
      * intros (r & [<-|Hr] & H); [left; exact H|right; exists r; auto].
Qed.

Lemma alts_lang2 : forall l w, lang2 (alts l) w <-> exists r, In r l /\ lang2 r w.
Proof.
  induction l as [|a l IH]; intros w; simpl.
  - rewrite lang2_Emp. split; [tauto|intros (r & [] & _)].
  - rewrite mkAlt_lang2, IH. split.
    + intros [H|(r & Hr & H)]; [exists a; auto|exists r; auto].
    + intros (r & [<-|Hr] & H); [left; exact H|right; exists r; auto].
Qed.

Lemma catL_map_ext {A} (f g : A -> re) : forall l, Forall (fun x => forall w, lang2 (f x) w <-> lang2 (g x) w) l ->
  forall w, catL (map f l) w <-> catL (map g l) w.
Proof.
  induction 1 as [|x l Hx Hl IH]; intros w; simpl.
  - reflexivity.
  - split; intros H; inversion H; subst; constructor; try (apply Hx; assumption); apply IH; assumption.
Qed.

Definition raw_equiv (t : term) : Prop := forall w, lang2 (raw_t t) w <-> lang2 (re_of_term t) w.

Lemma raw_body_lang2 p : Forall (Forall raw_equiv) p -> forall w,
  lang2 (ralts (map (fun a => rseqs (map raw_t a)) p)) w <->
  lang2 (alts (map (fun a => seqs (map re_of_term a)) p)) w.
Proof.
  intros HF w. rewrite ralts_lang2, alts_lang2. rewrite Forall_forall in HF. split.
  - intros (r & Hr & H). apply in_map_iff in Hr. destruct Hr as (a & <- & Ha).
    exists (seqs (map re_of_term a)). split; [apply in_map_iff; exists a; auto|].
    rewrite seqs_lang2. rewrite rseqs_lang2 in H. apply (catL_map_ext raw_t re_of_term a (HF a Ha)). exact H.
  - intros (r & Hr & H). apply in_map_iff in Hr. destruct Hr as (a & <- & Ha).
    exists (rseqs (map raw_t a)). split; [apply in_map_iff; exists a; auto|].
    rewrite rseqs_lang2. rewrite seqs_lang2 in H. apply (catL_map_ext raw_t re_of_term a (HF a Ha)). exact H.
Qed.

Lemma raw_t_lang2 : forall t, raw_equiv t.
Proof.
  induction t using term_ind'; intros w; cbn [raw_t re_of_term].
  - reflexivity.
  - symmetry. apply mkSym_lang2.
  - reflexivity.
  - reflexivity.
  - rewrite mkAlt_lang2, lang2_Alt, (raw_body_lang2 p H). reflexivity.
  - rewrite mkStar_lang2. apply star2_ext. apply raw_body_lang2. exact H.
  - apply raw_body_lang2. exact H.
Qed.

Theorem raw_p_lang2 p w : lang2 (raw_p p) w <-> lang2 (re_of_pattern p) w.
Proof.
  unfold raw_p, raw_a, re_of_pattern, re_of_alt. apply raw_body_lang2.
  apply Forall_forall. intros a _. apply Forall_forall. intros t _. apply raw_t_lang2.
Qed.

Lemma nzb_nz : forall r, nzb r = true <-> nz true r.
Proof.
  induction r; simpl; try tauto.
  - split; [discriminate|tauto].
  - apply Z.leb_le.
  - rewrite andb_true_iff, IHr1, IHr2. tauto.
  - rewrite andb_true_iff, IHr1, IHr2. tauto.
Qed.

(** the well-formedness test, on the pattern *)
Lemma nzb_ralts l : nzb (ralts l) = nonnil l && forallb nzb l.
Proof.
  induction l as [|a l IH]; [reflexivity|]. destruct l as [|b l].
  - simpl. rewrite andb_true_r. reflexivity.
  - change (ralts (a :: b :: l)) with (Alt a (ralts (b :: l))). cbn [nzb]. rewrite IH. reflexivity.
Qed.

Lemma nzb_rseqs l : nzb (rseqs l) = forallb nzb l.
Proof. induction l as [|a l IH]; simpl; [reflexivity|]. rewrite IH. reflexivity. Qed.

Lemma forallb_map {A B} (f : A -> B) (q : B -> bool) l : forallb q (map f l) = forallb (fun x => q (f x)) l.
Proof. induction l as [|x l IH]; simpl; [reflexivity|]. rewrite IH. reflexivity. Qed.

Lemma forallb_ext_in {A} (f g : A -> bool) : forall l, Forall (fun x => f x = g x) l -> forallb f l = forallb g l.
Proof. induction 1 as [|x l Hx Hl IH]; simpl; [reflexivity|]. rewrite Hx, IH. reflexivity. Qed.

Lemma nzb_body p : Forall (Forall (fun t => nzb (raw_t t) = wf_t t)) p ->
  nzb (ralts (map (fun a => rseqs (map raw_t a)) p)) = nonnil p && forallb (forallb wf_t) p.
Proof.
  intros HF. rewrite nzb_ralts, forallb_map. f_equal.
  - destruct p; reflexivity.
  - apply forallb_ext_in. eapply Forall_impl; [|exact HF]. intros a Ha. cbv beta.
    rewrite nzb_rseqs, forallb_map. apply forallb_ext_in. exact Ha.
Qed.

Lemma nzb_raw_t : forall t, nzb (raw_t t) = wf_t t.
Proof.
  induction t using term_ind'; cbn [raw_t wf_t nzb]; try reflexivity.
  - apply Z.leb_refl.
  - apply nzb_body. exact H.
  - apply nzb_body. exact H.
  - apply nzb_body. exact H.
Qed.

Theorem nzb_raw_p p : nzb (raw_p p) = wf_p p.
Proof.
  unfold raw_p, raw_a, wf_p. apply nzb_body.
  apply Forall_forall. intros a _. apply Forall_forall. intros t _. apply nzb_raw_t.
Qed.

(** [lex_wf]: the regular definitions expand (none undefined, none recursive) and every expanded
    token pattern is well-formed *)
Theorem lex_wf_spec g :
  lex_wf g = match expand g with
             | None => false
             | Some kps => forallb (fun kp => wf_p (snd kp)) kps
             end.
Proof.
  unfold lex_wf, lex_raws. destruct (expand g) as [kps|]; [|reflexivity].
  rewrite forallb_map. apply forallb_ext_in. apply Forall_forall. intros kp _. apply nzb_raw_p.
Qed.

(** * 2. The position automaton *)
Definition lmatch (lf : leaf) (a : letter) : bool :=
  match lf with
  | LSym lo hi => in_rng lo hi (fst a)
  | LAny => snd a
  | LEnd _ => false
  end.

Section Auto.
Variable T : ptable.
Variable i : nat.          (* the token whose reduce item accepts *)

(** [acc K w]: from the set of positions [K], the word [w] leads to the reduce item of token [i] *)
Inductive acc : list nat -> list letter -> Prop :=
| acc_end K p fol : In p K -> nth_error T p = Some (LEnd i, fol) -> acc K []
| acc_step K p lf fol a w : In p K -> nth_error T p = Some (lf, fol) -> lmatch lf a = true ->
    acc fol w -> acc K (a :: w).

Lemma acc_incl K K' w : incl K K' -> acc K w -> acc K' w.
Proof. intros Hi H. inversion H; subst; [eapply acc_end|eapply acc_step]; eauto. Qed.

Lemma acc_nil w : ~ acc [] w.
Proof. intros H. inversion H; subst; contradiction. Qed.

Lemma acc_app K1 K2 w : acc (K1 ++ K2) w <-> acc K1 w \/ acc K2 w.
Proof.
  split.
  - intros H. inversion H; subst; apply in_app_or in H0; destruct H0; [left|right|left|right];
      solve [eapply acc_end; eauto | eapply acc_step; eauto].
  - intros [H|H]; eapply acc_incl; try exact H; [apply incl_appl|apply incl_appr]; apply incl_refl.
Qed.

Lemma acc_ext K K' w : (forall p, In p K <-> In p K') -> (acc K w <-> acc K' w).
Proof. intros H. split; apply acc_incl; intros p Hp; apply H; exact Hp. Qed.

(** [T] contains the entries [E] from position [n] on *)
Definition sub (n : nat) (E : list entry) : Prop :=
  forall j e, nth_error E j = Some e -> nth_error T (n + j) = Some e.

Lemma sub_app n E1 E2 : sub n (E1 ++ E2) -> sub n E1 /\ sub (n + length E1) E2.
Proof.
  intros H. split.
  - intros j e Hj. apply H. rewrite nth_error_app1; [exact Hj|]. apply nth_error_Some. congruence.
  - intros j e Hj. replace (n + length E1 + j)%nat with (n + (length E1 + j))%nat by lia. apply H.
    rewrite nth_error_app2 by lia. replace (length E1 + j - length E1)%nat with j by lia. exact Hj.
Qed.

Lemma build_length : forall r n K, length (build r n K) = nleaves r.
Proof.
  induction r; intros n K; simpl; auto; rewrite app_length; rewrite ?IHr1, ?IHr2; reflexivity.
Qed.

(** what follows a regular expression whose first set is [F] and continuation [K] *)
Definition Spec (r : re) (F K : list nat) : Prop :=
  forall w, acc F w <-> exists w1 w2, w = w1 ++ w2 /\ w1 <> [] /\ lang2 r w1 /\ acc K w2.

Lemma firstk_spec r F K : Spec r F K ->
  forall w, acc (F ++ (if nullable r then K else [])) w <->
            exists u1 u2, w = u1 ++ u2 /\ lang2 r u1 /\ acc K u2.
Proof.
  intros HS w. rewrite acc_app. split.
  - intros [H|H].
    + apply HS in H. destruct H as (w1 & w2 & -> & _ & H1 & H2). exists w1, w2. auto.
    + destruct (nullable r) eqn:En; [|exfalso; eapply acc_nil; exact H].
      exists [], w. repeat split; auto. apply nullable_lang2. exact En.
  - intros (u1 & u2 & -> & H1 & H2). destruct u1 as [|x u1].
    + right. apply nullable_lang2 in H1. rewrite H1. exact H2.
    + left. apply HS. exists (x :: u1), u2. repeat split; auto. discriminate.
Qed.

(** THEOREM (Glushkov, with continuation): the first positions of [r] accept the non-empty words
    of [r] followed by what the continuation accepts *)
Theorem build_spec : forall r n K, sub n (build r n K) -> Spec r (firstpos r n) K.
Proof.
  induction r; intros n K Hsub w; cbn [firstpos build] in *.
  - split; [intros H; exfalso; eapply acc_nil; exact H|].
    intros (w1 & w2 & _ & _ & H & _). inversion H.
  - split; [intros H; exfalso; eapply acc_nil; exact H|].
    intros (w1 & w2 & _ & Hne & H & _). inversion H; subst. congruence.
  - assert (Hn : nth_error T n = Some (LSym lo hi, K)).
    { specialize (Hsub 0%nat _ eq_refl). rewrite Nat.add_0_r in Hsub. exact Hsub. }
    split.
    + intros H. inversion H; subst.
      * destruct H0 as [<-|[]]. congruence.
      * destruct H0 as [<-|[]]. rewrite Hn in H1. inversion H1; subst.
        exists [a], w0. repeat split; auto; [discriminate|].
        destruct a as [c d]. simpl in H2. constructor. unfold in_rng in H2.
        apply andb_prop in H2. destruct H2 as [A B]. apply Z.leb_le in A, B. lia.
    + intros (w1 & w2 & -> & _ & H1 & H2). inversion H1; subst. simpl.
      eapply acc_step; [left; reflexivity|exact Hn| |exact H2].
      simpl. unfold in_rng. apply andb_true_intro. split; apply Z.leb_le; lia.
  - assert (Hn : nth_error T n = Some (LAny, K)).
    { specialize (Hsub 0%nat _ eq_refl). rewrite Nat.add_0_r in Hsub. exact Hsub. }
    split.
    + intros H. inversion H; subst.
      * destruct H0 as [<-|[]]. congruence.
      * destruct H0 as [<-|[]]. rewrite Hn in H1. inversion H1; subst.
        exists [a], w0. repeat split; auto; [discriminate|].
        destruct a as [c d]. simpl in H2. subst d. constructor.
    + intros (w1 & w2 & -> & _ & H1 & H2). inversion H1; subst. simpl.
      eapply acc_step; [left; reflexivity|exact Hn|reflexivity|exact H2].
  - apply sub_app in Hsub. destruct Hsub as [Ha Hb]. rewrite build_length in Hb.
    rewrite acc_app, (IHr1 n K Ha w), (IHr2 _ K Hb w). split.
    + intros [(w1 & w2 & -> & Hne & H1 & H2)|(w1 & w2 & -> & Hne & H1 & H2)]; exists w1, w2;
        repeat split; auto; [apply l2_altl|apply l2_altr]; assumption.
    + intros (w1 & w2 & -> & Hne & H1 & H2). inversion H1; subst; [left|right]; exists w1, w2; auto.
  - apply sub_app in Hsub. destruct Hsub as [Ha Hb]. rewrite build_length in Hb.
    set (nb := (n + nleaves r1)%nat) in *.
    pose proof (IHr2 nb K Hb) as Sb.
    pose proof (firstk_spec r2 _ K Sb) as HKb.
    pose proof (IHr1 n _ Ha) as Sa.
    rewrite acc_app. split.
    + intros [H|H].
      * apply Sa in H. destruct H as (w1 & w2 & -> & Hne & H1 & H2).
        apply HKb in H2. destruct H2 as (u1 & u2 & -> & Hu1 & Hu2).
        exists (w1 ++ u1), u2. rewrite app_assoc. repeat split; auto.
        -- intros E. apply app_eq_nil in E. destruct E. congruence.
        -- constructor; assumption.
      * destruct (nullable r1) eqn:En; [|exfalso; eapply acc_nil; exact H].
        apply Sb in H. destruct H as (w1 & w2 & -> & Hne & H1 & H2).
        exists w1, w2. repeat split; auto. change w1 with ([] ++ w1). constructor; [|exact H1].
        apply nullable_lang2. exact En.
    + intros (w1 & w2 & -> & Hne & H1 & H2). inversion H1; subst.
      destruct w0 as [|x w0].
      * right. apply nullable_lang2 in H3. rewrite H3. apply Sb. simpl in *. exists w3, w2. auto.
      * left. apply Sa. exists (x :: w0), (w3 ++ w2). rewrite app_assoc. repeat split; auto; [discriminate|].
        apply HKb. exists w3, w2. auto.
  - set (K' := firstpos r n ++ K) in *.
    pose proof (IHr n K' Hsub) as Sa.
    assert (C1 : forall m w, (length w < m)%nat -> acc K' w ->
              exists u1 u2, w = u1 ++ u2 /\ lang2 (Star r) u1 /\ acc K u2).
    { induction m as [|m IHm]; intros v Hlen Hv; [lia|].
      unfold K' in Hv. apply acc_app in Hv. destruct Hv as [Hv|Hv].
      - apply Sa in Hv. destruct Hv as (w1 & w2 & -> & Hne & H1 & H2).
        assert (Hl : (length w2 < m)%nat).
        { rewrite app_length in Hlen. destruct w1; [congruence|simpl in Hlen; lia]. }
        destruct (IHm w2 Hl H2) as (u1 & u2 & -> & Hu1 & Hu2).
        exists (w1 ++ u1), u2. rewrite app_assoc. repeat split; auto. constructor; assumption.
      - exists [], v. repeat split; auto. constructor. }
    assert (C2 : forall u1, lang2 (Star r) u1 -> forall u2, acc K u2 -> acc K' (u1 ++ u2)).
    { clear C1. intros u1 Hu1. remember (Star r) as s eqn:Es. induction Hu1; inversion Es; subst; intros u2 Hu2.
      - simpl. unfold K'. apply acc_app. right. exact Hu2.
      - specialize (IHHu1_2 eq_refl u2 Hu2). destruct w1 as [|x w1]; [exact IHHu1_2|].
        unfold K'. apply acc_app. left. apply Sa. exists (x :: w1), (w2 ++ u2).
        rewrite app_assoc. repeat split; auto. discriminate. }
    split.
    + intros H. apply Sa in H. destruct H as (w1 & w2 & -> & Hne & H1 & H2).
      destruct (C1 (S (length w2)) w2 (Nat.lt_succ_diag_r _) H2) as (u1 & u2 & -> & Hu1 & Hu2).
      exists (w1 ++ u1), u2. rewrite app_assoc. repeat split; auto.
      * intros E. apply app_eq_nil in E. destruct E. congruence.
      * constructor; assumption.
    + intros (w1 & w2 & -> & Hne & H1 & H2).
      destruct (star2_nonempty _ _ H1 Hne) as (v1 & v2 & -> & Hv1 & Ha & Hs).
      apply Sa. exists v1, (v2 ++ w2). rewrite app_assoc. repeat split; auto.
Qed.

(** co-accessibility: every follow set of a well-formed pattern leads to acceptance *)
Lemma build_coacc : forall r n K, nz true r -> sub n (build r n K) -> (exists w, acc K w) ->
  forall j lf fol, nth_error (build r n K) j = Some (lf, fol) ->
    (exists w, acc fol w) /\ (forall i', lf <> LEnd i').
Proof.
  induction r; intros n K Hnz Hsub HK j lf fol Hj; cbn [build] in *.
  - destruct j; discriminate.
  - destruct j; discriminate.
  - destruct j as [|[|j]]; try discriminate. inversion Hj; subst. split; [exact HK|discriminate].
  - destruct j as [|[|j]]; try discriminate. inversion Hj; subst. split; [exact HK|discriminate].
  - destruct Hnz as [N1 N2]. apply sub_app in Hsub. destruct Hsub as [Ha Hb]. rewrite build_length in Hb.
    destruct (Nat.lt_ge_cases j (length (build r1 n K))) as [Hlt|Hge].
    + rewrite nth_error_app1 in Hj by exact Hlt. eapply IHr1; eauto.
    + rewrite nth_error_app2 in Hj by exact Hge. eapply IHr2; eauto.
  - destruct Hnz as [N1 N2]. apply sub_app in Hsub. destruct Hsub as [Ha Hb]. rewrite build_length in Hb.
    set (nb := (n + nleaves r1)%nat) in *.
    match type of Hj with nth_error (build r1 n ?KB ++ _) _ = _ => set (Kb := KB) in * end.
    destruct (Nat.lt_ge_cases j (length (build r1 n Kb))) as [Hlt|Hge].
    + rewrite nth_error_app1 in Hj by exact Hlt. eapply (IHr1 n Kb); eauto.
      destruct HK as [w2 Hw2]. destruct (nz_inhabited2 r2 N2) as [u1 Hu1].
      exists (u1 ++ w2). apply (firstk_spec r2 _ K (build_spec r2 nb K Hb)). exists u1, w2. auto.
    + rewrite nth_error_app2 in Hj by exact Hge. eapply IHr2; eauto.
  - eapply (IHr n (firstpos r n ++ K)); eauto.
    destruct HK as [w Hw]. exists w. apply acc_app. right. exact Hw.
Qed.
End Auto.

Arguments acc_incl {T i K K' w}.

(** * 3. The table of a grammar *)
Lemma sub_mid (pre E post : list entry) : sub (pre ++ E ++ post) (length pre) E.
Proof.
  intros j e Hj. rewrite nth_error_app2 by lia. replace (length pre + j - length pre)%nat with j by lia.
  rewrite nth_error_app1; [exact Hj|]. apply nth_error_Some. congruence.
Qed.

Lemma nth_mid (pre E : list entry) x post :
  nth_error (pre ++ E ++ x :: post) (length pre + length E) = Some x.
Proof.
  rewrite nth_error_app2 by lia. replace (length pre + length E - length pre)%nat with (length E) by lia.
  rewrite nth_error_app2 by lia. rewrite Nat.sub_diag. reflexivity.
Qed.

Lemma acc_only_end T i i0 e u : nth_error T e = Some (LEnd i0, []) -> (acc T i [e] u <-> i = i0 /\ u = []).
Proof.
  intros He. split.
  - intros H. inversion H as [K p fol Hin Hp|K p lf fol a w Hin Hp Hm Hw]; subst.
    + destruct Hin as [E|[]]. subst p. pose proof (eq_trans (eq_sym He) Hp) as E. inversion E. auto.
    + destruct Hin as [E|[]]. subst p. pose proof (eq_trans (eq_sym He) Hp) as E. inversion E; subst. discriminate.
  - intros [-> ->]. eapply acc_end; [left; reflexivity|exact He].
Qed.

Lemma blocks_inits : forall rs pre i0 off, length pre = off ->
  forall i w, acc (pre ++ blocks rs i0 off) i (inits rs off) w <->
              exists j r, i = (i0 + j)%nat /\ nth_error rs j = Some r /\ lang2 r w.
Proof.
  induction rs as [|r rs IH]; intros pre i0 off Hlen i w.
  - simpl. split; [intros H; exfalso; eapply acc_nil; exact H|].
    intros (j & r & _ & H & _). destruct j; discriminate.
  - cbn [blocks inits]. set (e := (off + nleaves r)%nat).
    set (T := pre ++ build r off [e] ++ (LEnd i0, []) :: blocks rs (S i0) (S e)).
    assert (Hsub : sub T off (build r off [e])) by (subst off; apply sub_mid).
    assert (Hend : nth_error T e = Some (LEnd i0, [])).
    { unfold e. rewrite <- (build_length r off [e]). subst off. apply nth_mid. }
    pose proof (firstk_spec T i r _ [e] (build_spec T i r off [e] Hsub)) as HF.
    assert (HT : T = (pre ++ build r off [e] ++ [(LEnd i0, [])]) ++ blocks rs (S i0) (S e)).
    { unfold T. rewrite <- !app_assoc. reflexivity. }
    assert (Hlen' : length (pre ++ build r off [e] ++ [(LEnd i0, [])]) = S e).
    { rewrite !app_length, build_length. simpl. unfold e. lia. }
    pose proof (IH _ (S i0) (S e) Hlen' i w) as HI. rewrite <- HT in HI.
    rewrite app_assoc, acc_app, HF, HI. split.
    + intros [(u1 & u2 & -> & H1 & H2)|(j & r' & -> & Hj & Hw)].
      * apply (acc_only_end T i i0 e u2 Hend) in H2. destruct H2 as [-> ->].
        exists 0%nat, r. rewrite app_nil_r, Nat.add_0_r. auto.
      * exists (S j), r'. repeat split; auto. lia.
    + intros (j & r' & -> & Hj & Hw). destruct j as [|j].
      * left. simpl in Hj. inversion Hj; subst r'. exists w, []. rewrite app_nil_r, Nat.add_0_r.
        repeat split; auto. apply (acc_only_end T i0 i0 e [] Hend). auto.
      * right. exists j, r'. repeat split; auto. lia.
Qed.

(** every follow set of the table leads to some reduce item *)
Definition table_ok (T : ptable) : Prop :=
  forall p lf fol, nth_error T p = Some (lf, fol) -> (forall i, lf <> LEnd i) -> exists i w, acc T i fol w.

Lemma blocks_ok : forall rs pre i0 off, length pre = off -> Forall (nz true) rs ->
  forall p lf fol, nth_error (blocks rs i0 off) p = Some (lf, fol) -> (forall i, lf <> LEnd i) ->
  exists i w, acc (pre ++ blocks rs i0 off) i fol w.
Proof.
  induction rs as [|r rs IH]; intros pre i0 off Hlen Hnz p lf fol Hp Hlf.
  - destruct p; discriminate.
  - cbn [blocks] in *. set (e := (off + nleaves r)%nat) in *.
    set (T := pre ++ build r off [e] ++ (LEnd i0, []) :: blocks rs (S i0) (S e)).
    inversion Hnz as [|? ? Hr Hrs]; subst.
    assert (Hsub : sub T (length pre) (build r (length pre) [e])) by apply sub_mid.
    assert (Hend : nth_error T e = Some (LEnd i0, [])).
    { unfold e. rewrite <- (build_length r (length pre) [e]). apply nth_mid. }
    destruct (Nat.lt_ge_cases p (length (build r (length pre) [e]))) as [Hlt|Hge].
    + rewrite nth_error_app1 in Hp by exact Hlt. exists i0.
      eapply (build_coacc T i0 r (length pre) [e] Hr Hsub); [|exact Hp].
      exists []. eapply acc_end; [left; reflexivity|exact Hend].
    + rewrite nth_error_app2 in Hp by exact Hge.
      destruct (p - length (build r (length pre) [e]))%nat as [|p'] eqn:Ep.
      * simpl in Hp. inversion Hp; subst. exfalso. eapply Hlf. reflexivity.
      * simpl in Hp.
        assert (HT : T = (pre ++ build r (length pre) [e] ++ [(LEnd i0, [])]) ++ blocks rs (S i0) (S e)).
        { unfold T. rewrite <- !app_assoc. reflexivity. }
        rewrite HT. eapply IH; eauto. rewrite !app_length, build_length. simpl. unfold e. lia.
Qed.

Lemma lex_table_ok rs : Forall (nz true) rs -> table_ok (lex_table rs).
Proof. intros H p lf fol Hp Hlf. apply (blocks_ok rs [] 0%nat 0%nat eq_refl H p lf fol Hp Hlf). Qed.

Lemma lex_inits rs i w : acc (lex_table rs) i (inits rs 0) w <-> exists r, nth_error rs i = Some r /\ lang2 r w.
Proof.
  unfold lex_table. rewrite (blocks_inits rs [] 0%nat 0%nat eq_refl i w). split.
  - intros (j & r & -> & H1 & H2). exists r. auto.
  - intros (r & H1 & H2). exists i, r. auto.
Qed.

(** * 4. Normalised sets *)
Lemma ins_In x : forall l y, In y (ins x l) <-> y = x \/ In y l.
Proof.
  induction l as [|z l IH]; intros y; simpl.
  - intuition.
  - destruct (Nat.compare x z) eqn:E.
    + apply Nat.compare_eq in E. subst. simpl. intuition.
    + simpl. intuition.
    + simpl. rewrite IH. intuition.
Qed.

Lemma norm_In l : forall y, In y (norm l) <-> In y l.
Proof.
  induction l as [|x l IH]; intros y; simpl; [tauto|]. rewrite ins_In, IH. intuition.
Qed.

Lemma norm_nil l : norm l = [] <-> l = [].
Proof.
  split; [|intros ->; reflexivity]. destruct l as [|x l]; [reflexivity|]. intros H.
  assert (Hin : In x (norm (x :: l))) by (apply norm_In; left; reflexivity). rewrite H in Hin. destruct Hin.
Qed.

Lemma state_eqb_eq : forall a b, state_eqb a b = true -> a = b.
Proof.
  induction a as [|x a IH]; destruct b as [|y b]; simpl; intros H; try discriminate; auto.
  apply andb_prop in H. destruct H as [H1 H2]. apply Nat.eqb_eq in H1. subst. f_equal. auto.
Qed.

Lemma state_eqb_refl : forall a, state_eqb a a = true.
Proof. induction a as [|x a IH]; simpl; [reflexivity|]. rewrite Nat.eqb_refl. exact IH. Qed.

(** * 5. Position sets against derivative states *)
Section Sem.
Variable T : ptable.
Hypothesis Tok : table_ok T.

(** one step of the position automaton on a letter *)
Definition nstep (P : list nat) (a : letter) : list nat :=
  flat_map (fun p => match nth_error T p with
                     | Some (lf, fol) => if lmatch lf a then fol else []
                     | None => []
                     end) P.

Lemma in_nstep P a q : In q (nstep P a) <->
  exists p lf fol, In p P /\ nth_error T p = Some (lf, fol) /\ lmatch lf a = true /\ In q fol.
Proof.
  unfold nstep. rewrite in_flat_map. split.
  - intros (p & Hp & Hq). destruct (nth_error T p) as [[lf fol]|] eqn:E; [|destruct Hq].
    destruct (lmatch lf a) eqn:Em; [|destruct Hq]. exists p, lf, fol. auto.
  - intros (p & lf & fol & Hp & E & Em & Hq). exists p. split; [exact Hp|]. rewrite E, Em. exact Hq.
Qed.

Lemma acc_witness i K w : acc T i K w -> exists p, In p K /\ acc T i [p] w.
Proof.
  intros H. inversion H as [K0 p fol Hin Hp|K0 p lf fol a w0 Hin Hp Hm Hw]; subst; exists p; split; auto.
  - eapply acc_end; [left; reflexivity|exact Hp].
  - eapply acc_step; [left; reflexivity|exact Hp|exact Hm|exact Hw].
Qed.

Lemma acc_nstep i P a w : acc T i (nstep P a) w <-> acc T i P (a :: w).
Proof.
  split.
  - intros H. apply acc_witness in H. destruct H as (q & Hq & Hacc).
    apply in_nstep in Hq. destruct Hq as (p & lf & fol & Hp & E & Em & Hq).
    eapply acc_step; [exact Hp|exact E|exact Em|]. eapply acc_incl; [|exact Hacc].
    intros x [<-|[]]. exact Hq.
  - intros H. inversion H as [|K0 p lf fol a0 w0 Hin Hp Hm Hw]; subst.
    eapply acc_incl; [|exact Hw]. intros q Hq. apply in_nstep. exists p, lf, fol. auto.
Qed.

(** [Sem P S]: component by component, the position set and the residual denote the same language *)
Definition Sem (P : list nat) (S : dstate) : Prop :=
  Forall (wfz true) S /\
  forall i w, acc T i P w <-> exists r, nth_error S i = Some r /\ lang2 r w.

Lemma sem_ext P P' S : (forall p, In p P <-> In p P') -> Sem P S -> Sem P' S.
Proof.
  intros He [Hw Hs]. split; [exact Hw|]. intros i w. rewrite <- Hs. apply acc_ext. intros p. symmetry. apply He.
Qed.

Lemma expl_lang2 r c : wfz true r -> (expl r c = true <-> exists w, lang2 r ((c, false) :: w)).
Proof.
  intros Hw. destruct Hw as [->|Hnz].
  - simpl. split; [discriminate|intros [w H]; inversion H].
  - pose proof (deriv_dead true false c r Hnz) as Hd. rewrite moves_spec in Hd. simpl in Hd.
    rewrite orb_false_r in Hd.
    pose proof (live_iff_inhabited2 (deriv false r c) (deriv_wfz true false c r (or_intror Hnz))) as Hl.
    split.
    + intros He. destruct (is_emp (deriv false r c)) eqn:Ei.
      * destruct Hd as [Hd _]. rewrite Hd in He by reflexivity. discriminate.
      * destruct Hl as [Hl _]. destruct (Hl eq_refl) as [w Hw]. exists w. apply deriv_lang2. exact Hw.
    + intros [w Hw]. apply deriv_lang2 in Hw. destruct Hl as [_ Hl].
      assert (Ei : is_emp (deriv false r c) = false) by (apply Hl; eauto).
      destruct (expl r c) eqn:Ee; [reflexivity|]. destruct Hd as [_ Hd]. rewrite Hd in Ei by reflexivity. discriminate.
Qed.

(** the explicit characters of a state: those of the [Sym] positions *)
Lemma sem_explicit P S c : Sem P S ->
  (explicit S c = true <->
   exists p l h fol, In p P /\ nth_error T p = Some (LSym l h, fol) /\ l <= c <= h).
Proof.
  intros [Hw Hs]. rewrite Forall_forall in Hw. unfold explicit. rewrite existsb_exists. split.
  - intros (r & Hr & He). apply (expl_lang2 r c (Hw r Hr)) in He. destruct He as [w Hlw].
    destruct (In_nth_error _ _ Hr) as [i Hi].
    assert (Hacc : acc T i P ((c, false) :: w)) by (apply Hs; eauto).
    inversion Hacc as [|K0 p lf fol a w0 Hin Hp Hm Hw0]; subst.
    destruct lf as [l h| |j]; simpl in Hm; try discriminate.
    exists p, l, h, fol. repeat split; auto; unfold in_rng in Hm; apply andb_prop in Hm;
      destruct Hm as [A B]; apply Z.leb_le in A, B; lia.
  - intros (p & l & h & fol & Hp & E & Hc).
    destruct (Tok p _ fol E) as (i & w & Hacc); [discriminate|].
    assert (Hacc' : acc T i P ((c, false) :: w)).
    { eapply acc_step; [exact Hp|exact E| |exact Hacc]. simpl. unfold in_rng.
      apply andb_true_intro. split; apply Z.leb_le; lia. }
    apply Hs in Hacc'. destruct Hacc' as (r & Hr & Hl). apply nth_error_In in Hr.
    exists r. split; [exact Hr|]. apply (expl_lang2 r c (Hw r Hr)). eauto.
Qed.

Lemma sem_step P S c : Sem P S -> Sem (nstep P (c, negb (explicit S c))) (dstep S c).
Proof.
  intros [Hw Hs]. unfold dstep. set (d := negb (explicit S c)). split.
  - apply Forall_forall. intros r Hr. apply in_map_iff in Hr. destruct Hr as (r0 & <- & H0).
    apply deriv_wfz. rewrite Forall_forall in Hw. auto.
  - intros i w. rewrite acc_nstep, Hs, nth_error_map. split.
    + intros (r & Hr & Hl). exists (deriv d r c). rewrite Hr. split; [reflexivity|]. apply deriv_lang2. exact Hl.
    + intros (r' & Hr & Hl). destruct (nth_error S i) as [r|]; [|discriminate].
      simpl in Hr. inversion Hr; subst. exists r. split; [reflexivity|]. apply deriv_lang2. exact Hl.
Qed.

Lemma sem_live P S : Sem P S -> (live S = true <-> exists i w, acc T i P w).
Proof.
  intros [Hw Hs]. rewrite Forall_forall in Hw. unfold live. rewrite existsb_exists. split.
  - intros (r & Hr & Hne). apply negb_true_iff in Hne.
    apply (live_iff_inhabited2 r (Hw r Hr)) in Hne. destruct Hne as [w Hlw].
    destruct (In_nth_error _ _ Hr) as [i Hi]. exists i, w. apply Hs. eauto.
  - intros (i & w & Hacc). apply Hs in Hacc. destruct Hacc as (r & Hr & Hl). apply nth_error_In in Hr.
    exists r. split; [exact Hr|]. apply negb_true_iff. apply (live_iff_inhabited2 r (Hw r Hr)). eauto.
Qed.

Lemma nstep_coacc P a : (exists i w, acc T i (nstep P a) w) <-> nstep P a <> [].
Proof.
  split.
  - intros (i & w & H) E. rewrite E in H. eapply acc_nil. exact H.
  - intros Hne. destruct (nstep P a) as [|q l] eqn:E; [congruence|].
    assert (Hq : In q (nstep P a)) by (rewrite E; left; reflexivity).
    apply in_nstep in Hq. destruct Hq as (p & lf & fol & Hp & Ep & Em & Hq).
    destruct (Tok p lf fol Ep) as (i & w & Hacc).
    { intros j ->. discriminate. }
    exists i, w. rewrite <- E. eapply acc_incl; [|exact Hacc].
    intros x Hx. apply in_nstep. exists p, lf, fol. auto.
Qed.

(** *** accept codes *)
Lemma candidates_ext : forall ks S S', Forall2 (fun r r' => nullable r = nullable r') S S' ->
  candidates ks S = candidates ks S'.
Proof.
  induction ks as [|k ks IH]; intros S S' H; [reflexivity|].
  destruct H as [|r r' S S' Hr HS]; [reflexivity|]. simpl. rewrite Hr, (IH _ _ HS). reflexivity.
Qed.

Lemma Forall2_seq {A B} (R : A -> B -> Prop) (f : nat -> B) : forall (l : list A) s,
  (forall j x, nth_error l j = Some x -> R x (f (s + j)%nat)) -> Forall2 R l (map f (seq s (length l))).
Proof.
  induction l as [|x l IH]; intros s H; simpl; constructor.
  - specialize (H 0%nat x eq_refl). rewrite Nat.add_0_r in H. exact H.
  - apply IH. intros j y Hj. replace (S s + j)%nat with (s + S j)%nat by lia. apply H. exact Hj.
Qed.

Lemma has_end_acc i P : has_end T i P = true <-> acc T i P [].
Proof.
  unfold has_end. rewrite existsb_exists. split.
  - intros (p & Hp & H). destruct (nth_error T p) as [[[l h| |j] fol]|] eqn:E; try discriminate.
    apply Nat.eqb_eq in H. subst j. eapply acc_end; eauto.
  - intros H. inversion H as [K0 p fol Hin Hp|]; subst. exists p. split; [exact Hin|].
    rewrite Hp. apply Nat.eqb_refl.
Qed.

Lemma sem_verdict ks P S : Sem P S -> length S = length ks -> verdict ks S = accept_code T ks P.
Proof.
  intros [Hw Hs] Hlen. unfold accept_code, verdict.
  rewrite (candidates_ext ks S (map (fun i => if has_end T i P then Eps else Emp) (seq 0 (length ks)))); [reflexivity|].
  rewrite <- Hlen. apply Forall2_seq. intros j r Hj. simpl.
  destruct (has_end T j P) eqn:E.
  - apply has_end_acc in E. apply Hs in E. destruct E as (r' & Hr' & Hl). rewrite Hj in Hr'. inversion Hr'; subst.
    apply nullable_lang2 in Hl. rewrite Hl. reflexivity.
  - destruct (nullable r) eqn:En; [|reflexivity]. exfalso.
    apply nullable_lang2 in En. assert (Hacc : acc T j P []) by (apply Hs; eauto).
    apply has_end_acc in Hacc. congruence.
Qed.
End Sem.

(** * 6. The row of a state: classes, moves, lookup *)
Lemma flat_map_ext_in {A B} (f g : A -> list B) : forall l, (forall x, In x l -> f x = g x) -> flat_map f l = flat_map g l.
Proof.
  induction l as [|x l IH]; intros H; simpl; [reflexivity|].
  rewrite (H x (or_introl eq_refl)), IH; [reflexivity|]. intros y Hy. apply H. right. exact Hy.
Qed.

(** [lookup] returns the target of the first case containing the rune, else the default *)
Lemma lookup_spec : forall cs c d,
  (exists lo hi t, In (lo, hi, t) cs /\ lo <= c <= hi /\ lookup cs c d = t) \/
  ((forall lo hi t, In (lo, hi, t) cs -> ~ lo <= c <= hi) /\ lookup cs c d = d).
Proof.
  induction cs as [|[[lo hi] t] cs IH]; intros c d.
  - right. split; [intros ? ? ? []|reflexivity].
  - simpl. destruct ((lo <=? c) && (c <=? hi)) eqn:E.
    + left. exists lo, hi, t. apply andb_prop in E. destruct E as [A B]. apply Z.leb_le in A, B.
      repeat split; auto; lia.
    + destruct (IH c d) as [(lo' & hi' & t' & Hin & Hc & Hl)|[Hno Hl]].
      * left. exists lo', hi', t'. auto.
      * right. split; [|exact Hl]. intros lo' hi' t' [Heq|Hin]; [|eauto].
        inversion Heq; subst. intros [A B]. apply andb_false_iff in E. destruct E as [E|E]; apply Z.leb_gt in E; lia.
Qed.

Section Rows.
Variable T : ptable.
Hypothesis Tok : table_ok T.

Lemma ops_In P l h : In (l, h) (ops T P) <-> exists p fol, In p P /\ nth_error T p = Some (LSym l h, fol).
Proof.
  unfold ops. rewrite in_flat_map. split.
  - intros (p & Hp & Hin). destruct (nth_error T p) as [[[l' h'| |j] fol]|] eqn:E; try (destruct Hin; fail).
    destruct Hin as [Hin|[]]. inversion Hin; subst. exists p, fol. auto.
  - intros (p & fol & Hp & E). exists p. split; [exact Hp|]. rewrite E. left. reflexivity.
Qed.

Lemma move_cls_nstep P cl c : In cl (classes (ops T P)) -> inr c cl ->
  move_cls T P cl = nstep T P (c, false).
Proof.
  intros Hcl Hc. unfold move_cls, nstep. apply flat_map_ext_in. intros p Hp.
  destruct (nth_error T p) as [[[l h| |j] fol]|] eqn:E; simpl; try reflexivity.
  assert (Hop : In (l, h) (ops T P)) by (apply ops_In; eauto).
  pose proof (Inv_nonempty _ cl (classes_Inv (ops T P)) Hcl) as Hne.
  destruct cl as [lo hi]. unfold inr in *. simpl in *.
  assert (Heq : (l <=? lo) && (lo <=? h) && (hi <=? h) = in_rng l h c); [|rewrite Heq; reflexivity].
  unfold in_rng.
  destruct (classes_refine (ops T P) (lo, hi) (l, h) Hcl Hop) as [Hin|Hout]; unfold inr in *; simpl in *.
  - pose proof (Hin lo ltac:(lia)). pose proof (Hin hi ltac:(lia)). pose proof (Hin c Hc).
    rewrite !(proj2 (Z.leb_le _ _)) by lia. reflexivity.
  - pose proof (Hout lo ltac:(lia)) as H1. pose proof (Hout c Hc) as H2.
    destruct (l <=? lo) eqn:A, (lo <=? h) eqn:B, (hi <=? h) eqn:C, (l <=? c) eqn:D, (c <=? h) eqn:F;
      try reflexivity; rewrite ?Z.leb_le, ?Z.leb_gt in *; exfalso; lia.
Qed.

Lemma move_dot_nstep P c : (forall cl, In cl (classes (ops T P)) -> ~ inr c cl) ->
  move_dot T P = nstep T P (c, true).
Proof.
  intros Hno. unfold move_dot, nstep. apply flat_map_ext_in. intros p Hp.
  destruct (nth_error T p) as [[[l h| |j] fol]|] eqn:E; simpl; try reflexivity.
  destruct (in_rng l h c) eqn:Er; [|reflexivity]. exfalso.
  assert (Hop : In (l, h) (ops T P)) by (apply ops_In; eauto).
  assert (Hm : RangesProofs.mem c (classes (ops T P))).
  { apply classes_mem. exists (l, h). split; [exact Hop|]. unfold inr, in_rng in *. simpl.
    apply andb_prop in Er. destruct Er as [A B]. apply Z.leb_le in A, B. lia. }
  destruct Hm as (cl & Hcl & Hc). exact (Hno cl Hcl Hc).
Qed.

Lemma hasdot_false : forall P, hasdot T P = false -> move_dot T P = [].
Proof.
  induction P as [|p P IH]; simpl; intros H; [reflexivity|].
  apply orb_false_iff in H. destruct H as [H1 H2]. rewrite (IH H2).
  destruct (nth_error T p) as [[[l h| |j] fol]|]; try reflexivity. discriminate.
Qed.

(** a target: -1 for the empty set, else the number of the set *)
Definition target_ok (sts : list state) (Q : state) (t : Z) : Prop :=
  (Q = [] /\ t = -1) \/ (Q <> [] /\ exists j, t = Z.of_nat j /\ nth_error sts j = Some Q).

Lemma target_ok_mono sts ext Q t : target_ok sts Q t -> target_ok (sts ++ ext) Q t.
Proof.
  intros [H|(Hne & j & -> & Hj)]; [left; exact H|right]. split; [exact Hne|]. exists j. split; [reflexivity|].
  rewrite nth_error_app1; [exact Hj|]. apply nth_error_Some. congruence.
Qed.

Definition row_ok (sts : list state) (P : state) (row : trow) : Prop :=
  map fst (cases row) = classes (ops T P) /\
  (forall cl t, In (cl, t) (cases row) -> target_ok sts (norm (move_cls T P cl)) t) /\
  (if hasdot T P then target_ok sts (norm (move_dot T P)) (dflt row) else dflt row = -1).

Lemma row_ok_mono sts ext P row : row_ok sts P row -> row_ok (sts ++ ext) P row.
Proof.
  intros (H1 & H2 & H3). split; [exact H1|]. split.
  - intros cl t Hin. apply target_ok_mono. auto.
  - destruct (hasdot T P); [apply target_ok_mono|]; exact H3.
Qed.

(** THEOREM (one row): on any rune the row gives the number of the set of positions reached by
    the step of the position automaton on the letter (rune, "no explicit class contains it") *)
Lemma row_step sts P row S c : row_ok sts P row -> Sem T P S ->
  target_ok sts (norm (nstep T P (c, negb (explicit S c)))) (lookup (cases row) c (dflt row)).
Proof.
  intros (Hcls & Hcases & Hdot) Hsem.
  destruct (lookup_spec (cases row) c (dflt row)) as [(lo & hi & t & Hin & Hc & ->)|[Hno ->]].
  - assert (Hcl : In (lo, hi) (classes (ops T P))).
    { rewrite <- Hcls. apply in_map_iff. exists (lo, hi, t). auto. }
    assert (He : explicit S c = true).
    { apply (sem_explicit T Tok P S c Hsem).
      assert (Hm : RangesProofs.mem c (classes (ops T P))) by (exists (lo, hi); split; [exact Hcl|exact Hc]).
      apply (proj1 (classes_mem (ops T P) c)) in Hm. destruct Hm as ([l h] & Hop & Hx). apply ops_In in Hop.
      destruct Hop as (p & fol & Hp & E). exists p, l, h, fol. auto. }
    rewrite He. simpl. rewrite <- (move_cls_nstep P (lo, hi) c Hcl Hc). apply Hcases. exact Hin.
  - assert (Hnc : forall cl, In cl (classes (ops T P)) -> ~ inr c cl).
    { intros [lo hi] Hcl Hc. rewrite <- Hcls in Hcl. apply in_map_iff in Hcl.
      destruct Hcl as ([[lo' hi'] t] & Heq & Hin). simpl in Heq. inversion Heq; subst.
      exact (Hno lo hi t Hin Hc). }
    assert (He : explicit S c = false).
    { destruct (explicit S c) eqn:E; [|reflexivity]. exfalso.
      apply (sem_explicit T Tok P S c Hsem) in E. destruct E as (p & l & h & fol & Hp & Ep & Hx).
      assert (Hm : RangesProofs.mem c (classes (ops T P))).
      { apply classes_mem. exists (l, h). split; [apply ops_In; eauto|exact Hx]. }
      destruct Hm as (cl & Hcl & Hc). exact (Hnc cl Hcl Hc). }
    rewrite He. simpl. rewrite <- (move_dot_nstep P c Hnc).
    destruct (hasdot T P) eqn:Ed; [exact Hdot|]. left. rewrite (hasdot_false P Ed). auto.
Qed.

(** * 7. The worklist *)
Lemma find_idx_sound P : forall sts i j, find_idx P sts i = Some j ->
  exists k, j = (i + k)%nat /\ nth_error sts k = Some P.
Proof.
  induction sts as [|Q sts IH]; intros i j H; simpl in H; [discriminate|].
  destruct (state_eqb Q P) eqn:E.
  - inversion H; subst. apply state_eqb_eq in E. subst. exists 0%nat. split; [lia|reflexivity].
  - destruct (IH _ _ H) as (k & -> & Hk). exists (S k). split; [lia|exact Hk].
Qed.

Lemma add_state_spec sts P sts' j : add_state sts P = (sts', j) ->
  (exists ext, sts' = sts ++ ext) /\ nth_error sts' j = Some P.
Proof.
  unfold add_state. destruct (find_idx P sts 0) as [k|] eqn:E; intros H; inversion H; subst.
  - split; [exists []; rewrite app_nil_r; reflexivity|].
    destruct (find_idx_sound P _ _ _ E) as (k' & -> & Hk). exact Hk.
  - split; [exists [P]; reflexivity|]. rewrite nth_error_app2 by lia. rewrite Nat.sub_diag. reflexivity.
Qed.

Lemma add_succ_spec sts Q sts' t : add_succ sts Q = (sts', t) ->
  (exists ext, sts' = sts ++ ext) /\ target_ok sts' Q t.
Proof.
  unfold add_succ. destruct Q as [|x Q].
  - intros H. inversion H; subst. split; [exists []; rewrite app_nil_r; reflexivity|left; auto].
  - destruct (add_state sts (x :: Q)) as [sts1 j] eqn:E. intros H. inversion H; subst.
    destruct (add_state_spec _ _ _ _ E) as [Hext Hj]. split; [exact Hext|].
    right. split; [discriminate|]. exists j. auto.
Qed.

Lemma do_classes_spec P : forall cls sts sts' cs, do_classes T P cls sts = (sts', cs) ->
  (exists ext, sts' = sts ++ ext) /\ map fst cs = cls /\
  forall cl t, In (cl, t) cs -> target_ok sts' (norm (move_cls T P cl)) t.
Proof.
  induction cls as [|c cls IH]; intros sts sts' cs H; simpl in H.
  - inversion H; subst. split; [exists []; rewrite app_nil_r; reflexivity|]. split; [reflexivity|intros ? ? []].
  - destruct (add_succ sts (norm (move_cls T P c))) as [sts1 t] eqn:E1.
    destruct (do_classes T P cls sts1) as [sts2 cs'] eqn:E2. inversion H; subst.
    destruct (add_succ_spec _ _ _ _ E1) as [[e1 ->] Ht].
    destruct (IH _ _ _ E2) as ([e2 ->] & Hm & Hc).
    split; [exists (e1 ++ e2); rewrite app_assoc; reflexivity|]. split.
    + simpl. rewrite Hm. destruct c; reflexivity.
    + intros cl t' [Heq|Hin]; [|auto]. inversion Heq; subst. destruct c as [lo hi]. simpl.
      apply target_ok_mono. exact Ht.
Qed.

Lemma do_dot_spec P sts sts' d : do_dot T P sts = (sts', d) ->
  (exists ext, sts' = sts ++ ext) /\
  (if hasdot T P then target_ok sts' (norm (move_dot T P)) d else d = -1).
Proof.
  unfold do_dot. destruct (hasdot T P).
  - apply add_succ_spec.
  - intros H. inversion H; subst. split; [exists []; rewrite app_nil_r; reflexivity|reflexivity].
Qed.

Definition WInv (sts : list state) (rows : list trow) : Prop :=
  (length rows <= length sts)%nat /\
  forall q row, nth_error rows q = Some row -> exists P, nth_error sts q = Some P /\ row_ok sts P row.

Lemma loop_spec : forall fuel sts rows sts' rows', loop T fuel sts rows = Some (sts', rows') ->
  WInv sts rows -> WInv sts' rows' /\ length rows' = length sts' /\ exists ext, sts' = sts ++ ext.
Proof.
  induction fuel as [|fuel IH]; intros sts rows sts' rows' H Hinv; [discriminate|].
  cbn [loop] in H. destruct (nth_error sts (length rows)) as [P|] eqn:EP.
  - destruct (do_classes T P (classes (ops T P)) sts) as [sts1 cs] eqn:E1.
    destruct (do_dot T P sts1) as [sts2 d] eqn:E2.
    destruct (do_classes_spec P _ _ _ _ E1) as ([e1 ->] & Hm & Hc).
    destruct (do_dot_spec P _ _ _ E2) as ([e2 ->] & Hd).
    destruct Hinv as [Hlen Hrows].
    assert (Hlt : (length rows < length sts)%nat) by (apply nth_error_Some; congruence).
    destruct (IH _ _ _ _ H) as (Hinv' & Hlen' & ext & ->).
    + split; [rewrite !app_length; simpl; lia|].
      intros q row Hq. destruct (Nat.lt_ge_cases q (length rows)) as [Hql|Hqg].
      * rewrite nth_error_app1 in Hq by exact Hql. destruct (Hrows q row Hq) as (P' & HP' & Hok).
        exists P'. split.
        -- rewrite <- app_assoc. rewrite nth_error_app1; [exact HP'|]. apply nth_error_Some. congruence.
        -- apply row_ok_mono. apply row_ok_mono. exact Hok.
      * rewrite nth_error_app2 in Hq by exact Hqg.
        destruct (q - length rows)%nat as [|q'] eqn:Eq; [|destruct q'; discriminate].
        simpl in Hq. inversion Hq; subst row. assert (q = length rows) by lia. subst q.
        exists P. split.
        -- rewrite <- app_assoc. rewrite nth_error_app1; [exact EP|exact Hlt].
        -- split; [exact Hm|]. split.
           ++ intros cl t Hin. apply target_ok_mono. apply Hc. exact Hin.
           ++ exact Hd.
    + split; [exact Hinv'|]. split; [exact Hlen'|]. exists (e1 ++ e2 ++ ext). rewrite !app_assoc. reflexivity.
  - inversion H; subst. split; [exact Hinv|]. split.
    + destruct Hinv as [Hlen _]. apply nth_error_None in EP. lia.
    + exists []. rewrite app_nil_r. reflexivity.
Qed.

(** * 8. The emitted table is bisimilar to the derivative automaton *)
Section Bisim.
Variable ks : list tkind.
Variable S0 : dstate.
Variable sts : list state.
Variable rows : list trow.
Hypothesis Hrows : forall q row, nth_error rows q = Some row -> exists P, nth_error sts q = Some P /\ row_ok sts P row.
Hypothesis Hlen : length rows = length sts.

Let acts := map (accept_code T ks) sts.

Definition Rel (q : Z) (S : dstate) : Prop :=
  exists P, 0 <= q /\ nth_error sts (Z.to_nat q) = Some P /\ Sem T P S /\ length S = length ks.

Lemma Rel_step q S : Rel q S -> forall c,
  match m_step (dfa_machine (table_dfa rows acts)) q c, m_step (dmachine ks S0) S c with
  | None, None => True
  | Some a, Some b => m_acc (dfa_machine (table_dfa rows acts)) a = m_acc (dmachine ks S0) b /\ Rel a b
  | _, _ => False
  end.
Proof.
  intros (P & Hq & HP & Hsem & HlenS) c.
  destruct (nth_error rows (Z.to_nat q)) as [row|] eqn:Erow.
  2:{ apply nth_error_None in Erow. assert (Z.to_nat q < length sts)%nat by (apply nth_error_Some; congruence). lia. }
  destruct (Hrows _ _ Erow) as (P' & HP' & Hok). rewrite HP in HP'. inversion HP'; subst P'.
  pose proof (row_step sts P row S c Hok Hsem) as Ht.
  pose proof (sem_step T P S c Hsem) as Hsem'.
  cbn [dfa_machine dmachine m_step m_acc table_dfa trans accept]. rewrite Erow.
  set (N := nstep T P (c, negb (explicit S c))) in *.
  set (t := lookup (cases row) c (dflt row)) in *.
  pose proof (sem_live T N (dstep S c) Hsem') as Hlive.
  destruct Ht as [[HN Ht]|(HN & j & Ht & Hj)].
  - rewrite Ht. simpl. apply (proj1 (norm_nil N)) in HN.
    destruct (live (dstep S c)) eqn:El; [|exact I].
    destruct Hlive as [Hl _]. destruct (Hl eq_refl) as (i & w & Hacc). rewrite HN in Hacc.
    exfalso. eapply acc_nil. exact Hacc.
  - assert (Hne : N <> []) by (intros E; apply HN; rewrite E; reflexivity).
    assert (El : live (dstep S c) = true) by (apply Hlive; apply (nstep_coacc T Tok); exact Hne).
    rewrite El. assert (Et : (t =? -1) = false) by (apply Z.eqb_neq; lia). rewrite Et.
    assert (Hsem'' : Sem T (norm N) (dstep S c)).
    { eapply sem_ext; [|exact Hsem']. intros p. symmetry. apply norm_In. }
    assert (HlenS' : length (dstep S c) = length ks) by (unfold dstep; rewrite map_length; exact HlenS).
    split.
    + rewrite Ht, Nat2Z.id. unfold acts.
      rewrite (nth_error_nth _ _ INVALID (map_nth_error (accept_code T ks) _ _ Hj)).
      symmetry. apply sem_verdict; assumption.
    + exists (norm N). rewrite Ht, Nat2Z.id. split; [lia|]. split; [exact Hj|]. split; assumption.
Qed.
End Bisim.
End Rows.

(** * 9. MAIN THEOREM *)
Lemma lexgen_full_inv g fuel sts rows acts : lexgen_full g fuel = Some (sts, rows, acts) ->
  exists kps, expand g = Some kps /\
    let ks := map fst kps in
    let rs := map (fun kp => raw_p (snd kp)) kps in
    let T := lex_table rs in
    Forall (nz true) rs /\
    loop T fuel [lex_state0 rs] [] = Some (sts, rows) /\ acts = map (accept_code T ks) sts.
Proof.
  unfold lexgen_full, lex_raws. destruct (expand g) as [kps|] eqn:Ex; [|discriminate].
  destruct (forallb nzb (map (fun kp => raw_p (snd kp)) kps)) eqn:Hnz; [|discriminate].
  destruct (loop _ fuel _ []) as [[sts0 rows0]|] eqn:Hl; [|discriminate].
  intros H. inversion H; subst. exists kps. split; [reflexivity|]. cbv zeta. split; [|auto].
  apply Forall_forall. intros r Hr. apply nzb_nz. rewrite forallb_forall in Hnz. auto.
Qed.

Theorem lexgen_full_correct g fuel sts rows acts :
  lexgen_full g fuel = Some (sts, rows, acts) ->
  forall k l, Forall byte (rest l) ->
    scan_n decode_rune (table_dfa rows acts) k l = dscan_n g k l.
Proof.
  intros H. destruct (lexgen_full_inv _ _ _ _ _ H) as (kps & Ex & Hnz & Hloop & Hacts). cbv zeta in *.
  set (ks := map fst kps) in *. set (rs := map (fun kp => raw_p (snd kp)) kps) in *.
  set (T := lex_table rs) in *.
  pose proof (lex_table_ok rs Hnz) as Tok.
  destruct (loop_spec T fuel _ _ _ _ Hloop) as ((_ & Hrows) & Hlen & ext & Hext).
  { split; [simpl; lia|]. intros q row Hq. destruct q; discriminate. }
  intros k l Hl. unfold dscan_n, dinit. rewrite Ex. fold ks.
  set (S0 := map (fun kp => re_of_pattern (snd kp)) kps).
  rewrite <- gscan_n_dfa. subst acts.
  apply (gscan_n_bisim Z dstate decode_rune _ _ (fun _ => True) byte (fun _ _ _ => I)
           (Rel T ks sts)); [| |exact Hl].
  - intros q S HR c _. apply (Rel_step T Tok ks S0 sts rows Hrows Hlen q S HR c).
  - cbn [dfa_machine dmachine m_start]. exists (lex_state0 rs). split; [lia|]. split; [rewrite Hext; reflexivity|].
    split; [|unfold S0, ks; rewrite !map_length; reflexivity].
    split; [exact (dstate0_nz_or_emp kps)|].
    intros i w. unfold lex_state0.
    rewrite (acc_ext T i (norm (inits rs 0)) (inits rs 0) w (norm_In _)).
    unfold T. rewrite lex_inits. unfold rs, S0. rewrite !nth_error_map.
    destruct (nth_error kps i) as [kp|]; simpl.
    + split; intros (r & Hr & Hw); inversion Hr; subst; eexists; (split; [reflexivity|]); apply raw_p_lang2; exact Hw.
    + split; intros (r & Hr & _); discriminate.
Qed.

(** MAIN THEOREM: for every lexical grammar the model generator accepts, the generated DFA and the
    definitional tokenizer agree on all inputs *)
Theorem lexgen_correct g fuel rows acts :
  lexgen g fuel = Some (rows, acts) ->
  forall k l, Forall byte (rest l) ->
    scan_n decode_rune (table_dfa rows acts) k l = dscan_n g k l.
Proof.
  unfold lexgen. destruct (lexgen_full g fuel) as [[[sts rows0] acts0]|] eqn:E; [|discriminate].
  intros H. inversion H; subst. eapply lexgen_full_correct. exact E.
Qed.

Print Assumptions lexgen_correct.

(** * 10. Termination: the fuel [lex_fuel] is always enough *)
(** strictly increasing lists above [lo] *)
Fixpoint incr (lo : nat) (l : list nat) : Prop :=
  match l with
  | [] => True
  | x :: l' => (lo <= x)%nat /\ incr (S x) l'
  end.

Lemma incr_weaken lo lo' l : (lo' <= lo)%nat -> incr lo l -> incr lo' l.
Proof. destruct l; simpl; intuition lia. Qed.

Lemma ins_incr x : forall l lo, incr lo l -> (lo <= x)%nat -> incr lo (ins x l).
Proof.
  induction l as [|y l IH]; intros lo Hl Hx; simpl in *.
  - auto.
  - destruct Hl as [H1 H2]. destruct (Nat.compare x y) eqn:E.
    + simpl. auto.
    + apply Nat.compare_lt_iff in E. simpl. split; [exact Hx|]. split; [lia|exact H2].
    + apply Nat.compare_gt_iff in E. simpl. split; [exact H1|]. apply IH; [exact H2|lia].
Qed.

Lemma norm_incr l : incr 0 (norm l).
Proof. induction l as [|x l IH]; simpl; [exact I|]. apply ins_incr; [exact IH|lia]. Qed.

(** all sublists *)
Fixpoint subs (l : list nat) : list (list nat) :=
  match l with
  | [] => [[]]
  | x :: l' => map (cons x) (subs l') ++ subs l'
  end.

Lemma subs_length l : length (subs l) = (2 ^ length l)%nat.
Proof. induction l as [|x l IH]; simpl; [reflexivity|]. rewrite app_length, map_length, IH. lia. Qed.

Lemma subs_nil l : In [] (subs l).
Proof. induction l as [|x l IH]; simpl; [left; reflexivity|]. apply in_or_app. right. exact IH. Qed.

Lemma incr_subs : forall n s P, incr s P -> (forall x, In x P -> (x < s + n)%nat) -> In P (subs (seq s n)).
Proof.
  induction n as [|n IH]; intros s P Hi Hb.
  - destruct P as [|x P]; [left; reflexivity|]. exfalso. simpl in Hi. specialize (Hb x (or_introl eq_refl)). lia.
  - destruct P as [|x P]; [apply subs_nil|]. simpl in Hi. destruct Hi as [H1 H2].
    cbn [seq subs]. apply in_or_app. destruct (Nat.eq_dec x s) as [->|Hne].
    + left. apply in_map. apply IH; [exact H2|]. intros y Hy. specialize (Hb y (or_intror Hy)). lia.
    + right. apply IH.
      * simpl. split; [lia|exact H2].
      * intros y Hy. specialize (Hb y Hy). lia.
Qed.

(** positions stay inside the table *)
Lemma firstpos_range : forall r n q, In q (firstpos r n) -> (n <= q < n + nleaves r)%nat.
Proof.
  induction r; intros n q H; simpl in *; try contradiction.
  - destruct H as [<-|[]]. lia.
  - destruct H as [<-|[]]. lia.
  - apply in_app_or in H. destruct H as [H|H]; [apply IHr1 in H|apply IHr2 in H]; lia.
  - apply in_app_or in H. destruct H as [H|H]; [apply IHr1 in H; lia|].
    destruct (nullable r1); [apply IHr2 in H; lia|destruct H].
  - apply IHr in H. lia.
Qed.

Lemma build_bound : forall r n K M, (forall q, In q K -> (q < M)%nat) -> (n + nleaves r <= M)%nat ->
  forall lf fol, In (lf, fol) (build r n K) -> forall q, In q fol -> (q < M)%nat.
Proof.
  induction r; intros n K M HK HM lf fol Hin q Hq; simpl in *; try contradiction.
  - destruct Hin as [E|[]]. inversion E; subst. auto.
  - destruct Hin as [E|[]]. inversion E; subst. auto.
  - apply in_app_or in Hin. destruct Hin as [Hin|Hin].
    + eapply (IHr1 n K M); eauto. lia.
    + eapply (IHr2 _ K M); eauto. lia.
  - apply in_app_or in Hin. destruct Hin as [Hin|Hin].
    + eapply (IHr1 n _ M); [| |exact Hin|exact Hq]; [|lia].
      intros x Hx. apply in_app_or in Hx. destruct Hx as [Hx|Hx].
      * apply firstpos_range in Hx. lia.
      * destruct (nullable r2); [auto|destruct Hx].
    + eapply (IHr2 _ K M); eauto. lia.
  - eapply (IHr n _ M); [| |exact Hin|exact Hq]; [|lia].
    intros x Hx. apply in_app_or in Hx. destruct Hx as [Hx|Hx]; [apply firstpos_range in Hx; lia|auto].
Qed.

Lemma blocks_bound : forall rs i off lf fol, In (lf, fol) (blocks rs i off) ->
  forall q, In q fol -> (q < off + length (blocks rs i off))%nat.
Proof.
  induction rs as [|r rs IH]; intros i off lf fol Hin q Hq; simpl in Hin; [contradiction|].
  cbn [blocks]. rewrite app_length, build_length. simpl.
  apply in_app_or in Hin. destruct Hin as [Hin|[E|Hin]].
  - eapply (build_bound r off [(off + nleaves r)%nat] (off + (nleaves r + S (length (blocks rs (S i) (S (off + nleaves r))))))%nat);
      [| |exact Hin|exact Hq]; [|lia].
    intros x [<-|[]]. lia.
  - inversion E; subst. destruct Hq.
  - specialize (IH _ _ _ _ Hin q Hq). lia.
Qed.

Lemma inits_bound : forall rs i off q, In q (inits rs off) -> (q < off + length (blocks rs i off))%nat.
Proof.
  induction rs as [|r rs IH]; intros i off q Hq; simpl in Hq; [contradiction|].
  cbn [blocks]. rewrite app_length, build_length. simpl.
  apply in_app_or in Hq. destruct Hq as [Hq|Hq]; [apply firstpos_range in Hq; lia|].
  apply in_app_or in Hq. destruct Hq as [Hq|Hq].
  - destruct (nullable r); [destruct Hq as [<-|[]]; lia|destruct Hq].
  - specialize (IH (S i) _ q Hq). lia.
Qed.

Definition table_closed (T : ptable) : Prop :=
  forall p lf fol, nth_error T p = Some (lf, fol) -> forall q, In q fol -> (q < length T)%nat.

Lemma lex_table_closed rs : table_closed (lex_table rs).
Proof.
  intros p lf fol Hp q Hq. apply nth_error_In in Hp.
  apply (blocks_bound rs 0%nat 0%nat lf fol Hp q Hq).
Qed.

Lemma NoDup_app_snoc {A} (l : list A) x : NoDup l -> ~ In x l -> NoDup (l ++ [x]).
Proof.
  induction l as [|y l IH]; intros Hnd Hx; simpl.
  - constructor; [intros []|constructor].
  - inversion Hnd; subst. constructor.
    + intros Hin. apply in_app_or in Hin. destruct Hin as [Hin|[<-|[]]]; [contradiction|]. apply Hx. left. reflexivity.
    + apply IH; [assumption|]. intros Hin. apply Hx. right. exact Hin.
Qed.

Section Fuel.
Variable T : ptable.
Hypothesis Tcl : table_closed T.

(** a canonical state: strictly increasing positions of the table *)
Definition canon (P : state) : Prop := incr 0 P /\ forall x, In x P -> (x < length T)%nat.
Definition JInv (sts : list state) : Prop := NoDup sts /\ forall P, In P sts -> canon P.

Lemma canon_count sts : JInv sts -> (length sts <= 2 ^ length T)%nat.
Proof.
  intros [Hnd Hc]. rewrite <- (seq_length (length T) 0), <- subs_length.
  apply NoDup_incl_length; [exact Hnd|]. intros P HP. destruct (Hc P HP) as [H1 H2].
  apply incr_subs; [exact H1|exact H2].
Qed.

Lemma canon_move_cls P c : canon (norm (move_cls T P c)).
Proof.
  split; [apply norm_incr|]. intros x Hx. apply (proj1 (norm_In _ x)) in Hx. unfold move_cls in Hx.
  apply in_flat_map in Hx. destruct Hx as (p & _ & Hx).
  destruct (nth_error T p) as [[[l h| |j] fol]|] eqn:E; try destruct Hx.
  destruct ((l <=? fst c) && (fst c <=? h) && (snd c <=? h)); [|destruct Hx]. eapply Tcl; eauto.
Qed.

Lemma canon_move_dot P : canon (norm (move_dot T P)).
Proof.
  split; [apply norm_incr|]. intros x Hx. apply (proj1 (norm_In _ x)) in Hx. unfold move_dot in Hx.
  apply in_flat_map in Hx. destruct Hx as (p & _ & Hx).
  destruct (nth_error T p) as [[[l h| |j] fol]|] eqn:E; try destruct Hx. eapply Tcl; eauto.
Qed.

Lemma find_idx_none P : forall sts i, find_idx P sts i = None -> ~ In P sts.
Proof.
  induction sts as [|Q sts IH]; intros i H; simpl in *; [tauto|].
  destruct (state_eqb Q P) eqn:E; [discriminate|]. intros [->|Hin].
  - rewrite state_eqb_refl in E. discriminate.
  - exact (IH _ H Hin).
Qed.

Lemma add_succ_J sts Q : JInv sts -> canon Q -> JInv (fst (add_succ sts Q)).
Proof.
  intros [Hnd Hc] HQ. unfold add_succ. destruct Q as [|x Q]; [split; assumption|].
  unfold add_state. destruct (find_idx (x :: Q) sts 0) as [k|] eqn:E; simpl; [split; assumption|].
  apply find_idx_none in E. split.
  - apply NoDup_app_snoc; assumption.
  - intros P HP. apply in_app_or in HP. destruct HP as [HP|[<-|[]]]; auto.
Qed.

Lemma do_classes_J P : forall cls sts, JInv sts -> JInv (fst (do_classes T P cls sts)).
Proof.
  induction cls as [|c cls IH]; intros sts HJ; simpl; [exact HJ|].
  pose proof (add_succ_J sts _ HJ (canon_move_cls P c)) as H1.
  destruct (add_succ sts (norm (move_cls T P c))) as [sts1 t]. simpl in H1.
  specialize (IH sts1 H1). destruct (do_classes T P cls sts1) as [sts2 cs]. exact IH.
Qed.

Lemma do_dot_J P sts : JInv sts -> JInv (fst (do_dot T P sts)).
Proof.
  intros HJ. unfold do_dot. destruct (hasdot T P); [|exact HJ]. apply add_succ_J; [exact HJ|apply canon_move_dot].
Qed.

Lemma loop_total : forall fuel sts rows, JInv sts -> (length rows <= length sts)%nat ->
  (2 ^ length T < fuel + length rows)%nat -> loop T fuel sts rows <> None.
Proof.
  induction fuel as [|fuel IH]; intros sts rows HJ Hlen Hf.
  - pose proof (canon_count sts HJ). simpl in Hf. lia.
  - cbn [loop]. destruct (nth_error sts (length rows)) as [P|] eqn:EP; [|discriminate].
    pose proof (do_classes_J P (classes (ops T P)) sts HJ) as H1.
    destruct (do_classes T P (classes (ops T P)) sts) as [sts1 cs] eqn:E1. simpl in H1.
    pose proof (do_dot_J P sts1 H1) as H2.
    destruct (do_classes_spec T P _ _ _ _ E1) as ([e1 ->] & _ & _).
    destruct (do_dot T P (sts ++ e1)) as [sts2 d] eqn:E2. simpl in H2.
    destruct (do_dot_spec T P _ _ _ E2) as ([e2 ->] & _).
    assert (Hlt : (length rows < length sts)%nat) by (apply nth_error_Some; congruence).
    apply IH; [exact H2| |]; rewrite !app_length; simpl; rewrite ?app_length; lia.
Qed.

Lemma loop_J : forall fuel sts rows sts' rows', loop T fuel sts rows = Some (sts', rows') -> JInv sts -> JInv sts'.
Proof.
  induction fuel as [|fuel IH]; intros sts rows sts' rows' H HJ; [discriminate|].
  cbn [loop] in H. destruct (nth_error sts (length rows)) as [P|] eqn:EP; [|inversion H; subst; exact HJ].
  pose proof (do_classes_J P (classes (ops T P)) sts HJ) as H1.
  destruct (do_classes T P (classes (ops T P)) sts) as [sts1 cs]. simpl in H1.
  pose proof (do_dot_J P sts1 H1) as H2.
  destruct (do_dot T P sts1) as [sts2 d]. simpl in H2. eapply IH; eauto.
Qed.
End Fuel.

Lemma lex_state0_canon rs : canon (lex_table rs) (lex_state0 rs).
Proof.
  split; [apply norm_incr|]. intros x Hx. apply (proj1 (norm_In _ x)) in Hx.
  apply (inits_bound rs 0%nat 0%nat x Hx).
Qed.

(** [lexgen] answers on exactly the well-formed grammars, given the fuel [lex_fuel g] or more *)
Theorem lexgen_total g fuel : lex_wf g = true -> (lex_fuel g <= fuel)%nat ->
  exists rows acts, lexgen g fuel = Some (rows, acts).
Proof.
  unfold lex_wf, lex_fuel, lexgen, lexgen_full. destruct (lex_raws g) as [[ks rs]|]; [|discriminate].
  intros Hwf Hfuel. rewrite Hwf.
  destruct (loop (lex_table rs) fuel [lex_state0 rs] []) as [[sts rows]|] eqn:E; [eauto|].
  exfalso. revert E. apply (loop_total (lex_table rs) (lex_table_closed rs)).
  - split; [constructor; [intros []|constructor]|]. intros P [<-|[]]. apply lex_state0_canon.
  - simpl. lia.
  - simpl. lia.
Qed.

Theorem lexgen_rejects g fuel : lex_wf g = false -> lexgen g fuel = None.
Proof.
  unfold lex_wf, lexgen, lexgen_full. destruct (lex_raws g) as [[ks rs]|]; [|reflexivity].
  intros ->. reflexivity.
Qed.

Corollary lexgen_None_iff g : lexgen g (lex_fuel g) = None <-> lex_wf g = false.
Proof.
  split.
  - intros H. destruct (lex_wf g) eqn:E; [|reflexivity].
    destruct (lexgen_total g (lex_fuel g) E (le_n _)) as (rows & acts & H'). congruence.
  - apply lexgen_rejects.
Qed.

(** the number of states is at most 2 ^ (number of positions) *)
Theorem lexgen_states_bound g fuel sts rows acts : lexgen_full g fuel = Some (sts, rows, acts) ->
  exists rs ks, lex_raws g = Some (ks, rs) /\ (length sts <= 2 ^ length (lex_table rs))%nat /\
                length rows = length sts /\ length acts = length sts.
Proof.
  intros H. destruct (lexgen_full_inv _ _ _ _ _ H) as (kps & Ex & Hnz & Hloop & Hacts). cbv zeta in *.
  exists (map (fun kp => raw_p (snd kp)) kps), (map fst kps). unfold lex_raws. rewrite Ex.
  split; [reflexivity|]. set (rs := map (fun kp => raw_p (snd kp)) kps) in *.
  destruct (loop_spec (lex_table rs) fuel _ _ _ _ Hloop) as (_ & Hlen & _).
  { split; [simpl; lia|]. intros q row Hq. destruct q; discriminate. }
  split; [|split; [exact Hlen|subst acts; apply map_length]].
  apply (canon_count (lex_table rs)). apply (loop_J (lex_table rs) (lex_table_closed rs) _ _ _ _ _ Hloop).
  split; [constructor; [intros []|constructor]|]. intros P [<-|[]]. apply lex_state0_canon.
Qed.

Print Assumptions lexgen_total.
Print Assumptions lexgen_None_iff.
Print Assumptions lexgen_states_bound.

(** * 11. Examples (the expected tables are the ones `verifdump lexdump` prints: gocc's item sets) *)
(** keyword against identifier, a string-literal token, an ignored token, a regular definition:
      !ws : ' ' ;  _l : 'a'-'z' ;  id : _l { _l | '0'-'9' } ;  and the literal "if" *)
Definition ex1 : lexgrammar :=
  {| regdefs := [[[Rng 97 122]]];
     toks := [(Ign, [[Chr 32]]);
       (Tok 2 false, [[Ref 0%nat; Rep [[Ref 0%nat]; [Rng 48 57]]]]);
       (Tok 3 true, [[Chr 105; Chr 102]])] |}.
(* the DFA `verifdump lexdump` prints for it (gocc's item sets) *)
Definition ex1_rows : list trow :=
  [{| cases := [(32, 32, 1); (97, 104, 2); (105, 105, 3); (106, 122, 2)]; dflt := (-1) |};
   {| cases := []; dflt := (-1) |};
   {| cases := [(48, 57, 2); (97, 122, 2)]; dflt := (-1) |};
   {| cases := [(48, 57, 2); (97, 101, 2); (102, 102, 4); (103, 122, 2)]; dflt := (-1) |};
   {| cases := [(48, 57, 2); (97, 122, 2)]; dflt := (-1) |}].
Definition ex1_acts : list Z := [0; (-1); 2; 2; 3].
Example ex1_gen : lexgen ex1 100 = Some (ex1_rows, ex1_acts).
Proof. vm_compute. reflexivity. Qed.
Example ex1_correct : forall k l, Forall byte (rest l) ->
  scan_n decode_rune (table_dfa ex1_rows ex1_acts) k l = dscan_n ex1 k l.
Proof. exact (lexgen_correct _ _ _ _ ex1_gen). Qed.

(** the contextual dot:  cm : '/' '*' { . } '*' '/' ;  star : '*' ;  any : . ; *)
Definition ex2 : lexgrammar :=
  {| regdefs := [];
     toks := [(Tok 2 false, [[Chr 47; Chr 42; Rep [[Dot]]; Chr 42; Chr 47]]);
       (Tok 3 false, [[Chr 42]]);
       (Tok 4 false, [[Dot]])] |}.
(* the DFA `verifdump lexdump` prints for it (gocc's item sets) *)
Definition ex2_rows : list trow :=
  [{| cases := [(42, 42, 1); (47, 47, 2)]; dflt := 3 |};
   {| cases := []; dflt := (-1) |};
   {| cases := [(42, 42, 4)]; dflt := (-1) |};
   {| cases := []; dflt := (-1) |};
   {| cases := [(42, 42, 5)]; dflt := 4 |};
   {| cases := [(47, 47, 6)]; dflt := (-1) |};
   {| cases := []; dflt := (-1) |}].
Definition ex2_acts : list Z := [0; 3; 0; 4; 0; 0; 2].
Example ex2_gen : lexgen ex2 100 = Some (ex2_rows, ex2_acts).
Proof. vm_compute. reflexivity. Qed.
Example ex2_correct : forall k l, Forall byte (rest l) ->
  scan_n decode_rune (table_dfa ex2_rows ex2_acts) k l = dscan_n ex2 k l.
Proof. exact (lexgen_correct _ _ _ _ ex2_gen). Qed.

(** nested option / repetition, with a NULLABLE repetition body:
      num : '0'-'9' { [ '_' ] { '0'-'9' } } [ '.' [ '0'-'9' ] ] ; *)
Definition ex3 : lexgrammar :=
  {| regdefs := [];
     toks := [(Tok 2 false, [[Rng 48 57; Rep [[Opt [[Chr 95]]; Rep [[Rng 48 57]]]]; Opt [[Chr 46; Opt [[Rng 48 57]]]]]])] |}.
(* the DFA `verifdump lexdump` prints for it (gocc's item sets) *)
Definition ex3_rows : list trow :=
  [{| cases := [(48, 57, 1)]; dflt := (-1) |};
   {| cases := [(46, 46, 2); (48, 57, 1); (95, 95, 1)]; dflt := (-1) |};
   {| cases := [(48, 57, 3)]; dflt := (-1) |};
   {| cases := []; dflt := (-1) |}].
Definition ex3_acts : list Z := [0; 2; 2; 2].
Example ex3_gen : lexgen ex3 (lex_fuel ex3) = Some (ex3_rows, ex3_acts).
Proof. vm_compute. reflexivity. Qed.
Example ex3_correct : forall k l, Forall byte (rest l) ->
  scan_n decode_rune (table_dfa ex3_rows ex3_acts) k l = dscan_n ex3 k l.
Proof. exact (lexgen_correct _ _ _ _ ex3_gen). Qed.
(** the verified checker agrees (redundant with [ex3_correct]; a cross-check of the two routes) *)
Example ex3_bisim : bisim_check ex3_rows ex3_acts ex3 100 = true.
Proof. vm_compute. reflexivity. Qed.

(** rejected inputs: an empty range (gocc accepts it), a recursive and an undefined definition *)
Example bad_range : lexgen {| regdefs := []; toks := [(Tok 2 false, [[Chr 120; Rng 122 97]])] |} 100 = None.
Proof. vm_compute. reflexivity. Qed.
Example bad_rec : lexgen {| regdefs := [[[Chr 97; Ref 0%nat]]]; toks := [(Tok 2 false, [[Ref 0%nat]])] |} 100 = None.
Proof. vm_compute. reflexivity. Qed.
Example bad_undef : lexgen {| regdefs := []; toks := [(Tok 2 false, [[Ref 3%nat]])] |} 100 = None.
Proof. vm_compute. reflexivity. Qed.

Print Assumptions ex1_correct.
Print Assumptions lexgen_full_correct.
Print Assumptions lex_wf_spec.
Print Assumptions build_spec.
Print Assumptions raw_p_lang2.
