(** Property C01: assembly of the parts (ScanSpec, derivative automaton, matches) into the
    statements about the token returned, for dot-free grammars. *)
From Coq Require Import List ZArith Lia Bool.
From Gocc Require Import Base.Utf8 Lex.Scan Lex.Pattern Lex.Deriv Lex.GScanProofs Lex.DerivProofs.
Import ListNotations.
Open Scope Z_scope.

Lemma dsteps_snoc : forall w S c, dsteps S (w ++ [c]) = dstep (dsteps S w) c.
Proof. induction w as [|x w IH]; intros S c; simpl; [reflexivity|apply IH]. Qed.

Section Top.
Variable decode : list Z -> Z * nat.
Variable ks : list tkind.
Variable S0 : dstate.

(** what [Reads] means on the derivative automaton: the state is the iterated derivative of the
    initial state by the characters read, the recorded type its verdict *)
Lemma Reads_dmachine start bs s cur ty :
  Reads dstate decode (dmachine ks S0) S0 start INVALID bs s cur ty ->
  exists rs, Decodes decode start bs rs cur /\ s = dsteps S0 rs /\
             (rs = [] -> ty = INVALID) /\ (rs <> [] -> ty = verdict ks (dsteps S0 rs)).
Proof.
  intros H. destruct (Reads_runes _ _ _ _ _ _ _ _ _ _ H) as (rs & HD & Hm & H0 & H1).
  apply msteps_dmachine in Hm. exists rs. repeat split; auto.
  intros Hne. rewrite (H1 Hne). subst. reflexivity.
Qed.

Lemma dmachine_step_none S c : m_step (dmachine ks S0) S c = None <-> live (dstep S c) = false.
Proof. simpl. destruct (live (dstep S c)); split; congruence. Qed.

Lemma dmachine_step_some S c S' : m_step (dmachine ks S0) S c = Some S' <-> live (dstep S c) = true /\ S' = dstep S c.
Proof.
  simpl. destruct (live (dstep S c)); split; try congruence.
  - intros E. inversion E. auto.
  - intros [_ ->]. reflexivity.
  - intros [E _]. discriminate.
Qed.
End Top.

(** For a dot-free grammar (patterns [kps] after macro expansion): while scanning one lexeme, after
    the characters [rs] have been read,
    - the recorded token type is the priority winner among the definitions matching [rs]
      (string literal first, else earliest declared; -1 for an ignored token; 0 if none matches);
    - the next character [c] has a transition iff [rs ++ [c]] is still a prefix of some lexeme. *)
Theorem dotfree_reads decode kps start bs s cur ty :
  Forall (fun kp => dotfree (snd kp) = true) kps ->
  Reads dstate decode (dmachine (map fst kps) (dstate0 kps)) (dstate0 kps) start INVALID bs s cur ty ->
  exists rs, Decodes decode start bs rs cur /\
    (rs = [] -> ty = INVALID) /\
    (rs <> [] -> Winner (fun p => matches p rs) kps ty) /\
    (forall c, m_step (dmachine (map fst kps) (dstate0 kps)) s c <> None <->
               exists kp sfx, In kp kps /\ matches (snd kp) (rs ++ c :: sfx)) /\
    (forall c s1, m_step (dmachine (map fst kps) (dstate0 kps)) s c = Some s1 ->
               Winner (fun p => matches p (rs ++ [c])) kps (m_acc (dmachine (map fst kps) (dstate0 kps)) s1)).
Proof.
  intros Hdf H. destruct (Reads_dmachine _ _ _ _ _ _ _ _ H) as (rs & HD & Hs & H0 & H1).
  exists rs. split; [exact HD|]. split; [exact H0|]. split; [|split].
  - intros Hne. rewrite (H1 Hne). apply verdict_correct. exact Hdf.
  - intros c. subst s. rewrite dmachine_step_none. rewrite <- dsteps_snoc.
    pose proof (live_prefix kps (rs ++ [c]) Hdf) as Hl.
    assert (E : forall sfx, (rs ++ [c]) ++ sfx = rs ++ c :: sfx) by (intros; rewrite <- app_assoc; reflexivity).
    split.
    + intros Hn. destruct (live (dsteps (dstate0 kps) (rs ++ [c]))) eqn:El; [|congruence].
      destruct Hl as [Hl _]. destruct (Hl eq_refl) as (kp & sfx & Hin & Hm). exists kp, sfx. rewrite <- E. auto.
    + intros (kp & sfx & Hin & Hm). destruct Hl as [_ Hl]. rewrite Hl; [discriminate|].
      exists kp, sfx. rewrite E. auto.
  - intros c s1 Hst. apply dmachine_step_some in Hst. destruct Hst as [_ ->]. subst s.
    rewrite <- dsteps_snoc. simpl. apply verdict_correct. exact Hdf.
Qed.

Print Assumptions dotfree_reads.
