(** Model of the generated lexer's Scan/Reset (internal/lexer/gen/golang/lexer.go template,
    with the position and stale-type defects D1-D3 repaired by the fix commits).

    The DFA is an arbitrary pair of functions: [trans s r] = next state or -1,
    [accept s] = token type of state [s], or -1 when the state belongs to an ignored
    token (the generated ActTab has Accept = 0 = INVALID for states without action, so
    every state is either "accept t" or "ignore").  [decode] is a parameter, instantiated
    with [Utf8.decode_rune].

    The lexer state is (rest, off, line, col): [rest] is the not yet consumed suffix of the
    source (Go: src[pos:]), [off] = pos.  Observationally equal to the Go loop; tied to it by
    the correspondence check on generated lexers.

    Definitions only; proofs are in ScanProofs.v. *)
From Coq Require Import List ZArith Bool.
Import ListNotations.
Open Scope Z_scope.

Definition INVALID : Z := 0.
Definition EOF : Z := 1.

Record dfa := { trans : Z -> Z -> Z; accept : Z -> Z }.

Record lst := { rest : list Z; off : Z; line : Z; col : Z }.

(** [skipped] is a ghost field: the ignored text between the previous lexeme and this one. *)
Record tok := { ty : Z; lit : list Z; toff : Z; tline : Z; tcol : Z; skipped : list Z }.

Definition init (src : list Z) : lst := {| rest := src; off := 0; line := 1; col := 1 |}.

(** line/column bookkeeping for one consumed rune *)
Definition adv_line (r line : Z) : Z := if r =? 10 then line + 1 else line.
Definition adv_col (r col : Z) : Z :=
  if r =? 10 then 1 else if r =? 13 then 1 else if r =? 9 then col + 4 else col + 1.

Definition consume (r : Z) (sz : nat) (l : lst) : lst :=
  {| rest := skipn sz (rest l); off := off l + Z.of_nat sz;
     line := adv_line r (line l); col := adv_col r (col l) |}.

Section Scan.
Variable decode : list Z -> Z * nat.
Variable d : dfa.

(** [loop fuel state cur start acc ttype skip]:
    [cur] current lexer state, [start] where the current lexeme started, [acc] its bytes so far,
    [ttype] the type recorded so far, [skip] the ignored bytes before [start]. *)
Fixpoint loop (fuel : nat) (state : Z) (cur start : lst) (acc : list Z) (ttype : Z) (skip : list Z)
  : option (tok * lst) :=
  match fuel with
  | O => None
  | S fuel' =>
    match rest cur with
    | [] => (* input exhausted: rune -1, no transition *)
      Some ({| ty := ttype; lit := acc; toff := off start; tline := line start; tcol := col start;
               skipped := skip |}, cur)
    | _ =>
      let '(r, sz) := decode (rest cur) in
      let bytes := firstn sz (rest cur) in
      let ns := trans d state r in
      if ns =? -1 then
        if ttype =? INVALID then
          (* unmatchable text: the INVALID token also owns the rune that killed it *)
          Some ({| ty := INVALID; lit := acc ++ bytes; toff := off start; tline := line start;
                   tcol := col start; skipped := skip |}, consume r sz cur)
        else
          Some ({| ty := ttype; lit := acc; toff := off start; tline := line start; tcol := col start;
                   skipped := skip |}, cur)
      else
        let cur' := consume r sz cur in
        if negb (accept d ns =? -1) then
          loop fuel' ns cur' start (acc ++ bytes) (accept d ns) skip
        else (* ignored lexeme complete: restart from state 0 *)
          loop fuel' 0 cur' cur' [] (match rest cur' with [] => EOF | _ => INVALID end)
               (skip ++ acc ++ bytes)
    end
  end.

Definition scan (l : lst) : option (tok * lst) :=
  match rest l with
  | [] => Some ({| ty := EOF; lit := []; toff := off l; tline := line l; tcol := col l; skipped := [] |}, l)
  | _ => loop (S (length (rest l))) 0 l l [] INVALID []
  end.

(** The first [k] calls of Scan. [None] = out of fuel (proved impossible). *)
Fixpoint scan_n (k : nat) (l : lst) : option (list tok * lst) :=
  match k with
  | O => Some ([], l)
  | S k' =>
    match scan l with
    | None => None
    | Some (t, l') =>
      match scan_n k' l' with
      | None => None
      | Some (ts, l'') => Some (t :: ts, l'')
      end
    end
  end.

End Scan.

(** Reset (after fix D3): back to the initial state on the same source. *)
Definition reset (src : list Z) (l : lst) : lst := init src.

(** ** Table-driven instance (what the emitted transitiontable.go / acttab.go contain) *)
Record trow := { cases : list (Z * Z * Z); dflt : Z }.   (* (lo, hi, next) in order; default next or -1 *)

Fixpoint lookup (cs : list (Z * Z * Z)) (r dflt : Z) : Z :=
  match cs with
  | [] => dflt
  | (lo, hi, n) :: t => if (lo <=? r) && (r <=? hi) then n else lookup t r dflt
  end.

Definition table_dfa (rows : list trow) (acts : list Z) : dfa :=
  {| trans := fun s r => match nth_error rows (Z.to_nat s) with
                         | None => -1
                         | Some rw => lookup (cases rw) r (dflt rw)
                         end;
     accept := fun s => nth (Z.to_nat s) acts INVALID |}.
