(** Soundness of the bisimulation checker of Bisim.v:
    if [bisim_check rows acts g fuel = true] then the Scan loop on the emitted tables and the
    definitional tokenizer of the grammar return the same tokens (type, literal, positions, skipped
    text) and reach the same lexer positions, for every byte sequence and any number of calls. *)
From Coq Require Import List ZArith Lia Bool.
From Gocc Require Import Base.Utf8 Lex.Scan Lex.ScanProofs Lex.Pattern Lex.Deriv Lex.GScanProofs Lex.DerivProofs Lex.Bisim.
Import ListNotations.
Open Scope Z_scope.

(** ** 1. Bisimilar automata scan alike (any state types) *)
Section GBisim.
Variables St1 St2 : Type.
Variable decode : list Z -> Z * nat.
Variable M1 : machine St1.
Variable M2 : machine St2.
Variable okr : Z -> Prop.              (* the characters the decoder can return *)
Variable okb : Z -> Prop.              (* the bytes of the input *)
Hypothesis decode_ok : forall bs, Forall okb bs -> bs <> [] -> okr (fst (decode bs)).

Variable R : St1 -> St2 -> Prop.
Hypothesis R_step : forall s1 s2, R s1 s2 -> forall r, okr r ->
  match m_step M1 s1 r, m_step M2 s2 r with
  | None, None => True
  | Some a, Some b => m_acc M1 a = m_acc M2 b /\ R a b
  | _, _ => False
  end.
Hypothesis R_start : R (m_start M1) (m_start M2).

Lemma Forall_skipn {A} (P : A -> Prop) n : forall l, Forall P l -> Forall P (skipn n l).
Proof.
  induction n as [|n IH]; intros l H; [exact H|]. destruct l as [|x l]; [constructor|].
  simpl. apply IH. inversion H; assumption.
Qed.

Lemma gloop_bisim : forall fuel s1 s2 cur start acc ttype skip,
  R s1 s2 -> Forall okb (rest cur) ->
  gloop decode M1 fuel s1 cur start acc ttype skip = gloop decode M2 fuel s2 cur start acc ttype skip.
Proof.
  induction fuel as [|fuel IH]; intros s1 s2 cur start acc ttype skip HR Hok; [reflexivity|].
  cbn [gloop]. destruct (rest cur) as [|b bs] eqn:Hrest; [reflexivity|].
  rewrite <- Hrest in *. assert (Hne : rest cur <> []) by (rewrite Hrest; discriminate).
  pose proof (decode_ok _ Hok Hne) as Hr.
  destruct (decode (rest cur)) as [r sz] eqn:Hd. simpl in Hr.
  pose proof (R_step _ _ HR r Hr) as Hstep.
  assert (Hok' : Forall okb (rest (consume r sz cur))) by (apply Forall_skipn; exact Hok).
  destruct (m_step M1 s1 r) as [a|], (m_step M2 s2 r) as [b'|]; try contradiction; [|reflexivity].
  destruct Hstep as [Hacc HR']. rewrite Hacc.
  destruct (negb (m_acc M2 b' =? -1)); apply IH; auto.
Qed.

Theorem gscan_bisim l : Forall okb (rest l) -> gscan decode M1 l = gscan decode M2 l.
Proof.
  intros Hok. unfold gscan. destruct (rest l) eqn:E; [reflexivity|]. rewrite <- E in *.
  apply gloop_bisim; auto.
Qed.

Lemma skipn_skipn' {A} n : forall m (l : list A), skipn n (skipn m l) = skipn (m + n) l.
Proof.
  induction m as [|m IH]; intros l; [reflexivity|]. destruct l as [|x l]; simpl.
  - destruct n; reflexivity.
  - apply IH.
Qed.

(** the position returned is a suffix of the one given *)
Lemma gloop_suffix {St} (M : machine St) : forall fuel s cur start acc ttype skip t l',
  gloop decode M fuel s cur start acc ttype skip = Some (t, l') -> exists n, rest l' = skipn n (rest cur).
Proof.
  induction fuel as [|fuel IH]; intros s cur start acc ttype skip t l' H; [discriminate|].
  cbn [gloop] in H. destruct (rest cur) as [|b bs] eqn:Hrest.
  - inversion H; subst. exists 0%nat. rewrite Hrest. reflexivity.
  - rewrite <- Hrest in *. destruct (decode (rest cur)) as [r sz].
    assert (Hc : forall l'', (exists n, rest l'' = skipn n (rest (consume r sz cur))) ->
                             exists n, rest l'' = skipn n (rest cur)).
    { intros l'' [n Hn]. exists (sz + n)%nat. rewrite Hn. simpl. apply skipn_skipn'. }
    destruct (m_step M s r).
    + destruct (negb (m_acc M s0 =? -1)); apply Hc; eapply IH; exact H.
    + destruct (ttype =? INVALID); inversion H; subst.
      * apply Hc. exists 0%nat. reflexivity.
      * exists 0%nat. reflexivity.
Qed.

Lemma gscan_suffix {St} (M : machine St) l t l' :
  gscan decode M l = Some (t, l') -> exists n, rest l' = skipn n (rest l).
Proof.
  unfold gscan. destruct (rest l) eqn:E.
  - intros H; inversion H; subst. exists 0%nat. rewrite E. reflexivity.
  - rewrite <- E. apply gloop_suffix.
Qed.

Theorem gscan_n_bisim : forall k l, Forall okb (rest l) -> gscan_n decode M1 k l = gscan_n decode M2 k l.
Proof.
  induction k as [|k IH]; intros l Hok; [reflexivity|]. cbn [gscan_n].
  rewrite <- (gscan_bisim l Hok). destruct (gscan decode M1 l) as [[t l']|] eqn:E; [|reflexivity].
  destruct (gscan_suffix _ _ _ _ E) as [n Hn].
  rewrite IH; [reflexivity|]. rewrite Hn. apply Forall_skipn. exact Hok.
Qed.
End GBisim.

(** ** 2. The decoder returns code points of [0, 0x10FFFF] on bytes *)
Definition byte (b : Z) : Prop := 0 <= b <= 255.

Lemma decode_rune_range bs : Forall byte bs -> bs <> [] -> 0 <= fst (decode_rune bs) <= MAXRUNE.
Proof.
  intros Hb Hne. split.
  { apply decode_rune_nonneg. intros b Hin. rewrite Forall_forall in Hb. exact (Hb b Hin). }
  destruct bs as [|b0 t]; [congruence|]. clear Hne.
  unfold MAXRUNE, decode_rune, in_rng, cont.
  repeat match goal with
  | |- context [if ?c then _ else _] => let E := fresh "E" in destruct c eqn:E
  | |- context [match ?l with [] => _ | _ :: _ => _ end] => destruct l
  end; simpl; unfold rune_error; try lia; unfold in_rng, cont in *;
  repeat match goal with
  | H : _ && _ = true |- _ => apply andb_prop in H; destruct H
  | H : (_ <=? _) = true |- _ => apply Z.leb_le in H
  | H : (_ <? _) = true |- _ => apply Z.ltb_lt in H
  | H : (_ <? _) = false |- _ => apply Z.ltb_ge in H
  | H : (_ =? _) = true |- _ => apply Z.eqb_eq in H
  | H : (_ =? _) = false |- _ => apply Z.eqb_neq in H
  end; try lia.
Qed.

(** ** 3. Cells: a representative behaves like every rune of its cell *)
Definition same_on (rgs : list (Z * Z)) (b c : Z) : Prop :=
  forall lo hi, In (lo, hi) rgs -> in_rng lo hi c = in_rng lo hi b.

Lemma same_on_app rgs1 rgs2 b c : same_on (rgs1 ++ rgs2) b c <-> same_on rgs1 b c /\ same_on rgs2 b c.
Proof.
  unfold same_on. split.
  - intros H. split; intros lo hi Hin; apply H; apply in_or_app; auto.
  - intros [H1 H2] lo hi Hin. apply in_app_or in Hin. destruct Hin; auto.
Qed.

Lemma same_on_incl rgs1 rgs2 b c : incl rgs1 rgs2 -> same_on rgs2 b c -> same_on rgs1 b c.
Proof. intros Hi H lo hi Hin. apply H, Hi, Hin. Qed.

Lemma max_le (l : list Z) (c : Z) : forall d, d <= c ->
  exists b, (b = d \/ In b l) /\ b <= c /\ d <= b /\ forall x, In x l -> x <= c -> x <= b.
Proof.
  induction l as [|y l IH]; intros d Hd.
  - exists d. repeat split; auto; try lia. intros x [].
  - destruct (Z_le_gt_dec y c) as [Hy|Hy].
    + destruct (Z_le_gt_dec y d) as [Hyd|Hyd].
      * destruct (IH d Hd) as (b & Hb & Hbc & Hdb & Hmax). exists b.
        split; [destruct Hb; [left|right; right]; assumption|].
        repeat split; auto. intros x [<-|Hx] Hxc; [lia|auto].
      * destruct (IH y Hy) as (b & Hb & Hbc & Hyb & Hmax). exists b.
        split; [right; destruct Hb; [left; auto|right; assumption]|].
        repeat split; auto; try lia. intros x [<-|Hx] Hxc; [lia|auto].
    + destruct (IH d Hd) as (b & Hb & Hbc & Hdb & Hmax). exists b.
      split; [destruct Hb; [left|right; right]; assumption|].
      repeat split; auto. intros x [<-|Hx] Hxc; [lia|auto].
Qed.

Lemma dedup_In x : forall l, In x l -> In x (dedup l).
Proof.
  induction l as [|y l IH]; intros Hin; [destruct Hin|]. simpl.
  destruct (existsb (Z.eqb y) l) eqn:E.
  - destruct Hin as [->|Hin]; [|auto]. apply IH. apply existsb_exists in E.
    destruct E as (z & Hz & Hyz). apply Z.eqb_eq in Hyz. subst. exact Hz.
  - destruct Hin as [->|Hin]; [left; reflexivity|right; auto].
Qed.

(** every rune of [0, 0x10FFFF] has a representative with the same membership in all ranges *)
Lemma rep_exists cs S c : 0 <= c <= MAXRUNE ->
  exists b, In b (reps cs S) /\ same_on (ranges cs S) b c.
Proof.
  intros Hc. set (pts := filter in_unicode (bounds cs S)).
  destruct (max_le pts c 0 ltac:(lia)) as (b & Hb & Hbc & H0b & Hmax).
  assert (Hin0 : In 0 pts). { apply filter_In. split; [left; reflexivity|reflexivity]. }
  assert (Hbin : In b pts) by (destruct Hb; [subst; exact Hin0|assumption]).
  exists b. split; [apply dedup_In; exact Hbin|].
  intros lo hi Hin.
  assert (Hlo : In lo (bounds cs S)).
  { right. apply in_flat_map. exists (lo, hi). split; [exact Hin|left; reflexivity]. }
  assert (Hhi : In (hi + 1) (bounds cs S)).
  { right. apply in_flat_map. exists (lo, hi). split; [exact Hin|right; left; reflexivity]. }
  assert (Hpt : forall x, In x (bounds cs S) -> 0 <= x <= c -> x <= b).
  { intros x Hx Hxc. apply Hmax; [|lia]. apply filter_In. split; [exact Hx|].
    unfold in_unicode, MAXRUNE in *. apply andb_true_intro. split; apply Z.leb_le; lia. }
  assert (H1 : lo <= c <-> lo <= b).
  { split; intros H; [|lia]. destruct (Z_lt_le_dec lo 0); [lia|]. apply Hpt; [exact Hlo|lia]. }
  assert (H2 : c <= hi <-> b <= hi).
  { split; intros H; [lia|]. destruct (Z_lt_le_dec hi c); [|lia].
    assert (hi + 1 <= b) by (apply Hpt; [exact Hhi|lia]). lia. }
  unfold in_rng.
  destruct (lo <=? c) eqn:E1, (lo <=? b) eqn:E2, (c <=? hi) eqn:E3, (b <=? hi) eqn:E4;
    try reflexivity; rewrite ?Z.leb_le, ?Z.leb_gt in *; exfalso; lia.
Qed.

(** both step functions depend on the rune only through its membership in the ranges they test *)
Lemma lookup_same cs dflt b c : same_on (map fst cs) b c -> lookup cs c dflt = lookup cs b dflt.
Proof.
  induction cs as [|[[lo hi] n] cs IH]; intros H; [reflexivity|]. simpl.
  change ((lo <=? c) && (c <=? hi)) with (in_rng lo hi c).
  change ((lo <=? b) && (b <=? hi)) with (in_rng lo hi b).
  rewrite (H lo hi (or_introl eq_refl)). destruct (in_rng lo hi b); [reflexivity|].
  apply IH. intros lo' hi' Hin. apply H. right. exact Hin.
Qed.

Lemma expl_same r : forall b c, same_on (firstsyms r) b c -> expl r c = expl r b.
Proof.
  induction r; intros b c H; simpl in *; auto.
  - apply H. left. reflexivity.
  - apply same_on_app in H. destruct H. rewrite (IHr1 b c), (IHr2 b c); auto.
  - destruct (nullable r1).
    + apply same_on_app in H. destruct H. rewrite (IHr1 b c), (IHr2 b c); auto.
    + apply IHr1. exact H.
Qed.

Lemma deriv_same dot r : forall b c, same_on (firstsyms r) b c -> deriv dot r c = deriv dot r b.
Proof.
  induction r; intros b c H; simpl in *; auto.
  - rewrite (H lo hi (or_introl eq_refl)). reflexivity.
  - apply same_on_app in H. destruct H. rewrite (IHr1 b c), (IHr2 b c); auto.
  - destruct (nullable r1).
    + apply same_on_app in H. destruct H. rewrite (IHr1 b c), (IHr2 b c); auto.
    + rewrite (IHr1 b c); auto.
  - rewrite (IHr b c); auto.
Qed.

Lemma same_on_component S r b c : In r S -> same_on (flat_map firstsyms S) b c -> same_on (firstsyms r) b c.
Proof. intros Hin H lo hi Hl. apply H. apply in_flat_map. exists r. auto. Qed.

Lemma explicit_same S b c : same_on (flat_map firstsyms S) b c -> explicit S c = explicit S b.
Proof.
  intros H. unfold explicit.
  assert (forall T, incl T S -> existsb (fun r => expl r c) T = existsb (fun r => expl r b) T) as Hgen.
  { induction T as [|r T IH]; intros Hi; [reflexivity|]. simpl.
    rewrite (expl_same r b c).
    - rewrite IH; [reflexivity|]. intros x Hx. apply Hi. right. exact Hx.
    - eapply same_on_component; [|exact H]. apply Hi. left. reflexivity. }
  apply Hgen. apply incl_refl.
Qed.

Lemma dstep_same S b c : same_on (flat_map firstsyms S) b c -> dstep S c = dstep S b.
Proof.
  intros H. unfold dstep. rewrite (explicit_same S b c H).
  apply map_ext_in. intros r Hr. apply deriv_same. eapply same_on_component; eauto.
Qed.

Lemma trans_same rows acts q S b c : same_on (ranges (row_cases rows q) S) b c ->
  trans (table_dfa rows acts) q c = trans (table_dfa rows acts) q b /\ dstep S c = dstep S b.
Proof.
  intros H. apply same_on_app in H. destruct H as [H1 H2]. split; [|apply dstep_same; exact H2].
  simpl. unfold row_cases in H1. destruct (nth_error rows (Z.to_nat q)); [|reflexivity].
  apply lookup_same. exact H1.
Qed.

(** ** 4. The exploration *)
Lemma dstate_eqb_eq : forall a b, dstate_eqb a b = true -> a = b.
Proof.
  induction a as [|x a IH]; destruct b as [|y b]; simpl; intros H; try discriminate; auto.
  destruct (re_eqb x y) eqn:E; [|discriminate]. apply re_eqb_eq in E. subst. f_equal. auto.
Qed.

Lemma pair_eqb_eq p q : pair_eqb p q = true -> p = q.
Proof.
  destruct p as [a S], q as [b T]. unfold pair_eqb. simpl.
  destruct (a =? b) eqn:E; [|discriminate]. apply Z.eqb_eq in E. intros H. apply dstate_eqb_eq in H. subst. reflexivity.
Qed.

Lemma mem_In p l : mem p l = true -> In p l.
Proof.
  unfold mem. intros H. apply existsb_exists in H. destruct H as (q & Hq & He).
  apply pair_eqb_eq in He. subst. exact Hq.
Qed.

Section ExploreSound.
Variable d : dfa.
Variable ks : list tkind.
Variable rows : list trow.

Definition rune_ok (X : list pair) (q : Z) (S : dstate) (b : Z) : Prop :=
  match try_rune d ks q S b with Bad => False | BothDead => True | BothLive p => In p X end.

Definition expanded (X : list pair) (p : pair) : Prop :=
  forall b, In b (reps (row_cases rows (fst p)) (snd p)) -> rune_ok X (fst p) (snd p) b.

Lemma rune_ok_mono X Y q S b : incl X Y -> rune_ok X q S b -> rune_ok Y q S b.
Proof. unfold rune_ok. intros Hi. destruct (try_rune d ks q S b); auto. Qed.

Lemma expanded_mono X Y p : incl X Y -> expanded X p -> expanded Y p.
Proof. intros Hi H b Hb. eapply rune_ok_mono; eauto. Qed.

Lemma check_reps_sound q S : forall rs acc out, check_reps d ks q S rs acc = Some out ->
  incl acc out /\ forall b, In b rs -> rune_ok out q S b.
Proof.
  induction rs as [|b rs IH]; intros acc out H; simpl in H.
  - inversion H; subst. split; [apply incl_refl|intros b []].
  - destruct (try_rune d ks q S b) as [| |p] eqn:E; [discriminate| |].
    + destruct (IH _ _ H) as [Hi Hok]. split; [exact Hi|].
      intros b' [<-|Hb]; [|auto]. unfold rune_ok. rewrite E. exact I.
    + destruct (IH _ _ H) as [Hi Hok].
      assert (Hp : In p out /\ incl acc out).
      { destruct (mem p acc) eqn:Em.
        - split; [apply Hi; apply mem_In; exact Em|exact Hi].
        - split; [apply Hi; left; reflexivity|]. intros x Hx. apply Hi. right. exact Hx. }
      destruct Hp as [Hp Hi']. split; [exact Hi'|].
      intros b' [<-|Hb]; [|auto]. unfold rune_ok. rewrite E. exact Hp.
Qed.

Lemma succs_sound p ps : succs d ks rows p = Some ps -> expanded ps p.
Proof. unfold succs. intros H b Hb. destruct (check_reps_sound _ _ _ _ _ H) as [_ Hok]. auto. Qed.

Lemma explore_eq fuel todo seen :
  explore d ks rows fuel todo seen =
  match todo with
  | [] => Some seen
  | p :: todo' =>
    if mem p seen then explore d ks rows fuel todo' seen
    else match fuel with
         | O => None
         | S f => match succs d ks rows p with
                  | None => None
                  | Some ps => explore d ks rows f (ps ++ todo') (p :: seen)
                  end
         end
  end.
Proof. destruct fuel, todo; reflexivity. Qed.

Lemma explore_sound : forall fuel todo seen X,
  explore d ks rows fuel todo seen = Some X ->
  (forall p, In p seen -> expanded (seen ++ todo) p) ->
  incl seen X /\ incl todo X /\ forall p, In p X -> expanded X p.
Proof.
  induction fuel as [|fuel IHf]; induction todo as [|p todo IHt]; intros seen X H Hinv;
    rewrite explore_eq in H.
  - inversion H; subst. split; [apply incl_refl|]. split; [intros x []|].
    intros p Hp. specialize (Hinv p Hp). rewrite app_nil_r in Hinv. exact Hinv.
  - destruct (mem p seen) eqn:Em; [|discriminate].
    destruct (IHt seen X H) as (H1 & H2 & H3).
    { intros p0 Hp0. eapply expanded_mono; [|exact (Hinv p0 Hp0)].
      intros x Hx. apply in_app_or in Hx. apply in_or_app. destruct Hx as [Hx|[<-|Hx]]; auto.
      left. apply mem_In. exact Em. }
    split; [exact H1|]. split; [|exact H3].
    intros x [<-|Hx]; [apply H1, mem_In, Em|auto].
  - inversion H; subst. split; [apply incl_refl|]. split; [intros x []|].
    intros p Hp. specialize (Hinv p Hp). rewrite app_nil_r in Hinv. exact Hinv.
  - destruct (mem p seen) eqn:Em.
    + destruct (IHt seen X H) as (H1 & H2 & H3).
      { intros p0 Hp0. eapply expanded_mono; [|exact (Hinv p0 Hp0)].
        intros x Hx. apply in_app_or in Hx. apply in_or_app. destruct Hx as [Hx|[<-|Hx]]; auto.
        left. apply mem_In. exact Em. }
      split; [exact H1|]. split; [|exact H3].
      intros x [<-|Hx]; [apply H1, mem_In, Em|auto].
    + destruct (succs d ks rows p) as [ps|] eqn:Es; [|discriminate].
      destruct (IHf (ps ++ todo) (p :: seen) X H) as (H1 & H2 & H3).
      { intros p0 [<-|Hp0].
        - eapply expanded_mono; [|exact (succs_sound _ _ Es)].
          intros x Hx. right. apply in_or_app. right. apply in_or_app. left. exact Hx.
        - eapply expanded_mono; [|exact (Hinv p0 Hp0)].
          intros x Hx. apply in_app_or in Hx. destruct Hx as [Hx|[<-|Hx]].
          + right. apply in_or_app. left. exact Hx.
          + left. reflexivity.
          + right. apply in_or_app. right. apply in_or_app. right. exact Hx. }
      split; [intros x Hx; apply H1; right; exact Hx|]. split; [|exact H3].
      intros x [<-|Hx]; [apply H1; left; reflexivity|]. apply H2. apply in_or_app. right. exact Hx.
Qed.
End ExploreSound.

(** ** 5. Soundness *)
Definition okrune (c : Z) : Prop := 0 <= c <= MAXRUNE.

Theorem explore_bisim rows acts ks S0 fuel X :
  explore (table_dfa rows acts) ks rows fuel [(0, S0)] [] = Some X ->
  forall k l, Forall byte (rest l) ->
    gscan_n decode_rune (dfa_machine (table_dfa rows acts)) k l = gscan_n decode_rune (dmachine ks S0) k l.
Proof.
  intros Hex. set (d := table_dfa rows acts) in *.
  destruct (explore_sound d ks rows _ _ _ _ Hex) as (_ & Hstart & Hclosed).
  { intros p []. }
  intros k l Hl.
  apply (gscan_n_bisim Z dstate decode_rune (dfa_machine d) (dmachine ks S0) okrune byte
           decode_rune_range (fun q S => In (q, S) X)); [| |exact Hl].
  - intros q S Hin c Hc.
    destruct (rep_exists (row_cases rows q) S c Hc) as (b & Hb & Hsame).
    destruct (trans_same rows acts q S b c Hsame) as [Ht Hd].
    pose proof (Hclosed _ Hin b Hb) as Hok. unfold rune_ok, try_rune in Hok. cbn [fst snd] in Hok.
    cbn [dfa_machine dmachine m_step m_acc]. fold d in Ht. rewrite Ht, Hd.
    destruct (trans d q b =? -1).
    + destruct (live (dstep S b)); [contradiction|exact I].
    + destruct (live (dstep S b)); [|contradiction].
      destruct (accept d (trans d q b) =? verdict ks (dstep S b)) eqn:Ea; [|contradiction].
      apply Z.eqb_eq in Ea. split; [exact Ea|exact Hok].
  - apply Hstart. left. reflexivity.
Qed.

(** MAIN THEOREM.  Side condition: the input is a sequence of bytes.  No well-formedness of the
    table or of the ranges is needed (an ill-formed table simply fails the check or is faithfully
    interpreted by [lookup]). *)
Theorem bisim_check_sound rows acts g fuel :
  bisim_check rows acts g fuel = true ->
  forall k l, Forall byte (rest l) ->
    scan_n decode_rune (table_dfa rows acts) k l = dscan_n g k l.
Proof.
  unfold bisim_check, dscan_n. destruct (dinit g) as [[ks S0]|]; [|discriminate].
  destruct (explore (table_dfa rows acts) ks rows fuel [(0, S0)] []) as [X|] eqn:E; [|discriminate].
  intros _ k l Hl. rewrite <- gscan_n_dfa. eapply explore_bisim; eauto.
Qed.

Corollary bisim_check_sound_init rows acts g fuel :
  bisim_check rows acts g fuel = true ->
  forall k bytes, Forall byte bytes ->
    scan_n decode_rune (table_dfa rows acts) k (init bytes) = dscan_n g k (init bytes).
Proof. intros H k bytes Hb. apply (bisim_check_sound _ _ _ _ H). exact Hb. Qed.

(** hence every Scan call on the emitted tables satisfies the specification [ScanSpec] of the
    derivative automaton of the grammar *)
Corollary bisim_check_ScanSpec rows acts g fuel ks S0 :
  bisim_check rows acts g fuel = true -> dinit g = Some (ks, S0) ->
  forall l t l', Forall byte (rest l) ->
    scan decode_rune (table_dfa rows acts) l = Some (t, l') ->
    ScanSpec dstate decode_rune (dmachine ks S0) l t l'.
Proof.
  intros H Hg l t l' Hl Hs.
  pose proof (bisim_check_sound _ _ _ _ H 1%nat l Hl) as E.
  unfold dscan_n in E. rewrite Hg in E. cbn [scan_n gscan_n] in E. rewrite Hs in E.
  destruct (gscan decode_rune (dmachine ks S0) l) as [[t2 l2]|] eqn:E2; [|discriminate].
  inversion E; subst. apply gscan_ScanSpec. exact E2.
Qed.

Print Assumptions gscan_n_bisim.
Print Assumptions bisim_check_sound.
Print Assumptions bisim_check_sound_init.
Print Assumptions bisim_check_ScanSpec.
