(** The definitional tokenizer of property C01: a derivative matcher on the macro-expanded
    patterns, with the CONTEXTUAL DOT ('.' matches a character only if no explicit character
    class in first position of the current state contains it), the priority rule, and the Scan
    loop of Scan.v generalised to an arbitrary state type.

    Definitions only (extracted to OCaml); proofs are in DerivProofs.v. *)
From Coq Require Import List ZArith Bool.
From Gocc Require Import Base.Utf8 Lex.Scan Lex.Pattern.
Import ListNotations.
Open Scope Z_scope.

(** ** Regular-expression residuals *)
Inductive re :=
| Emp                      (* no word *)
| Eps                      (* the empty word *)
| Sym (lo hi : Z)          (* one character in lo..hi *)
| Any                      (* the dot *)
| Alt (a b : re)
| Seq (a b : re)
| Star (a : re).

Definition tag (r : re) : nat :=
  match r with Emp => 0 | Eps => 1 | Sym _ _ => 2 | Any => 3 | Alt _ _ => 4 | Seq _ _ => 5 | Star _ => 6 end%nat.

(** a total order, used to keep alternatives sorted and duplicate-free (ACI normal form) *)
Fixpoint re_cmp (a b : re) : comparison :=
  match a, b with
  | Sym l1 h1, Sym l2 h2 => match l1 ?= l2 with Eq => h1 ?= h2 | c => c end
  | Alt a1 a2, Alt b1 b2 => match re_cmp a1 b1 with Eq => re_cmp a2 b2 | c => c end
  | Seq a1 a2, Seq b1 b2 => match re_cmp a1 b1 with Eq => re_cmp a2 b2 | c => c end
  | Star a1, Star b1 => re_cmp a1 b1
  | _, _ => Nat.compare (tag a) (tag b)
  end.

Definition re_eqb (a b : re) : bool := match re_cmp a b with Eq => true | _ => false end.

Definition is_emp (r : re) : bool := match r with Emp => true | _ => false end.

(** smart constructors: a dead residual is syntactically [Emp] *)
Fixpoint alt_insert (x b : re) : re :=
  match b with
  | Emp => x
  | Alt y b' =>
    match re_cmp x y with
    | Eq => b
    | Lt => Alt x b
    | Gt => Alt y (alt_insert x b')
    end
  | _ =>
    match re_cmp x b with
    | Eq => b
    | Lt => Alt x b
    | Gt => Alt b x
    end
  end.

Fixpoint mkAlt (a b : re) : re :=
  match a with
  | Emp => b
  | Alt x a' => alt_insert x (mkAlt a' b)
  | _ => alt_insert a b
  end.

Definition mkSeq (a b : re) : re :=
  match a, b with
  | Emp, _ => Emp
  | _, Emp => Emp
  | Eps, _ => b
  | _, Eps => a
  | _, _ => Seq a b
  end.

Definition mkStar (a : re) : re :=
  match a with
  | Emp => Eps
  | Eps => Eps
  | Star _ => a
  | _ => Star a
  end.

Definition mkSym (lo hi : Z) : re := if hi <? lo then Emp else Sym lo hi.

Fixpoint nullable (r : re) : bool :=
  match r with
  | Emp => false
  | Eps => true
  | Sym _ _ => false
  | Any => false
  | Alt a b => nullable a || nullable b
  | Seq a b => nullable a && nullable b
  | Star _ => true
  end.

(** ** Patterns to residuals ([Ref] does not occur after expansion; it denotes nothing) *)
Definition seqs (l : list re) : re := fold_right mkSeq Eps l.
Definition alts (l : list re) : re := fold_right mkAlt Emp l.

Fixpoint re_of_term (t : term) : re :=
  match t with
  | Chr c => Sym c c
  | Rng lo hi => mkSym lo hi
  | Dot => Any
  | Ref _ => Emp
  | Opt p => mkAlt Eps (alts (map (fun a => seqs (map re_of_term a)) p))
  | Rep p => mkStar (alts (map (fun a => seqs (map re_of_term a)) p))
  | Grp p => alts (map (fun a => seqs (map re_of_term a)) p)
  end.
Definition re_of_alt (a : alt) : re := seqs (map re_of_term a).
Definition re_of_pattern (p : pattern) : re := alts (map re_of_alt p).

(** [cat a b] = a·b where [a] is a derivative: the alternatives of [a] are distributed over [b] and
    sequences are nested to the right, so that a derivative is a sorted duplicate-free set of
    "tails" of the original pattern (Antimirov's partial derivatives); this keeps the number of
    distinct residuals of a pattern linear in its size. *)
Fixpoint cat (a b : re) : re :=
  match a with
  | Emp => Emp
  | Eps => b
  | Alt x y => mkAlt (cat x b) (cat y b)
  | Seq x y => mkSeq x (cat y b)
  | _ => mkSeq a b
  end.

(** ** Derivative.  [dot] tells whether an [Any] leaf in first position may move. *)
Fixpoint deriv (dot : bool) (r : re) (c : Z) : re :=
  match r with
  | Emp => Emp
  | Eps => Emp
  | Sym lo hi => if in_rng lo hi c then Eps else Emp
  | Any => if dot then Eps else Emp
  | Alt a b => mkAlt (deriv dot a c) (deriv dot b c)
  | Seq a b =>
    if nullable a then mkAlt (cat (deriv dot a c) b) (deriv dot b c)
    else cat (deriv dot a c) b
  | Star a => cat (deriv dot a c) r
  end.

(** the [Sym] leaves in first position *)
Fixpoint firstsyms (r : re) : list (Z * Z) :=
  match r with
  | Sym lo hi => [(lo, hi)]
  | Alt a b => firstsyms a ++ firstsyms b
  | Seq a b => if nullable a then firstsyms a ++ firstsyms b else firstsyms a
  | Star a => firstsyms a
  | _ => []
  end.

(** is there an [Any] leaf in first position *)
Fixpoint firstany (r : re) : bool :=
  match r with
  | Any => true
  | Alt a b => firstany a || firstany b
  | Seq a b => if nullable a then firstany a || firstany b else firstany a
  | Star a => firstany a
  | _ => false
  end.

(** some [Sym] leaf in first position of [r] contains [c] (= existsb over [firstsyms r]) *)
Fixpoint expl (r : re) (c : Z) : bool :=
  match r with
  | Sym lo hi => in_rng lo hi c
  | Alt a b => expl a c || expl b c
  | Seq a b => if nullable a then expl a c || expl b c else expl a c
  | Star a => expl a c
  | _ => false
  end.

(** ** States of the derivative automaton: one residual per token / ignored-token definition *)
Definition dstate := list re.

Definition explicit (S : dstate) (c : Z) : bool := existsb (fun r => expl r c) S.

Definition dstep (S : dstate) (c : Z) : dstate :=
  let dot := negb (explicit S c) in
  map (fun r => deriv dot r c) S.

Definition live (S : dstate) : bool := existsb (fun r => negb (is_emp r)) S.

Definition code (k : tkind) : Z := match k with Tok ty _ => ty | Ign => -1 end.
Definition is_strlit (k : tkind) : bool := match k with Tok _ b => b | Ign => false end.

(** kinds of the nullable components, in declaration order *)
Fixpoint candidates (ks : list tkind) (S : dstate) : list tkind :=
  match ks, S with
  | k :: ks', r :: S' => if nullable r then k :: candidates ks' S' else candidates ks' S'
  | _, _ => []
  end.

(** the accept code of a state: a string-literal token if one matches, else the earliest declared
    matching definition; its token type, -1 for an ignored token, 0 (INVALID) if none matches *)
Definition verdict (ks : list tkind) (S : dstate) : Z :=
  let cs := candidates ks S in
  match find is_strlit cs with
  | Some k => code k
  | None => match cs with k :: _ => code k | [] => INVALID end
  end.

Fixpoint dsteps (S : dstate) (w : list Z) : dstate :=
  match w with [] => S | c :: w' => dsteps (dstep S c) w' end.

(** ** The Scan loop over an arbitrary state type *)
Record machine (St : Type) := {
  m_start : St;
  m_step : St -> Z -> option St;       (* None = no transition (Go: -1) *)
  m_acc : St -> Z                      (* token type, -1 = ignored token, 0 = INVALID *)
}.
Arguments m_start {St}. Arguments m_step {St}. Arguments m_acc {St}.

Section GScan.
Variable St : Type.
Variable decode : list Z -> Z * nat.
Variable M : machine St.

Fixpoint gloop (fuel : nat) (state : St) (cur start : lst) (acc : list Z) (ttype : Z) (skip : list Z)
  : option (tok * lst) :=
  match fuel with
  | O => None
  | S fuel' =>
    match rest cur with
    | [] =>
      Some ({| ty := ttype; lit := acc; toff := off start; tline := line start; tcol := col start;
               skipped := skip |}, cur)
    | _ =>
      let '(r, sz) := decode (rest cur) in
      let bytes := firstn sz (rest cur) in
      match m_step M state r with
      | None =>
        if ttype =? INVALID then
          Some ({| ty := INVALID; lit := acc ++ bytes; toff := off start; tline := line start;
                   tcol := col start; skipped := skip |}, consume r sz cur)
        else
          Some ({| ty := ttype; lit := acc; toff := off start; tline := line start; tcol := col start;
                   skipped := skip |}, cur)
      | Some ns =>
        let cur' := consume r sz cur in
        if negb (m_acc M ns =? -1) then
          gloop fuel' ns cur' start (acc ++ bytes) (m_acc M ns) skip
        else
          gloop fuel' (m_start M) cur' cur' [] (match rest cur' with [] => EOF | _ => INVALID end)
                (skip ++ acc ++ bytes)
      end
    end
  end.

Definition gscan (l : lst) : option (tok * lst) :=
  match rest l with
  | [] => Some ({| ty := EOF; lit := []; toff := off l; tline := line l; tcol := col l; skipped := [] |}, l)
  | _ => gloop (S (length (rest l))) (m_start M) l l [] INVALID []
  end.

Fixpoint gscan_n (k : nat) (l : lst) : option (list tok * lst) :=
  match k with
  | O => Some ([], l)
  | S k' =>
    match gscan l with
    | None => None
    | Some (t, l') =>
      match gscan_n k' l' with
      | None => None
      | Some (ts, l'') => Some (t :: ts, l'')
      end
    end
  end.
End GScan.
Arguments gloop {St}. Arguments gscan {St}. Arguments gscan_n {St}.

(** the table DFA of Scan.v as a machine over state numbers *)
Definition dfa_machine (d : dfa) : machine Z :=
  {| m_start := 0;
     m_step := fun s r => let ns := trans d s r in if ns =? -1 then None else Some ns;
     m_acc := accept d |}.

(** the derivative automaton *)
Definition dmachine (ks : list tkind) (S0 : dstate) : machine dstate :=
  {| m_start := S0;
     m_step := fun S c => let S' := dstep S c in if live S' then Some S' else None;
     m_acc := verdict ks |}.

(** kinds and initial residuals of a grammar; [None] if a regular definition is recursive or undefined *)
Definition dinit (g : lexgrammar) : option (list tkind * dstate) :=
  match expand g with
  | None => None
  | Some kps => Some (map fst kps, map (fun kp => re_of_pattern (snd kp)) kps)
  end.

(** the definitional tokenizer: one call of Scan, and the first [k] calls *)
Definition dscan (g : lexgrammar) (l : lst) : option (tok * lst) :=
  match dinit g with
  | None => None
  | Some (ks, S0) => gscan decode_rune (dmachine ks S0) l
  end.

Definition dscan_n (g : lexgrammar) (k : nat) (l : lst) : option (list tok * lst) :=
  match dinit g with
  | None => None
  | Some (ks, S0) => gscan_n decode_rune (dmachine ks S0) k l
  end.
