(** Property C01, parts (i) and (ii): the derivative matcher of Deriv.v against the denotational
    semantics [matches] of Pattern.v.

    (i)  For dot-free grammars (Brzozowski): after reading the word [w], component [i] of the state
         is nullable iff [w] matches pattern [i], and is live (not [Emp]) iff some extension of [w]
         matches pattern [i].  Hence [verdict] is the priority winner among the patterns matching
         [w], and [live] says that [w] is a prefix of some lexeme.
    (ii) With dots: the operational clause of the contextual dot. *)
From Coq Require Import List ZArith Lia Bool Setoid.
From Gocc Require Import Base.Utf8 Lex.Scan Lex.Pattern Lex.Deriv.
Import ListNotations.
Open Scope Z_scope.

(** ** The order on residuals is compatible with equality *)
Lemma re_cmp_eq : forall a b, re_cmp a b = Eq -> a = b.
Proof.
  induction a; destruct b; simpl; intros H; try discriminate; auto.
  - destruct (lo ?= lo0) eqn:E; try discriminate. apply Z.compare_eq in E, H. subst. reflexivity.
  - destruct (re_cmp a1 b1) eqn:E; try discriminate. f_equal; auto.
  - destruct (re_cmp a1 b1) eqn:E; try discriminate. f_equal; auto.
  - f_equal; auto.
Qed.

Lemma re_eqb_eq a b : re_eqb a b = true -> a = b.
Proof. unfold re_eqb. destruct (re_cmp a b) eqn:E; try discriminate. intros _. apply re_cmp_eq. exact E. Qed.

(** ** Language of a residual ([Any] denotes nothing here: dot-free reading) *)
Inductive lang : re -> list Z -> Prop :=
| l_eps : lang Eps []
| l_sym lo hi c : lo <= c <= hi -> lang (Sym lo hi) [c]
| l_altl a b w : lang a w -> lang (Alt a b) w
| l_altr a b w : lang b w -> lang (Alt a b) w
| l_seq a b w1 w2 : lang a w1 -> lang b w2 -> lang (Seq a b) (w1 ++ w2)
| l_star0 a : lang (Star a) []
| l_star1 a w1 w2 : lang a w1 -> lang (Star a) w2 -> lang (Star a) (w1 ++ w2).

Definition seqL (a b : re) (w : list Z) : Prop := exists w1 w2, w = w1 ++ w2 /\ lang a w1 /\ lang b w2.

Lemma lang_Emp w : lang Emp w <-> False.
Proof. split; [intros H; inversion H|tauto]. Qed.
Lemma lang_Any w : lang Any w <-> False.
Proof. split; [intros H; inversion H|tauto]. Qed.
Lemma lang_Eps w : lang Eps w <-> w = [].
Proof. split; [intros H; inversion H; reflexivity|intros ->; constructor]. Qed.
Lemma lang_Sym lo hi w : lang (Sym lo hi) w <-> exists c, w = [c] /\ lo <= c <= hi.
Proof.
  split; [intros H; inversion H; subst; eauto|intros (c & -> & H); constructor; exact H].
Qed.
Lemma lang_Alt a b w : lang (Alt a b) w <-> lang a w \/ lang b w.
Proof. split; [intros H; inversion H; auto|intros [H|H]; [apply l_altl|apply l_altr]; exact H]. Qed.
Lemma lang_Seq a b w : lang (Seq a b) w <-> seqL a b w.
Proof.
  split; [intros H; inversion H; subst; exists w1, w2; auto|intros (w1 & w2 & -> & H1 & H2); constructor; auto].
Qed.

Lemma star_app a w1 w2 : lang (Star a) w1 -> lang (Star a) w2 -> lang (Star a) (w1 ++ w2).
Proof.
  intros H1 H2. remember (Star a) as r eqn:Er. induction H1; inversion Er; subst; simpl; auto.
  rewrite <- app_assoc. apply l_star1; auto.
Qed.

Lemma star_nil_only a w : (forall v, lang a v -> v = []) -> lang (Star a) w -> w = [].
Proof.
  intros Ha H. remember (Star a) as r eqn:Er. induction H; inversion Er; subst; auto.
  rewrite (Ha _ H), IHlang2; auto.
Qed.

Lemma star_star a w : lang (Star (Star a)) w -> lang (Star a) w.
Proof.
  intros H. remember (Star (Star a)) as r eqn:Er. induction H; inversion Er; subst.
  - constructor.
  - apply star_app; auto.
Qed.

Lemma star_cons a c w : lang (Star a) (c :: w) <-> exists w1 w2, w = w1 ++ w2 /\ lang a (c :: w1) /\ lang (Star a) w2.
Proof.
  split.
  - intros H. remember (Star a) as r eqn:Er. remember (c :: w) as u eqn:Eu.
    revert w Eu. induction H; intros w' Eu; inversion Er; subst; try discriminate.
    destruct w1 as [|x w1]; simpl in Eu.
    + apply IHlang2; auto.
    + inversion Eu; subst. exists w1, w2. auto.
  - intros (w1 & w2 & -> & H1 & H2). change (c :: w1 ++ w2) with ((c :: w1) ++ w2). apply l_star1; auto.
Qed.

Lemma seq_cons a b c w : lang (Seq a b) (c :: w) <->
  (exists w1 w2, w = w1 ++ w2 /\ lang a (c :: w1) /\ lang b w2) \/ (lang a [] /\ lang b (c :: w)).
Proof.
  rewrite lang_Seq. split.
  - intros (u1 & u2 & E & H1 & H2). destruct u1 as [|x u1]; simpl in E.
    + right. subst. auto.
    + inversion E; subst. left. exists u1, u2. auto.
  - intros [(w1 & w2 & -> & H1 & H2)|[H1 H2]].
    + exists (c :: w1), w2. auto.
    + exists [], (c :: w). auto.
Qed.

(** ** The smart constructors preserve the language *)
Lemma alt_insert_lang x : forall b w, lang (alt_insert x b) w <-> lang x w \/ lang b w.
Proof.
  induction b; intros w; simpl;
    try (destruct (re_cmp x _) eqn:E; [apply re_cmp_eq in E; subst| |]; rewrite ?lang_Alt; tauto).
  - rewrite lang_Emp. tauto.
  - destruct (re_cmp x b1) eqn:E.
    + apply re_cmp_eq in E. subst. rewrite lang_Alt. tauto.
    + rewrite !lang_Alt. tauto.
    + rewrite !lang_Alt, IHb2. tauto.
Qed.

Lemma mkAlt_lang : forall a b w, lang (mkAlt a b) w <-> lang a w \/ lang b w.
Proof.
  induction a; intros b w; simpl; try apply alt_insert_lang.
  - rewrite lang_Emp. tauto.
  - rewrite alt_insert_lang, IHa2, lang_Alt. tauto.
Qed.

Lemma mkSeq_lang a b w : lang (mkSeq a b) w <-> seqL a b w.
Proof.
  assert (HEl : forall b, seqL Emp b w <-> False).
  { intros b'. split; [intros (w1 & w2 & _ & H & _); inversion H|tauto]. }
  assert (HEr : forall a, seqL a Emp w <-> False).
  { intros a'. split; [intros (w1 & w2 & _ & _ & H); inversion H|tauto]. }
  assert (H1l : forall b, seqL Eps b w <-> lang b w).
  { intros b'. split.
    - intros (w1 & w2 & -> & H1 & H2). inversion H1; subst. exact H2.
    - intros H. exists [], w. repeat split; auto. constructor. }
  assert (H1r : forall a, seqL a Eps w <-> lang a w).
  { intros a'. split.
    - intros (w1 & w2 & -> & H1 & H2). inversion H2; subst. rewrite app_nil_r. exact H1.
    - intros H. exists w, []. rewrite app_nil_r. repeat split; auto. constructor. }
  destruct a, b; simpl;
    first [ rewrite HEl, lang_Emp; reflexivity
          | rewrite HEr, lang_Emp; reflexivity
          | rewrite H1l; reflexivity
          | rewrite H1r; reflexivity
          | apply lang_Seq ].
Qed.

Lemma seqL_alt a1 a2 b w : seqL (Alt a1 a2) b w <-> seqL a1 b w \/ seqL a2 b w.
Proof.
  unfold seqL. split.
  - intros (w1 & w2 & E & H1 & H2). apply lang_Alt in H1. destruct H1; [left|right]; eauto.
  - intros [(w1 & w2 & E & H1 & H2)|(w1 & w2 & E & H1 & H2)]; exists w1, w2; rewrite lang_Alt; auto.
Qed.

Lemma seqL_assoc a1 a2 b w : seqL (Seq a1 a2) b w <-> exists w1 w2, w = w1 ++ w2 /\ lang a1 w1 /\ seqL a2 b w2.
Proof.
  split.
  - intros (u & w3 & -> & H1 & H3). apply lang_Seq in H1. destruct H1 as (w1 & w2 & -> & H1 & H2).
    exists w1, (w2 ++ w3). rewrite app_assoc. repeat split; auto. exists w2, w3. auto.
  - intros (w1 & u & -> & H1 & (w2 & w3 & -> & H2 & H3)). exists (w1 ++ w2), w3.
    rewrite app_assoc. repeat split; auto. apply lang_Seq. exists w1, w2. auto.
Qed.

Lemma cat_lang : forall a b w, lang (cat a b) w <-> seqL a b w.
Proof.
  induction a; intros b w; cbn [cat]; try apply mkSeq_lang.
  - rewrite lang_Emp. split; [tauto|intros (w1 & w2 & _ & H & _); inversion H].
  - split.
    + intros H. exists [], w. repeat split; auto. constructor.
    + intros (w1 & w2 & -> & H1 & H2). inversion H1; subst. exact H2.
  - rewrite mkAlt_lang, IHa1, IHa2, seqL_alt. reflexivity.
  - rewrite mkSeq_lang, seqL_assoc. split.
    + intros (w1 & w2 & -> & H1 & H2). exists w1, w2. rewrite <- IHa2. auto.
    + intros (w1 & w2 & -> & H1 & H2). exists w1, w2. rewrite IHa2. auto.
Qed.

Lemma mkStar_lang a w : lang (mkStar a) w <-> lang (Star a) w.
Proof.
  destruct a; simpl; try reflexivity.
  - rewrite lang_Eps. split; [intros ->; constructor|].
    apply star_nil_only. intros v H. inversion H.
  - rewrite lang_Eps. split; [intros ->; constructor|].
    apply star_nil_only. intros v H. inversion H. reflexivity.
  - split; [|apply star_star]. intros H. rewrite <- (app_nil_r w). apply l_star1; [exact H|constructor].
Qed.

Lemma mkSym_lang lo hi w : lang (mkSym lo hi) w <-> exists c, w = [c] /\ lo <= c <= hi.
Proof.
  unfold mkSym. destruct (hi <? lo) eqn:E.
  - apply Z.ltb_lt in E. rewrite lang_Emp. split; [tauto|intros (c & _ & H); lia].
  - apply lang_Sym.
Qed.

(** ** Nullability and derivative *)
Lemma nullable_lang : forall r, nullable r = true <-> lang r [].
Proof.
  induction r; simpl.
  - rewrite lang_Emp. split; [discriminate|tauto].
  - rewrite lang_Eps. tauto.
  - rewrite lang_Sym. split; [discriminate|intros (c & H & _); discriminate].
  - rewrite lang_Any. split; [discriminate|tauto].
  - rewrite orb_true_iff, lang_Alt, IHr1, IHr2. tauto.
  - rewrite andb_true_iff, lang_Seq, IHr1, IHr2. split.
    + intros [H1 H2]. exists [], []. auto.
    + intros (w1 & w2 & E & H1 & H2). symmetry in E. apply app_eq_nil in E. destruct E; subst. auto.
  - split; [intros _; constructor|reflexivity].
Qed.

Fixpoint noany (r : re) : Prop :=
  match r with
  | Any => False
  | Alt a b | Seq a b => noany a /\ noany b
  | Star a => noany a
  | _ => True
  end.

Lemma deriv_lang dot c : forall r, noany r -> forall w, lang (deriv dot r c) w <-> lang r (c :: w).
Proof.
  induction r; intros Hn w; simpl in *.
  - rewrite !lang_Emp. tauto.
  - rewrite lang_Emp, lang_Eps. split; [tauto|discriminate].
  - rewrite lang_Sym. unfold in_rng. destruct ((lo <=? c) && (c <=? hi)) eqn:E.
    + apply andb_prop in E. destruct E as [E1 E2]. apply Z.leb_le in E1, E2.
      rewrite lang_Eps. split.
      * intros ->. exists c. split; [reflexivity|lia].
      * intros (c' & E & _). inversion E. reflexivity.
    + rewrite lang_Emp. split; [tauto|]. intros (c' & E' & H). inversion E'; subst.
      apply andb_false_iff in E. destruct E as [E|E]; apply Z.leb_gt in E; lia.
  - contradiction.
  - destruct Hn as [H1 H2]. rewrite mkAlt_lang, lang_Alt, IHr1, IHr2; tauto.
  - destruct Hn as [H1 H2]. rewrite seq_cons. destruct (nullable r1) eqn:En.
    + rewrite mkAlt_lang, cat_lang, IHr2 by assumption. apply nullable_lang in En.
      split.
      * intros [(w1 & w2 & -> & Ha & Hb)|H]; [left; exists w1, w2; rewrite <- IHr1; auto|right; auto].
      * intros [(w1 & w2 & -> & Ha & Hb)|[_ H]]; [left; exists w1, w2; rewrite IHr1; auto|right; auto].
    + rewrite cat_lang. split.
      * intros (w1 & w2 & -> & Ha & Hb). left. exists w1, w2. rewrite <- IHr1; auto.
      * intros [(w1 & w2 & -> & Ha & Hb)|[H _]]; [exists w1, w2; rewrite IHr1; auto|].
        apply nullable_lang in H. congruence.
  - rewrite cat_lang, star_cons. split.
    + intros (w1 & w2 & -> & Ha & Hb). exists w1, w2. rewrite <- IHr; auto.
    + intros (w1 & w2 & -> & Ha & Hb). exists w1, w2. rewrite IHr; auto.
Qed.

(** ** Normal form: a dead residual is syntactically [Emp] *)
(** [nz dots r]: no [Emp] inside, no empty range, and no [Any] unless [dots] *)
Fixpoint nz (dots : bool) (r : re) : Prop :=
  match r with
  | Emp => False
  | Eps => True
  | Sym lo hi => lo <= hi
  | Any => dots = true
  | Alt a b | Seq a b => nz dots a /\ nz dots b
  | Star a => nz dots a
  end.
Definition wfz (dots : bool) (r : re) : Prop := r = Emp \/ nz dots r.

Lemma nz_noany : forall r, nz false r -> noany r.
Proof. induction r; simpl; intros H; try tauto. discriminate. Qed.
Lemma wfz_noany r : wfz false r -> noany r.
Proof. intros [->|H]; [exact I|apply nz_noany; exact H]. Qed.

Section NF.
Variable dots : bool.

Lemma alt_insert_nz x : nz dots x -> forall b, wfz dots b -> nz dots (alt_insert x b).
Proof.
  intros Hx. induction b; intros [E|Hb]; try discriminate; simpl in *; auto;
    try (destruct (re_cmp x _); simpl; tauto).
  destruct Hb as [H1 H2]. destruct (re_cmp x b1); simpl; auto.
  split; [exact H1|]. apply IHb2. right. exact H2.
Qed.

Lemma mkAlt_nz : forall a, nz dots a -> forall b, wfz dots b -> nz dots (mkAlt a b).
Proof.
  induction a; intros Ha b Hb; simpl in *; try contradiction;
    try (apply alt_insert_nz; simpl; auto).
  - exact (proj1 Ha).
  - right. apply IHa2; tauto.
Qed.

Lemma mkAlt_wfz a b : wfz dots a -> wfz dots b -> wfz dots (mkAlt a b).
Proof. intros [->|Ha] Hb; [exact Hb|right; apply mkAlt_nz; auto]. Qed.

Lemma mkSeq_wfz a b : wfz dots a -> wfz dots b -> wfz dots (mkSeq a b).
Proof.
  intros [->|Ha] [->|Hb]; try (left; reflexivity).
  - left. destruct a; reflexivity.
  - destruct a, b; simpl in *; try contradiction; right; simpl; tauto.
Qed.

Lemma cat_nz : forall a b, nz dots a -> nz dots b -> nz dots (cat a b).
Proof.
  assert (Hs : forall a b, nz dots a -> nz dots b -> nz dots (mkSeq a b)).
  { intros a b Ha Hb. destruct (mkSeq_wfz a b (or_intror Ha) (or_intror Hb)) as [E|H]; [|exact H].
    destruct a, b; simpl in *; try contradiction; discriminate. }
  induction a; intros b Ha Hb; cbn [cat]; simpl in Ha; try contradiction; try (apply Hs; simpl; auto).
  - exact Hb.
  - apply mkAlt_nz; [apply IHa1; tauto|right; apply IHa2; tauto].
  - exact (proj1 Ha).
  - apply IHa2; tauto.
Qed.

Lemma cat_wfz a b : wfz dots a -> nz dots b -> wfz dots (cat a b).
Proof. intros [->|Ha] Hb; [left; reflexivity|right; apply cat_nz; assumption]. Qed.

Lemma cat_emp a b : wfz dots a -> nz dots b -> (cat a b = Emp <-> a = Emp).
Proof.
  intros [->|Ha] Hb; [simpl; tauto|]. pose proof (cat_nz a b Ha Hb) as H. split.
  - intros E. rewrite E in H. contradiction.
  - intros E. subst. contradiction.
Qed.

Lemma mkStar_wfz a : wfz dots a -> wfz dots (mkStar a).
Proof. intros [->|Ha]; right; [exact I|]. destruct a; simpl in *; auto. Qed.

Lemma mkSym_wfz lo hi : wfz dots (mkSym lo hi).
Proof. unfold mkSym. destruct (hi <? lo) eqn:E; [left; reflexivity|right]. apply Z.ltb_ge in E. exact E. Qed.

Lemma deriv_nz dot c : forall r, nz dots r -> wfz dots (deriv dot r c).
Proof.
  induction r; intros H; simpl in *.
  - contradiction.
  - left. reflexivity.
  - destruct (in_rng lo hi c); [right; exact I|left; reflexivity].
  - destruct dot; [right; exact I|left; reflexivity].
  - apply mkAlt_wfz; tauto.
  - destruct H as [H1 H2]. destruct (nullable r1).
    + apply mkAlt_wfz; [apply cat_wfz; [auto|exact H2]|auto].
    + apply cat_wfz; [auto|exact H2].
  - apply cat_wfz; [auto|exact H].
Qed.

Lemma deriv_wfz dot c r : wfz dots r -> wfz dots (deriv dot r c).
Proof. intros [->|H]; [left; reflexivity|apply deriv_nz; exact H]. Qed.

Lemma seqs_wfz l : Forall (wfz dots) l -> wfz dots (seqs l).
Proof. induction 1; simpl; [right; exact I|apply mkSeq_wfz; assumption]. Qed.
Lemma alts_wfz l : Forall (wfz dots) l -> wfz dots (alts l).
Proof. induction 1; simpl; [left; reflexivity|apply mkAlt_wfz; assumption]. Qed.
End NF.

(** every pattern is converted to a normal residual; without dots if the pattern is dot-free *)
Lemma re_of_term_wfz dots : forall t, dots = true \/ dotfree_t t = true -> wfz dots (re_of_term t).
Proof.
  assert (Hpat : forall p, Forall (Forall (fun t => dots = true \/ dotfree_t t = true -> wfz dots (re_of_term t))) p ->
            dots = true \/ forallb (forallb dotfree_t) p = true ->
            wfz dots (alts (map (fun a => seqs (map re_of_term a)) p))).
  { intros p HF Hd. apply alts_wfz. apply Forall_forall. intros r Hr.
    apply in_map_iff in Hr. destruct Hr as (a & <- & Ha).
    rewrite Forall_forall in HF. specialize (HF a Ha).
    apply seqs_wfz. apply Forall_forall. intros r Hr.
    apply in_map_iff in Hr. destruct Hr as (t & <- & Ht).
    rewrite Forall_forall in HF. apply (HF t Ht).
    destruct Hd as [Hd|Hd]; [left; exact Hd|right].
    rewrite forallb_forall in Hd. specialize (Hd a Ha). rewrite forallb_forall in Hd. exact (Hd t Ht). }
  induction t using term_ind'; intros Hd; cbn [re_of_term].
  - right. simpl. lia.
  - apply mkSym_wfz.
  - right. simpl. destruct Hd as [Hd|Hd]; [exact Hd|discriminate].
  - left. reflexivity.
  - apply mkAlt_wfz; [right; exact I|]. apply Hpat; assumption.
  - apply mkStar_wfz. apply Hpat; assumption.
  - apply Hpat; assumption.
Qed.

Lemma re_of_pattern_wfz dots p : dots = true \/ dotfree p = true -> wfz dots (re_of_pattern p).
Proof.
  intros Hd. unfold re_of_pattern, re_of_alt. apply alts_wfz. apply Forall_forall. intros r Hr.
  apply in_map_iff in Hr. destruct Hr as (a & <- & Ha).
  apply seqs_wfz. apply Forall_forall. intros r Hr.
  apply in_map_iff in Hr. destruct Hr as (t & <- & Ht).
  apply re_of_term_wfz. destruct Hd as [Hd|Hd]; [left; exact Hd|right].
  unfold dotfree in Hd. rewrite forallb_forall in Hd. specialize (Hd a Ha).
  rewrite forallb_forall in Hd. exact (Hd t Ht).
Qed.

(** a normal dot-free residual other than [Emp] denotes at least one word *)
Lemma nz_inhabited : forall r, nz false r -> exists w, lang r w.
Proof.
  induction r; simpl; intros H.
  - contradiction.
  - exists []. constructor.
  - exists [lo]. constructor. lia.
  - discriminate.
  - destruct (IHr1 (proj1 H)) as [w Hw]. exists w. apply l_altl. exact Hw.
  - destruct (IHr1 (proj1 H)) as [w1 H1]. destruct (IHr2 (proj2 H)) as [w2 H2].
    exists (w1 ++ w2). constructor; assumption.
  - exists []. constructor.
Qed.

Lemma live_iff_inhabited r : wfz false r -> (is_emp r = false <-> exists w, lang r w).
Proof.
  intros [->|H]; simpl.
  - split; [discriminate|intros [w Hw]; inversion Hw].
  - split; [intros _; apply nz_inhabited; exact H|]. intros _. destruct r; simpl in *; auto. contradiction.
Qed.

(** ** Patterns and their residuals denote the same words *)
Lemma seqs_lang_cons r l w : lang (seqs (r :: l)) w <-> seqL r (seqs l) w.
Proof. simpl. apply mkSeq_lang. Qed.
Lemma alts_lang_cons r l w : lang (alts (r :: l)) w <-> lang r w \/ lang (alts l) w.
Proof. simpl. apply mkAlt_lang. Qed.

Section PatLang.
Variable P : term -> Prop.
Hypothesis HP : forall t, P t -> forall w, lang (re_of_term t) w <-> matches_term t w.

Lemma alt_lang_gen : forall a, Forall P a -> forall w, lang (seqs (map re_of_term a)) w <-> matches_alt a w.
Proof.
  induction 1 as [|t a Ht Ha IH]; intros w.
  - simpl. rewrite lang_Eps. split; [intros ->; constructor|intros H; inversion H; reflexivity].
  - cbn [map]. rewrite seqs_lang_cons. split.
    + intros (w1 & w2 & -> & H1 & H2). constructor; [apply (HP t Ht); exact H1|apply IH; exact H2].
    + intros H. inversion H; subst. exists w1, w2. split; [reflexivity|].
      split; [apply (HP t Ht); assumption|apply IH; assumption].
Qed.

Lemma pat_lang_gen : forall p, Forall (Forall P) p ->
  forall w, lang (alts (map (fun a => seqs (map re_of_term a)) p)) w <-> matches p w.
Proof.
  induction 1 as [|a p Ha Hp IH]; intros w.
  - simpl. rewrite lang_Emp. split; [tauto|]. intros H. inversion H; subst. destruct H0.
  - cbn [map]. rewrite alts_lang_cons, IH, (alt_lang_gen a Ha). split.
    + intros [H|H].
      * econstructor; [left; reflexivity|exact H].
      * inversion H; subst. econstructor; [right; eassumption|assumption].
    + intros H. inversion H; subst. destruct H0 as [<-|Hin]; [left; assumption|].
      right. econstructor; eassumption.
Qed.
End PatLang.

Lemma term_lang : forall t w, lang (re_of_term t) w <-> matches_term t w.
Proof.
  induction t using term_ind'; intros w; cbn [re_of_term].
  - rewrite lang_Sym. split.
    + intros (c' & -> & H). assert (c' = c) by lia. subst. constructor.
    + intros H. inversion H; subst. exists c. split; [reflexivity|lia].
  - rewrite mkSym_lang. split.
    + intros (c & -> & H). constructor. exact H.
    + intros H. inversion H; subst. eauto.
  - rewrite lang_Any. split; [tauto|intros H; inversion H].
  - rewrite lang_Emp. split; [tauto|intros H; inversion H].
  - rewrite mkAlt_lang, lang_Eps, (pat_lang_gen _ (fun t H => H) p H). split.
    + intros [->|Hm]; [apply mt_opt0|apply mt_opt1; exact Hm].
    + intros Hm. inversion Hm; subst; auto.
  - rewrite mkStar_lang. pose proof (pat_lang_gen _ (fun t H => H) p H) as Hp. split.
    + intros Hs. remember (Star _) as r eqn:Er in Hs. induction Hs; inversion Er; subst.
      * apply mt_rep0.
      * apply mt_rep1; [apply Hp; assumption|apply IHHs2; reflexivity].
    + intros Hm. remember (Rep p) as t eqn:Et. induction Hm; inversion Et; subst.
      * constructor.
      * apply l_star1; [apply Hp; assumption|apply IHHm; reflexivity].
  - rewrite (pat_lang_gen _ (fun t H => H) p H). split.
    + intros Hm. constructor. exact Hm.
    + intros Hm. inversion Hm; subst. assumption.
Qed.

Theorem pattern_lang p w : lang (re_of_pattern p) w <-> matches p w.
Proof.
  unfold re_of_pattern, re_of_alt.
  apply (pat_lang_gen (fun _ => True) (fun t _ => term_lang t)).
  apply Forall_forall. intros a _. apply Forall_forall. intros t _. exact I.
Qed.

(** ** (i) The state after reading a word, for dot-free grammars *)
(** [Resid w r0 r]: [r] is a normal dot-free residual denoting the words [v] with [w ++ v] in [r0] *)
Definition Resid (w : list Z) (r0 r : re) : Prop :=
  wfz false r /\ forall v, lang r v <-> lang r0 (w ++ v).

Lemma dstep_resid u S0 S c : Forall2 (Resid u) S0 S -> Forall2 (Resid (u ++ [c])) S0 (dstep S c).
Proof.
  unfold dstep. generalize (negb (explicit S c)) as dot. intros dot H.
  induction H as [|r0 r S0 S [Hw Hl] HF IH]; simpl; constructor; auto.
  split; [apply deriv_wfz; exact Hw|]. intros v.
  rewrite deriv_lang by (apply wfz_noany; exact Hw). rewrite Hl, <- app_assoc. reflexivity.
Qed.

Lemma dsteps_resid : forall w u S0 S, Forall2 (Resid u) S0 S -> Forall2 (Resid (u ++ w)) S0 (dsteps S w).
Proof.
  induction w as [|c w IH]; intros u S0 S H; simpl.
  - rewrite app_nil_r. exact H.
  - replace (u ++ c :: w) with ((u ++ [c]) ++ w) by (rewrite <- app_assoc; reflexivity).
    apply IH. apply dstep_resid. exact H.
Qed.

Lemma resid_init S0 : Forall (wfz false) S0 -> Forall2 (Resid []) S0 S0.
Proof. induction 1; constructor; auto. split; [assumption|]. intros v. reflexivity. Qed.

Lemma Forall2_map_l {A B C} (f : A -> B) (R : B -> C -> Prop) : forall l l',
  Forall2 R (map f l) l' -> Forall2 (fun a c => R (f a) c) l l'.
Proof.
  induction l as [|a l IH]; intros l' H; inversion H; subst; constructor; auto.
Qed.

Lemma Forall2_impl {A B} (R1 R2 : A -> B -> Prop) : (forall a b, R1 a b -> R2 a b) ->
  forall l l', Forall2 R1 l l' -> Forall2 R2 l l'.
Proof. intros H l l' HF. induction HF; constructor; auto. Qed.

Definition dstate0 (kps : list (tkind * pattern)) : dstate := map (fun kp => re_of_pattern (snd kp)) kps.

(** THEOREM (Brzozowski correctness, per component) *)
Theorem deriv_correct kps w :
  Forall (fun kp => dotfree (snd kp) = true) kps ->
  Forall2 (fun kp r => (nullable r = true <-> matches (snd kp) w) /\
                       (is_emp r = false <-> exists s, matches (snd kp) (w ++ s)))
          kps (dsteps (dstate0 kps) w).
Proof.
  intros Hdf.
  assert (H0 : Forall (wfz false) (dstate0 kps)).
  { unfold dstate0. apply Forall_forall. intros r Hr. apply in_map_iff in Hr. destruct Hr as (kp & <- & Hkp).
    apply re_of_pattern_wfz. right. rewrite Forall_forall in Hdf. exact (Hdf kp Hkp). }
  pose proof (dsteps_resid w [] _ _ (resid_init _ H0)) as H. simpl in H.
  unfold dstate0 in H at 1. apply Forall2_map_l in H.
  eapply Forall2_impl; [|exact H]. intros kp r [Hw Hl]. split.
  - rewrite nullable_lang, Hl, app_nil_r. apply pattern_lang.
  - rewrite (live_iff_inhabited r Hw). split.
    + intros [v Hv]. exists v. apply pattern_lang. apply Hl. exact Hv.
    + intros [v Hv]. exists v. apply Hl. apply pattern_lang. exact Hv.
Qed.

(** [live] = the word read is a prefix of some lexeme *)
Theorem live_prefix kps w :
  Forall (fun kp => dotfree (snd kp) = true) kps ->
  (live (dsteps (dstate0 kps) w) = true <-> exists kp s, In kp kps /\ matches (snd kp) (w ++ s)).
Proof.
  intros Hdf. pose proof (deriv_correct kps w Hdf) as H. unfold live. rewrite existsb_exists.
  induction H as [|kp r kps' S' [_ Hl] HF IH].
  - split; [intros (r & [] & _)|intros (kp & s & [] & _)].
  - inversion Hdf; subst. specialize (IH H2). split.
    + intros (r' & [<-|Hin] & Hr').
      * apply negb_true_iff in Hr'. apply Hl in Hr'. destruct Hr' as [s Hs]. exists kp, s. split; [left; reflexivity|exact Hs].
      * destruct IH as [IH _]. destruct IH as (kp' & s & Hk & Hs); [eauto|]. exists kp', s. split; [right; exact Hk|exact Hs].
    + intros (kp' & s & [<-|Hk] & Hs).
      * exists r. split; [left; reflexivity|]. apply negb_true_iff. apply Hl. eauto.
      * destruct IH as [_ IH]. destruct IH as (r' & Hin & Hr'); [eauto|]. exists r'. split; [right; exact Hin|exact Hr'].
Qed.

(** *** The priority rule *)
Section Verdict.
Variable Q : pattern -> Prop.    (* "matches the text read" *)

Lemma first_index {A} (D : A -> Prop) : forall l : list A, (forall a, In a l -> D a \/ ~ D a) ->
  (forall a, In a l -> ~ D a) \/
  exists i a, nth_error l i = Some a /\ D a /\ forall j a', (j < i)%nat -> nth_error l j = Some a' -> ~ D a'.
Proof.
  induction l as [|x l IH]; intros Hdec.
  - left. intros a [].
  - destruct (Hdec x (or_introl eq_refl)) as [Hx|Hx].
    + right. exists 0%nat, x. split; [reflexivity|]. split; [exact Hx|]. intros j a' Hj. lia.
    + destruct IH as [Hno|(i & a & Hn & Ha & Hmin)].
      * intros a Ha. apply Hdec. right. exact Ha.
      * left. intros a [<-|Ha]; auto.
      * right. exists (S i), a. split; [exact Hn|]. split; [exact Ha|].
        intros [|j] a' Hj Hn'; simpl in Hn'; [inversion Hn'; subst; exact Hx|]. apply (Hmin j a'); [lia|exact Hn'].
Qed.

Definition NullQ (kps : list (tkind * pattern)) (S : dstate) : Prop :=
  Forall2 (fun kp r => nullable r = true <-> Q (snd kp)) kps S.

Lemma Q_dec kps S (HS : NullQ kps S) : forall kp, In kp kps -> Q (snd kp) \/ ~ Q (snd kp).
Proof.
  induction HS as [|kp r l l' Hr HF IH]; intros kp' [].
  - subst. destruct (nullable r) eqn:E; [left; apply Hr; reflexivity|right].
    intros Hq. apply Hr in Hq. congruence.
  - apply IH. assumption.
Qed.

Lemma cand_nil kps S (HS : NullQ kps S) : (forall kp, In kp kps -> ~ Q (snd kp)) -> candidates (map fst kps) S = [].
Proof.
  induction HS as [|kp r l l' Hr HF IH]; intros Hno; simpl; [reflexivity|].
  destruct (nullable r) eqn:E.
  - exfalso. apply (Hno kp (or_introl eq_refl)). apply Hr. reflexivity.
  - apply IH. intros kp' Hin. apply Hno. right. exact Hin.
Qed.

Lemma find_none kps S (HS : NullQ kps S) : (forall kp, In kp kps -> ~ (is_strlit (fst kp) = true /\ Q (snd kp))) ->
  find is_strlit (candidates (map fst kps) S) = None.
Proof.
  induction HS as [|kp r l l' Hr HF IH]; intros Hno; simpl; [reflexivity|].
  assert (IH' : find is_strlit (candidates (map fst l) l') = None).
  { apply IH. intros kp' Hin. apply Hno. right. exact Hin. }
  destruct (nullable r) eqn:E; [|exact IH']. simpl.
  destruct (is_strlit (fst kp)) eqn:Es; [|exact IH'].
  exfalso. apply (Hno kp (or_introl eq_refl)). split; [exact Es|apply Hr; reflexivity].
Qed.

Lemma find_first_strlit kps S (HS : NullQ kps S) : forall i kp, nth_error kps i = Some kp -> Q (snd kp) -> is_strlit (fst kp) = true ->
  (forall j kp', (j < i)%nat -> nth_error kps j = Some kp' -> ~ (is_strlit (fst kp') = true /\ Q (snd kp'))) ->
  find is_strlit (candidates (map fst kps) S) = Some (fst kp).
Proof.
  induction HS as [|kp0 r l l' Hr HF IH]; intros i kp Hn Hq Hs Hmin; [destruct i; discriminate|].
  destruct i as [|i]; simpl in Hn.
  - inversion Hn; subst kp0. simpl. apply Hr in Hq. rewrite Hq. simpl. rewrite Hs. reflexivity.
  - assert (IH' : find is_strlit (candidates (map fst l) l') = Some (fst kp)).
    { apply (IH i); auto. intros j kp' Hj Hn'. apply (Hmin (Datatypes.S j) kp'); [lia|exact Hn']. }
    simpl. destruct (nullable r) eqn:E; [|exact IH']. simpl.
    destruct (is_strlit (fst kp0)) eqn:Es; [|exact IH'].
    exfalso. apply (Hmin 0%nat kp0); [lia|reflexivity|]. split; [exact Es|apply Hr; reflexivity].
Qed.

Lemma first_cand kps S (HS : NullQ kps S) : forall i kp, nth_error kps i = Some kp -> Q (snd kp) ->
  (forall j kp', (j < i)%nat -> nth_error kps j = Some kp' -> ~ Q (snd kp')) ->
  exists tl, candidates (map fst kps) S = fst kp :: tl.
Proof.
  induction HS as [|kp0 r l l' Hr HF IH]; intros i kp Hn Hq Hmin; [destruct i; discriminate|].
  destruct i as [|i]; simpl in Hn.
  - inversion Hn; subst kp0. simpl. apply Hr in Hq. rewrite Hq. eauto.
  - simpl. destruct (nullable r) eqn:E.
    + exfalso. apply (Hmin 0%nat kp0); [lia|reflexivity|]. apply Hr. reflexivity.
    + apply (IH i); auto. intros j kp' Hj Hn'. apply (Hmin (Datatypes.S j) kp'); [lia|exact Hn'].
Qed.

Variable kps : list (tkind * pattern).
Definition matching (i : nat) (kp : tkind * pattern) : Prop := nth_error kps i = Some kp /\ Q (snd kp).

(** the accept code the property prescribes *)
Inductive Winner : Z -> Prop :=
| W_none : (forall i kp, ~ matching i kp) -> Winner INVALID
| W_strlit i kp : matching i kp -> is_strlit (fst kp) = true ->
    (forall j kp', (j < i)%nat -> matching j kp' -> is_strlit (fst kp') = false) ->
    Winner (code (fst kp))
| W_first i kp : matching i kp ->
    (forall j kp', matching j kp' -> is_strlit (fst kp') = false) ->
    (forall j kp', (j < i)%nat -> ~ matching j kp') ->
    Winner (code (fst kp)).

Lemma Winner_unique c1 c2 : Winner c1 -> Winner c2 -> c1 = c2.
Proof.
  assert (Hlt : forall i j : nat, (i < j)%nat \/ i = j \/ (j < i)%nat) by (intros; lia).
  intros H1 H2. destruct H1 as [Hn|i kp Hm Hs Hmin|i kp Hm Hns Hmin];
    destruct H2 as [Hn'|i' kp' Hm' Hs' Hmin'|i' kp' Hm' Hns' Hmin']; try reflexivity;
    try (exfalso; eapply Hn; eassumption); try (exfalso; eapply Hn'; eassumption).
  - destruct (Hlt i i') as [L|[E|L]].
    + specialize (Hmin' _ _ L Hm). congruence.
    + subst. destruct Hm as [E1 _], Hm' as [E2 _]. congruence.
    + specialize (Hmin _ _ L Hm'). congruence.
  - specialize (Hns' _ _ Hm). congruence.
  - specialize (Hns _ _ Hm'). congruence.
  - destruct (Hlt i i') as [L|[E|L]].
    + exfalso. exact (Hmin' _ _ L Hm).
    + subst. destruct Hm as [E1 _], Hm' as [E2 _]. congruence.
    + exfalso. exact (Hmin _ _ L Hm').
Qed.

Theorem verdict_Winner S (HS : NullQ kps S) : Winner (verdict (map fst kps) S).
Proof.
  unfold verdict. pose proof (Q_dec kps S HS) as Q_dec'.
  destruct (first_index (fun kp => is_strlit (fst kp) = true /\ Q (snd kp)) kps) as [Hno|(i & kp & Hn & [Hs Hq] & Hmin)].
  { intros kp Hin. destruct (Q_dec' kp Hin) as [H|H]; [|right; tauto].
    destruct (is_strlit (fst kp)); [left; auto|right; intros [? _]; discriminate]. }
  - rewrite (find_none kps S HS Hno).
    destruct (first_index (fun kp => Q (snd kp)) kps Q_dec') as [Hnone|(i & kp & Hn & Hq & Hmin)].
    + rewrite (cand_nil kps S HS Hnone). apply W_none. intros i kp [Hn Hq].
      apply (Hnone kp); [eapply nth_error_In; eauto|exact Hq].
    + destruct (first_cand kps S HS i kp Hn Hq Hmin) as [tl ->]. apply (W_first i kp).
      * split; assumption.
      * intros j kp' [Hn' Hq']. destruct (is_strlit (fst kp')) eqn:E; [|reflexivity].
        exfalso. apply (Hno kp'); [eapply nth_error_In; eauto|auto].
      * intros j kp' Hj [Hn' Hq']. exact (Hmin j kp' Hj Hn' Hq').
  - rewrite (find_first_strlit kps S HS i kp Hn Hq Hs Hmin). apply (W_strlit i kp); [split; assumption|exact Hs|].
    intros j kp' Hj [Hn' Hq']. destruct (is_strlit (fst kp')) eqn:E; [|reflexivity].
    exfalso. apply (Hmin j kp' Hj Hn'). auto.
Qed.
End Verdict.

(** THEOREM: for a dot-free grammar the accept code of the state reached on [w] is the priority
    winner among the definitions whose pattern matches [w] (and it is the only such code) *)
Theorem verdict_correct kps w :
  Forall (fun kp => dotfree (snd kp) = true) kps ->
  Winner (fun p => matches p w) kps (verdict (map fst kps) (dsteps (dstate0 kps) w)).
Proof.
  intros Hdf. apply verdict_Winner.
  eapply Forall2_impl; [|exact (deriv_correct kps w Hdf)]. intros kp r [H _]. exact H.
Qed.

(** the expansion of a grammar is what [dinit] starts from *)
Lemma dinit_expand g kps : expand g = Some kps -> dinit g = Some (map fst kps, dstate0 kps).
Proof. unfold dinit. intros ->. reflexivity. Qed.

(** ** (ii) The contextual dot: operational clause *)
(** [explicit] = some [Sym] leaf in first position of some component contains the rune *)
Lemma expl_firstsyms : forall r c, expl r c = true <-> exists lo hi, In (lo, hi) (firstsyms r) /\ lo <= c <= hi.
Proof.
  assert (Hor : forall (A B : list (Z * Z)) c,
            (exists lo hi, In (lo, hi) (A ++ B) /\ lo <= c <= hi) <->
            (exists lo hi, In (lo, hi) A /\ lo <= c <= hi) \/ (exists lo hi, In (lo, hi) B /\ lo <= c <= hi)).
  { intros A B c. split.
    - intros (lo & hi & Hin & H). apply in_app_or in Hin. destruct Hin; [left|right]; eauto.
    - intros [(lo & hi & Hin & H)|(lo & hi & Hin & H)]; exists lo, hi; split; auto; apply in_or_app; auto. }
  induction r; intros c; simpl; try (split; [discriminate|intros (lo' & hi' & [] & _)]).
  - unfold in_rng. rewrite andb_true_iff, !Z.leb_le. split.
    + intros H. exists lo, hi. auto.
    + intros (lo' & hi' & [E|[]] & H). inversion E; subst. exact H.
  - rewrite orb_true_iff, IHr1, IHr2, Hor. reflexivity.
  - destruct (nullable r1); [rewrite orb_true_iff, IHr1, IHr2, Hor; reflexivity|apply IHr1].
  - apply IHr.
Qed.

Theorem explicit_spec S c : explicit S c = true <->
  exists r lo hi, In r S /\ In (lo, hi) (firstsyms r) /\ lo <= c <= hi.
Proof.
  unfold explicit. rewrite existsb_exists. split.
  - intros (r & Hin & H). apply expl_firstsyms in H. destruct H as (lo & hi & H1 & H2). exists r, lo, hi. auto.
  - intros (r & lo & hi & Hin & H1 & H2). exists r. split; [exact Hin|]. apply expl_firstsyms. eauto.
Qed.

(** the step derives every component with one and the same flag: dots move iff no explicit class has the rune *)
Theorem dstep_spec S c : dstep S c = map (fun r => deriv (negb (explicit S c)) r c) S.
Proof. reflexivity. Qed.

(** leaves: a [Sym] leaf is unaffected by the flag; an [Any] leaf moves iff the flag is set *)
Lemma deriv_Sym dot lo hi c : deriv dot (Sym lo hi) c = if in_rng lo hi c then Eps else Emp.
Proof. reflexivity. Qed.
Lemma deriv_Any dot c : deriv dot Any c = if dot then Eps else Emp.
Proof. reflexivity. Qed.

(** a residual without [Any] leaf in first position does not depend on the flag *)
Lemma deriv_no_firstany c : forall r, firstany r = false -> deriv true r c = deriv false r c.
Proof.
  induction r; simpl; intros H; try reflexivity; try discriminate.
  - apply orb_false_iff in H. destruct H. rewrite IHr1, IHr2; auto.
  - destruct (nullable r1).
    + apply orb_false_iff in H. destruct H. rewrite IHr1, IHr2; auto.
    + rewrite IHr1; auto.
  - rewrite IHr; auto.
Qed.

(** only leaves in first position are looked at: with the flag off, the [Any] leaves in first
    position behave as [Emp]; with the flag on and no explicit leaf containing [c], the [Sym]
    leaves in first position behave as [Emp] and the [Any] leaves as a class containing [c].
    Both facts are instances of: the derivative is determined by which first-position leaves move. *)
Fixpoint moves (dot : bool) (r : re) (c : Z) : bool :=   (* does some first-position leaf move *)
  match r with
  | Sym lo hi => in_rng lo hi c
  | Any => dot
  | Alt a b => moves dot a c || moves dot b c
  | Seq a b => if nullable a then moves dot a c || moves dot b c else moves dot a c
  | Star a => moves dot a c
  | _ => false
  end.

Lemma moves_spec dot r c : moves dot r c = expl r c || (dot && firstany r).
Proof.
  induction r; simpl; rewrite ?andb_false_r, ?orb_false_r, ?andb_true_r; try reflexivity.
  - rewrite IHr1, IHr2. destruct (expl r1 c), (expl r2 c), dot, (firstany r1), (firstany r2); reflexivity.
  - destruct (nullable r1); [|exact IHr1].
    rewrite IHr1, IHr2. destruct (expl r1 c), (expl r2 c), dot, (firstany r1), (firstany r2); reflexivity.
  - exact IHr.
Qed.

(** a normal residual dies exactly when none of its first-position leaves moves *)
Lemma deriv_dead dots dot c : forall r, nz dots r -> (is_emp (deriv dot r c) = true <-> moves dot r c = false).
Proof.
  assert (Hemp : forall r, is_emp r = true <-> r = Emp) by (intros r; destruct r; simpl; split; congruence).
  assert (HmkAlt : forall a b, wfz dots a -> wfz dots b -> (mkAlt a b = Emp <-> a = Emp /\ b = Emp)).
  { intros a b [->|Ha] Hb.
    - simpl. split; [auto|tauto].
    - pose proof (mkAlt_nz dots a Ha b Hb) as Hn. split.
      + intros E. rewrite E in Hn. contradiction.
      + intros [E _]. subst. contradiction. }
  induction r; intros Hn; simpl in *; rewrite ?Hemp in *.
  - contradiction.
  - split; reflexivity.
  - destruct (in_rng lo hi c); split; congruence.
  - destruct dot; split; congruence.
  - destruct Hn as [H1 H2]. rewrite HmkAlt by (apply deriv_nz; assumption).
    rewrite orb_false_iff, <- IHr1, <- IHr2 by assumption. reflexivity.
  - destruct Hn as [H1 H2]. destruct (nullable r1).
    + rewrite HmkAlt by (try apply cat_wfz; try apply deriv_nz; assumption).
      rewrite (cat_emp dots) by (try apply deriv_nz; assumption).
      rewrite orb_false_iff, <- IHr1, <- IHr2 by assumption. reflexivity.
    + rewrite (cat_emp dots) by (try apply deriv_nz; assumption). apply IHr1. assumption.
  - rewrite (cat_emp dots) by (try apply deriv_nz; simpl; assumption). apply IHr. assumption.
Qed.

(** THEOREM (operational clause of the contextual dot).  In a state of normal residuals, on rune [c]:
    component [r] survives iff one of its first-position leaves moves, where a [Sym] leaf moves iff
    it contains [c] (whatever the dots do) and an [Any] leaf moves iff NO [Sym] leaf in first
    position of ANY component of the state contains [c]. *)
Theorem dstep_component dots S c : Forall (nz dots) S ->
  Forall2 (fun r r' => is_emp r' = false <->
             expl r c = true \/ (explicit S c = false /\ firstany r = true))
          S (dstep S c).
Proof.
  intros HS. rewrite dstep_spec. set (e := explicit S c). set (dot := negb e).
  assert (Hd : dot = true <-> e = false) by (unfold dot; destruct e; simpl; split; congruence).
  clearbody dot e. induction HS as [|r S' Hr HS' IH]; simpl; constructor; [|exact IH].
  pose proof (deriv_dead dots dot c r Hr) as H. rewrite moves_spec in H.
  destruct (is_emp (deriv dot r c)), (expl r c), dot, (firstany r); simpl in *;
    destruct Hd as [Hd1 Hd2]; destruct H as [Ha Hb]; split; intros; auto; try discriminate;
    try (left; reflexivity); try (right; split; [auto|reflexivity]).
  all: try (specialize (Ha eq_refl); discriminate).
  all: try (specialize (Hb eq_refl); discriminate).
  all: try (destruct H as [H|[H1 H2]]; try discriminate; specialize (Hd2 H1); discriminate).
Qed.

(** the states reached from the initial state of a grammar are normal *)
Lemma dstate0_nz_or_emp kps : Forall (wfz true) (dstate0 kps).
Proof.
  unfold dstate0. apply Forall_forall. intros r Hr. apply in_map_iff in Hr. destruct Hr as (kp & <- & _).
  apply re_of_pattern_wfz. left. reflexivity.
Qed.

Lemma dsteps_wfz dots : forall w S, Forall (wfz dots) S -> Forall (wfz dots) (dsteps S w).
Proof.
  induction w as [|c w IH]; intros S H; simpl; [exact H|]. apply IH. unfold dstep.
  apply Forall_forall. intros r Hr. apply in_map_iff in Hr. destruct Hr as (r0 & <- & H0).
  apply deriv_wfz. rewrite Forall_forall in H. exact (H r0 H0).
Qed.

Print Assumptions pattern_lang.
Print Assumptions deriv_correct.
Print Assumptions live_prefix.
Print Assumptions verdict_correct.
Print Assumptions Winner_unique.
Print Assumptions explicit_spec.
Print Assumptions dstep_component.
