(** Model of internal/lexer/items/disjunctrangeset.go : DisjunctRangeSet.AddRange.

    The Go loop walks the sorted slice once; each of its eleven cases emits one
    to three pieces for the current class and continues on the tail with
    [from := rng.To + 1].  That is structural recursion on the list.
    Runes are modelled as unbounded [Z] (Go: int32; every rune gocc can read
    from a grammar is <= 0x10FFFF so [rng.To + 1] never wraps).

    This file contains definitions only (no proofs) so that it keeps running
    when a proof breaks. *)
From Coq Require Import List ZArith Bool.
Import ListNotations.
Open Scope Z_scope.

Definition rng := (Z * Z)%type.

Fixpoint add_range (from to : Z) (l : list rng) : list rng :=
  if to <? from then l else
  match l with
  | [] => [(from, to)]
  | (rf, rt) :: rest =>
    if from <? rf then
      if to <? rf then (from, to) :: (rf, rt) :: rest                          (* 1 *)
      else if to <? rt then (from, rf - 1) :: (rf, to) :: (to + 1, rt) :: rest (* 2 *)
      else (from, rf - 1) :: (rf, rt) :: add_range (rt + 1) to rest            (* 3,4 *)
    else if from =? rf then
      if to <? rt then (rf, to) :: (to + 1, rt) :: rest                        (* 5 *)
      else (rf, rt) :: add_range (rt + 1) to rest                              (* 6,7 *)
    else if rt <? from then (rf, rt) :: add_range from to rest                 (* 8 *)
    else
      if to <? rt then (rf, from - 1) :: (from, to) :: (to + 1, rt) :: rest    (* 9 *)
      else (rf, from - 1) :: (from, rt) :: add_range (rt + 1) to rest          (* 10,11 *)
  end.

(** The classes of a lexer state: AddRange applied to every expected literal /
    range in item order, starting from the empty set. *)
Definition classes_from (l : list rng) (ops : list rng) : list rng :=
  fold_left (fun l op => add_range (fst op) (snd op) l) ops l.
Definition classes (ops : list rng) : list rng := classes_from [] ops.

(** Which of the eleven numbered cases of the Go switch a call goes through
    (used only to report the input distribution of the correspondence check). *)
Fixpoint add_range_cases (from to : Z) (l : list rng) : list nat :=
  if to <? from then [] else
  match l with
  | [] => [0%nat]
  | (rf, rt) :: rest =>
    if from <? rf then
      if to <? rf then [1%nat]
      else if to <? rt then [2%nat]
      else (if to =? rt then 3%nat else 4%nat) :: add_range_cases (rt + 1) to rest
    else if from =? rf then
      if to <? rt then [5%nat]
      else (if to =? rt then 6%nat else 7%nat) :: add_range_cases (rt + 1) to rest
    else if rt <? from then 8%nat :: add_range_cases from to rest
    else
      if to <? rt then [9%nat]
      else (if to =? rt then 10%nat else 11%nat) :: add_range_cases (rt + 1) to rest
  end.

(** Boolean oracle of the property, evaluated on any list of classes
    (used on the implementation's output when a correspondence breaks). *)
Fixpoint sorted_disjoint_from (lo : Z) (l : list rng) : bool :=
  match l with
  | [] => true
  | (a, b) :: rest => (lo <=? a) && (a <=? b) && sorted_disjoint_from (b + 1) rest
  end.
